"""C14 - linear-system and scalar solver primitives meet their contracts (engine LinSolve).

The real solvers of scico/solver.py, scico/flax/inverse.py, scico/metric.py are run on random
well-conditioned systems; the Lean model (Drv/LinSolve.lean) is run on the same data.  Compared:
CG iterate by iterate (the vectors the solver hands to A and M are recorded through wrapped
callables), iteration counts, reported residuals; the matrix MatrixATADSolver factorises, its branch,
solutions and accuracy; ConvATADSolver's DFT-domain quantities; bisect / golden bracket sequences.
The property oracle evaluates the documented systems at the returned solutions in numpy.
"""

from __future__ import annotations

import json
import os
import math

import numpy as np

import common
import linsolve_util as lu
from common import ModelErr, b2f, f2b
from linsolve_util import dec, enc, tolist, vclose

PROP = "C14"
CLAIMED = True
ENGINE = "LinSolve"
DESIGN_REF = "DESIGN.md §5.4"
TECHNIQUE = (
    "Lean 4 proofs over a generic inner-product space / ordered field (loop invariants by induction on fuel, "
    "Woodbury / Sherman-Morrison identities by direct verification, bracket invariants) + iterate-by-iterate "
    "correspondence of the executable model with the real solvers"
)
LEVEL_TEXT = (
    "Lean theorems about the executable model of cg / cg_solver / lstsq / rel_res / MatrixATADSolver / ConvATADSolver / "
    "bisect / golden: CG invariant r=b-Ax, z=Mr, num=<r,z> for every iteration count, exit rule, reported residual = "
    "(preconditioned) residual of the returned x, no division by zero for HPD A and M; normal equations <=> least squares; "
    "both MatrixATADSolver paths and the per-frequency Sherman-Morrison path solve (A^H W A + D) x = b for vector and matrix "
    "right-hand sides; accuracy = rel_res of that system; bisection and golden-section bracket invariants, contraction and "
    "returned-point guarantees for all iteration counts.  Round 2: classical CG theory by induction over the iteration count "
    "(residuals orthogonal to earlier directions and M-orthogonal to each other, directions A-conjugate, every body decreases the "
    "A-norm error by num^2/<p,Ap>, num_iter <= dim V, maxiter >= dim V => the stopping rule holds at exit; cg_solver exact after dim V "
    "steps); contract model of jax.scipy.sparse.linalg.cg (exit rule on the true residual, same iterates as scico's cg for Hermitian "
    "A, M); lane independence of vectorised bisect/golden; golden with a supplied c: proved for a<c<d, machine-checked counterexample "
    "for c>=d (finding golden-c-beyond-d), full theorem for the patched code.  The model is tied to the code by differential testing."
)
LEVEL_NOTE = (
    "Trusted: Lean kernel + Mathlib (propext, Classical.choice, Quot.sound); real-number idealisation (rounding, loss of CG "
    "orthogonality not modelled); contracts of lu/cho_solve (returns G^-1 c), fftn/ifftn (diagonalise circular convolution), "
    "jax linear_transpose (lstsq on a bare callable); jax.scipy.sparse.linalg.cg is third-party code modelled as a contract (jaxCg) "
    "and tied iterate by iterate. CG convergence *rates* (condition-number bounds) and floating-point loss of conjugacy are outside; "
    "the correspondence samples systems up to 8x8 / 60 iterations."
)
PROP_MODULES = ["Scico.Props.C14"]
EXTRA_TARGETS = ["Drv.LinSolve"]
DRIVER = "LinSolve"
FILES = ["scico/solver.py", "scico/flax/inverse.py", "scico/metric.py", "scico/optimize/_admmaux.py"]
RULE = (
    "cases per stream (cg, jaxcg, cgscan, lstsq, atad, conv, relres, bisect, golden) from random well-conditioned data "
    "(HPD = B B^H + n I, |B_ij|<=1; dyadic or uniform values; real and complex; sizes 1..6/8), options drawn from grids "
    "(tol, atol, maxiter incl. 0, preconditioner none/diagonal/HPD, x0 none/random, operator vs callable, zero right-hand "
    "side, info True/False, tall/wide/square A, 1-D/2-D D, weights none/positive/with zeros, vector/matrix right-hand side, cho/lu, "
    "golden with c none / at a quarter / anywhere in (a,b)); "
    "a case is non-trivial when the solver executes >=1 iteration / a non-identity system is solved / the bracket moves; "
    "distinct by the full input (hash of the case). Near-ties of a stopping test (0<margin<1e-6) are discarded, exact ties kept."
)
ASSUMPTIONS = [
    "jsl.lu_factor/lu_solve and cho_factor/cho_solve return G^-1 c for invertible G (contract; residual G w = c checked per case in the driver)",
    "snp.fft.fftn/ifftn are mutually inverse and diagonalise circular convolution (contract of ConvATADSolver's DFT-domain formulation)",
    "LinearOperator.H / jax.linear_transpose give the adjoint (property C01)",
    "IEEE rounding is not modelled: comparisons use |a-b| <= 1e-9*k*(1+max|.|) scaled by the conditioning of the generated system",
]

_S = {}
_TAB = {}


def generate(ctx):
    """round 4: the data the model copies from the source are re-read by `ast` into Scico/Generated/LinSolveTables.lean on every run"""
    import linsolve_translate

    t = linsolve_translate.generate()
    ctx.extra["source_tables"] = {"defaults": {n: dict(d) for n, d in t["defaults"]}, "woodbury_bind": list(t["woodbury_bind"]),
                                  "woodbury": [list(a) for a in t["woodbury"]]}
    return [("Scico.Generated.LinSolveTables", "defaults of cg/lstsq/bisect/golden/cg_solver and of the solver constructors, default cg/solve "
             "keyword dicts, guarded raises of every internal_init, Woodbury branch condition: source = model tables (solverTables)")]


def _defaults(model, fn):
    """default arguments of `fn` as held by the MODEL (`solverTables.defaults`, driver op `tables`), evaluated as Python literals"""
    if not _TAB:
        import ast as _ast

        r = model.call("tables")
        _TAB.update({e[0]: {k: _ast.literal_eval(v) for k, v in e[1]} for e in r["defaults"]})
    return _TAB[fn]


def _setup():
    if not _S:
        scico = common.setup_scico()
        import jax
        import jax.numpy as jnp

        import scico.numpy as snp
        from scico import linop, metric, solver
        from scico.flax import inverse

        _S.update(scico=scico, jax=jax, jnp=jnp, snp=snp, linop=linop, solver=solver, metric=metric, inverse=inverse)
    return _S


def _arr(v, cplx, shape=None):
    """inverse of linsolve_util.tolist"""
    if v is None:
        return None
    if cplx:
        a = np.array([complex(p[0], p[1]) for p in v], dtype=np.complex128)
    else:
        a = np.array(v, dtype=np.float64)
    return a.reshape(shape) if shape is not None else a


def _key(case):
    return json.dumps(case, sort_keys=True)[:20000]


def _err(e):
    if isinstance(e, (UnboundLocalError, NameError)):
        return "other"
    return common.err_kind(e)


# =============================================================================================
# conjugate gradient


def gen_cg(rng, nmax=6):
    n = int(rng.integers(1, nmax + 1))
    cplx = bool(rng.integers(0, 2))
    dy = bool(rng.integers(0, 3) == 0)
    A = lu.hpd(rng, n, cplx, dy)
    mkind = rng.choice(["none", "none", "jacobi", "hpd"])
    M = None
    if mkind == "jacobi":
        M = np.diag(1.0 / np.real(np.diag(A))).astype(A.dtype)
    elif mkind == "hpd":
        M = lu.hpd(rng, n, cplx, dy) / (2.0 * n)
    b = lu.rnd(rng, (n,), cplx, dy)
    bk = rng.integers(0, 10)
    if bk == 0:
        b = np.zeros_like(b)
    x0k = rng.integers(0, 3)
    x0 = None if x0k == 0 else lu.rnd(rng, (n,), cplx, dy)
    if bk == 1 and x0 is not None:  # x0 is already the solution: zero iterations
        b = A @ x0
    linop = bool(rng.integers(0, 4) != 0)
    tol = float(rng.choice([1e-5, 1e-10, 1e-3, 0.125, 0.5, 0.0]))
    atol = float(rng.choice([0.0, 0.0, 0.25, 1e-6, 4.0]))
    maxiter = int(rng.choice([0, 1, 2, 3, n, n + 1, 40]))
    if tol == 0.0 and atol == 0.0:
        maxiter = min(maxiter, n)
    return {
        "kind": "cg", "n": n, "cplx": cplx, "A": tolist(A), "M": None if M is None else tolist(M), "b": tolist(b),
        "x0": None if x0 is None else tolist(x0), "linop": linop, "tol": tol, "atol": atol, "maxiter": maxiter,
        "info": bool(rng.integers(0, 6) != 0),
    }


def _impl_cg(case, record=True):
    S = _setup()
    jnp, solver = S["jnp"], S["solver"]
    from scico.linop import LinearOperator

    n, cplx = case["n"], case["cplx"]
    dt = np.complex128 if cplx else np.float64
    A = _arr(case["A"], cplx, (n, n))
    M = _arr(case["M"], cplx, (n, n))
    b = jnp.array(_arr(case["b"], cplx), dtype=dt)
    x0 = None if case["x0"] is None else jnp.array(_arr(case["x0"], cplx), dtype=dt)
    Aj = jnp.array(A, dtype=dt)
    rec_p, rec_r = [], []

    def Af(x):
        rec_p.append(np.array(x))
        return Aj @ x

    Aop = Af
    if case["linop"]:
        Aop = LinearOperator(input_shape=(n,), output_shape=(n,), eval_fn=Af, adj_fn=lambda y: Aj.conj().T @ y,
                             input_dtype=dt, output_dtype=dt)
    Mf = None
    if M is not None:
        Mj = jnp.array(M, dtype=dt)

        def Mf(r):
            rec_r.append(np.array(r))
            return Mj @ r

    try:
        if case.get("info", True):
            x, info = solver.cg(Aop, b, x0, tol=case["tol"], atol=case["atol"], maxiter=case["maxiter"], M=Mf)
        else:  # info=False: the solution only; the diagnostics are recomputed from the recorded calls
            x = solver.cg(Aop, b, x0, tol=case["tol"], atol=case["atol"], maxiter=case["maxiter"], M=Mf, info=False)
            if isinstance(x, tuple):
                return {"err": "other"}
            info = None
    except Exception as e:  # noqa: BLE001
        return {"err": _err(e)}
    out = {"x": np.array(x), "p": rec_p, "r": rec_r, "A": A, "M": M, "b": np.array(b), "x0": None if x0 is None else np.array(x0)}
    if info is None:
        out.update(num_iter=len(rec_p) - 1, rel_res=None)
    else:
        out.update(num_iter=int(info["num_iter"]), rel_res=float(info["rel_res"]))
    return out


def _model_cg(model, case):
    n, cplx = case["n"], case["cplx"]
    try:
        r = model.call(
            "cg", dt="c" if cplx else "r", n=n, A=enc(_arr(case["A"], cplx), cplx),
            M=None if case["M"] is None else enc(_arr(case["M"], cplx), cplx), b=enc(_arr(case["b"], cplx), cplx),
            x0=None if case["x0"] is None else enc(_arr(case["x0"], cplx), cplx), linop=case["linop"],
            tol=f2b(case["tol"]), atol=f2b(case["atol"]), maxiter=case["maxiter"],
        )
    except ModelErr as e:
        return {"err": e.kind}
    tr = [{"x": dec(s["x"], cplx), "r": dec(s["r"], cplx), "p": dec(s["p"], cplx), "num": dec(s["num"], cplx)[0], "ii": s["ii"]}
          for s in r["trace"]]
    return {"x": dec(r["x"], cplx), "num_iter": r["num_iter"], "rel_res": b2f(r["rel_res"]), "tolsq": b2f(r["tolsq"]), "trace": tr}


def _errA_increased(A, b, x0, x, cond):
    """theorem C14_cg_error_decreases: for HPD A (Hermitian M) no executed step increases the A-norm of the error"""
    xs = np.linalg.solve(A, b)
    x0 = np.zeros_like(xs) if x0 is None else x0
    eA = lambda v: float(np.real(np.vdot(xs - v, A @ (xs - v))))  # noqa: E731
    e0, e1 = eA(x0), eA(x)
    if e1 > e0 * (1 + 1e-9) + 1e-20 * cond * (1.0 + float(np.real(np.vdot(b, b)))):
        return {"A_norm_error_sq_at_x0": e0, "A_norm_error_sq_at_returned_x": e1, "x": tolist(x)}
    return None


def oracle_cg(case):
    """the property on the implementation: the returned x meets the stopping rule that is reported, and
    rel_res is the (preconditioned) relative residual of the returned x"""
    im = _impl_cg(case)
    if "err" in im:
        if case["x0"] is None and not case["linop"]:
            return None  # documented ValueError
        return {"unexpected_error": im["err"]}
    A, M, b, x = im["A"], im["M"], im["b"], im["x"]
    bn = float(np.linalg.norm(b))
    r = b - A @ x
    z = r if M is None else M @ r
    num = float(np.real(np.vdot(r, z)))
    thr = max(case["tol"] * bn, case["atol"])
    cond = float(np.linalg.cond(A)) * (1.0 if M is None else float(np.linalg.cond(M)))
    eps = 1e-10 * cond * (1.0 + bn)
    if not np.all(np.isfinite(x)):
        return {"x_not_finite": tolist(x)}
    bad = _errA_increased(A, b, im["x0"], x, cond)
    if bad:
        return bad
    if M is None:
        # theorem C14_cg_rate: ||e_k||_A^2 <= (1 - m/L)^k ||e_0||_A^2 with m, L the extreme eigenvalues of the HPD A
        ev = np.linalg.eigvalsh((A + A.conj().T) / 2)
        xs = np.linalg.solve(A, b)
        x0v = np.zeros_like(xs) if im["x0"] is None else im["x0"]
        eA = lambda v: float(np.real(np.vdot(xs - v, A @ (xs - v))))  # noqa: E731
        bound = (1.0 - float(ev[0]) / float(ev[-1])) ** im["num_iter"] * eA(x0v)
        if eA(x) > bound * (1 + 1e-8) + 1e-20 * cond * (1.0 + bn * bn):
            return {"A_norm_error_sq": eA(x), "rate_bound_(1-m/L)^k_e0": bound, "iterations": im["num_iter"], "x": tolist(x)}
    if im["num_iter"] < case["maxiter"] and math.sqrt(max(num, 0.0)) > thr + eps:
        return {"stopped_early": True, "num_iter": im["num_iter"], "true_sqrt_num": math.sqrt(max(num, 0.0)), "threshold": thr}
    if im["num_iter"] > case["maxiter"]:
        return {"num_iter": im["num_iter"], "maxiter": case["maxiter"]}
    if bn > 0 and im["rel_res"] is not None:
        true_rel = math.sqrt(max(num, 0.0)) / bn
        if not (abs(true_rel - im["rel_res"]) <= eps / bn):
            return {"reported_rel_res": im["rel_res"], "true_rel_res": true_rel, "x": tolist(x)}
    return None


def run_cg(ctx, model, case):
    im = _impl_cg(case)
    mo = _model_cg(model, case)
    n = case["n"]
    ctx.count(f"cg:n={n}")
    ctx.count("cg:complex" if case["cplx"] else "cg:real")
    ctx.count("cg:M=" + ("none" if case["M"] is None else "given"))
    ctx.count("cg:x0=" + ("none" if case["x0"] is None else "given"))
    ctx.count("cg:info=" + str(case.get("info", True)))
    if "err" in im or "err" in mo:
        ctx.case({"kind": "cg", "n": n, "err": im.get("err")}, None)
        ctx.count(f"cg:err:{im.get('err')}")
        if im.get("err") != mo.get("err"):
            ctx.disagree("linsolve.cg.error", case, im.get("err", "ok"), mo.get("err", "ok"), oracle=oracle_cg)
        return
    # decision margins of the stopping test along the model's trajectory
    tolsq = mo["tolsq"]
    bv = _arr(case["b"], case["cplx"])
    x0v = None if case["x0"] is None else _arr(case["x0"], case["cplx"])
    Av = _arr(case["A"], case["cplx"], (n, n))
    scale = 1.0 + float(np.linalg.norm(bv)) ** 2 + (0.0 if x0v is None else float(np.linalg.norm(Av @ x0v)) ** 2)
    structural_zero = not np.any(bv) and (x0v is None or not np.any(x0v))  # r = 0 - A 0: exactly zero on both sides
    for s in mo["trace"]:
        num = float(np.real(s["num"]))
        marg = abs(num - tolsq) / max(abs(tolsq), 1e-300)
        # near-ties of the stopping test are discarded: relative margin < 1e-6, or a residual at rounding level compared
        # with a threshold at rounding level (the decision then depends on the summation order of A @ x on either side);
        # exact ties are kept where they are exact on both sides (num == tolsq != 0 by dyadic data, or r = 0 - A 0)
        if s["ii"] < case["maxiter"]:
            rounding_level = abs(num - tolsq) <= 1e-22 * scale
            if (num != tolsq and marg < 1e-6) or (rounding_level and not structural_zero):
                ctx.count("cg:discard-near-tie")
                return
    K = mo["num_iter"]
    ctx.count(f"cg:iters={min(K, 9)}")
    ctx.count("cg:exit=" + ("maxiter" if K == case["maxiter"] else "tolerance"))
    if not np.any(_arr(case["b"], case["cplx"])):
        ctx.count("cg:zero-rhs")
    ctx.case({"kind": "cg", "n": n, "cplx": case["cplx"], "iters": K, "maxiter": case["maxiter"]}, _key(case) if K >= 1 else None)
    k = n * (K + 2) * 10
    bad = None
    if im["num_iter"] != K:
        bad = ("num_iter", im["num_iter"], K)
    elif not vclose(im["x"], mo["x"], k):
        bad = ("x", tolist(im["x"]), tolist(mo["x"]))
    elif im["rel_res"] is not None and not common.close(im["rel_res"], mo["rel_res"], k) and not (
        # b = 0: the quotient is 0/0 (NaN) or x/0 (inf) depending on whether the final num is exactly zero or at rounding
        # level - both mean "undefined" (design/C14.md); they are only required to be non-finite on both sides
        not np.any(bv) and not math.isfinite(im["rel_res"]) and not math.isfinite(mo["rel_res"])
    ):
        bad = ("rel_res", im["rel_res"], mo["rel_res"])
    else:
        # iterates: A is called on x0 then on p_0 .. p_{K-1}; M on r_0 .. r_K
        if len(im["p"]) != K + 1:
            bad = ("calls_of_A", len(im["p"]), K + 1)
        else:
            for j in range(K):
                if not vclose(im["p"][j + 1], mo["trace"][j]["p"], k):
                    bad = (f"p_{j}", tolist(im["p"][j + 1]), tolist(mo["trace"][j]["p"]))
                    break
        if bad is None and case["M"] is not None:
            if len(im["r"]) != K + 1:
                bad = ("calls_of_M", len(im["r"]), K + 1)
            else:
                for j in range(K + 1):
                    if not vclose(im["r"][j], mo["trace"][j]["r"], k):
                        bad = (f"r_{j}", tolist(im["r"][j]), tolist(mo["trace"][j]["r"]))
                        break
    if bad:
        ctx.disagree("linsolve.cg." + bad[0], case, bad[1], bad[2], oracle=oracle_cg)


# =============================================================================================
# jax.scipy.sparse.linalg.cg - the back end of LinearSubproblemSolver(cg_function="jax") (contract model `jaxCg`)


def gen_jaxcg(rng, nmax=6):
    case = gen_cg(rng, nmax)
    case["kind"] = "jaxcg"
    case.pop("linop", None)
    case.pop("info", None)
    return case


def _impl_jaxcg(case, record=True):
    S = _setup()
    jax, jnp = S["jax"], S["jnp"]
    from jax.scipy.sparse.linalg import cg as jax_cg

    n, cplx = case["n"], case["cplx"]
    dt = np.complex128 if cplx else np.float64
    A = _arr(case["A"], cplx, (n, n))
    M = _arr(case["M"], cplx, (n, n))
    b = jnp.array(_arr(case["b"], cplx), dtype=dt)
    x0 = None if case["x0"] is None else jnp.array(_arr(case["x0"], cplx), dtype=dt)
    Aj = jnp.array(A, dtype=dt)
    rec_p = []

    def Af(x):  # traced by custom_linear_solve: record through an ordered callback
        if record:
            jax.debug.callback(lambda v: rec_p.append(np.array(v)), x, ordered=True)
        return Aj @ x

    Mf = None
    if M is not None:
        Mj = jnp.array(M, dtype=dt)
        Mf = lambda r: Mj @ r  # noqa: E731
    try:
        x, info = jax_cg(Af, b, x0, tol=case["tol"], atol=case["atol"], maxiter=case["maxiter"], M=Mf)
        x = np.array(x)
        jax.effects_barrier()
    except Exception as e:  # noqa: BLE001
        return {"err": _err(e)}
    return {"x": x, "info": info, "p": rec_p, "A": A, "M": M, "b": np.array(b), "x0": None if x0 is None else np.array(x0)}


def oracle_jaxcg(case):
    """theorem C14_jaxcg_exit on the implementation: fewer than maxiter bodies => the TRUE residual meets the rule"""
    im = _impl_jaxcg(case)
    if "err" in im:
        return {"unexpected_error": im["err"]}
    A, b, x = im["A"], im["b"], im["x"]
    if not np.all(np.isfinite(x)):
        if not np.any(b):
            return None
        return {"x_not_finite": tolist(x)}
    cond = float(np.linalg.cond(A)) * (1.0 if im["M"] is None else float(np.linalg.cond(im["M"])))
    bad = _errA_increased(A, b, im["x0"], x, cond)
    if bad:
        return bad
    bn = float(np.linalg.norm(b))
    res = float(np.linalg.norm(b - A @ x))
    thr = max(case["tol"] * bn, case["atol"])
    iters = len(im["p"]) - 1
    if iters < case["maxiter"] and res > thr + 1e-10 * cond * (1.0 + bn):
        return {"stopped_early": True, "iterations": iters, "true_residual": res, "threshold": thr, "x": tolist(x)}
    if iters > case["maxiter"]:
        return {"iterations": iters, "maxiter": case["maxiter"]}
    return None


def run_jaxcg(ctx, model, case):
    n, cplx = case["n"], case["cplx"]
    im = _impl_jaxcg(case)
    ctx.count(f"jaxcg:n={n}")
    ctx.count("jaxcg:complex" if cplx else "jaxcg:real")
    ctx.count("jaxcg:M=" + ("none" if case["M"] is None else "given"))
    ctx.count("jaxcg:x0=" + ("none" if case["x0"] is None else "given"))
    if "err" in im:
        ctx.case({"kind": "jaxcg", "n": n, "err": im["err"]}, None)
        ctx.disagree("linsolve.jaxcg.error", case, im["err"], "ok", oracle=oracle_jaxcg)
        return
    r = model.call("jaxcg", dt="c" if cplx else "r", n=n, A=enc(_arr(case["A"], cplx), cplx),
                   M=None if case["M"] is None else enc(_arr(case["M"], cplx), cplx), b=enc(_arr(case["b"], cplx), cplx),
                   x0=None if case["x0"] is None else enc(_arr(case["x0"], cplx), cplx),
                   tol=f2b(case["tol"]), atol=f2b(case["atol"]), maxiter=case["maxiter"])
    trace = [{"p": dec(t["p"], cplx), "rs": b2f(t["rs"]), "k": t["k"]} for t in r["trace"]]
    atol2 = b2f(r["atol2"])
    bv = _arr(case["b"], cplx)
    x0v = None if case["x0"] is None else _arr(case["x0"], cplx)
    Av = _arr(case["A"], cplx, (n, n))
    scale = 1.0 + float(np.linalg.norm(bv)) ** 2 + (0.0 if x0v is None else float(np.linalg.norm(Av @ x0v)) ** 2)
    structural_zero = not np.any(bv) and (x0v is None or not np.any(x0v))
    for t in trace:
        if t["k"] < case["maxiter"]:
            marg = abs(t["rs"] - atol2) / max(abs(atol2), 1e-300)
            rounding_level = abs(t["rs"] - atol2) <= 1e-22 * scale
            if (t["rs"] != atol2 and marg < 1e-6) or (rounding_level and not structural_zero):
                ctx.count("jaxcg:discard-near-tie")
                return
    K = r["k"]
    ctx.count(f"jaxcg:iters={min(K, 9)}")
    ctx.count("jaxcg:exit=" + ("maxiter" if K == case["maxiter"] else "tolerance"))
    ctx.case({"kind": "jaxcg", "n": n, "cplx": cplx, "iters": K, "maxiter": case["maxiter"]}, _key(case) if K >= 1 else None)
    k = n * (K + 2) * 10
    bad = None
    mx = dec(r["x"], cplx)
    if im["info"] is not None:
        bad = ("info", repr(im["info"]), None)
    elif len(im["p"]) != K + 1:
        bad = ("calls_of_A", len(im["p"]), K + 1)
    elif not vclose(im["x"], mx, k):
        bad = ("x", tolist(im["x"]), tolist(mx))
    else:
        for j in range(K):
            if not vclose(im["p"][j + 1], trace[j]["p"], k):
                bad = (f"p_{j}", tolist(im["p"][j + 1]), tolist(trace[j]["p"]))
                break
    if bad:
        ctx.disagree("linsolve.jaxcg." + bad[0], case, bad[1], bad[2], oracle=oracle_jaxcg)


# =============================================================================================
# fixed-iteration CG (flax/inverse.py cg_solver)


def gen_cgscan(rng, nmax=6):
    n = int(rng.integers(1, nmax + 1))
    cplx = bool(rng.integers(0, 2))
    A = lu.hpd(rng, n, cplx, False)
    b = lu.rnd(rng, (n,), cplx, False)
    x0 = None if rng.integers(0, 2) == 0 else lu.rnd(rng, (n,), cplx, False)
    maxiter = int(rng.integers(0, n + 1))
    return {"kind": "cgscan", "n": n, "cplx": cplx, "A": tolist(A), "b": tolist(b), "x0": None if x0 is None else tolist(x0),
            "maxiter": maxiter}


def _impl_cgscan(case, record=True):
    S = _setup()
    jax, jnp = S["jax"], S["jnp"]
    cg_solver = S["inverse"].cg_solver
    n, cplx = case["n"], case["cplx"]
    dt = np.complex128 if cplx else np.float64
    A = _arr(case["A"], cplx, (n, n))
    Aj = jnp.array(A, dtype=dt)
    b = jnp.array(_arr(case["b"], cplx), dtype=dt)
    x0 = None if case["x0"] is None else jnp.array(_arr(case["x0"], cplx), dtype=dt)
    rec = []

    def Af(x):
        rec.append(np.array(x))
        return Aj @ x

    try:
        if record and case["maxiter"] > 0:  # (a zero-length scan cannot run under disable_jit)
            with jax.disable_jit():
                x = cg_solver(Af, b, x0, maxiter=case["maxiter"])
        else:
            x = cg_solver(lambda v: Aj @ v, b, x0, maxiter=case["maxiter"])
    except Exception as e:  # noqa: BLE001
        return {"err": _err(e)}
    return {"x": np.array(x), "p": rec, "A": A, "b": np.array(b)}


def oracle_cgscan(case):
    im = _impl_cgscan(case, record=False)
    if "err" in im:
        return {"unexpected_error": im["err"]}
    x, A, b = im["x"], im["A"], im["b"]
    if not np.all(np.isfinite(x)):
        return {"x_not_finite": True, "A": case["A"], "b": case["b"], "maxiter": case["maxiter"]}
    x0 = None if case["x0"] is None else _arr(case["x0"], case["cplx"])
    bad = _errA_increased(A, b, x0, x, float(np.linalg.cond(A)))
    if bad:
        return bad
    if case["maxiter"] >= case["n"]:
        res = float(np.linalg.norm(b - A @ x))
        if res > 1e-7 * np.linalg.cond(A) * (1 + float(np.linalg.norm(b))):
            return {"residual_after_n_iterations": res}
    return None


def run_cgscan(ctx, model, case):
    n, cplx = case["n"], case["cplx"]
    im = _impl_cgscan(case)
    if "err" in im:
        ctx.disagree("linsolve.cgscan.error", case, im["err"], "ok", oracle=oracle_cgscan)
        return
    r = model.call("cgscan", dt="c" if cplx else "r", n=n, A=enc(_arr(case["A"], cplx), cplx), b=enc(_arr(case["b"], cplx), cplx),
                   x0=None if case["x0"] is None else enc(_arr(case["x0"], cplx), cplx), maxiter=case["maxiter"])
    K = case["maxiter"]
    ctx.count(f"cgscan:iters={K}")
    ctx.count("cgscan:complex" if cplx else "cgscan:real")
    ctx.case({"kind": "cgscan", "n": n, "maxiter": K}, _key(case) if K >= 1 else None)
    k = n * (K + 2) * 10
    mx = dec(r["x"], cplx)
    bad = None
    if not vclose(im["x"], mx, k):
        bad = ("x", tolist(im["x"]), tolist(mx))
    elif K > 0 and len(im["p"]) != K + 1:
        bad = ("calls_of_A", len(im["p"]), K + 1)
    else:
        for j in range(K):
            mp = dec(r["trace"][j]["p"], cplx)
            if not vclose(im["p"][j + 1], mp, k):
                bad = (f"p_{j}", tolist(im["p"][j + 1]), tolist(mp))
                break
    if bad:
        ctx.disagree("linsolve.cgscan." + bad[0], case, bad[1], bad[2], oracle=oracle_cgscan)


# =============================================================================================
# lstsq


def gen_lstsq(rng, nmax=5):
    n = int(rng.integers(1, nmax + 1))
    m = int(n + rng.integers(0, 4))
    cplx = bool(rng.integers(0, 2))
    for _ in range(20):
        A = lu.rnd(rng, (m, n), cplx, bool(rng.integers(0, 2)), scale=1.0)
        if lu.cond_ok(A, 30.0):
            break
    else:
        A = np.eye(m, n, dtype=np.complex128 if cplx else np.float64)
    b = lu.rnd(rng, (m,), cplx, False)
    x0 = None if rng.integers(0, 2) == 0 else lu.rnd(rng, (n,), cplx, False)
    linop = bool(rng.integers(0, 3) != 0) or x0 is None
    return {"kind": "lstsq", "m": m, "n": n, "cplx": cplx, "A": tolist(A), "b": tolist(b), "x0": None if x0 is None else tolist(x0),
            "linop": linop, "tol": float(rng.choice([1e-10, 1e-5, 0.25])), "atol": 0.0, "maxiter": int(rng.choice([1, 2, n, 50]))}


def _impl_lstsq(case):
    S = _setup()
    jnp, solver = S["jnp"], S["solver"]
    from scico.linop import MatrixOperator

    m, n, cplx = case["m"], case["n"], case["cplx"]
    dt = np.complex128 if cplx else np.float64
    A = _arr(case["A"], cplx, (m, n))
    Aj = jnp.array(A, dtype=dt)
    b = jnp.array(_arr(case["b"], cplx), dtype=dt)
    x0 = None if case["x0"] is None else jnp.array(_arr(case["x0"], cplx), dtype=dt)
    Aop = MatrixOperator(Aj) if case["linop"] else (lambda v: Aj @ v)
    captured = {}
    orig = solver.cg

    def spy(ATA, ATb, *a, **k):
        captured["ATA"] = ATA
        captured["ATb"] = np.array(ATb)
        return orig(ATA, ATb, *a, **k)

    solver.cg = spy
    try:
        x, info = solver.lstsq(Aop, b, x0=x0, tol=case["tol"], atol=case["atol"], maxiter=case["maxiter"], info=True)
    except Exception as e:  # noqa: BLE001
        return {"err": _err(e)}
    finally:
        solver.cg = orig
    ATA = captured["ATA"]
    cols = [np.array(ATA(jnp.array(np.eye(n)[:, k], dtype=dt))) for k in range(n)]
    return {"x": np.array(x), "num_iter": int(info["num_iter"]), "rel_res": float(info["rel_res"]), "cols": cols,
            "rhs": captured["ATb"], "A": A, "b": np.array(b)}


def oracle_lstsq(case):
    im = _impl_lstsq(case)
    if "err" in im:
        return {"unexpected_error": im["err"]}
    A, b, x = im["A"], im["b"], im["x"]
    g = A.conj().T @ (A @ x - b)
    g0 = A.conj().T @ b
    thr = max(case["tol"] * float(np.linalg.norm(g0)), case["atol"])
    eps = 1e-9 * (1 + float(np.linalg.norm(g0))) * float(np.linalg.cond(A)) ** 2
    if im["num_iter"] < case["maxiter"] and float(np.linalg.norm(g)) > thr + eps:
        xs = np.linalg.lstsq(A, b, rcond=None)[0]
        return {"normal_equation_residual": float(np.linalg.norm(g)), "threshold": thr, "x": tolist(x), "numpy_lstsq": tolist(xs),
                "objective_at_x": float(np.linalg.norm(A @ x - b)), "objective_at_minimiser": float(np.linalg.norm(A @ xs - b))}
    return None


def run_lstsq(ctx, model, case):
    m, n, cplx = case["m"], case["n"], case["cplx"]
    im = _impl_lstsq(case)
    ctx.count("lstsq:complex" if cplx else "lstsq:real")
    ctx.count("lstsq:" + ("operator" if case["linop"] else "callable"))
    ctx.count("lstsq:" + ("tall" if m > n else "square"))
    ctx.case({"kind": "lstsq", "m": m, "n": n, "cplx": cplx}, _key(case))
    if "err" in im:
        ctx.disagree("linsolve.lstsq.error", case, im["err"], "ok", oracle=oracle_lstsq)
        return
    x0 = _arr(case["x0"], cplx) if case["x0"] is not None else np.zeros(n, dtype=np.complex128 if cplx else np.float64)
    r = model.call("lstsq", dt="c" if cplx else "r", m=m, n=n, A=enc(_arr(case["A"], cplx), cplx), b=enc(_arr(case["b"], cplx), cplx),
                   x0=enc(x0, cplx), tol=f2b(case["tol"]), atol=f2b(case["atol"]), maxiter=case["maxiter"])
    k = 100 * m * n
    bad = None
    mcols = [dec(c, cplx) for c in r["syscols"]]
    for j in range(n):
        if not vclose(im["cols"][j], mcols[j], k):
            bad = (f"system_column_{j}", tolist(im["cols"][j]), tolist(mcols[j]))
            break
    if bad is None and not vclose(im["rhs"], dec(r["rhs"], cplx), k):
        bad = ("rhs", tolist(im["rhs"]), tolist(dec(r["rhs"], cplx)))
    if bad is None and im["num_iter"] == r["num_iter"] and not vclose(im["x"], dec(r["x"], cplx), k * 10, rtol=1e-8):
        bad = ("x", tolist(im["x"]), tolist(dec(r["x"], cplx)))
    if bad:
        ctx.disagree("linsolve.lstsq." + bad[0], case, bad[1], bad[2], oracle=oracle_lstsq)


# =============================================================================================
# MatrixATADSolver


def gen_atad(rng, nmax=5):
    cplx = bool(rng.integers(0, 2))
    shape = rng.choice(["tall", "wide", "square"])
    n = int(rng.integers(1, nmax + 1))
    m = n if shape == "square" else (n + int(rng.integers(1, 4)) if shape == "tall" else max(1, n - int(rng.integers(1, 4))))
    if shape == "wide" and m >= n:
        n = m + 1
    dy = bool(rng.integers(0, 3) == 0)
    A = lu.rnd(rng, (m, n), cplx, dy, scale=1.0)
    ddiag = bool(rng.integers(0, 3) != 0)
    if ddiag:
        D = rng.integers(2, 9, size=n) / 2.0
        D = D.astype(np.complex128) if cplx else D
    else:
        D = lu.hpd(rng, n, cplx, dy, shift=2.0)
    wk = rng.integers(0, 4)
    if wk == 0:
        W = None
    else:
        W = rng.integers(1, 9, size=m) / 4.0
        if wk == 3 and m > 1:
            W[rng.integers(0, m)] = 0.0  # a zero weight
    kcols = int(rng.choice([0, 0, 1, 2, 3]))
    b = lu.rnd(rng, (n,) if kcols == 0 else (n, kcols), cplx, dy)
    if rng.integers(0, 12) == 0:
        b = np.zeros_like(b)
    cho = bool(rng.integers(0, 3) == 0)
    xp = lu.rnd(rng, b.shape, cplx, False, scale=0.5)
    return {"kind": "atad", "m": m, "n": n, "k": kcols, "cplx": cplx, "A": tolist(A), "D": tolist(D), "ddiag": ddiag,
            "W": None if W is None else [float(w) for w in W], "b": tolist(b), "cho": cho, "lower": bool(rng.integers(0, 2)), "xp": tolist(xp)}


def _atad_arrays(case):
    m, n, k, cplx = case["m"], case["n"], case["k"], case["cplx"]
    A = _arr(case["A"], cplx, (m, n))
    D = _arr(case["D"], cplx, (n,) if case["ddiag"] else (n, n))
    W = None if case["W"] is None else np.array(case["W"], dtype=np.float64)
    bshape = (n,) if k == 0 else (n, k)
    return A, D, W, _arr(case["b"], cplx, bshape), _arr(case["xp"], cplx, bshape)


def _impl_atad(case):
    S = _setup()
    jnp, solver = S["jnp"], S["solver"]
    cplx = case["cplx"]
    dt = np.complex128 if cplx else np.float64
    A, D, W, b, xp = _atad_arrays(case)
    try:
        s = solver.MatrixATADSolver(jnp.array(A, dtype=dt), jnp.array(D, dtype=dt), None if W is None else jnp.array(W, dtype=dt),
                                    cho_factor=case["cho"], lower=case["lower"])
        x = s.solve(jnp.array(b, dtype=dt))
        acc = float(s.accuracy(x, jnp.array(b, dtype=dt)))
        xq = np.array(x) + xp
        accp = float(s.accuracy(jnp.array(xq, dtype=dt), jnp.array(b, dtype=dt)))
    except Exception as e:  # noqa: BLE001
        return {"err": _err(e)}
    fac = np.array(s.factor[0])
    G = None
    if not case["cho"]:
        piv = np.array(s.factor[1])
        nn = fac.shape[0]
        L = np.tril(fac, -1) + np.eye(nn)
        U = np.triu(fac)
        perm = np.arange(nn)
        for i, p in enumerate(piv):
            perm[[i, p]] = perm[[p, i]]
        G = np.zeros_like(fac)
        with np.errstate(all="ignore"):
            G[perm] = L @ U
    return {"x": np.array(x), "acc": acc, "xq": xq, "accp": accp, "gsize": int(fac.shape[0]), "G": G}


def _true_lhs(case, x):
    A, D, W, b, _ = _atad_arrays(case)
    Wm = np.eye(case["m"]) if W is None else np.diag(W)
    Dm = np.diag(D) if case["ddiag"] else D
    return (A.conj().T @ Wm @ A + Dm) @ x, b


def _np_relres(ax, b):
    nrm = max(float(np.linalg.norm(ax.ravel())), float(np.linalg.norm(b.ravel())))
    return 0.0 if nrm == 0.0 else float(np.linalg.norm((b - ax).ravel())) / nrm


def oracle_atad(case):
    im = _impl_atad(case)
    if "err" in im:
        return {"unexpected_error": im["err"]}
    ax, b = _true_lhs(case, im["x"])
    A, D, W, _, _ = _atad_arrays(case)
    Wm = np.eye(case["m"]) if W is None else np.diag(W)
    H = A.conj().T @ Wm @ A + (np.diag(D) if case["ddiag"] else D)
    cond = float(np.linalg.cond(H))
    res = _np_relres(ax, b)
    if not np.all(np.isfinite(im["x"])) or res > 1e-10 * cond * 10:
        return {"relative_residual_of_(A^H W A + D) x = b": res, "x": tolist(im["x"]), "cond": cond}
    if abs(im["acc"] - res) > 1e-9:
        return {"accuracy_reported": im["acc"], "true_relative_residual": res}
    axq, _ = _true_lhs(case, im["xq"])
    resq = _np_relres(axq, b)
    if abs(im["accp"] - resq) > 1e-9 * (1 + resq):
        return {"accuracy_reported": im["accp"], "true_relative_residual": resq, "x": tolist(im["xq"])}
    return None


def _model_atad(model, case, x):
    m, n, k, cplx = case["m"], case["n"], case["k"], case["cplx"]
    A, D, W, b, _ = _atad_arrays(case)
    Wv = np.ones(m) if W is None else W
    r = model.call("atad", dt="c" if cplx else "r", m=m, n=n, k=k, A=enc(A, cplx), W=enc(Wv.astype(np.complex128) if cplx else Wv, cplx),
                   ddiag=case["ddiag"], D=enc(D, cplx), b=enc(b, cplx), x=enc(x, cplx))
    shape = (n,) if k == 0 else (n, k)
    return {"woodbury": r["woodbury"], "gsize": r["g"]["size"], "G": dec(r["g"]["G"], cplx, (r["g"]["size"],) * 2),
            "x": dec(r["x"], cplx, shape), "lhs_impl": dec(r["lhs_at_impl_x"], cplx, shape),
            "lhs_model": dec(r["lhs_at_model_x"], cplx, shape), "acc": b2f(r["accuracy"])}


def _atad_zero_weight(case):
    """the class of the recorded finding `atad-zero-weight`"""
    return case["W"] is not None and 0.0 in case["W"] and case["m"] < case["n"] and case["ddiag"]


ATAD_ZW_WITNESS = {"kind": "atad", "m": 1, "n": 2, "k": 0, "cplx": True, "A": [[1.0, 0.0], [0.0, 1.0]], "D": [[1.0, 0.0], [1.0, 0.0]], "ddiag": True,
                   "W": [0.0], "b": [[1.0, 0.0], [1.0, 0.0]], "cho": False, "lower": False, "xp": [[0.0, 0.0], [0.0, 0.0]]}


def run_atad(ctx, model, case):
    m, n, k, cplx = case["m"], case["n"], case["k"], case["cplx"]
    im = _impl_atad(case)
    ctx.count("atad:" + ("wide" if m < n else "tall" if m > n else "square"))
    ctx.count("atad:D=" + ("1d" if case["ddiag"] else "2d"))
    ctx.count("atad:rhs=" + ("vector" if k == 0 else "matrix"))
    ctx.count("atad:complex" if cplx else "atad:real")
    ctx.count("atad:W=" + ("none" if case["W"] is None else "zeros" if 0.0 in case["W"] else "positive"))
    ctx.count("atad:" + ("cho" if case["cho"] else "lu"))
    if "err" in im:
        ctx.case({"kind": "atad", "err": im["err"]}, None)
        ctx.disagree("linsolve.atad.error", case, im["err"], "ok", oracle=oracle_atad)
        return
    mo = _model_atad(model, case, im["x"])
    ctx.count("atad:branch=" + ("woodbury" if mo["woodbury"] else "direct"))
    ctx.case({"kind": "atad", "m": m, "n": n, "k": k, "cplx": cplx, "woodbury": mo["woodbury"]}, _key(case))
    _, _, _, b, _ = _atad_arrays(case)
    kk = 100 * (m + n) * max(1, k)
    bad = None
    if im["gsize"] != mo["gsize"] or (m != n and mo["woodbury"] != (im["gsize"] == m)):
        bad = ("branch", im["gsize"], mo["gsize"])
    elif im["G"] is not None and np.all(np.isfinite(mo["G"])) and not vclose(im["G"], mo["G"], kk):
        bad = ("G", tolist(im["G"]), tolist(mo["G"]))
    elif not vclose(im["x"], mo["x"], kk, rtol=1e-8):
        bad = ("x", tolist(im["x"]), tolist(mo["x"]))
    elif not vclose(mo["lhs_impl"], b, kk, rtol=1e-8):
        bad = ("residual_at_returned_x", tolist(mo["lhs_impl"]), tolist(b))
    elif abs(im["acc"] - mo["acc"]) > 1e-9:
        bad = ("accuracy", im["acc"], mo["acc"])
    else:
        mq = _model_atad(model, case, im["xq"])
        if not common.close(im["accp"], mq["acc"], kk):
            bad = ("accuracy_perturbed", im["accp"], mq["acc"])
    if bad:
        ctx.disagree("linsolve.atad." + bad[0], case, bad[1], bad[2], oracle=oracle_atad)


# =============================================================================================
# MatrixATADSolver.__init__ argument checks (malformed stream)


def gen_atadargs(rng):
    return {"kind": "atadargs", "dkind": str(rng.choice(["diagonal", "array"])), "dndim": int(rng.choice([0, 1, 1, 2, 2, 3])),
            "wkind": str(rng.choice(["none", "diagonal", "array", "other-list", "other-numpy"])), "wndim": int(rng.choice([1, 1, 2])),
            "cplx": bool(rng.integers(0, 2))}


def run_atadargs(ctx, model, case):
    S = _setup()
    jnp, solver, linop = S["jnp"], S["solver"], S["linop"]
    dt = np.complex128 if case["cplx"] else np.float64
    n = 2
    dshape = (n,) * case["dndim"]
    dval = jnp.array(np.full(dshape, 2.0), dtype=dt)
    if case["dkind"] == "diagonal":
        if case["dndim"] == 0:
            case = dict(case, dndim=1)
            dval = jnp.array(np.full((n,), 2.0), dtype=dt)
        D = linop.Diagonal(dval)
    else:
        D = dval
    wk = case["wkind"]
    if wk == "none":
        W = None
    elif wk == "diagonal":
        W = linop.Diagonal(jnp.array(np.ones((n,) * case["wndim"]), dtype=dt))
    elif wk == "array":
        W = jnp.array(np.ones(n), dtype=dt)
    elif wk == "other-list":
        W = [1.0, 1.0]
    else:
        W = np.ones(n)
    try:
        solver.MatrixATADSolver(jnp.array(np.eye(n), dtype=dt), D, W)
        got = "ok"
    except Exception as e:  # noqa: BLE001
        got = _err(e)
    try:
        model.call("atad_validate", dkind=case["dkind"], dndim=case["dndim"], wkind=wk if wk in ("none", "diagonal", "array") else "other",
                   wndim=case["wndim"])
        want = "ok"
    except ModelErr as e:
        want = e.kind
    ctx.count(f"atadargs:{got}")
    ctx.case({"kind": "atadargs", "d": [case["dkind"], case["dndim"]], "w": [wk, case["wndim"]], "result": got}, None if got == "ok" else _key(case))
    if got != want:
        ctx.disagree("linsolve.atadargs", case, got, want, oracle=lambda c: None)


# =============================================================================================
# one MatrixATADSolver / ConvATADSolver INSTANCE solving a sequence of right-hand sides of varying ndim / width (seeded C14-p3):
# every solve must be what a fresh solver returns and must solve the documented system, whatever was solved before


def gen_atadseq(rng):
    while True:
        base = gen_atad(rng)
        if base["n"] >= 2:
            break
    if rng.integers(0, 2) == 0 and not (base["m"] < base["n"] and base["ddiag"]):
        # force the Woodbury path half of the time: wide A, 1-D D, non-zero weights
        n = base["n"]
        m = max(1, n - int(rng.integers(1, 3)))
        base.update(m=m, ddiag=True, A=tolist(lu.rnd(rng, (m, n), base["cplx"], False, scale=1.0)),
                    D=tolist((rng.integers(2, 9, size=n) / 2.0).astype(np.complex128 if base["cplx"] else np.float64)),
                    W=None if rng.integers(0, 2) else [float(w) for w in rng.integers(1, 9, size=m) / 4.0])
    n, cplx = base["n"], base["cplx"]
    widths = [0, n, int(n + 1 + rng.integers(0, 2)), 0, 1]  # vector, N x N, N x K, vector again, N x 1
    order = [int(i) for i in rng.permutation(len(widths))]
    seq = [widths[i] for i in order][: int(rng.integers(2, 6))]
    rhs = [tolist(lu.rnd(rng, (n,) if k == 0 else (n, k), cplx, False)) for k in seq]
    return {"kind": "atadseq", "base": {k: base[k] for k in ("m", "n", "cplx", "A", "D", "ddiag", "W", "cho", "lower")}, "widths": seq, "rhs": rhs}


def _impl_atadseq(case):
    S = _setup()
    jnp, solver = S["jnp"], S["solver"]
    b0 = dict(case["base"], k=0, b=case["rhs"][0], xp=case["rhs"][0], kind="atad")
    cplx = b0["cplx"]
    dt = np.complex128 if cplx else np.float64
    n = b0["n"]
    A, D, W, _, _ = _atad_arrays(dict(b0, b=tolist(np.zeros(n, dtype=dt)), xp=tolist(np.zeros(n, dtype=dt))))
    mk = lambda: solver.MatrixATADSolver(jnp.array(A, dtype=dt), jnp.array(D, dtype=dt), None if W is None else jnp.array(W, dtype=dt),  # noqa: E731
                                         cho_factor=b0["cho"], lower=b0["lower"])
    out = []
    try:
        s = mk()
        for k, bl in zip(case["widths"], case["rhs"]):
            b = _arr(bl, cplx, (n,) if k == 0 else (n, k))
            bj = jnp.array(b, dtype=dt)
            step = {"k": k, "b": b}
            try:
                x = s.solve(bj)
                step.update(x=np.array(x), acc=float(s.accuracy(x, bj)))
            except Exception as e:  # noqa: BLE001
                step["err"] = _err(e)
            f = mk()
            xf = f.solve(bj)
            step.update(x_fresh=np.array(xf), acc_fresh=float(f.accuracy(xf, bj)))
            out.append(step)
    except Exception as e:  # noqa: BLE001
        return {"err": _err(e)}
    Wm = np.eye(b0["m"]) if W is None else np.diag(W)
    H = A.conj().T @ Wm @ A + (np.diag(D) if b0["ddiag"] else D)
    return {"steps": out, "H": H, "woodbury": bool(s.woodbury)}


def oracle_atadseq(case):
    im = _impl_atadseq(case)
    if "err" in im:
        return {"unexpected_error": im["err"]}
    cond = float(np.linalg.cond(im["H"]))
    for j, st in enumerate(im["steps"]):
        if "err" in st:
            return {"solve_number": j, "widths_so_far": case["widths"][: j + 1], "error": st["err"], "a_fresh_solver": "returns a solution"}
        if st["x"].shape != st["b"].shape:
            return {"solve_number": j, "widths_so_far": case["widths"][: j + 1], "shape_of_x": list(st["x"].shape), "shape_of_b": list(st["b"].shape)}
        res = _np_relres(im["H"] @ st["x"], st["b"])
        if not np.all(np.isfinite(st["x"])) or res > 1e-10 * cond * 10:
            return {"solve_number": j, "widths_so_far": case["widths"][: j + 1], "relative_residual_of_(A^H W A + D) x = b": res,
                    "with_a_fresh_solver": _np_relres(im["H"] @ st["x_fresh"], st["b"]), "x": tolist(st["x"])}
        if abs(st["acc"] - res) > 1e-9:
            return {"solve_number": j, "accuracy_reported": st["acc"], "true_relative_residual": res}
    return None


def run_atadseq(ctx, model, case):
    im = _impl_atadseq(case)
    base = case["base"]
    ctx.count("atadseq:len=%d" % len(case["widths"]))
    if "err" in im:
        ctx.case({"kind": "atadseq", "err": im["err"]}, None)
        ctx.disagree("linsolve.atadseq.error", case, im["err"], "ok", oracle=oracle_atadseq)
        return
    ctx.count("atadseq:branch=" + ("woodbury" if im["woodbury"] else "direct"))
    ctx.count("atadseq:first=" + ("vector" if case["widths"][0] == 0 else "matrix"))
    ctx.case({"kind": "atadseq", "m": base["m"], "n": base["n"], "widths": case["widths"], "woodbury": im["woodbury"]}, _key(case))
    kk = 100 * (base["m"] + base["n"]) * (1 + max(case["widths"]))
    for j, st in enumerate(im["steps"]):
        bad = None
        if "err" in st:
            bad = (f"solve_{j}.error", st["err"], "ok")
        elif st["x"].shape != st["x_fresh"].shape:
            bad = (f"solve_{j}.shape", list(st["x"].shape), list(st["x_fresh"].shape))
        elif not vclose(st["x"], st["x_fresh"], kk, rtol=1e-8):
            bad = (f"solve_{j}.x-vs-fresh-solver", tolist(st["x"]), tolist(st["x_fresh"]))
        elif abs(st["acc"] - st["acc_fresh"]) > 1e-9:
            bad = (f"solve_{j}.accuracy-vs-fresh-solver", st["acc"], st["acc_fresh"])
        else:
            # the model (pure function of the current right-hand side): solution and accuracy
            mc = dict(base, kind="atad", k=st["k"], b=tolist(st["b"]), xp=tolist(st["b"]))
            mo = _model_atad(model, mc, st["x"])
            if not vclose(st["x"], mo["x"], kk, rtol=1e-8):
                bad = (f"solve_{j}.x", tolist(st["x"]), tolist(mo["x"]))
            elif abs(st["acc"] - mo["acc"]) > 1e-9:
                bad = (f"solve_{j}.accuracy", st["acc"], mo["acc"])
        if bad:
            ctx.disagree("linsolve.atadseq." + bad[0], case, bad[1], bad[2], oracle=oracle_atadseq)
            return


# =============================================================================================
# ConvATADSolver


def gen_conv(rng):
    K = int(rng.integers(1, 4))
    nd = int(rng.integers(1, 3))
    shape = [int(rng.integers(2, 6)) for _ in range(nd)]
    ks = [int(rng.integers(1, s + 1)) for s in shape]
    cplx = bool(rng.integers(0, 2))
    h = lu.rnd(rng, (K, *ks), cplx, bool(rng.integers(0, 2)), scale=1.0)
    g = lu.rnd(rng, (K, *[min(2, s) for s in shape]), cplx, False, scale=1.0)
    c = float(rng.integers(1, 9)) / 2.0
    dkind = str(rng.choice(["scaled-identity", "gram", "broadcast", "kernel", "kernel"]))
    b = lu.rnd(rng, (K, *shape), cplx, False)
    if rng.integers(0, 12) == 0:
        b = np.zeros_like(b)
    return {"kind": "conv", "K": K, "shape": shape, "ks": ks, "cplx": cplx, "h": tolist(h), "g": tolist(g), "c": c, "dkind": dkind,
            "b": tolist(b)}


def _impl_conv(case):
    S = _setup()
    jnp, solver, linop = S["jnp"], S["solver"], S["linop"]
    K, shape, cplx = case["K"], tuple(case["shape"]), case["cplx"]
    dt = np.complex128 if cplx else np.float64
    nd = len(shape)
    ishape = (K, *shape)
    h = _arr(case["h"], cplx, (K, *case["ks"]))
    g = _arr(case["g"], cplx, (K, *[min(2, s) for s in shape]))
    b = _arr(case["b"], cplx, ishape)
    C = linop.CircularConvolve(jnp.array(h, dtype=dt), input_shape=ishape, ndims=nd, input_dtype=dt)
    Sm = linop.Sum(input_shape=ishape, input_dtype=dt, axis=0)
    A = Sm @ C
    axes = tuple(range(1, nd + 1))
    if case["dkind"] == "scaled-identity":
        dhat = np.full(ishape, case["c"], dtype=np.complex128)
    elif case["dkind"] == "gram":
        gh = np.fft.fftn(g, s=shape, axes=axes)
        dhat = case["c"] + np.abs(gh) ** 2 + 0j
    elif case["dkind"] == "broadcast":  # one filter broadcast over the K channels
        gh = np.fft.fftn(g[:1], s=shape, axes=axes)
        dhat = case["c"] + np.abs(gh) ** 2 + 0j
    else:  # "kernel": c*delta + a small non-symmetric kernel, so that the frequency response of D is complex (and non-zero)
        gk = g / (2.0 * max(1.0, float(np.sum(np.abs(g), axis=tuple(range(1, g.ndim))).max()))) * case["c"]
        dhat = case["c"] + np.fft.fftn(gk, s=shape, axes=axes)
    D = linop.CircularConvolve(jnp.array(dhat), input_shape=ishape, ndims=nd, input_dtype=dt, h_is_dft=True)
    try:
        s = solver.ConvATADSolver(A, D)
        x = s.solve(jnp.array(b, dtype=dt))
        acc = float(s.accuracy(x, jnp.array(b, dtype=dt)))
        lhs = np.array(A.gram_op(x) + D(x))
        # the same instance on a second right-hand side, against a fresh solver (instance reuse, cf. stream atadseq)
        b2 = jnp.array(np.flip(b, axis=-1) * 0.5 + 1.0, dtype=dt)
        x2 = np.array(s.solve(b2))
        x2f = np.array(solver.ConvATADSolver(A, D).solve(b2))
        lhs2 = np.array(A.gram_op(jnp.array(x2)) + D(jnp.array(x2)))
    except Exception as e:  # noqa: BLE001
        return {"err": _err(e)}
    Ahat = np.broadcast_to(np.array(C.h_dft), ishape)
    Dhat = np.broadcast_to(np.array(D.h_dft), ishape)
    return {"x": np.array(x), "acc": acc, "lhs": lhs, "b": b, "Ahat": Ahat, "Dhat": Dhat, "AHEinv": np.broadcast_to(np.array(s.AHEinv), ishape),
            "axes": axes, "sum_axis": s.sum_axis, "x2": x2, "x2_fresh": x2f, "res2": _np_relres(lhs2, np.array(b2))}


def oracle_conv(case):
    im = _impl_conv(case)
    if "err" in im:
        return {"unexpected_error": im["err"]}
    res = _np_relres(im["lhs"], im["b"])
    if not np.all(np.isfinite(im["x"])) or res > 1e-8:
        return {"relative_residual_of_(A^H A + D) x = b": res}
    if abs(im["acc"] - res) > 1e-9:
        return {"accuracy_reported": im["acc"], "true_relative_residual": res}
    if not np.all(np.isfinite(im["x2"])) or im["res2"] > 1e-8:
        return {"second_solve_with_the_same_instance": True, "relative_residual_of_(A^H A + D) x = b": im["res2"]}
    return None


def run_conv(ctx, model, case):
    K, shape, cplx = case["K"], tuple(case["shape"]), case["cplx"]
    N = int(np.prod(shape))
    im = _impl_conv(case)
    ctx.count(f"conv:K={K}")
    ctx.count(f"conv:ndims={len(shape)}")
    ctx.count("conv:complex" if cplx else "conv:real")
    ctx.count("conv:D=" + case["dkind"])
    if "err" in im:
        ctx.case({"kind": "conv", "err": im["err"]}, None)
        ctx.disagree("linsolve.conv.error", case, im["err"], "ok", oracle=oracle_conv)
        return
    ctx.case({"kind": "conv", "K": K, "shape": list(shape), "cplx": cplx}, _key(case))
    bhat = np.fft.fftn(im["b"], axes=im["axes"])
    xhat = np.fft.fftn(im["x"], axes=im["axes"])
    r = model.call("conv", dt="c", K=K, N=N, Ahat=enc(im["Ahat"].reshape(K, N), True), Dhat=enc(im["Dhat"].reshape(K, N), True),
                   bhat=enc(bhat.reshape(K, N), True), xhat=enc(xhat.reshape(K, N), True))
    kk = 100 * K * N
    bad = None
    if im["sum_axis"] != 0:
        bad = ("sum_axis", im["sum_axis"], 0)
    elif not vclose(im["AHEinv"].reshape(K, N), dec(r["AHEinv"], True, (K, N)), kk):
        bad = ("AHEinv", tolist(im["AHEinv"]), tolist(dec(r["AHEinv"], True)))
    elif not vclose(xhat.reshape(K, N), dec(r["xhat"], True, (K, N)), kk, rtol=1e-8):
        bad = ("xhat", tolist(xhat), tolist(dec(r["xhat"], True)))
    elif not vclose(dec(r["lhs_at_impl_x"], True, (K, N)), bhat.reshape(K, N), kk, rtol=1e-8):
        bad = ("residual_at_returned_x", tolist(dec(r["lhs_at_impl_x"], True)), tolist(bhat))
    else:
        # the model's per-frequency left-hand side against the real operators (ties the DFT-domain system to A, D)
        lhs_hat = np.fft.fftn(im["lhs"], axes=im["axes"]).reshape(K, N)
        if not vclose(dec(r["lhs_at_impl_x"], True, (K, N)), lhs_hat, kk, rtol=1e-8):
            bad = ("lhs_operator", tolist(lhs_hat), tolist(dec(r["lhs_at_impl_x"], True)))
        else:
            rr = b2f(model.call("relres", dt="c" if cplx else "r", ax=enc(im["lhs"], cplx), b=enc(im["b"], cplx)))
            if abs(rr - im["acc"]) > 1e-9:
                bad = ("accuracy", im["acc"], rr)
            elif not vclose(im["x2"], im["x2_fresh"], kk, rtol=1e-8) or im["res2"] > 1e-8:
                bad = ("second-solve-vs-fresh-solver", tolist(im["x2"]), tolist(im["x2_fresh"]))
    if bad:
        ctx.disagree("linsolve.conv." + bad[0], case, bad[1], bad[2], oracle=oracle_conv)


# =============================================================================================
# ConvATADSolver.__init__ argument checks (malformed stream)

_CONV_ARGS = ["valid", "not-composed", "outer-not-sum", "inner-not-conv", "axis-tuple"]


def gen_convargs(rng):
    return {"kind": "convargs", "arg": _CONV_ARGS[int(rng.integers(0, len(_CONV_ARGS)))], "cplx": bool(rng.integers(0, 2)), "K": int(rng.integers(1, 3))}


def run_convargs(ctx, model, case):
    S = _setup()
    jnp, solver, linop = S["jnp"], S["solver"], S["linop"]
    dt = np.complex128 if case["cplx"] else np.float64
    K, N = case["K"], 3
    ishape = (K, N)
    C = linop.CircularConvolve(jnp.array(np.ones((K, 2)), dtype=dt), input_shape=ishape, ndims=1, input_dtype=dt)
    Sm = linop.Sum(input_shape=ishape, input_dtype=dt, axis=0)
    D = linop.CircularConvolve(jnp.array(np.full(ishape, 2.0), dtype=np.complex128), input_shape=ishape, ndims=1, input_dtype=dt, h_is_dft=True)
    arg = case["arg"]
    try:
        if arg == "valid":
            A = Sm @ C
        elif arg == "not-composed":
            A = C
        elif arg == "outer-not-sum":
            A = linop.Diagonal(jnp.array(np.full(ishape, 2.0), dtype=dt)) @ C
        elif arg == "inner-not-conv":
            A = Sm @ linop.Diagonal(jnp.array(np.full(ishape, 2.0), dtype=dt))
        else:
            A = linop.Sum(input_shape=ishape, input_dtype=dt, axis=(0,)) @ C
        from scico.linop import ComposedLinearOperator, Sum, CircularConvolve

        comp = isinstance(A, ComposedLinearOperator)
        desc = {"composed": comp, "outer_sum": bool(comp and isinstance(A.A, Sum)), "inner_conv": bool(comp and isinstance(A.B, CircularConvolve)),
                "axis_int": bool(comp and isinstance(A.A, Sum) and isinstance(A.A.kwargs["axis"], int))}
    except Exception as e:  # noqa: BLE001
        raise common.Infra(f"convargs: could not build the argument {arg}: {e!r}")
    try:
        solver.ConvATADSolver(A, D)
        got = "ok"
    except Exception as e:  # noqa: BLE001
        got = _err(e)
    try:
        model.call("conv_validate", **desc)
        want = "ok"
    except ModelErr as e:
        want = e.kind
    ctx.count(f"convargs:{arg}:{got}")
    ctx.case({"kind": "convargs", "arg": arg, "result": got}, None if got == "ok" else _key(case))
    if got != want:
        ctx.disagree("linsolve.convargs", case, got, want, oracle=lambda c: None)


# =============================================================================================
# rel_res


def gen_relres(rng):
    n = int(rng.integers(1, 6))
    cplx = bool(rng.integers(0, 2))
    kind = rng.integers(0, 6)
    ax = lu.rnd(rng, (n,), cplx, True)
    b = lu.rnd(rng, (n,), cplx, True)
    if kind == 0:
        ax, b = np.zeros_like(ax), np.zeros_like(b)
    elif kind == 1:
        b = np.zeros_like(b)
    elif kind == 2:
        ax = np.zeros_like(ax)
    elif kind == 3:
        ax = b.copy()
    return {"kind": "relres", "n": n, "cplx": cplx, "ax": tolist(ax), "b": tolist(b)}


def run_relres(ctx, model, case):
    S = _setup()
    jnp, metric = S["jnp"], S["metric"]
    cplx = case["cplx"]
    ax, b = _arr(case["ax"], cplx), _arr(case["b"], cplx)
    got = float(metric.rel_res(jnp.array(ax), jnp.array(b)))
    mo = b2f(model.call("relres", dt="c" if cplx else "r", ax=enc(ax, cplx), b=enc(b, cplx)))
    zero = not np.any(ax) and not np.any(b)
    ctx.count("relres:" + ("both-zero" if zero else "b-zero" if not np.any(b) else "ax-zero" if not np.any(ax) else "generic"))
    ctx.case({"kind": "relres", "n": case["n"]}, _key(case) if not zero else None)

    def oracle(c):
        want = _np_relres(ax, b)
        return None if abs(got - want) <= 1e-12 * (1 + want) else {"rel_res": got, "documented": want}

    if not common.close(got, mo, case["n"]):
        ctx.disagree("linsolve.relres", case, got, mo, oracle=oracle)


# =============================================================================================
# bisect / golden : element i applies the polynomial coef[i] (Horner, low order first)


def _poly(jnp, coef):
    C = [jnp.array([c[j] if j < len(c) else 0.0 for c in coef], dtype=np.float64) for j in range(max(len(c) for c in coef))]

    def f(x):
        acc = jnp.zeros_like(x)
        for cj in reversed(C):
            acc = cj + x * acc
        return acc

    return f


def _np_poly(coef, i, x):
    acc = 0.0
    for c in reversed(coef[i]):
        acc = c + x * acc
    return acc


def gen_bisect(rng):
    n = int(rng.integers(1, 5))
    coef, a, b, roots = [], [], [], []
    kind = int(rng.integers(0, 8))
    for _ in range(n):
        root = float(common.dyadic(rng, (), bits=3, scale=2.0))
        deg = int(rng.integers(1, 4))
        # (x - root) * q(x) with q > 0 on the bracket: q = 1, (1 + (x-s)^2)
        s = float(common.dyadic(rng, (), bits=2, scale=1.0))
        sign = float(rng.choice([-1.0, 1.0]))
        if deg == 1:
            c = [-root, 1.0]
        elif deg == 2:  # (x-root)(x-root+8): second root far to the left
            c = [root * (root - 8.0), 8.0 - 2 * root, 1.0]
        else:
            c = [-root * (1 + s * s), (1 + s * s) + 2 * s * root, -2 * s - root, 1.0]
        c = [sign * v for v in c]
        w1 = float(rng.integers(1, 9)) / 4.0
        w2 = float(rng.integers(1, 9)) / 4.0
        lo, hi = root - w1, root + w2
        coef.append(c)
        a.append(lo)
        b.append(hi)
        roots.append(root)
    if kind == 0:  # an endpoint is an exact root
        a[0] = roots[0]
    if kind == 1:  # bracket does not contain a sign change
        b[-1] = a[-1] - 0.5
        a[-1] = a[-1] - 1.0
    if kind == 2:  # the first midpoint is the exact root
        a[0], b[0] = roots[0] - 1.0, roots[0] + 1.0
    if rng.integers(0, 4) == 0:
        # round 5: function values of magnitude 2^-600: a product f(a) f(c) underflows to 0 while sign(f(a)) sign(f(c)) does not
        # (the code and the model compare signs; theorem sameSign_iff identifies the two only in a field) - exact power-of-two scaling
        coef = [[v * 2.0 ** -600 for v in c] for c in coef]
    xtol = float(rng.choice([1e-7, 1e-3, 0.25, 1e-12]))
    ftol = float(rng.choice([1e-7, 1e-3, 0.5, 1e30]))
    maxiter = int(rng.choice([0, 1, 2, 5, 30, 60]))
    return {"kind": "bisect", "n": n, "coef": coef, "a": a, "b": b, "xtol": xtol, "ftol": ftol, "maxiter": maxiter,
            "range_check": bool(rng.integers(0, 5) != 0), "full_output": bool(rng.integers(0, 2))}


def _impl_bisect(case):
    S = _setup()
    jnp, solver = S["jnp"], S["solver"]
    f0 = _poly(jnp, case["coef"])
    rec = []

    def f(x):
        rec.append(np.array(x))
        return f0(x)

    a = jnp.array(case["a"], dtype=np.float64)
    b = jnp.array(case["b"], dtype=np.float64)
    try:
        r = solver.bisect(f, a, b, xtol=case["xtol"], ftol=case["ftol"], maxiter=case["maxiter"], full_output=case["full_output"],
                          range_check=case["range_check"])
    except Exception as e:  # noqa: BLE001
        return {"err": _err(e), "calls": rec}
    if case["full_output"]:
        x, info = r
        return {"x": np.array(x), "iter": int(info["iter"]), "xerr": float(info["xerr"]), "ferr": float(info["ferr"]),
                "a": np.array(info["a"]), "b": np.array(info["b"]), "calls": rec}
    return {"x": np.array(r), "calls": rec}


def oracle_bisect(case):
    im = _impl_bisect(case)
    if "err" in im:
        fa = [_np_poly(case["coef"], i, case["a"][i]) for i in range(case["n"])]
        fb = [_np_poly(case["coef"], i, case["b"][i]) for i in range(case["n"])]
        if im["err"] == "value" and case["range_check"] and any(np.sign(u) == np.sign(v) for u, v in zip(fa, fb)):
            return None
        if im["err"] == "other" and case["maxiter"] == 0 and case["full_output"]:
            return None  # modelled: info of a loop that never ran is undefined
        return {"unexpected_error": im["err"]}
    x = im["x"]
    for i in range(case["n"]):
        lo, hi = min(case["a"][i], case["b"][i]), max(case["a"][i], case["b"][i])
        if not (lo <= x[i] <= hi):
            return {"element": i, "x": float(x[i]), "bracket": [lo, hi]}
    if case["full_output"]:
        # theorem C14_bisect_width: with a strict sign change initially the bracket width after k bodies is (b0 - a0) / 2^k, or the
        # bracket has collapsed onto an exact zero
        k = im["iter"] + 1
        for i in range(case["n"]):
            fa0, fb0 = _np_poly(case["coef"], i, case["a"][i]), _np_poly(case["coef"], i, case["b"][i])
            if case["a"][i] < case["b"][i] and np.sign(fa0) * np.sign(fb0) < 0:
                w = float(im["b"][i] - im["a"][i])
                w0 = (case["b"][i] - case["a"][i]) / 2.0 ** k
                if not (w == 0.0 or abs(w - w0) <= 1e-9 * (abs(w0) + 1e-300) + 1e-15 * (abs(case["a"][i]) + abs(case["b"][i]))):
                    return {"element": i, "bodies": k, "bracket_width": w, "expected_(b0-a0)/2^k": w0, "f(a0)": fa0, "f(b0)": fb0}
    if case["full_output"] and case["range_check"] and im["iter"] + 1 < case["maxiter"]:
        # exit by tolerance: a sign change (or exact zero) within xtol of x
        for i in range(case["n"]):
            d = case["xtol"] * (1 + 1e-9)
            vals = [_np_poly(case["coef"], i, x[i] + t * d) for t in (-1.0, 0.0, 1.0)]
            if not (min(vals) <= 0.0 <= max(vals)):
                return {"element": i, "x": float(x[i]), "no_sign_change_within_xtol": vals}
    return None


def run_bisect(ctx, model, case):
    n = case["n"]
    im = _impl_bisect(case)
    try:
        r = model.call("bisect", n=n, coef=[common.fs2b(c) for c in case["coef"]], a=common.fs2b(case["a"]), b=common.fs2b(case["b"]),
                       xtol=f2b(case["xtol"]), ftol=f2b(case["ftol"]), maxiter=case["maxiter"], range_check=case["range_check"])
        mo = {"x": np.array(common.b2fs(r["x"])), "steps": r["final"]["steps"], "xerr": b2f(r["final"]["xerr"]), "ferr": b2f(r["final"]["ferr"]),
              "trace": [(np.array(common.b2fs(s["a"])), np.array(common.b2fs(s["b"])), b2f(s["xerr"]), b2f(s["ferr"])) for s in r["trace"]]}
        if case["maxiter"] == 0 and case["full_output"]:
            mo = {"err": "other"}  # `numiter`, `xerr`, `ferr` are unbound when the loop body never ran
    except ModelErr as e:
        mo = {"err": e.kind}
    ctx.count(f"bisect:maxiter={case['maxiter']}")
    ctx.count("bisect:values=" + ("tiny(2^-600)" if max(abs(v) for c in case["coef"] for v in c) < 1e-100 else "O(1)"))
    if "err" in im or "err" in mo:
        ctx.count(f"bisect:err:{im.get('err')}")
        ctx.case({"kind": "bisect", "err": im.get("err")}, None)
        if im.get("err") != mo.get("err"):
            ctx.disagree("linsolve.bisect.error", case, im.get("err", "ok"), mo.get("err", "ok"), oracle=oracle_bisect)
        return
    # near-tie: a function value that is tiny but not zero decides a branch
    for (ta, tb, xe, fe) in mo["trace"]:
        for v, t in ((xe, case["xtol"]), (fe, case["ftol"])):
            if t > 0 and 0 < abs(v - t) / t < 1e-6:
                ctx.count("bisect:discard-near-tie")
                return
    steps = mo["steps"]
    ctx.count("bisect:exit=" + ("tolerance" if steps < case["maxiter"] else "maxiter"))
    ctx.count(f"bisect:steps={min(steps, 20)}")
    ctx.case({"kind": "bisect", "n": n, "steps": steps}, _key(case) if steps >= 1 else None)
    bad = None
    # calls of f: a0, b0, then per body c, a, b
    if len(im["calls"]) != 2 + 3 * steps:
        bad = ("calls_of_f", len(im["calls"]), 2 + 3 * steps)
    else:
        for j in range(steps):
            ia, ib = im["calls"][2 + 3 * j + 1], im["calls"][2 + 3 * j + 2]
            if not vclose(ia, mo["trace"][j][0], 1, 1e-12) or not vclose(ib, mo["trace"][j][1], 1, 1e-12):
                bad = (f"bracket_{j + 1}", [tolist(ia), tolist(ib)], [tolist(mo["trace"][j][0]), tolist(mo["trace"][j][1])])
                break
    if bad is None and not vclose(im["x"], mo["x"], 1, 1e-12):
        bad = ("x", tolist(im["x"]), tolist(mo["x"]))
    if bad is None and case["full_output"]:
        if im["iter"] != steps - 1:
            bad = ("iter", im["iter"], steps - 1)
        elif not common.close(im["xerr"], mo["xerr"], 1, 1e-12) or not common.close(im["ferr"], mo["ferr"], 1, 1e-12):
            bad = ("xerr_ferr", [im["xerr"], im["ferr"]], [mo["xerr"], mo["ferr"]])
    if bad:
        ctx.disagree("linsolve.bisect." + bad[0], case, bad[1], bad[2], oracle=oracle_bisect)


def gen_golden(rng):
    n = int(rng.integers(1, 5))
    coef, a, b, c = [], [], [], []
    for _ in range(n):
        mn = float(common.dyadic(rng, (), bits=3, scale=2.0))
        s = float(rng.integers(1, 9)) / 4.0
        q = float(rng.integers(0, 3)) / 4.0
        c0 = float(common.dyadic(rng, (), bits=2, scale=2.0))
        # s (x-mn)^2 + q (x-mn)^4 + c0
        p2 = np.array([mn * mn, -2 * mn, 1.0])
        p4 = np.convolve(p2, p2)
        cf = np.zeros(5)
        cf[:3] += s * p2
        cf += q * p4
        cf[0] += c0
        coef.append([float(v) for v in cf])
        w1 = float(rng.integers(1, 9)) / 4.0
        w2 = float(rng.integers(1, 9)) / 4.0
        a.append(mn - w1)
        b.append(mn + w2)
        c.append(mn - w1 + 0.25 * (w1 + w2))
    usec = bool(rng.integers(0, 4) == 0)
    if usec and rng.integers(0, 2) == 0:
        # anywhere inside (a, b), as documented ("c must be within that interval"): eighths of the bracket
        c = [lo + float(rng.integers(1, 8)) / 8.0 * (hi - lo) for lo, hi in zip(a, b)]
    return {"kind": "golden", "n": n, "coef": coef, "a": a, "b": b, "c": c if usec else None, "xtol": float(rng.choice([1e-7, 1e-3, 0.25, 1e-12])),
            "maxiter": int(rng.choice([0, 1, 2, 5, 30, 60])), "full_output": bool(rng.integers(0, 2))}


def _impl_golden(case):
    S = _setup()
    jnp, solver = S["jnp"], S["solver"]
    f0 = _poly(jnp, case["coef"])
    rec = []

    def f(x):
        rec.append(np.array(x))
        return f0(x)

    a = jnp.array(case["a"], dtype=np.float64)
    b = jnp.array(case["b"], dtype=np.float64)
    c = None if case["c"] is None else jnp.array(case["c"], dtype=np.float64)
    try:
        r = solver.golden(f, a, b, c=c, xtol=case["xtol"], maxiter=case["maxiter"], full_output=case["full_output"])
    except Exception as e:  # noqa: BLE001
        return {"err": _err(e), "calls": rec}
    if case["full_output"]:
        x, info = r
        return {"x": np.array(x), "iter": int(info["iter"]), "xerr": float(info["xerr"]), "calls": rec}
    return {"x": np.array(r), "calls": rec}


_GR = 2 / (math.sqrt(5) + 1)


def _golden_c_beyond_d(case):
    """class of the recorded finding `golden-c-beyond-d`: a supplied first point c at or beyond d = a + gr (b - a)"""
    if case.get("c") is None:
        return False
    return any(c >= a + _GR * (b - a) for a, b, c in zip(case["a"], case["b"], case["c"]))


def oracle_golden(case):
    im = _impl_golden(case)
    if "err" in im:
        if im["err"] == "other" and case["maxiter"] == 0 and case["full_output"]:
            return None
        return {"unexpected_error": im["err"]}
    x = im["x"]
    gr = 2 / (math.sqrt(5) + 1)
    for i in range(case["n"]):
        lo, hi = case["a"][i], case["b"][i]
        if not (lo <= x[i] <= hi):
            return {"element": i, "x": float(x[i]), "bracket": [lo, hi]}
        # the generated functions are s(x-m)^2 + q(x-m)^4 + c0: minimiser = stationary point inside the bracket
        cf = case["coef"][i]
        d = np.polynomial.polynomial.polyder(np.array(cf))
        rts = [float(r.real) for r in np.polynomial.polynomial.polyroots(d) if abs(r.imag) < 1e-9 and lo <= r.real <= hi]
        if not rts:
            continue
        xs = min(rts, key=lambda t: _np_poly(case["coef"], i, t))
        if case["full_output"]:
            # theorems C14_golden / C14_golden_c_partial: distance to the minimiser <= width of the final bracket
            if case["c"] is None:
                width = (hi - lo) * gr ** (im["iter"] + 1)
            else:
                width = max(gr * (hi - lo), hi - case["c"][i]) * gr ** im["iter"]
            if abs(x[i] - xs) > width * (1 + 1e-6) + 1e-7:
                return {"element": i, "x": float(x[i]), "minimiser": xs, "bracket_width_after_iter": width, "c": None if case["c"] is None else case["c"][i]}
    return None


def run_golden(ctx, model, case):
    n = case["n"]
    im = _impl_golden(case)
    r = model.call("golden", n=n, coef=[common.fs2b(c) for c in case["coef"]], a=common.fs2b(case["a"]), b=common.fs2b(case["b"]),
                   c=None if case["c"] is None else common.fs2b(case["c"]), xtol=f2b(case["xtol"]), maxiter=case["maxiter"],
                   csort=not ctx.is_known("golden-c-beyond-d"))
    mo = {"x": np.array(common.b2fs(r["x"])), "steps": r["final"]["steps"], "xerr": b2f(r["final"]["xerr"]),
          "trace": [(np.array(common.b2fs(s["a"])), np.array(common.b2fs(s["b"])), np.array(common.b2fs(s["c"])), np.array(common.b2fs(s["d"])),
                     b2f(s["xerr"])) for s in r["trace"]]}
    if case["maxiter"] == 0 and case["full_output"]:
        mo = {"err": "other"}
    ctx.count(f"golden:maxiter={case['maxiter']}")
    ctx.count("golden:c=" + ("given" if case["c"] is not None else "none"))
    if "err" in im or "err" in mo:
        ctx.count(f"golden:err:{im.get('err')}")
        ctx.case({"kind": "golden", "err": im.get("err")}, None)
        if im.get("err") != mo.get("err"):
            ctx.disagree("linsolve.golden.error", case, im.get("err", "ok"), mo.get("err", "ok"), oracle=oracle_golden)
        return
    for tr in mo["trace"]:
        if case["xtol"] > 0 and 0 < abs(tr[4] - case["xtol"]) / case["xtol"] < 1e-6:
            ctx.count("golden:discard-near-tie")
            return
    steps = mo["steps"]
    ctx.count("golden:exit=" + ("tolerance" if steps < case["maxiter"] else "maxiter"))
    ctx.count(f"golden:steps={min(steps, 20)}")
    ctx.case({"kind": "golden", "n": n, "steps": steps}, _key(case) if steps >= 1 else None)
    bad = None
    # calls of f: per body c, d; finally a, b
    if len(im["calls"]) != 2 * steps + 2:
        bad = ("calls_of_f", len(im["calls"]), 2 * steps + 2)
    else:
        for j in range(steps):
            ic, idd = im["calls"][2 * j], im["calls"][2 * j + 1]
            if not vclose(ic, mo["trace"][j][2], 1, 1e-12) or not vclose(idd, mo["trace"][j][3], 1, 1e-12):
                bad = (f"points_{j}", [tolist(ic), tolist(idd)], [tolist(mo["trace"][j][2]), tolist(mo["trace"][j][3])])
                break
        if bad is None and steps >= 1:
            ia, ib = im["calls"][-2], im["calls"][-1]
            if not vclose(ia, mo["trace"][-1][0], 1, 1e-12) or not vclose(ib, mo["trace"][-1][1], 1, 1e-12):
                bad = ("final_bracket", [tolist(ia), tolist(ib)], [tolist(mo["trace"][-1][0]), tolist(mo["trace"][-1][1])])
    if bad is None and not vclose(im["x"], mo["x"], 1, 1e-12):
        bad = ("x", tolist(im["x"]), tolist(mo["x"]))
    if bad is None and case["full_output"]:
        if im["iter"] != steps - 1:
            bad = ("iter", im["iter"], steps - 1)
        elif not common.close(im["xerr"], mo["xerr"], 1, 1e-12):
            bad = ("xerr", im["xerr"], mo["xerr"])
    if bad:
        ctx.disagree("linsolve.golden." + bad[0], case, bad[1], bad[2], oracle=oracle_golden)


# =============================================================================================
# default arguments (round 4): the functions called WITHOUT options against the model run with the defaults of `solverTables`
# (which the generated obligation pins to the source)


def gen_defaults(rng, which=None):
    which = which or str(rng.choice(["cg", "lstsq", "cg_solver", "bisect", "golden"]))
    if which in ("cg", "lstsq", "cg_solver"):
        n = int(rng.integers(2, 7))
        cplx = bool(rng.integers(0, 2))
        A = lu.hpd(rng, n, cplx, False)
        return {"kind": "defaults", "fn": which, "n": n, "cplx": cplx, "A": tolist(A), "b": tolist(lu.rnd(rng, (n,), cplx, False))}
    base = gen_bisect(rng) if which == "bisect" else gen_golden(rng)
    while which == "bisect" and any(np.sign(_np_poly(base["coef"], i, base["a"][i])) == np.sign(_np_poly(base["coef"], i, base["b"][i])) for i in range(base["n"])):
        base = gen_bisect(rng)
    return {"kind": "defaults", "fn": which, "n": base["n"], "coef": base["coef"], "a": base["a"], "b": base["b"]}


def run_defaults(ctx, model, case):
    S = _setup()
    jnp, solver = S["jnp"], S["solver"]
    fn = case["fn"]
    d = _defaults(model, fn)
    ctx.count("defaults:" + fn)
    ctx.case({"kind": "defaults", "fn": fn, "n": case["n"]}, _key(case))
    bad = None
    if fn in ("cg", "lstsq", "cg_solver"):
        n, cplx = case["n"], case["cplx"]
        dt = np.complex128 if cplx else np.float64
        A = _arr(case["A"], cplx, (n, n))
        b = _arr(case["b"], cplx)
        from scico.linop import MatrixOperator

        Aop = MatrixOperator(jnp.array(A, dtype=dt))
        if fn == "cg":
            r = solver.cg(Aop, jnp.array(b, dtype=dt))
            if not (isinstance(r, tuple) and len(r) == 2) or not d["info"]:
                bad = ("cg.info-default", type(r).__name__, d["info"])
            else:
                x, info = r
                m = model.call("cg", dt="c" if cplx else "r", n=n, A=enc(A, cplx), M=None, b=enc(b, cplx), x0=None, linop=True,
                               tol=f2b(d["tol"]), atol=f2b(d["atol"]), maxiter=d["maxiter"])
                if int(info["num_iter"]) != m["num_iter"]:
                    bad = ("cg.num_iter", int(info["num_iter"]), m["num_iter"])
                elif not vclose(np.array(x), dec(m["x"], cplx), 100 * n * n, rtol=1e-8):
                    bad = ("cg.x", tolist(np.array(x)), tolist(dec(m["x"], cplx)))
        elif fn == "lstsq":
            r = solver.lstsq(Aop, jnp.array(b, dtype=dt))
            if isinstance(r, tuple) != bool(d["info"]):
                bad = ("lstsq.info-default", type(r).__name__, d["info"])
            else:
                x = np.array(r[0] if isinstance(r, tuple) else r)
                m = model.call("lstsq", dt="c" if cplx else "r", m=n, n=n, A=enc(A, cplx), b=enc(b, cplx), x0=enc(np.zeros(n, dtype=dt), cplx),
                               tol=f2b(d["tol"]), atol=f2b(d["atol"]), maxiter=d["maxiter"])
                if not vclose(x, dec(m["x"], cplx), 1000 * n * n, rtol=1e-6):
                    bad = ("lstsq.x", tolist(x), tolist(dec(m["x"], cplx)))
        else:
            # 50 bodies on an n <= 6 system run far beyond convergence, where rounding noise (and underflow in the model's naive
            # complex division) makes iterates incomparable: the default is observed through the number of calls of A (= maxiter + 1)
            # and, by theorem C14_cgscan_exact (maxiter >= dim V), through the exact solution
            Aj = jnp.array(A, dtype=dt)
            calls = []

            def Af(v):
                calls.append(1)
                return Aj @ v

            with S["jax"].disable_jit():
                x = np.array(S["inverse"].cg_solver(Af, jnp.array(b, dtype=dt)))
            xs = np.linalg.solve(A, b)
            if len(calls) != d["maxiter"] + 1:
                bad = ("cg_solver.calls_of_A", len(calls), d["maxiter"] + 1)
            elif d["maxiter"] >= n and not vclose(x, xs, 1000 * n * n, rtol=1e-7 * float(np.linalg.cond(A))):
                bad = ("cg_solver.x", tolist(x), tolist(xs))
    else:
        f0 = _poly(jnp, case["coef"])
        calls = []

        def f(x):
            calls.append(1)
            return f0(x)

        a = jnp.array(case["a"], dtype=np.float64)
        b = jnp.array(case["b"], dtype=np.float64)
        n = case["n"]
        if fn == "bisect":
            try:
                r = solver.bisect(f, a, b)
            except Exception as e:  # noqa: BLE001
                ctx.disagree("linsolve.defaults.bisect.error", case, _err(e), "ok", oracle=lambda c: None)
                return
            m = model.call("bisect", n=n, coef=[common.fs2b(c) for c in case["coef"]], a=common.fs2b(case["a"]), b=common.fs2b(case["b"]),
                           xtol=f2b(d["xtol"]), ftol=f2b(d["ftol"]), maxiter=d["maxiter"], range_check=d["range_check"])
            steps = m["final"]["steps"]
            if isinstance(r, tuple) != bool(d["full_output"]):
                bad = ("bisect.full_output-default", type(r).__name__, d["full_output"])
            elif len(calls) != 2 + 3 * steps:
                bad = ("bisect.calls_of_f", len(calls), 2 + 3 * steps)
            elif not vclose(np.array(r), np.array(common.b2fs(m["x"])), 1, 1e-12):
                bad = ("bisect.x", tolist(np.array(r)), common.b2fs(m["x"]))
        else:
            r = solver.golden(f, a, b)
            m = model.call("golden", n=n, coef=[common.fs2b(c) for c in case["coef"]], a=common.fs2b(case["a"]), b=common.fs2b(case["b"]),
                           c=None, xtol=f2b(d["xtol"]), maxiter=d["maxiter"], csort=False)
            steps = m["final"]["steps"]
            if isinstance(r, tuple) != bool(d["full_output"]):
                bad = ("golden.full_output-default", type(r).__name__, d["full_output"])
            elif len(calls) != 2 * steps + 2:
                bad = ("golden.calls_of_f", len(calls), 2 * steps + 2)
            elif not vclose(np.array(r), np.array(common.b2fs(m["x"])), 1, 1e-12):
                bad = ("golden.x", tolist(np.array(r)), common.b2fs(m["x"]))
    if bad:
        ctx.disagree("linsolve.defaults." + bad[0], case, bad[1], bad[2], oracle=lambda c: None)


# =============================================================================================
# the CG back end as selected in ADMM (LinearSubproblemSolver, scico or jax): the arguments a solver object runs CG with are the
# documented defaults updated by ITS OWN cg_kwargs, whatever solver objects were built before (seeded C14-n1); the stream is
# shared with the C10 adapter (same driver)


def gen_kwhist(rng):
    import c10

    return c10.gen_kwhist(rng)


def run_kwhist(ctx, model, case):
    import c10

    c10._setup()
    c10.run_kwhist(ctx, model, case)


def oracle_kwhist(case):
    import c10

    c10._setup()
    return c10.oracle_kwhist(case)


# =============================================================================================

RUNNERS = {"defaults": run_defaults, "kwhist": run_kwhist, "cg": run_cg, "jaxcg": run_jaxcg, "cgscan": run_cgscan, "lstsq": run_lstsq, "atad": run_atad, "atadseq": run_atadseq, "atadargs": run_atadargs, "convargs": run_convargs, "conv": run_conv, "relres": run_relres,
           "bisect": run_bisect, "golden": run_golden}
GENS = {"defaults": gen_defaults, "kwhist": gen_kwhist, "cg": gen_cg, "jaxcg": gen_jaxcg, "cgscan": gen_cgscan, "lstsq": gen_lstsq, "atad": gen_atad, "atadseq": gen_atadseq, "atadargs": gen_atadargs, "convargs": gen_convargs, "conv": gen_conv, "relres": gen_relres,
        "bisect": gen_bisect, "golden": gen_golden}
ORACLES = {"kwhist": oracle_kwhist, "cg": oracle_cg, "jaxcg": oracle_jaxcg, "cgscan": oracle_cgscan, "lstsq": oracle_lstsq, "atad": oracle_atad, "atadseq": oracle_atadseq, "conv": oracle_conv,
           "bisect": oracle_bisect, "golden": oracle_golden}
# (quick, thorough) number of generated cases per stream
BUDGET = {"defaults": (15, 100), "kwhist": (8, 60), "cg": (120, 1500), "jaxcg": (40, 400), "cgscan": (25, 250), "lstsq": (30, 300), "atad": (90, 1000), "atadseq": (24, 200), "atadargs": (20, 60), "convargs": (10, 30), "conv": (40, 400), "relres": (30, 200),
          "bisect": (60, 700), "golden": (50, 600)}



def default_precision_stream(ctx):
    """round 6: the library's DEFAULT mode (no jax_enable_x64; float32 / complex64 data, Python scalars weakly typed): a worker
    subprocess (harness/linsolve_f32_worker.py) runs the solvers of this property; nothing may raise, results stay 32-bit of the kind of
    the data, the documented system (numpy float64 in the worker) holds at a float32-appropriate relative residual, reported
    accuracy / rel_res is consistent with the true one"""
    import subprocess
    import sys

    p = subprocess.run([sys.executable, str(common.VERIF / "harness" / "linsolve_f32_worker.py")],
                       input=json.dumps({"repo": str(common.REPO), "which": "c14", "seed": ctx.seed}), capture_output=True, text=True,
                       env={k_: v for k_, v in os.environ.items() if k_ != "JAX_ENABLE_X64"})
    if p.returncode != 0:
        raise common.Infra("default-precision worker failed: " + p.stderr[-800:])
    txt = p.stdout
    for rec in json.loads(txt[txt.index('{"results"'):])["results"]:
        ctx.case({"default_precision": rec["name"], "dtype": rec["dtype"]}, "f32:" + rec["name"] + ":" + rec["dtype"])
        ctx.count("default-precision:" + rec["dtype"])
        bad = rec.get("raised") or not rec.get("dtype_ok") or not rec.get("value_ok") or rec.get("reported_ok") is False
        if bad:
            ctx.disagree("linsolve.default_precision." + rec["name"], {"kind": "default_precision", "item": rec["name"], "dtype": rec["dtype"], "seed": ctx.seed},
                         {k_: v for k_, v in rec.items() if k_ not in ("name", "dtype")},
                         "no exception, 32-bit result of the kind of the data, documented system within the float32 tolerance, consistent accuracy",
                         oracle=lambda case, rec=rec: dict(rec, mode="float32/complex64 (jax_enable_x64 off)"))


def correspond(ctx, model):
    _setup()
    cdir = common.CORPUS_DIR / PROP
    for p in sorted(cdir.glob("*.json")) if cdir.exists() else []:
        c = json.loads(p.read_text())
        case = c.get("case", c)
        if case.get("kind") in RUNNERS and not c.get("finding_only"):
            ctx.count("corpus")
            RUNNERS[case["kind"]](ctx, model, case)
    only = os.environ.get("LINSOLVE_STREAMS")  # debugging aid (mutation trials): restrict the streams
    if not only or "f32" in only.split(","):
        default_precision_stream(ctx)
    for kind, gen in GENS.items():
        if only and kind not in only.split(","):
            continue
        q, t = BUDGET[kind]
        for i in range(ctx.n(q, t)):
            if kind == "kwhist":
                import c10

                want = c10.STRATA["kwhist"]
                case = c10._gen_where(gen, ctx.rng, want[i]) if i < len(want) else gen(ctx.rng)
            else:
                case = gen(ctx.rng)
            RUNNERS[kind](ctx, model, case)
    if only:
        # a restricted run is a debugging aid only: it can print VIOLATION lines but can never be reported as "held"
        raise common.Infra(f"LINSOLVE_STREAMS={only} is set: restricted debugging run, not a valid check (unset it)")


GOLDEN_C_WITNESS = {"kind": "golden", "n": 1, "coef": [[0.64, -1.6, 1.0]], "a": [0.0], "b": [1.0], "c": [0.875], "xtol": 1e-7, "maxiter": 60,
                    "full_output": True}


def findings(ctx, model):
    _setup()
    if ctx.is_known("golden-c-beyond-d"):
        r = oracle_golden(GOLDEN_C_WITNESS)
        ctx.known_finding("golden-c-beyond-d", r is not None and "minimiser" in r,
                          "" if r is None else f"golden(f, 0, 1, c=0.875) for f = (x - 0.8)^2 returns {r.get('x'):.6g}, minimiser {r.get('minimiser'):.6g}")


class _Collect:
    """stand-in for the run context inside the targeted panel: the first disagreement is kept as the failing input"""

    def __init__(self, ctx):
        self.ctx, self.hit = ctx, None

    def count(self, *a, **k):
        pass

    def case(self, *a, **k):
        pass

    def is_known(self, x):
        return self.ctx.is_known(x)

    def disagree(self, op, case, impl, model, oracle=None, known_id=None):
        if known_id and self.ctx.is_known(known_id):
            return
        if self.hit is None:
            r = oracle(case) if oracle else None
            self.hit = {"case": case, "failing": r if r else {"op": op, "implementation": impl, "documented_behaviour_(model_with_its_tables)": model}}


def _targeted(ctx, model):
    """a generated obligation no longer checks: aim the search at the functions whose table rows differ between source and model"""
    import linsolve_translate

    rows = linsolve_translate.diff_rows(model.call("tables"))
    ctx.extra["changed_table_rows"] = [list(r) for r in rows]
    col = _Collect(ctx)
    for kind, name in rows:
        if kind == "defaults" and name in ("cg", "lstsq", "bisect", "golden", "cg_solver"):
            for _ in range(40):
                run_defaults(col, model, gen_defaults(ctx.rng, name))
                ctx.count(f"search:targeted:defaults:{name}")
                if col.hit:
                    return col.hit
        elif (kind == "defaults" and name == "MatrixATADSolver.__init__") or kind == "woodbury":
            for _ in range(80):
                case = gen_atad(ctx.rng)
                ctx.count("search:targeted:atad")
                r = oracle_atad(case)
                if r is not None:
                    return {"case": case, "failing": r}
                run_atad(col, model, case)
                if col.hit:
                    return col.hit
        elif (kind == "kwdicts" and name == "LinearSubproblemSolver") or (kind == "defaults" and name == "LinearSubproblemSolver.__init__"):
            import c10

            c10._setup()
            for i in range(12):
                want = c10.STRATA["kwhist"]
                case = c10._gen_where(c10.gen_kwhist, ctx.rng, want[i % len(want)])
                ctx.count("search:targeted:kwhist")
                r = c10.oracle_kwhist(case)
                if r is not None:
                    return {"case": case, "failing": r}
                c10.run_kwhist(col, model, case)
                if col.hit:
                    return col.hit
    return None


def search(ctx, model, why):
    """failing-input search on the implementation alone: the property oracles on fresh random cases; after a broken generated
    obligation (`why`) first a panel aimed at the functions whose table rows changed"""
    _setup()
    if why is not None:
        hit = _targeted(ctx, model)
        if hit:
            return hit
    for kind, orc in ORACLES.items():
        q, t = BUDGET[kind]
        for _ in range(max(10, ctx.n(q, t) // 4)):
            case = GENS[kind](ctx.rng)
            if kind == "golden" and _golden_c_beyond_d(case) and ctx.is_known("golden-c-beyond-d"):
                continue
            ctx.count(f"search:{kind}")
            r = orc(case)
            if r is not None:
                return {"case": case, "failing": r}
    return None


def replay(ctx, model, case):
    _setup()
    c = case.get("case", case)
    kind = c.get("kind")
    orc = ORACLES.get(kind)
    r = orc(c) if orc else None
    print("replay:", "property FAILS on implementation:" if r else "no failure at this input", r)
    if r:
        ctx.violation({"kind": "failing-input", "case": c, "failing": r}, True, "replay")
    elif kind in RUNNERS:
        RUNNERS[kind](ctx, model, c)
