"""Default-precision worker of C19 (engine Cache), run as a subprocess WITHOUT jax_enable_x64 (float32 / complex64 throughout, Python
scalars weakly typed - the library's default mode; buffer donation and caches behave differently there: XRayTransform3D.adj raised
"Array has been deleted" only in this mode).

For every requested catalogue entry (float32 / complex64 entries of harness/cache_catalog.py, rebuilt from VERIF_SEED exactly as in the
main process) and a few default-dtype objects (dtype arguments omitted) each call is evaluated on a fresh object eagerly and then in the
modes of the property - jax.jit, jax.disable_jit, twice in a row, eager after jit on the same object, constructor option jit on / off
(+ outer jit), after a history with other shapes / dtypes / parameters (+ jit), history on a sibling object - and compared with the eager
value at the entry's float32 tolerance; nothing may raise that the eager call accepts; no result may be 64-bit.
stdin: {"repo", "seed", "thorough", "entries": [names]};  stdout: one line {"results": [...]}.
"""

import json
import os
import sys
import warnings

os.environ["JAX_PLATFORMS"] = "cpu"
os.environ.pop("JAX_ENABLE_X64", None)
os.environ.setdefault("XLA_FLAGS", "--xla_cpu_multi_thread_eigen=false intra_op_parallelism_threads=2")
req = json.loads(sys.stdin.read())
sys.path.insert(0, req["repo"])
sys.path.insert(0, os.path.dirname(os.path.abspath(__file__)))
warnings.simplefilter("ignore")
import numpy as np  # noqa: E402

import jax  # noqa: E402

assert not jax.config.jax_enable_x64
import scico  # noqa: E402,F401

import c19  # noqa: E402
import cache_catalog as cc  # noqa: E402
import cache_fresh  # noqa: E402


def default_dtype_entries():
    """objects built with the dtype arguments OMITTED (library defaults)"""
    import jax.numpy as jnp
    from scico import functional as F
    from scico import linop

    x = jnp.asarray(np.arange(20, dtype=np.float32).reshape(4, 5) / 8.0 - 1.0)
    ents = []

    def L(name, mk, has_jit=True):
        p = mk(None)
        y = jnp.ones(p.output_shape, p.output_dtype) * 0.5
        calls = [("eval", lambda o: (lambda a: o(a)), (x,)), ("adj", lambda o: (lambda a: o.adj(a)), (y,)), ("gram", lambda o: (lambda a: o.gram(a)), (x,))]
        ents.append(cc.Entry(name + "/default", "operator", mk, calls, lambda o: [o(2 * x + 1), o.gram(x * 0.5), o.adj(o(x))], has_jit, 2e-4, "default"))

    kw = lambda jit: {} if jit is None else {"jit": jit}  # noqa: E731
    L("Identity", lambda jit: linop.Identity((4, 5), **kw(jit)))
    L("FiniteDifference", lambda jit: linop.FiniteDifference((4, 5), circular=True, **kw(jit)))
    L("Diagonal", lambda jit: linop.Diagonal(x + 3.0, **kw(jit)))
    L("Sum", lambda jit: linop.Sum((4, 5), axis=0, **kw(jit)))
    L("LinearOperator(eval_fn)", lambda jit: linop.LinearOperator(input_shape=(4, 5), eval_fn=lambda a: a[::-1] * 2.0, **kw(jit)))
    for circ in (True, False):
        ents.append(cc.Entry(f"AnisotropicTVNorm(circ={circ},prebuilt-default-dtype)/default", "functional",
                             lambda jit, circ=circ: F.AnisotropicTVNorm(circular=circ, input_shape=(4, 5)),
                             [("eval", lambda o: (lambda a: o(a)), (x,)), ("prox", lambda o: (lambda a, l: o.prox(a, l)), (x, 0.75))],
                             lambda o: [o(x[:3]), o.prox(x[:, :3], 0.5)], False, 2e-4, "default"))
    return ents


def is64(canon):
    # a jax array cannot be 64-bit in this mode; a 0-d float64 is a Python scalar returned as such (weakly typed, legitimate)
    return any(a.dtype in (np.float64, np.complex128) and a.ndim >= 1 for a in canon)


def same(a, b, rtol):
    """as cache_catalog.same, except that 0-d results are compared by value only: without x64 a Python scalar (float64 once it is a numpy
    value) and a float32 0-d array are the same number (jax.disable_jit returns the Python branch value of a lax.cond as it is)"""
    if len(a) != len(b):
        return False
    for u, v in zip(a, b):
        if u.ndim == 0 and v.ndim == 0:
            if not cc.same([u.astype(np.complex128)], [v.astype(np.complex128)], rtol):
                return False
        elif not cc.same([u], [v], rtol):
            return False
    return True


cat = {e.name: e for e in cache_fresh.build_catalog_single(req["seed"])}
ents = [cat[n] for n in req["entries"] if n in cat] + default_dtype_entries()
out = []
for e in ents:
    for call in e.calls:
        rec = {"entry": e.name, "call": call[0], "bad": []}
        base = c19._eval_call(e, call, "eager")
        if base[0] == "ok":
            rec["base"] = cache_fresh.encode(base[1])
            rec["is64"] = is64(base[1])
        else:
            rec["base_err"] = base[1]
        for mode in c19._modes_for(e):
            got = c19._eval_call(e, call, mode)
            if base[0] != got[0]:
                rec["bad"].append({"mode": mode, "got": got[1] if got[0] == "err" else "ok", "base": base[1] if base[0] == "err" else "ok"})
            elif base[0] == "ok":
                if not same(base[1], got[1], max(e.rtol, 2e-4)):
                    rec["bad"].append({"mode": mode, "got": cache_fresh.encode(got[1]), "base": "value"})
                elif is64(got[1]):
                    rec["bad"].append({"mode": mode, "got": "64-bit result", "base": "dtype"})
        out.append(rec)
    jax.clear_caches()
sys.stdout.write("\n" + json.dumps({"results": out}) + "\n")
