"""C07 - gradients and Jacobian products are the true derivatives.

Engine `Autograd`: lean/Scico/Model/Autograd.lean, Proofs/Autograd{Alg,Wrap,Deriv}.lean, Props/C07.lean,
Drv/Autograd.lean.  See design/C07.md.
"""

from __future__ import annotations

import json

import numpy as np

import autograd_gen as G
import common
from common import ModelErr, f2b

PROP = "C07"
CLAIMED = True
ENGINE = "Autograd"
DESIGN_REF = "DESIGN.md §5.7"
TECHNIQUE = (
    "Lean 4 proof (Mathlib HasDerivAt; induction over functional expressions; conjugation/adjoint algebra over a "
    "commutative ring; exact quadratic expansion) + differential correspondence of scico's grad/jvp/vjp/jacobian/"
    "hessian with the executable model + finite-difference oracle on the implementation"
)
LEVEL_TEXT = (
    "Lean theorems: conj of JAX's gradient is the gradient (Re<g,d> = directional derivative), block-wise; Gmap = "
    "conj(G(conj v)) is the (real- and complex-) adjoint of the Jacobian-vector product, plain transpose without the "
    "flag; Jacobian operator eval/adj with and without the evaluation block (affine with it); exact second-order "
    "expansion of the weighted squared-l2 loss (gradient 2aA^HW(Ax-y), Hessian 2aA^HWA, Hermitian, PSD); for EVERY "
    "expression built from the smooth functionals by scaling, sums, separable blocks and Loss(y,A,f,scale), to any "
    "depth, model grad = true derivative (HasDerivAt) on the smoothness domain, incl. Huber at its threshold; "
    "slot plumbing of Function/cvjp; copy+rebind machine of Loss.__mul__/__truediv__/set_scale for all histories. "
    "Round 2: the induction is proved along every differentiable curve (C07_curve), so it passes through NONLINEAR "
    "operators inside losses (Fn.lossOp, C07_chain_nonlinear under JAX's jvp/vjp contracts; for the operator family "
    "Ax+B conj x+(Cx)^2+c jvp IS the derivative and vjp its adjoint without hypotheses, C07_operator_jacobian); "
    "PoissonLoss, SquaredL2AbsLoss, ProximalAverage and the TV norms (l1 / guarded l2,1 norm after the object's own "
    "difference matrix, structural zeros of the zero-padded forms included) are inside; set distances for any "
    "projection with the contracts; linear_adjoint of real-linear (C->R) functions."
)
LEVEL_NOTE = (
    "Trusted: Lean kernel + Mathlib (propext, Classical.choice, Quot.sound); JAX's AD (jax.grad/jvp/vjp/"
    "linear_transpose) through explicit contracts (hypotheses JaxContract / transposition for Re sum a_i b_i), whose "
    "transcription Fn.jaxGrad is proved to satisfy the contract and is compared with the real jax.grad every run; real-"
    "number idealisation of IEEE arithmetic; operators inside losses are dense linear maps (MatrixOperator/Diagonal/"
    "Identity); Python object semantics of copy/bound methods are modelled (Heap machine), tied by the correspondence, "
    "not derived from the source. NuclearNorm, Convolve inside a loss and set distances for projections other than "
    "box/subspace are covered only by the finite-difference oracle (thorough tier); values of grad AT kinks (JAX's "
    "conventions for abs/norm at 0) are outside the property and not compared."
)
PROP_MODULES = ["Scico.Props.C07"]
EXTRA_TARGETS = ["Drv.Autograd"]
DRIVER = "Autograd"
FILES = [
    "scico/_autograd.py",
    "scico/functional/_functional.py",
    "scico/functional/_norm.py",
    "scico/functional/_tvnorm.py",
    "scico/functional/_dist.py",
    "scico/functional/_proxavg.py",
    "scico/loss.py",
    "scico/operator/_operator.py",
    "scico/linop/_util.py",
    "scico/function.py",
    "scico/util.py",
    "scico/functional/_indicator.py",
    "scico/functional/_denoiser.py",
]
RULE = (
    "fn: random functional expressions (leaves zero/sqL2/l2/l1/huber sep+nonsep/l1-l2/l21; nodes c*f, f*c, L/c, f+g, "
    "SeparableFunctional on block arrays, Loss(y,A,f,s), SquaredL2Loss(y,A,s,W), SquaredL2SquaredAbsLoss) of depth<=3/4 "
    "built with scico's constructors/operators, A in {Identity, Diagonal, MatrixOperator}, sizes 1..5, float64 and "
    "complex128, dyadic data; points at distance >=1e-6 from non-differentiable sets, plus a boundary stream exactly on "
    "the Huber threshold; near-ties (0<margin<1e-6) discarded. A case is non-trivial when the expression is not a "
    "bare leaf or the point is on a branch boundary; distinct by (expression kinds, dtype, size). "
    "jac: operators F(x)=Ax+B conj(x)+(Cx)^2+c and product Functions, all basis directions (dense Jacobian), both "
    "conjugate flags, include_eval on/off. hess: dense Hessian on basis vectors. heap: random histories of "
    "new/mul/rmul/div/set_scale on 5 loss classes. args: all (index, arity<=4). linadj: four dtype cases; linadj2: all 8 "
    "(primal kinds x output kind) configurations. Also in fn: SquaredL2AbsLoss, PoissonLoss (positive operator and point), "
    "Loss/SquaredL2Loss with a nonlinear operator Ax+B conj x+(Cx)^2+c, ProximalAverage. tv: Anisotropic/IsotropicTVNorm "
    "(circular / zero-padded, 1-D/2-D, axes) via the dense matrix of the object's own f.G. l21: 2-D/3-D, int/tuple/None "
    "axes, identically-zero groups. setdist: box / subspace projections at points outside the set. f32: a worker subprocess "
    "without jax_enable_x64 runs 30/150 functional expressions, 120 grad/value_and_grad/jacrev option cells and 10/60 operator "
    "Jacobians at float32/complex64: no raise, 32-bit dtypes preserved, values vs the model at relative 1e-4."
)
ASSUMPTIONS = [
    "jax.grad of a real-valued function returns jg with d/dt f(x+td) = Re sum jg_i d_i (contract; its transcription Fn.jaxGrad is proved to satisfy it and is compared with jax.grad each run)",
    "jax.vjp returns the transpose of the (real-linear) Jacobian for the pairing Re sum a_i b_i; jax.linear_transpose the bilinear transpose (contracts, exercised on basis vectors each run)",
    "jax.jvp returns (F(u), J_F(u) v)",
    "real-number idealisation of binary64 (tolerance 1e-9 scaled by reduction length; dyadic inputs)",
]

TOLK = 256


# --------------------------------------------------------------------------------------------
# helpers


def _mk_x(n_or_sizes, xflat, cplx, single=False):
    """flat complex vector -> scico array / BlockArray of the requested block sizes"""
    import scico.numpy as snp

    dt = G.dtype_of(cplx, single)
    xf = np.asarray(xflat, dtype=np.complex128)
    xf = xf if cplx else xf.real
    if isinstance(n_or_sizes, (list, tuple)):
        out, o = [], 0
        for m in n_or_sizes:
            out.append(np.asarray(xf[o : o + m], dtype=dt))
            o += m
        return snp.blockarray(out)
    return snp.array(np.asarray(xf, dtype=dt))


def _shape_sig(x):
    if hasattr(x, "arrays"):
        return [list(b.shape) for b in x.arrays]
    return list(np.shape(x))


def _dtype_of(x):
    if hasattr(x, "arrays"):
        return sorted({str(b.dtype) for b in x.arrays})
    return [str(np.asarray(x).dtype)]


def fd_directional(f, x, d, h=2.0**-9):
    """Richardson-extrapolated central difference of t -> f(x + t d) at 0 (float)"""

    def D(hh):
        return (float(f(x + hh * d)) - float(f(x - hh * d))) / (2 * hh)

    return (4.0 * D(h / 2) - D(h)) / 3.0


def re_inner(g, d):
    return float(np.real(np.sum(np.conj(G.flat_blocks(g)) * G.flat_blocks(d))))


def fn_oracle(ctx_seed=0):
    """property oracle on the implementation: Re<f.grad(x), d> versus the finite-difference directional
    derivative of the real __call__, along coordinate and random directions"""

    def oracle(case):
        common.setup_scico()
        t, cplx = case["tree"], case["cplx"]
        sizes = case.get("sizes")
        n = case["n"]
        single = bool(case.get("single"))
        if single:
            return None  # binary32 differences are too coarse; the binary64 streams carry the oracle
        f = G.build(t, n, cplx)
        xflat = G.dec(case["x"])
        x = _mk_x(sizes if sizes else n, xflat, cplx)
        mk, mb = G.margin(t, xflat)
        if mk < 1e-3:
            return None  # not a point of differentiability (or too close to judge by differences)
        g = f.grad(x)
        gf = G.flat_blocks(g)
        rng = np.random.Generator(np.random.PCG64(12345 + ctx_seed))
        dirs = []
        for i in range(n):
            e = np.zeros(n, dtype=np.complex128)
            e[i] = 1.0
            dirs.append(e)
            if cplx:
                dirs.append(1j * e)
        for _ in range(4):
            dd = common.dyadic(rng, (n,), bits=3, scale=1.0).astype(np.complex128)
            if cplx:
                dd = dd + 1j * common.dyadic(rng, (n,), bits=3, scale=1.0)
            dirs.append(dd)
        h = 2.0**-9
        if mb < 64 * h and mb != 0.0:
            h = max(mb / 64.0, 2.0**-20)
        worst = None
        for dd in dirs:
            if not np.any(dd):
                continue
            dx = _mk_x(sizes if sizes else n, dd, cplx)
            if mb == 0.0:
                # on a (differentiable) branch boundary: one-sided differences from both sides
                hh = 2.0**-12
                f0 = float(f(x))
                fdp = (float(f(x + hh * dx)) - f0) / hh
                fdm = (f0 - float(f(x - hh * dx))) / hh
                fd = 0.5 * (fdp + fdm)
                tol = 1e-2 * (1.0 + abs(fd))
            else:
                fd = fd_directional(f, x, dx, h)
                tol = 1e-5 * (1.0 + abs(fd) + abs(float(f(x))))
            ri = float(np.real(np.sum(np.conj(gf) * dd)))
            if not (abs(ri - fd) <= tol):
                err = abs(ri - fd)
                if worst is None or err > worst["abs_err"]:
                    worst = {"x": G.enc(xflat), "d": G.enc(dd), "re_inner_grad_d": ri, "finite_difference": fd, "abs_err": err, "tol": tol}
        return worst

    return oracle


# --------------------------------------------------------------------------------------------
# functional gradients


def _fn_case(ctx, model, t, n, cplx, xflat, sizes=None, tag="fn", oracle=None, single=False):
    """compare f(x), f.grad(x), jax.grad(f.__call__)(x), scico.value_and_grad on the real code with the model"""
    import jax
    import scico

    mk, mb = G.margin(t, xflat)
    if mk == 0.0 or (0.0 < mk < 1e-6) or (0.0 < mb < 1e-6):
        ctx.count(f"{tag}:discarded-near-tie")
        return
    case = {"tree": t, "n": n, "cplx": cplx, "x": G.enc(xflat), "sizes": sizes, "single": single}
    rt = 1e-4 if single else 1e-9
    try:
        f = G.build(t, n, cplx, single)
    except Exception as e:  # noqa: BLE001
        raise common.Infra(f"could not build {json.dumps(t)[:300]}: {e!r}") from e
    x = _mk_x(sizes if sizes else n, xflat, cplx, single)
    mt = G.to_model(t, n)
    got = model.call("fn", n=n, x=G.cv(xflat), f=mt)
    m_eval = common.b2f(got["eval"])
    m_grad = G.from_cv(got["grad"])
    m_jax = G.from_cv(got["jax"])
    val = f(x)
    g = f.grad(x)
    jg = jax.grad(f.__call__)(x)
    v2, g2 = scico.value_and_grad(f.__call__)(x)
    ks = G.kinds(t)
    nontriv = None
    if len(ks) > 1 or mb == 0.0:
        nontriv = (tag, tuple(ks), cplx, n, mb == 0.0)
    ctx.case({"tag": tag, "kinds": ks, "n": n, "cplx": cplx, "on_threshold": mb == 0.0}, nontriv)
    ctx.count(f"{tag}:dtype={('c64' if cplx else 'f32') if single else ('c128' if cplx else 'f64')}")
    ctx.count(f"{tag}:n={n}")
    ctx.count(f"{tag}:depth-kinds={min(len(ks), 6)}")
    for kk in set(ks):
        ctx.count(f"{tag}:kind={kk}")
    if mb == 0.0:
        ctx.count(f"{tag}:on-huber-threshold")
    if sizes:
        ctx.count(f"{tag}:blocks={len(sizes)}")
    orc = oracle or fn_oracle(ctx.seed)
    gf = G.flat_blocks(g)
    # structure: the gradient has the shape / block structure / dtype of the argument
    if _shape_sig(g) != _shape_sig(x) or _dtype_of(g) != _dtype_of(x):
        ctx.disagree("fn.grad.shape", case, {"shape": _shape_sig(g), "dtype": _dtype_of(g)}, {"shape": _shape_sig(x), "dtype": _dtype_of(x)}, oracle=orc)
        return
    if not cplx and np.any(m_grad.imag != 0):
        raise common.Infra(f"model returned a non-real gradient for real data: {case}")
    if not common.close(float(val), m_eval, TOLK, rt):
        ctx.disagree("fn.eval", case, float(val), m_eval, oracle=orc)
        return
    if not (common.allclose(gf.real, m_grad.real, TOLK, rt) and common.allclose(gf.imag, m_grad.imag, TOLK, rt)):
        ctx.disagree("fn.grad", case, G.enc(gf), G.enc(m_grad), oracle=orc)
        return
    jf = G.flat_blocks(jg)
    if not (common.allclose(jf.real, m_jax.real, TOLK, rt) and common.allclose(jf.imag, m_jax.imag, TOLK, rt)):
        # the JAX contract transcription (not scico code): harness/model problem unless JAX changed
        raise common.Infra(f"jax.grad disagrees with the model's transcription of JAX's rules on {json.dumps(case)[:400]}")
    g2f = G.flat_blocks(g2)
    if not (common.close(float(v2), m_eval, TOLK, rt) and common.allclose(g2f.real, m_grad.real, TOLK, rt) and common.allclose(g2f.imag, m_grad.imag, TOLK, rt)):
        ctx.disagree("fn.value_and_grad", case, {"value": float(v2), "grad": G.enc(g2f)}, {"value": m_eval, "grad": G.enc(m_grad)}, oracle=orc)


def _gen_point(rng, t, n, cplx, tries=20):
    positive = G.has_kind(t, "poisson")
    for _ in range(tries):
        x = G.dy(rng, (n,), cplx, nz=True)
        if positive:
            x = np.abs(x.real) + 0.125  # PoissonLoss: A x > 0 (A has positive entries)
        mk, mb = G.margin(t, x)
        if mk >= 1e-6 and (mb == 0.0 or mb >= 1e-6):
            return x
    return None


def stream_fn(ctx, model):
    rng = ctx.rng
    N = ctx.n(260, 3000)
    depth_max = ctx.n(3, 4)
    done = 0
    while done < N:
        cplx = bool(rng.random() < 0.5)
        n = int(rng.integers(1, 6))
        t = G.gen_tree(rng, n, cplx, int(rng.integers(0, depth_max + 1)))
        if not cplx and rng.random() < 0.12:
            t = G.gen_poisson_tree(rng, n)
        elif rng.random() < 0.08:
            t = G.gen_proxavg(rng, n)
        x = _gen_point(rng, t, n, cplx)
        done += 1
        if x is None:
            ctx.count("fn:no-smooth-point")
            continue
        _fn_case(ctx, model, t, n, cplx, x)


def stream_single(ctx, model):
    """binary32 / complex64 data: the gradient keeps the dtype of the argument (tolerance 1e-4)"""
    rng = ctx.rng
    for _ in range(ctx.n(40, 300)):
        cplx = bool(rng.random() < 0.5)
        n = int(rng.integers(1, 5))
        t = G.gen_tree(rng, n, cplx, int(rng.integers(0, 3)))
        x = _gen_point(rng, t, n, cplx)
        if x is None:
            continue
        mk, mb = G.margin(t, x)
        if mb < 1e-3 or mk < 1e-2:
            continue  # binary32 rounding could change the branch
        _fn_case(ctx, model, t, n, cplx, x, tag="single", single=True)


def stream_real_arg(ctx, model):
    """real argument array, complex operators / data inside the loss: grad is real (= real part)"""
    rng = ctx.rng
    for _ in range(ctx.n(30, 300)):
        n = int(rng.integers(1, 5))
        t = G.gen_lossnode(rng, n, True, int(rng.integers(0, 3)))
        if rng.random() < 0.4:
            t = {"k": "mul", "c": G.dyscalar(rng), "side": "l", "f": t}
        if rng.random() < 0.3:
            t = {"k": "add", "f": t, "g": G.gen_leaf(rng, n)}
        x = None
        for _ in range(20):
            xx = G.dy(rng, (n,), False, nz=True)
            mk, mb = G.margin(t, xx)
            if mk >= 1e-6 and (mb == 0.0 or mb >= 1e-6):
                x = xx
                break
        if x is None:
            continue
        case = {"tree": t, "n": n, "cplx": True, "real_arg": True, "x": G.enc(x), "sizes": None}
        f = G.build(t, n, True)
        X = _mk_x(n, x, False)
        got = model.call("fn", n=n, x=G.cv(x), f=G.to_model(t, n))
        mg = G.from_cv(got["grad_real_arg"])
        g = f.grad(X)
        ks = G.kinds(t)
        ctx.case({"tag": "real_arg", "kinds": ks, "n": n}, ("real_arg", tuple(ks), n))
        ctx.count("real_arg:cases")

        def orc(c, f=f, X=X, n=n):
            gg = np.asarray(f.grad(X)).ravel()
            for i in range(n):
                e = np.zeros(n)
                e[i] = 1.0
                import scico.numpy as snp

                fd = fd_directional(f, X, snp.array(e))
                if abs(fd - float(np.real(gg[i]))) > 1e-5 * (1 + abs(fd) + abs(float(f(X)))):
                    return {"x": c["x"], "direction": i, "grad_component": complex(gg[i]).real, "finite_difference": fd}
            return None

        if str(np.asarray(g).dtype) != "float64":
            ctx.disagree("fn.real_arg.dtype", case, str(np.asarray(g).dtype), "float64", oracle=orc)
            continue
        if not common.close(float(f(X)), common.b2f(got["eval"]), TOLK):
            ctx.disagree("fn.real_arg.eval", case, float(f(X)), common.b2f(got["eval"]), oracle=orc)
            continue
        _cmp_vec(ctx, "fn.real_arg.grad", case, g, mg, orc)


def stream_blocks(ctx, model):
    rng = ctx.rng
    N = ctx.n(70, 700)
    for _ in range(N):
        cplx = bool(rng.random() < 0.5)
        nb = int(rng.integers(2, 4))
        sizes = [int(rng.integers(1, 4)) for _ in range(nb)]
        t = G.gen_block_tree(rng, sizes, cplx, int(rng.integers(0, 3)))
        n = sum(sizes)
        x = _gen_point(rng, t, n, cplx)
        if x is None:
            ctx.count("blocks:no-smooth-point")
            continue
        _fn_case(ctx, model, t, n, cplx, x, sizes=sizes, tag="blocks")


def stream_boundary(ctx, model):
    """points exactly on the Huber threshold (where the function is differentiable), zeros for the
    everywhere-smooth functionals, l21 on 2-D arrays along each axis"""
    rng = ctx.rng
    N = ctx.n(12, 80)
    for _ in range(N):
        cplx = bool(rng.random() < 0.5)
        n = int(rng.integers(1, 6))
        delta = float(rng.choice([0.5, 1.0, 2.0]))
        # separable: some coordinates exactly +-delta (or +-i delta)
        x = G.dy(rng, (n,), cplx, nz=True)
        units = [1.0, -1.0] + ([1j, -1j] if cplx else [])
        for i in range(n):
            if rng.random() < 0.6:
                x[i] = delta * units[int(rng.integers(len(units)))]
        t = {"k": "huber", "delta": delta, "sep": True}
        if rng.random() < 0.5:
            t = {"k": "mul", "c": G.dyscalar(rng), "side": "l", "f": t}
        _fn_case(ctx, model, t, n, cplx, x, tag="boundary")
        # non separable: ||x|| = delta exactly (one coordinate, or four equal halves)
        if rng.random() < 0.5 or n < 4:
            x2 = np.zeros(n, dtype=np.complex128)
            x2[int(rng.integers(n))] = delta * units[int(rng.integers(len(units)))]
        else:
            x2 = np.zeros(n, dtype=np.complex128)
            idx = rng.choice(n, size=4, replace=False)
            for i in idx:
                x2[i] = 0.5 * delta * units[int(rng.integers(len(units)))]
        t2 = {"k": "huber", "delta": delta, "sep": False}
        if rng.random() < 0.5:
            # through a loss with identity operator and an offset
            y = G.dy(rng, (n,), cplx)
            t2 = {"k": "loss", "s": G.dyscalar(rng), "op": {"kind": "none", "m": n}, "y": G.enc(y), "f": t2}
            x2 = x2 + y
        _fn_case(ctx, model, t2, n, cplx, x2 if cplx else x2.real, tag="boundary")
        # zeros where the functional is smooth
        for leaf in ({"k": "sqL2"}, {"k": "huber", "delta": delta, "sep": True}, {"k": "zero"},
                     {"k": "huber", "delta": delta, "sep": False},
                     {"k": "mul", "c": 2.0, "side": "l", "f": {"k": "huber", "delta": delta, "sep": False}}):
            _fn_case(ctx, model, leaf, n, cplx, np.zeros(n), tag="boundary")


def _l21_groups(shape, axis):
    """group index of every entry (row-major) for L21Norm(l2_axis=axis): position along the axes that
    are NOT in l2_axis"""
    nd = len(shape)
    ax = tuple(range(nd)) if axis is None else ((axis,) if isinstance(axis, int) else tuple(axis))
    rest = [a for a in range(nd) if a not in ax]
    rshape = [shape[a] for a in rest]
    grp = []
    for idx in np.ndindex(*shape):
        g = 0
        for a, sz in zip(rest, rshape):
            g = g * sz + idx[a]
        grp.append(int(g))
    return grp, int(np.prod(rshape)) if rshape else 1


def stream_l21(ctx, model):
    """L21Norm on 2-D / 3-D arrays for int / tuple / None axes, with some groups identically zero
    (the guarded `_l2norm`: value 0 and gradient 0 on such a group, no NaN)"""
    import scico.numpy as snp
    from scico import functional

    rng = ctx.rng
    for _ in range(ctx.n(16, 120)):
        cplx = bool(rng.random() < 0.5)
        nd = int(rng.integers(2, 4))
        shape = tuple(int(rng.integers(1, 4)) for _ in range(nd))
        axes_opts = [None] + list(range(nd)) + ([(0, 1), (1, 2), (0, 2)] if nd == 3 else [(0, 1)])
        axis = axes_opts[int(rng.integers(len(axes_opts)))]
        grp, groups = _l21_groups(shape, axis)
        n = int(np.prod(shape))
        x = G.dy(rng, (n,), cplx, nz=True)
        zero_groups = []
        if rng.random() < 0.5 and groups > 1:
            zg = int(rng.integers(groups))
            zero_groups.append(zg)
            for i in range(n):
                if grp[i] == zg:
                    x[i] = 0.0
        t = {"k": "l21", "axis": axis, "groups": groups, "grp": grp}
        f = functional.L21Norm(l2_axis=axis)
        dt = np.complex128 if cplx else np.float64
        X = snp.array(np.asarray(x if cplx else x.real, dtype=dt).reshape(shape))
        got = model.call("fn", n=n, x=G.cv(x), f=G.to_model(t, n))
        g = np.asarray(f.grad(X)).ravel()
        mg = G.from_cv(got["grad"])
        ctx.case({"tag": "l21", "shape": list(shape), "axis": str(axis), "cplx": cplx, "zero_group": bool(zero_groups)},
                 ("l21", shape, str(axis), cplx, bool(zero_groups)))
        ctx.count("l21:axis=" + ("tuple" if isinstance(axis, tuple) else str(axis)))
        ctx.count(f"l21:ndim={nd}")
        if zero_groups:
            ctx.count("l21:with-zero-group")
        if not (common.close(float(f(X)), common.b2f(got["eval"]), TOLK) and common.allclose(g.real, mg.real, TOLK) and common.allclose(g.imag, mg.imag, TOLK)):
            case = {"shape": list(shape), "axis": axis, "x": G.enc(x), "cplx": cplx}

            def orc(c, f=f, X=X, shape=shape, zero_groups=zero_groups, grp=grp):
                gg = np.asarray(f.grad(X))
                if np.any(np.isnan(gg)):
                    return {"x": c["x"], "grad_has_nan": True}
                for i, idx in enumerate(np.ndindex(*shape)):
                    if grp[i] in zero_groups:
                        continue  # a kink: the l2 norm of a zero group is not differentiable
                    e = np.zeros(shape)
                    e[idx] = 1.0
                    fd = fd_directional(f, X, snp.array(e.astype(np.asarray(X).dtype)))
                    if abs(fd - float(np.real(gg[idx]))) > 1e-5 * (1 + abs(fd)):
                        return {"x": c["x"], "index": list(idx), "grad_component": float(np.real(gg[idx])), "finite_difference": fd}
                return None

            ctx.disagree("fn.l21", case, G.enc(g), G.enc(mg), oracle=orc)


def _tv_build(case):
    from scico import functional

    dt = np.complex128 if case["cplx"] else np.float64
    cls = functional.IsotropicTVNorm if case["iso"] else functional.AnisotropicTVNorm
    axes = case["axes"]
    return cls(circular=case["circular"], axes=None if axes is None else tuple(axes), input_shape=tuple(case["shape"]), input_dtype=dt)


def tv_oracle(case):
    """Re<f.grad(x), d> vs finite differences for the TV norm of the case (coordinate + random directions)"""
    import scico.numpy as snp

    common.setup_scico()
    f = _tv_build(case)
    shape, cplx = tuple(case["shape"]), case["cplx"]
    dt = np.complex128 if cplx else np.float64
    x = G.dec(case["x"], shape, cplx)
    X = snp.array(np.asarray(x, dtype=dt))
    g = np.asarray(f.grad(X))
    if np.any(np.isnan(g)):
        bad = nan_grad_but_differentiable(f, X, g, shape)
        return {"x": case["x"], "grad_is_nan_at": bad} if bad else None
    rr = np.random.Generator(np.random.PCG64(17))
    dirs = []
    for idx in np.ndindex(*shape):
        e = np.zeros(shape, dtype=dt)
        e[idx] = 1.0
        dirs.append(e)
        if cplx:
            dirs.append(1j * e)
    dirs += [np.asarray(G.dy(rr, shape, cplx), dtype=dt) for _ in range(3)]
    for d in dirs:
        fd = fd_directional(f, X, snp.array(d), 2.0**-12)
        ri = float(np.real(np.sum(np.conj(g) * d)))
        if abs(fd - ri) > 2e-5 * (1 + abs(fd) + abs(float(f(X)))):
            return {"x": case["x"], "d": G.enc(d), "re_inner_grad_d": ri, "finite_difference": fd}
    return None


def stream_tv(ctx, model):
    """AnisotropicTVNorm / IsotropicTVNorm = (l1 | l2,1 norm) o FiniteDifference: the dense matrix of the
    operator the object actually applies (`f.G`, extracted on the basis) goes to the model as
    `Loss(0, G, norm)`; value and gradient of the real object vs the model (theorems C07_scaled_sum,
    C07_group_norm_structural_zero, C07_l1_structural_zero: the zero-padded boundary differences of the
    non-circular forms are structural zeros)"""
    import scico.numpy as snp

    rng = ctx.rng
    for _ in range(ctx.n(24, 240)):
        cplx = bool(rng.random() < 0.4)
        dt = np.complex128 if cplx else np.float64
        nd = 1 if rng.random() < 0.25 else 2
        shape = tuple(int(rng.integers(2, 5)) for _ in range(nd))
        iso = bool(rng.random() < 0.5)
        circular = bool(rng.random() < 0.5)
        axes = None if (nd == 1 or rng.random() < 0.6) else [int(rng.integers(nd))]
        n = int(np.prod(shape))
        case = {"tag": "tv", "iso": iso, "circular": circular, "axes": axes, "shape": list(shape), "cplx": cplx}
        f = _tv_build(case)
        cols = []
        for j in range(n):
            e = np.zeros(n, dtype=dt)
            e[j] = 1.0
            out = f.G(snp.array(e.reshape(shape)))
            if hasattr(out, "arrays"):
                raise common.Infra("TVNorm.G returned a BlockArray")
            cols.append(np.asarray(out).ravel())
        Gm = np.stack(cols, axis=1)
        m = Gm.shape[0]
        structural = [bool(not np.any(Gm[i])) for i in range(m)]
        x = None
        for _try in range(20):
            xx = G.dy(rng, (n,), cplx, nz=True) + 2.0**-6 * np.arange(n)
            r = Gm @ xx
            if iso:
                gn = np.sqrt(np.array([np.sum(np.abs(r[p::n]) ** 2) for p in range(n)]))
                gs = [all(structural[p::n]) for p in range(n)]
                ok = all(s_ or v >= 1e-6 for v, s_ in zip(gn, gs))
            else:
                ok = all(s_ or abs(v) >= 1e-6 for v, s_ in zip(r, structural))
            if ok:
                x = xx
                break
        if x is None:
            ctx.count("tv:no-smooth-point")
            continue
        case["x"] = G.enc(x)
        inner = {"k": "l21", "axis": 0, "groups": n, "grp": [i % n for i in range(m)]} if iso else {"k": "l1"}
        t = {"k": "loss", "s": 1.0, "op": {"kind": "matrix", "m": m, "M": G.enc(Gm)}, "y": G.enc(np.zeros(m)), "f": inner}
        c = None
        if rng.random() < 0.4:
            c = G.dyscalar(rng)
            t = {"k": "mul", "c": c, "side": "l", "f": t}
        got = model.call("fn", n=n, x=G.cv(x), f=G.to_model(t, n))
        X = snp.array(np.asarray(x if cplx else x.real, dtype=dt).reshape(shape))
        fo = f if c is None else c * f
        val, g = float(fo(X)), np.asarray(fo.grad(X))
        ctx.case({k: v for k, v in case.items() if k != "x"} | {"scaled": c is not None},
                 ("tv", iso, circular, str(axes), shape, cplx, c is not None))
        ctx.count(f"tv:{'iso' if iso else 'aniso'}:{'circular' if circular else 'zero-padded'}")
        ctx.count("tv:structural-zero-rows", int(sum(structural)))
        if list(g.shape) != list(shape) or g.dtype != dt:
            ctx.disagree("tv.grad.shape", case, {"shape": list(g.shape), "dtype": str(g.dtype)}, {"shape": list(shape), "dtype": str(np.dtype(dt))}, oracle=tv_oracle)
            continue
        if not common.close(val, common.b2f(got["eval"]), TOLK):
            ctx.disagree("tv.eval", case, val, common.b2f(got["eval"]), oracle=tv_oracle)
            continue
        mg = G.from_cv(got["grad"])
        if c is not None:
            case = dict(case, scale=c)
        _cmp_vec(ctx, "tv.grad", case, g, mg, tv_oracle)


def stream_setdist(ctx, model):
    """SetDistance / SquaredSetDistance for a box (`clip`) and for a subspace (`P z = M z`) projection at points
    outside the set and (box) in its interior.  Near a point off the faces a box projection is affine,
    `P z = D z + b` (D = 0/1 diagonal of the coordinates that are not clipped), so the functional is the guarded
    square root of `‖(I-D) z - b‖²` resp. `0.5‖·‖²` there: the model expression `Loss(b, I-D, g)` with `g` the
    single-group guarded l2 norm (`L21Norm._l2norm` idiom, code after 8f5a90e) | `0.5 SquaredL2Norm` (theorems
    C07_scaled_sum / C07_group_norm_structural_zero / C07_set_distance / C07_set_distance_interior)."""
    import scico.numpy as snp
    from scico import functional

    rng = ctx.rng
    for _ in range(ctx.n(20, 120)):
        n = int(rng.integers(1, 5))
        squared = bool(rng.random() < 0.5)
        kind = "box" if rng.random() < 0.6 else "subspace"
        x = G.dy(rng, (n,), False, nz=True) + 2.0**-6
        interior = False
        if kind == "box":
            lo, hi = -0.5, 0.75
            if rng.random() < 0.3:
                x = 0.125 + x / 8.0  # interior of the box: the distance is identically 0 nearby
                interior = True
            elif not np.any((x < lo) | (x > hi)):
                x[int(rng.integers(n))] = 1.5
            if np.any(np.abs(x - lo) < 1e-6) or np.any(np.abs(x - hi) < 1e-6):
                continue
            D = np.diag(((x > lo) & (x < hi)).astype(np.float64))
            b = np.where(x <= lo, lo, np.where(x >= hi, hi, 0.0))
            proj = lambda v, lo=lo, hi=hi: snp.clip(v, lo, hi)  # noqa: E731
        else:
            v = G.dy(rng, (n,), False, nz=True)
            D = np.outer(v, v) / float(v @ v)  # orthogonal projector onto span(v)
            b = np.zeros(n)
            Dj = snp.array(D)
            proj = lambda z, Dj=Dj: Dj @ z  # noqa: E731
            if np.linalg.norm(x - D @ x) < 1e-3:
                continue
        A = np.eye(n) - D
        inner = {"k": "sqL2"} if squared else {"k": "l21", "axis": None, "groups": 1, "grp": [0] * n}
        t = {"k": "loss", "s": 0.5 if squared else 1.0, "op": {"kind": "matrix", "m": n, "M": G.enc(A)}, "y": G.enc(b), "f": inner}
        f = (functional.SquaredSetDistance if squared else functional.SetDistance)(proj)
        X = snp.array(x)
        got = model.call("fn", n=n, x=G.cv(x), f=G.to_model(t, n))
        ctx.case({"tag": "setdist", "kind": kind, "squared": squared, "n": n, "interior": interior}, ("setdist", kind, squared, n, interior))
        ctx.count(f"setdist:{kind}:{'squared' if squared else 'distance'}:{'interior' if interior else 'outside'}")

        def orc(c, f=f, X=X, n=n):
            gg = np.asarray(f.grad(X)).ravel()
            for i in range(n):
                e = np.zeros(n)
                e[i] = 1.0
                fd = fd_directional(f, X, snp.array(e), 2.0**-12)
                if not abs(fd - float(gg[i])) <= 1e-5 * (1 + abs(fd)):
                    return {"x": c["x"], "direction": i, "grad_component": float(gg[i]), "finite_difference": fd}
            return None

        case = {"kind": kind, "squared": squared, "x": G.enc(x)}
        if not common.close(float(f(X)), common.b2f(got["eval"]), TOLK):
            ctx.disagree("setdist.eval", case, float(f(X)), common.b2f(got["eval"]), oracle=orc)
            continue
        _cmp_vec(ctx, "setdist.grad", case, f.grad(X), G.from_cv(got["grad"]), orc)


def _linop_loss_build(case):
    """the scico loss of a `linop_loss` case (operator built with scico's own constructor)"""
    import scico.numpy as snp
    from scico import functional, linop, loss

    cplx, shape = case["cplx"], tuple(case["shape"])
    dt = np.complex128 if cplx else np.float64
    k = case["op"]
    if k == "dft":
        dt = np.complex64
    if k == "convolve":
        h = snp.array(np.asarray(G.dec(case["h"], tuple(case["hshape"]), cplx), dtype=dt))
        A = linop.Convolve(h=h, input_shape=shape, input_dtype=dt, mode=case["mode"])
    elif k == "circconv":
        h = snp.array(np.asarray(G.dec(case["h"], tuple(case["hshape"]), cplx), dtype=dt))
        A = linop.CircularConvolve(h=h, input_shape=shape, input_dtype=dt)
    elif k == "fd":
        A = linop.FiniteDifference(shape, input_dtype=dt, circular=case["circular"], append=None if case["circular"] else 0)
    elif k == "dft":
        A = linop.DFT(shape)  # DFT fixes its dtypes to complex64: binary32 data, tolerance 1e-4
    else:
        raise common.Infra(f"unknown operator kind {k}")
    oshape = A.output_shape
    m = int(np.prod(oshape))
    y = snp.array(np.asarray(G.dec(case["y"], None, True)[:m].reshape(oshape), dtype=A.output_dtype))
    if case["loss"] == "sqL2":
        f = loss.SquaredL2Loss(y=y, A=A, scale=case["s"])
    else:
        inner = functional.HuberNorm(1.0, separable=True) if case["loss"] == "huber" else functional.SquaredL2Norm()
        f = loss.Loss(y=y, A=A, f=inner, scale=case["s"])
    if case.get("c") is not None:
        f = case["c"] * f
    return f, A, y


def linop_loss_oracle(case):
    import scico.numpy as snp

    common.setup_scico()
    f, A, _ = _linop_loss_build(case)
    shape, cplx = tuple(case["shape"]), case["cplx"]
    single = case["op"] == "dft"
    dt = np.complex64 if single else (np.complex128 if cplx else np.float64)
    X = snp.array(np.asarray(G.dec(case["x"], shape, cplx), dtype=dt))
    g = np.asarray(f.grad(X))
    rr = np.random.Generator(np.random.PCG64(23))
    for _ in range(4):
        d = np.asarray(G.dy(rr, shape, cplx), dtype=dt)
        fd = fd_directional(f, X, snp.array(d), 2.0**-3 if single else 2.0**-9)
        ri = float(np.real(np.sum(np.conj(g) * d)))
        if abs(fd - ri) > (2e-2 if single else 1e-5) * (1 + abs(fd) + abs(float(f(X)))):
            return {"x": case["x"], "d": G.enc(d), "re_inner_grad_d": ri, "finite_difference": fd}
    return None


def stream_linop_loss(ctx, model):
    """losses composed with scico's own linear operators (Convolve, CircularConvolve, FiniteDifference, DFT at complex64): the dense
    matrix of the operator (extracted on the basis) goes to the model; value, gradient (= 2 s A^H W (Ax - y) for the
    squared loss) and Hessian of the real objects vs the model"""
    import scico.numpy as snp

    rng = ctx.rng
    for _ in range(ctx.n(14, 120)):
        opk = ["convolve", "circconv", "fd", "dft"][int(rng.integers(4))]
        cplx = True if opk == "dft" else bool(rng.random() < 0.5)
        dt = np.complex64 if opk == "dft" else (np.complex128 if cplx else np.float64)
        rt = 1e-4 if opk == "dft" else 1e-9
        shape = (int(rng.integers(2, 5)),) if rng.random() < 0.5 else (int(rng.integers(2, 4)), int(rng.integers(2, 4)))
        case = {"tag": "linop_loss", "op": opk, "cplx": cplx, "shape": list(shape), "s": G.dyscalar(rng),
                "loss": ["sqL2", "sqL2", "huber", "gen_sqL2"][int(rng.integers(4))],
                "c": G.dyscalar(rng) if rng.random() < 0.4 else None, "y": G.enc(G.dy(rng, (64,), True))}
        if opk in ("convolve", "circconv"):
            hshape = tuple(int(rng.integers(1, 3)) for _ in shape)
            case.update(h=G.enc(G.dy(rng, hshape, cplx)), hshape=list(hshape), mode=["full", "same", "valid"][int(rng.integers(3))])
        if opk == "fd":
            case["circular"] = bool(rng.random() < 0.5)
        try:
            f, A, y = _linop_loss_build(case)
        except Exception as e:  # noqa: BLE001
            ctx.count(f"linop_loss:construct-failed:{type(e).__name__}")
            continue
        n = int(np.prod(shape))
        cols = []
        for j in range(n):
            e = np.zeros(n, dtype=dt)
            e[j] = 1.0
            out = A(snp.array(e.reshape(shape)))
            if hasattr(out, "arrays"):
                cols = None
                break
            cols.append(np.asarray(out).ravel())
        if cols is None:
            ctx.count("linop_loss:block-output-skipped")
            continue
        Am = np.stack(cols, axis=1)
        m = Am.shape[0]
        if m == 0:
            continue
        yv = np.asarray(y).ravel()
        x = G.dy(rng, (n,), cplx, nz=True)
        seff = case["s"] * (case["c"] if case["c"] is not None else 1.0)
        opr = {"kind": "matrix", "m": m, "M": G.enc(Am)}
        if case["loss"] == "sqL2":
            t = {"k": "sqL2Loss", "s": seff, "op": opr, "y": G.enc(yv), "w": None}
        else:
            t = {"k": "loss", "s": seff, "op": opr, "y": G.enc(yv),
                 "f": {"k": "huber", "delta": 1.0, "sep": True} if case["loss"] == "huber" else {"k": "sqL2"}}
        mk, mb = G.margin(t, x)
        if 0.0 < mb < (1e-2 if opk == "dft" else 1e-6):
            continue
        case["x"] = G.enc(x)
        got = model.call("fn", n=n, x=G.cv(x), f=G.to_model(t, n))
        X = snp.array(np.asarray(x if cplx else x.real, dtype=dt).reshape(shape))
        ctx.case({k_: v for k_, v in case.items() if k_ not in ("x", "y", "h")}, ("linop_loss", opk, cplx, tuple(shape), case["loss"], case["c"] is not None, case.get("mode")))
        ctx.count(f"linop_loss:{opk}:{case['loss']}")
        if not common.close(float(f(X)), common.b2f(got["eval"]), TOLK, rt):
            ctx.disagree("linop_loss.eval", case, float(f(X)), common.b2f(got["eval"]), oracle=linop_loss_oracle)
            continue
        g = f.grad(X)
        if list(np.shape(g)) != list(shape) or np.asarray(g).dtype != dt:
            ctx.disagree("linop_loss.grad.shape", case, {"shape": list(np.shape(g)), "dtype": str(np.asarray(g).dtype)}, {"shape": list(shape), "dtype": str(np.dtype(dt))}, oracle=linop_loss_oracle)
            continue
        if not _cmp_vec(ctx, "linop_loss.grad", case, g, G.from_cv(got["grad"]), linop_loss_oracle, rt):
            continue
        if case["loss"] == "sqL2":
            goth = model.call("hess", n=n, m=m, s=f2b(seff), A=G.cmat(Am), w=[f2b(1.0)] * m, x=G.cv(x), y=G.cv(yv))
            H = f.hessian
            _cmp_vec(ctx, "linop_loss.hessian", case, H(X), G.from_cv(goth["apply"]), linop_loss_oracle, rt)


def stream_setdist_convex(ctx, model):
    """theorem C07_squared_distance_convex on the real code: for projections onto closed convex sets that are NOT
    affine (l2 ball, non-negative orthant, box; real and complex) the gradient JAX computes by differentiating
    THROUGH `proj` must be the documented x - P(x) for SquaredSetDistance (every x, points of the set included) and
    (x - P(x))/d(x) for SetDistance outside the set; P(x) is recomputed independently with numpy."""
    import jax.numpy as jnp
    import scico.numpy as snp
    from scico import functional

    rng = ctx.rng
    for _ in range(ctx.n(16, 120)):
        cplx = bool(rng.random() < 0.5)
        dt = np.complex128 if cplx else np.float64
        n = int(rng.integers(1, 5))
        kind = ["ball", "orthant", "box"][int(rng.integers(3))]
        x = G.dy(rng, (n,), cplx, nz=True) + 2.0**-6
        if kind == "ball":
            r = float(rng.choice([0.5, 1.0, 2.0]))
            proj = lambda v, r=r: v * jnp.minimum(1.0, r / jnp.sqrt(jnp.sum(jnp.abs(v) ** 2)))  # noqa: E731
            nx = float(np.linalg.norm(x))
            if abs(nx - r) < 1e-3:
                continue  # on the sphere P is not differentiable (the squared distance is, but JAX's contract for P fails)
            Px = x * min(1.0, r / nx)
        elif kind == "orthant":
            proj = (lambda v: jnp.maximum(jnp.real(v), 0.0) + 1j * jnp.imag(v)) if cplx else (lambda v: jnp.maximum(v, 0.0))
            if np.any(np.abs(x.real) < 1e-6):
                continue
            Px = np.maximum(x.real, 0.0) + 1j * x.imag
        else:
            lo, hi = -0.5, 0.75
            proj = (lambda v: jnp.clip(jnp.real(v), lo, hi) + 1j * jnp.clip(jnp.imag(v), lo, hi)) if cplx else (lambda v: jnp.clip(v, lo, hi))
            if any(abs(c - b) < 1e-6 for c in list(x.real) + list(x.imag) for b in (lo, hi)):
                continue
            Px = np.clip(x.real, lo, hi) + 1j * np.clip(x.imag, lo, hi)
        if not cplx:
            Px = Px.real
        X = snp.array(np.asarray(x if cplx else x.real, dtype=dt))
        res = (x if cplx else x.real) - Px
        dist = float(np.linalg.norm(res))
        ctx.case({"tag": "setdist_convex", "kind": kind, "cplx": cplx, "n": n, "inside": dist == 0.0}, ("setdist_convex", kind, cplx, n, dist == 0.0))
        ctx.count(f"setdist_convex:{kind}:{'inside' if dist == 0.0 else 'outside'}")
        case = {"kind": kind, "cplx": cplx, "x": G.enc(x)}
        fs = functional.SquaredSetDistance(proj)

        def orc(c, fs=fs, X=X, n=n, cplx=cplx, dt=dt):
            gg = np.asarray(fs.grad(X)).ravel()
            rr = np.random.Generator(np.random.PCG64(31))
            for _ in range(4):
                d = np.asarray(G.dy(rr, (n,), cplx), dtype=dt)
                fd = fd_directional(fs, X, snp.array(d), 2.0**-12)
                ri = float(np.real(np.sum(np.conj(gg) * d)))
                if not abs(fd - ri) <= 1e-5 * (1 + abs(fd)):
                    return {"x": c["x"], "d": G.enc(d), "re_inner_grad_d": ri, "finite_difference": fd}
            return None

        if not common.close(float(fs(X)), 0.5 * dist**2, TOLK):
            ctx.disagree("setdist_convex.eval", case, float(fs(X)), 0.5 * dist**2, oracle=orc)
            continue
        if not _cmp_vec(ctx, "setdist_convex.squared.grad", case, fs.grad(X), np.asarray(res, dtype=np.complex128), orc):
            continue
        fd_ = functional.SetDistance(proj)
        want = np.asarray(res / dist if dist > 0 else np.zeros(n), dtype=np.complex128)
        _cmp_vec(ctx, "setdist_convex.distance.grad", case, fd_.grad(X), want, orc)


def stream_nuclear(ctx, model):
    """NuclearNorm away from repeated / zero singular values: `grad` must be the polar factor U V^H of X (thin SVD
    computed independently with numpy), real and complex, square and rectangular; finite-difference oracle"""
    import scico.numpy as snp
    from scico import functional

    rng = ctx.rng
    f = functional.NuclearNorm()
    for _ in range(ctx.n(10, 80)):
        cplx = bool(rng.random() < 0.5)
        dt = np.complex128 if cplx else np.float64
        r, c = int(rng.integers(1, 4)), int(rng.integers(1, 4))
        x = G.dy(rng, (r, c), cplx, nz=True) + 2.0**-5 * np.arange(r * c).reshape(r, c)
        U, sv, Vh = np.linalg.svd(x if cplx else x.real, full_matrices=False)
        gaps = np.abs(np.diff(sv)) if sv.size > 1 else np.array([1.0])
        if sv.min() < 1e-2 or gaps.min() < 1e-2:
            ctx.count("nuclear:discarded-near-degenerate")
            continue
        X = snp.array(np.asarray(x if cplx else x.real, dtype=dt))
        case = {"shape": [r, c], "cplx": cplx, "x": G.enc(x)}
        ctx.case({"tag": "nuclear", "shape": [r, c], "cplx": cplx}, ("nuclear", r, c, cplx))
        ctx.count(f"nuclear:{'complex' if cplx else 'real'}")

        def orc(c_, X=X, r=r, c=c, cplx=cplx, dt=dt):
            gg = np.asarray(f.grad(X))
            rr = np.random.Generator(np.random.PCG64(37))
            for _ in range(4):
                d = np.asarray(G.dy(rr, (r, c), cplx), dtype=dt)
                fd = fd_directional(f, X, snp.array(d), 2.0**-12)
                ri = float(np.real(np.sum(np.conj(gg) * d)))
                if not abs(fd - ri) <= 1e-5 * (1 + abs(fd)):
                    return {"x": c_["x"], "d": G.enc(d), "re_inner_grad_d": ri, "finite_difference": fd}
            return None

        if not common.close(float(f(X)), float(np.sum(sv)), TOLK):
            ctx.disagree("nuclear.eval", case, float(f(X)), float(np.sum(sv)), oracle=orc)
            continue
        g = f.grad(X)
        if list(np.shape(g)) != [r, c] or np.asarray(g).dtype != dt:
            ctx.disagree("nuclear.grad.shape", case, {"shape": list(np.shape(g)), "dtype": str(np.asarray(g).dtype)}, {"shape": [r, c], "dtype": str(np.dtype(dt))}, oracle=orc)
            continue
        _cmp_vec(ctx, "nuclear.grad", case, g, np.asarray(U @ Vh, dtype=np.complex128).ravel(), orc, 1e-7)


def stream_defaults(ctx, model):
    """default argument values (table `Tables.defaults`, compared with the source by the generated obligation): the code
    is called with the argument OMITTED and compared with the model at the tabulated value"""
    import jax.numpy as jnp
    import scico
    import scico.numpy as snp
    from scico import functional, linop, loss
    from scico.function import Function

    rng = ctx.rng
    for _ in range(ctx.n(3, 20)):
        cplx = bool(rng.random() < 0.5)
        dt = np.complex128 if cplx else np.float64
        n = int(rng.integers(2, 5))
        x = G.dy(rng, (n,), cplx, nz=True)
        y = G.dy(rng, (n,), cplx)
        X, Y = snp.array(np.asarray(x if cplx else x.real, dtype=dt)), snp.array(np.asarray(y if cplx else y.real, dtype=dt))
        yr = [float(v) for v in np.abs(common.dyadic(rng, (n,), bits=2, scale=2.0))]
        Yr = snp.array(np.array(yr))
        ident = {"kind": "none", "m": n}
        Aid = linop.Identity((n,), input_dtype=dt)
        trials = [
            ("SquaredL2Loss(y)", loss.SquaredL2Loss(y=Y), {"k": "sqL2Loss", "s": 0.5, "op": ident, "y": G.enc(y), "w": None}),
            ("Loss(y, f=L1Norm)", loss.Loss(y=Y, f=functional.L1Norm()), {"k": "loss", "s": 1.0, "op": ident, "y": G.enc(y), "f": {"k": "l1"}}),
            ("SquaredL2AbsLoss(y, A)", loss.SquaredL2AbsLoss(y=Yr, A=Aid), {"k": "sqL2AbsLoss", "s": 0.5, "op": ident, "y": yr, "w": None}),
            ("SquaredL2SquaredAbsLoss(y, A)", loss.SquaredL2SquaredAbsLoss(y=Yr, A=Aid), {"k": "sqL2SqAbsLoss", "s": 0.5, "op": ident, "y": yr, "w": None}),
            ("HuberNorm()", functional.HuberNorm(), {"k": "huber", "delta": 1.0, "sep": True}),
            ("L1MinusL2Norm()", functional.L1MinusL2Norm(), {"k": "l1ml2", "beta": 1.0}),
        ]
        if not cplx:
            xp = np.abs(x.real) + 0.125
            trials.append(("PoissonLoss(y)", loss.PoissonLoss(y=snp.array(np.array([float(int(v * 2)) for v in yr]))),
                           {"k": "poisson", "s": 0.5, "op": ident, "y": [float(int(v * 2)) for v in yr]}))
        for name, f, t in trials:
            xx = (np.abs(x.real) + 0.125) if name.startswith("Poisson") else x
            XX = snp.array(np.asarray(xx if cplx else np.real(xx), dtype=dt))
            mk, mb = G.margin(t, xx)
            if mk < 1e-6 or (0.0 < mb < 1e-6):
                continue
            got = model.call("fn", n=n, x=G.cv(xx), f=G.to_model(t, n))
            case = {"tree": t, "n": n, "cplx": cplx, "x": G.enc(xx), "sizes": None, "call": name}
            ctx.case({"tag": "defaults", "call": name, "cplx": cplx}, ("defaults", name, cplx))
            ctx.count("defaults:" + name)
            if not common.close(float(f(XX)), common.b2f(got["eval"]), TOLK):
                ctx.disagree("defaults.eval", case, float(f(XX)), common.b2f(got["eval"]))
                continue
            _cmp_vec(ctx, "defaults.grad", case, f.grad(XX), G.from_cv(got["grad"]))
        # L21Norm() : l2_axis = 0
        r, c = int(rng.integers(1, 4)), int(rng.integers(1, 4))
        x2 = G.dy(rng, (r * c,), cplx, nz=True)
        grp, groups = _l21_groups((r, c), 0)
        got = model.call("fn", n=r * c, x=G.cv(x2), f=G.to_model({"k": "l21", "axis": 0, "groups": groups, "grp": grp}, r * c))
        f21 = functional.L21Norm()
        X2 = snp.array(np.asarray(x2 if cplx else x2.real, dtype=dt).reshape(r, c))
        ctx.case({"tag": "defaults", "call": "L21Norm()", "cplx": cplx}, ("defaults", "L21Norm()", cplx, r, c))
        _cmp_vec(ctx, "defaults.l21", {"shape": [r, c], "x": G.enc(x2)}, f21.grad(X2), G.from_cv(got["grad"]))
        # vjp / Function.vjp without `conjugate`, jacobian / Function.jacobian without `include_eval`, cvjp without jidx,
        # grad / value_and_grad without argnums / has_aux
        m = int(rng.integers(1, 4))
        A, B, C = G.dy(rng, (m, n), cplx), (G.dy(rng, (m, n), cplx) if cplx else np.zeros((m, n))), G.dy(rng, (m, n), cplx, bits=2, scale=1.0)
        c0, u, v, w = G.dy(rng, (m,), cplx), G.dy(rng, (n,), cplx), G.dy(rng, (n,), cplx), G.dy(rng, (m,), cplx)
        case = {"n": n, "m": m, "cplx": cplx, "A": G.enc(A), "B": G.enc(B), "C": G.enc(C), "c0": G.enc(c0), "u": G.enc(u), "v": G.enc(v),
                "w": G.enc(w), "conjugate": True, "include_eval": False}
        F, _, _, _, _ = _build_operator(case)
        U, V, W = (snp.array(np.asarray(a if cplx else a.real, dtype=dt)) for a in (u, v, w))
        gop = model.call("opjac", n=n, m=m, F={"A": G.cmat(A), "B": G.cmat(B), "C": G.cmat(C), "c": G.cv(c0)}, u=G.cv(u), v=G.cv(v), w=G.cv(w))
        ctx.case({"tag": "defaults", "call": "vjp/jacobian/cvjp", "cplx": cplx}, ("defaults", "jac", cplx, n, m))
        ctx.count("defaults:vjp/jacobian/cvjp")
        _cmp_vec(ctx, "defaults.vjp", case, F.vjp(U)[1](W), G.from_cv(gop["vjp"]), jac_oracle, exact=True)
        J = linop.jacobian(F, U)
        je = J(V)
        if hasattr(je, "arrays"):
            ctx.disagree("defaults.jacobian.blocks", case, len(je.arrays), 1, oracle=jac_oracle)
        else:
            _cmp_vec(ctx, "defaults.jacobian.eval", case, je, G.from_cv(gop["jvp"]), jac_oracle, exact=True)
            _cmp_vec(ctx, "defaults.jacobian.adj", case, J.adj(W), G.from_cv(gop["vjp"]), jac_oracle, exact=True)
        _cmp_vec(ctx, "defaults.cvjp", case, scico.cvjp(F, U)[1](W)[0], G.from_cv(gop["vjp"]), jac_oracle, exact=True)
        Fn_ = Function(((n,), (n,)), output_shape=(m,), eval_fn=lambda a, b: F(a) + 0 * jnp.sum(b), input_dtypes=dt, output_dtype=dt)
        _cmp_vec(ctx, "defaults.function.vjp", case, Fn_.vjp(0, U, V)[1](W), G.from_cv(gop["vjp"]), jac_oracle, exact=True)
        jf = Fn_.jacobian(0, U, V)(V)
        if hasattr(jf, "arrays"):
            ctx.disagree("defaults.function.jacobian.blocks", case, len(jf.arrays), 1, oracle=jac_oracle)
        # grad(fun)(p, q): argument 0, no aux
        fq = lambda p, q: jnp.sum(jnp.abs(p - 2 * q) ** 2)  # noqa: E731
        tq = {"k": "sqL2Loss", "s": 1.0, "op": ident, "y": G.enc(2 * y), "w": None}
        gq = G.from_cv(model.call("fn", n=n, x=G.cv(x), f=G.to_model(tq, n))["grad"])
        g0 = scico.grad(fq)(X, Y)
        vg = scico.value_and_grad(fq)(X, Y)
        if isinstance(g0, tuple) or not isinstance(vg, tuple) or len(vg) != 2 or isinstance(vg[1], tuple):
            ctx.disagree("defaults.grad.structure", {"n": n}, str(type(g0)), "one array (argnums=0, has_aux=False)")
        else:
            _cmp_vec(ctx, "defaults.grad.argnums", {"n": n, "x": G.enc(x), "y": G.enc(y)}, g0, gq)
            _cmp_vec(ctx, "defaults.value_and_grad.argnums", {"n": n, "x": G.enc(x), "y": G.enc(y)}, vg[1], gq)


def stream_default_precision(ctx, model):
    """the library's DEFAULT mode (a worker subprocess WITHOUT jax_enable_x64: float32 / complex64 data, weak Python scalars):
    functional expressions (value, grad, value_and_grad), scico.grad / value_and_grad / jacrev with argnums / has_aux on mixed
    real/complex arguments, Operator.jvp / vjp (both flags and default) / cvjp / linop.jacobian (+- include_eval).  Required:
    nothing raises, every gradient / cotangent has the dtype of the argument it belongs to (32 bit), values agree with the
    model (float64) at relative tolerance 1e-4 (vector-wise), conjugation conventions unchanged.  A value drift is reported only
    if the property oracle (Re<g,d> against a float32 central difference, computed by the worker) confirms it."""
    import os
    import subprocess
    import sys

    rng = ctx.rng
    items, meta = [], []
    tries = 0
    while sum(1 for i in items if i["kind"] == "fn") < ctx.n(30, 150) and tries < 2000:
        tries += 1
        cplx = bool(rng.random() < 0.5)
        n = int(rng.integers(1, 5))
        t = G.gen_tree(rng, n, cplx, int(rng.integers(0, 3)))
        if not cplx and rng.random() < 0.1:
            t = G.gen_poisson_tree(rng, n)
        x = _gen_point(rng, t, n, cplx)
        if x is None:
            continue
        mk, mb = G.margin(t, x)
        if mk < 5e-2 or mb < 5e-2:
            continue  # binary32 rounding / the difference stencil could change the branch
        got = model.call("fn", n=n, x=G.cv(x), f=G.to_model(t, n))
        mval, mg = common.b2f(got["eval"]), G.from_cv(got["grad"])
        if not (np.isfinite(mval) and abs(mval) < 1e4 and np.all(np.abs(mg) < 1e4)):
            continue
        dirs = [G.enc(G.dy(rng, (n,), cplx, bits=2, scale=1.0)) for _ in range(3)]
        items.append({"kind": "fn", "tree": t, "n": n, "cplx": cplx, "x": G.enc(x), "dirs": dirs})
        meta.append({"val": mval, "grad": mg})
    # api: one table, every dtype combination of the three arguments
    ns, m = [int(rng.integers(1, 3)) for _ in range(3)], int(rng.integers(1, 3))
    As, y = [G.dy(rng, (m, k), True, bits=2) for k in ns], G.dy(rng, (m,), True, bits=2)
    offs = np.concatenate([[0], np.cumsum(ns)])
    for kbits in range(8):
        kinds = [bool(kbits & 1), bool(kbits & 2), bool(kbits & 4)]
        xs = [G.dy(rng, (k,), c, bits=2) for k, c in zip(ns, kinds)]
        xcat = np.concatenate([np.asarray(v, dtype=np.complex128) for v in xs])
        tq = {"k": "sqL2Loss", "s": 1.0, "op": {"kind": "matrix", "m": m, "M": G.enc(np.hstack(As))}, "y": G.enc(y), "w": None}
        got = model.call("fn", n=int(sum(ns)), x=G.cv(xcat), f=G.to_model(tq, int(sum(ns))))
        mg, mval = G.from_cv(got["grad"]), common.b2f(got["eval"])
        rows = []
        for r in range(m):
            wk = [0.0] * m
            wk[r] = 1.0
            rows.append(G.from_cv(model.call("fn", n=int(sum(ns)), x=G.cv(xcat), f=G.to_model(dict(tq, w=wk), int(sum(ns))))["grad"]))
        for an in (1, (0, 1), (1, 2)):
            for aux in (False, True):
                for api in ("grad", "value_and_grad", "jacrev"):
                    if api == "jacrev" and aux:
                        continue
                    items.append({"kind": "api", "ns": ns, "m": m, "kinds": kinds, "As": [G.enc(a) for a in As], "y": G.enc(y),
                                  "xs": [G.enc(v) for v in xs], "argnums": list(an) if isinstance(an, tuple) else an, "has_aux": aux, "api": api})
                    meta.append({"val": mval, "grad": mg, "rows": rows, "offs": offs})
    for _ in range(ctx.n(10, 60)):
        cplx = bool(rng.random() < 0.6)
        n, m2 = int(rng.integers(1, 4)), int(rng.integers(1, 4))
        A, C = G.dy(rng, (m2, n), cplx, bits=2), G.dy(rng, (m2, n), cplx, bits=2, scale=1.0)
        B = G.dy(rng, (m2, n), cplx, bits=2) if (cplx and rng.random() < 0.5) else np.zeros((m2, n))
        c0, u, v, w = G.dy(rng, (m2,), cplx, bits=2), G.dy(rng, (n,), cplx, bits=2), G.dy(rng, (n,), cplx, bits=2), G.dy(rng, (m2,), cplx, bits=2)
        gop = model.call("opjac", n=n, m=m2, F={"A": G.cmat(A), "B": G.cmat(B), "C": G.cmat(C), "c": G.cv(c0)}, u=G.cv(u), v=G.cv(v), w=G.cv(w))
        items.append({"kind": "jac", "n": n, "m": m2, "cplx": cplx, "A": G.enc(A), "B": G.enc(B), "C": G.enc(C), "c0": G.enc(c0),
                      "u": G.enc(u), "v": G.enc(v), "w": G.enc(w)})
        meta.append({k_: G.from_cv(gop[k_]) for k_ in ("eval", "jvp", "vjp", "vjp_noconj")})
    p = subprocess.run([sys.executable, str(common.VERIF / "harness" / "autograd_f32_worker.py")],
                       input=json.dumps({"repo": str(common.REPO), "items": items}), capture_output=True, text=True,
                       env={k_: v_ for k_, v_ in os.environ.items() if k_ != "JAX_ENABLE_X64"})
    if p.returncode != 0:
        raise common.Infra("default-precision worker failed: " + p.stderr[-800:])
    results = json.loads(p.stdout)["results"]
    if len(results) != len(items):
        raise common.Infra("default-precision worker: result count mismatch")

    def near(a, b, k=16):
        a, b = np.asarray(a, dtype=np.complex128).ravel(), np.asarray(b, dtype=np.complex128).ravel()
        return a.shape == b.shape and (a.size == 0 or float(np.max(np.abs(a - b))) <= 1e-4 * k * (1.0 + float(np.max(np.abs(b)))))

    MODE = "default precision (jax_enable_x64 off)"
    for it, me, rec in zip(items, meta, results):
        kind = it["kind"]
        cdesc = {k_: v_ for k_, v_ in it.items() if k_ not in ("dirs",)}
        cdesc["mode"] = MODE
        ctx.case({"tag": "f32", "kind": kind, "cplx": it.get("cplx"), "kinds": G.kinds(it["tree"]) if kind == "fn" else it.get("kinds"),
                  "argnums": str(it.get("argnums")), "api": it.get("api"), "has_aux": it.get("has_aux")},
                 ("f32", kind, json.dumps({k_: it.get(k_) for k_ in ("cplx", "kinds", "argnums", "api", "has_aux", "n", "m")}, sort_keys=True),
                  tuple(G.kinds(it["tree"])) if kind == "fn" else None))
        ctx.count(f"f32:{kind}")
        if rec.get("raised"):
            ctx.disagree(f"f32.{kind}.raised", cdesc, rec, "a value, no error", oracle=lambda c, rec=rec: dict(rec, mode=MODE))
            continue
        if kind == "fn":
            want_dt = "complex64" if it["cplx"] else "float32"
            if not (rec["grad_dtype"] == rec["x_dtype"] == rec["vg_dtype"] == want_dt):
                ctx.disagree("f32.fn.dtype", cdesc, {k_: rec[k_] for k_ in ("grad_dtype", "vg_dtype", "x_dtype")}, want_dt,
                             oracle=lambda c, rec=rec: {"mode": MODE, "grad_dtype": rec["grad_dtype"], "argument_dtype": rec["x_dtype"]})
                continue
            ok = near([rec["val"]], [me["val"]]) and near([rec["vg_val"]], [me["val"]]) and near(G.dec(rec["grad"]), me["grad"]) and near(G.dec(rec["vg_grad"]), me["grad"])
            if not ok:
                pr = rec.get("property") or {}
                if pr.get("rel_err", 0.0) > 2e-2 or not np.isfinite(pr.get("rel_err", 0.0)):
                    ctx.disagree("f32.fn.grad", cdesc, {"val": rec["val"], "grad": rec["grad"]}, {"val": me["val"], "grad": G.enc(me["grad"])},
                                 oracle=lambda c, pr=pr: dict(pr, mode=MODE, x=c["x"]))
                else:
                    ctx.count("f32:value-drift-not-confirmed-by-the-property-oracle")
        elif kind == "api":
            an = it["argnums"]
            sel = an if isinstance(an, list) else [an]
            offs = me["offs"]
            bad = None
            if len(rec["grads"]) != len(sel):
                bad = {"what": "number of gradients", "got": len(rec["grads"]), "want": len(sel)}
            for i, genc, gdt in zip(sel, rec["grads"], rec["grad_dtypes"]):
                if bad:
                    break
                if gdt != rec["arg_dtypes"][i]:
                    bad = {"what": "dtype of the gradient of argument %d" % i, "got": gdt, "want": rec["arg_dtypes"][i]}
                    break
                g = G.dec(genc)
                if it["api"] == "jacrev":
                    want = np.concatenate([r_[offs[i]:offs[i + 1]] for r_ in me["rows"]])
                else:
                    want = me["grad"][offs[i]:offs[i + 1]]
                if not it["kinds"][i]:
                    want = want.real
                if not near(g, want):
                    bad = {"what": "gradient of argument %d" % i, "got": genc, "want": G.enc(want)}
            if not bad and rec["val"] is not None and not near([rec["val"]], [me["val"]]):
                bad = {"what": "value", "got": rec["val"], "want": me["val"]}
            if bad:
                # the function is a quadratic: the model gradient IS the derivative (C07_quadratic); a wrong value / conjugation
                # at 1e-4 relative is a failure of the property, no further oracle needed
                ctx.disagree("f32.api", cdesc, bad, "model", oracle=lambda c, bad=bad: dict(bad, mode=MODE))
        else:
            want_dt = "complex64" if it["cplx"] else "float32"
            dts_ = [rec["jvp_dtype"], rec["vjp_dtype_True"], rec["vjp_dtype_False"], rec["cvjp_dtype"]] + rec["jdtypes_False"] + rec["jdtypes_True"]
            bad = None
            if any(d_ != want_dt for d_ in dts_):
                bad = {"what": "dtype", "got": sorted(set(dts_)), "want": want_dt}
            checks = [("value", rec["value"], me["eval"]), ("jvp", rec["jvp"], me["jvp"]), ("vjp(conjugate=True)", rec["vjp_True"], me["vjp"]),
                      ("vjp(conjugate=False)", rec["vjp_False"], me["vjp_noconj"]), ("vjp()", rec["vjp_default"], me["vjp"]), ("cvjp", rec["cvjp"], me["vjp"]),
                      ("jacobian.eval", rec["jeval_False"][-1], me["jvp"]), ("jacobian.adj", rec["jadj_False"][-1], me["vjp"]),
                      ("jacobian(include_eval).eval[1]", rec["jeval_True"][-1], me["jvp"]), ("jacobian(include_eval).adj[1]", rec["jadj_True"][-1], me["vjp"]),
                      ("jacobian(include_eval).eval[0]", rec["jeval_True"][0], me["eval"]), ("jacobian(include_eval).adj[0]", rec["jadj_True"][0], me["eval"])]
            if not bad and (len(rec["jeval_False"]) != 1 or len(rec["jeval_True"]) != 2 or len(rec["jadj_True"]) != 2):
                bad = {"what": "block count"}
            for nm, a, b in checks:
                if bad:
                    break
                if not near(G.dec(a), b):
                    bad = {"what": nm, "got": a, "want": G.enc(b)}
            if bad:
                ctx.disagree("f32.jac", cdesc, bad, "model (Op.jvp is the derivative, C07_operator_jacobian)", oracle=lambda c, bad=bad: dict(bad, mode=MODE))


def stream_kinks(ctx, model):
    """L1Norm at points WITH zero coordinates (no gradient exists there): what `grad` returns must be a sub-gradient
    (theorem C07_l1_kink_subgradient): entries x_i/|x_i| where x_i != 0 (= the model), modulus <= 1 where x_i = 0
    (JAX: 0 for complex arrays = the model's value, 1 for real arrays), and the sub-gradient inequality itself on
    random z.  Also c*L1Norm (c > 0) and L1Norm inside a Loss with identity operator (kink at x = y)."""
    import scico.numpy as snp
    from scico import functional, loss

    rng = ctx.rng
    for _ in range(ctx.n(12, 100)):
        cplx = bool(rng.random() < 0.5)
        dt = np.complex128 if cplx else np.float64
        n = int(rng.integers(1, 6))
        x = G.dy(rng, (n,), cplx, nz=True)
        zi = [i for i in range(n) if rng.random() < 0.5] or [int(rng.integers(n))]
        for i in zi:
            x[i] = 0.0
        variant = int(rng.integers(3))
        c = G.dyscalar(rng, True)
        y = G.dy(rng, (n,), cplx)
        if variant == 0:
            f, scale, shift = functional.L1Norm(), 1.0, np.zeros(n)
        elif variant == 1:
            f, scale, shift = c * functional.L1Norm(), c, np.zeros(n)
        else:
            f, scale, shift = loss.Loss(y=snp.array(np.asarray(y if cplx else y.real, dtype=dt)), f=functional.L1Norm(), scale=c), c, (y if cplx else y.real)
        xa = x + shift  # the kink of the loss is at x = y
        X = snp.array(np.asarray(xa if cplx else np.real(xa), dtype=dt))
        g = np.asarray(f.grad(X)).ravel().astype(np.complex128)
        got = model.call("fn", n=n, x=G.cv(x), f={"k": "l1"})
        mg = scale * G.from_cv(got["grad"])
        case = {"variant": variant, "cplx": cplx, "x": G.enc(xa), "scale": scale, "zero_coordinates": zi}
        ctx.case({"tag": "kinks", "variant": variant, "cplx": cplx, "n": n, "zeros": len(zi)}, ("kinks", variant, cplx, n, len(zi)))
        ctx.count(f"kinks:{'complex' if cplx else 'real'}:variant={variant}")
        nz = [i for i in range(n) if i not in zi]
        bad = None
        if nz and not (common.allclose(g[nz].real, mg[nz].real, TOLK) and common.allclose(g[nz].imag, mg[nz].imag, TOLK)):
            bad = {"what": "entries at non-zero coordinates differ from x_i/|x_i|", "grad": G.enc(g), "model": G.enc(mg)}
        elif np.any(np.isnan(g)) or np.any(np.abs(g[zi]) > scale * (1 + 1e-12)):
            bad = {"what": "entry at a zero coordinate is not in the unit disc (not a sub-gradient)", "grad": G.enc(g)}
        elif cplx and np.any(g[zi] != 0):
            ctx.count("kinks:complex-zero-entry-nonzero")  # allowed by the theorem; JAX's convention today is 0
        if bad is None:
            for _ in range(4):
                z = G.dy(rng, (n,), cplx)
                Z = snp.array(np.asarray(z if cplx else z.real, dtype=dt))
                lhs = float(f(X)) + float(np.real(np.sum(np.conj(g) * (np.asarray(Z).ravel() - np.asarray(X).ravel()))))
                if lhs > float(f(Z)) + 1e-9 * (1 + abs(lhs)):
                    bad = {"what": "sub-gradient inequality f(z) >= f(x) + Re<g, z-x> fails", "z": G.enc(z), "f(x)+Re<g,z-x>": lhs, "f(z)": float(f(Z))}
                    break
        if bad is not None:
            ctx.disagree("kinks.l1.subgradient", case, bad, "C07_l1_kink_subgradient", oracle=lambda c_, bad=bad: dict(bad, x=c_["x"]))


def stream_div_reject(ctx, model):
    """`f / c` exists for losses only"""
    rng = ctx.rng
    for _ in range(ctx.n(8, 30)):
        n = int(rng.integers(1, 4))
        t = G.gen_leaf(rng, n) if rng.random() < 0.5 else {"k": "mul", "c": 2.0, "side": "l", "f": G.gen_leaf(rng, n)}
        if rng.random() < 0.3:
            t = G.gen_lossnode(rng, n, False, 1)
        f = G.build(t, n, False)
        try:
            f / 2.0
            impl = "ok"
        except Exception as e:  # noqa: BLE001
            impl = common.err_kind(e)
        try:
            model.call("div_ok", n=n, f=G.to_model(t, n), c=f2b(2.0))
            m = "ok"
        except ModelErr as e:
            m = e.kind
        ctx.case({"tag": "div", "kinds": G.kinds(t)}, None)
        ctx.count(f"div:{m}")
        if impl != m:
            ctx.disagree("fn.div.reject", {"tree": t, "n": n}, impl, m)


# --------------------------------------------------------------------------------------------
# Jacobian products


def _basis(n, cplx):
    """e_1..e_n, then (complex) i e_1..i e_n - the order of the [re; im] stacking of `_real_rep`"""
    out = []
    for i in range(n):
        e = np.zeros(n, dtype=np.complex128 if cplx else np.float64)
        e[i] = 1.0
        out.append(e)
    if cplx:
        out += [1j * e for e in out[:n]]
    return out


def _real_rep(vecs_in, vecs_out):
    """matrix of a real-linear map given its values on the real basis: columns = [re; im] of outputs"""
    cols = [np.concatenate([np.real(v), np.imag(v)]) for v in vecs_out]
    return np.stack(cols, axis=1)


def jac_oracle(case):
    """property on the implementation: jvp = finite difference of F; <w, J v> = <Gmap w, v> (Re)"""
    import scico.numpy as snp

    common.setup_scico()
    F, u, v, w, cplx = _build_operator(case)
    dti = np.dtype(F.input_dtype)
    dto = np.dtype(F.output_dtype)
    cast = lambda a, d: snp.array(np.asarray(a if np.iscomplexobj(np.zeros(1, d)) else np.real(a), dtype=d))  # noqa: E731
    U, V, W = cast(u, dti), cast(v, dti), cast(w, dto)
    Fu, Jv = F.jvp(U, V)
    h = 2.0**-10
    fd = (np.asarray(F(U + h * V)) - np.asarray(F(U - h * V))) / (2 * h)
    if not np.allclose(np.asarray(Jv), fd, rtol=1e-5, atol=1e-5):
        return {"u": G.enc(u), "v": G.enc(v), "jvp": G.enc(np.asarray(Jv)), "finite_difference": G.enc(fd)}
    import scico
    from scico import linop

    Gm = F.vjp(U, conjugate=True)[1]
    lhs = float(np.real(np.sum(np.conj(np.asarray(W)) * np.asarray(Jv))))
    inc_ = bool(case.get("include_eval")) and not case.get("mixed")  # mixed dtypes + include_eval: adj is rejected (recorded)
    Jop = linop.jacobian(F, U, include_eval=inc_)
    ja, je = Jop.adj(W), Jop(V)
    ja = ja.arrays[-1] if hasattr(ja, "arrays") else ja
    je = je.arrays[-1] if hasattr(je, "arrays") else je
    for name, gw in (("vjp(w)", Gm(W)), ("cvjp(w)", scico.cvjp(F, U)[1](W)[0]), ("jacobian.adj(w)", ja)):
        gw = np.asarray(gw)
        if gw.shape != np.asarray(V).shape:
            return {"u": G.enc(u), "w": G.enc(w), name + ".shape": list(gw.shape), "expected": list(np.asarray(V).shape)}
        rhs = float(np.real(np.sum(np.conj(gw) * np.asarray(V))))
        if abs(lhs - rhs) > 1e-8 * (1 + abs(lhs)):
            return {"u": G.enc(u), "v": G.enc(v), "w": G.enc(w), "Re<w,Jv>": lhs, f"Re<{name},v>": rhs}
    if np.asarray(je).shape != fd.shape or not np.allclose(np.asarray(je), fd, rtol=1e-5, atol=1e-5):
        return {"u": G.enc(u), "v": G.enc(v), "jacobian(v)": G.enc(np.asarray(je)), "finite_difference": G.enc(fd)}
    return None


def _build_operator(case):
    import jax.numpy as jnp
    from scico.operator import Operator

    n, m, cplx = case["n"], case["m"], case["cplx"]
    mixed = case.get("mixed")
    if mixed == "r2c":
        # real input array, complex output:  F(x) = A x + (C x)^2 + c  with complex A, C, c
        A, C = (G.dec(case[k], (m, n), True) for k in ("A", "C"))
        c0 = G.dec(case["c0"], (m,), True)
        Aj, Cj, cj = (jnp.asarray(a, dtype=np.complex128) for a in (A, C, c0))
        F = Operator((n,), output_shape=(m,), eval_fn=lambda x: Aj @ x + (Cj @ x) ** 2 + cj,
                     input_dtype=np.float64, output_dtype=np.complex128)
        return F, G.dec(case["u"], (n,)), G.dec(case["v"], (n,)), G.dec(case["w"], (m,)), cplx
    if mixed == "c2r":
        # complex input, real output:  F(x) = Re(A x) + |C x|^2
        A, C = (G.dec(case[k], (m, n), True) for k in ("A", "C"))
        Aj, Cj = (jnp.asarray(a, dtype=np.complex128) for a in (A, C))
        F = Operator((n,), output_shape=(m,), eval_fn=lambda x: jnp.real(Aj @ x) + jnp.abs(Cj @ x) ** 2,
                     input_dtype=np.complex128, output_dtype=np.float64)
        return F, G.dec(case["u"], (n,)), G.dec(case["v"], (n,)), G.dec(case["w"], (m,)), cplx
    dt = np.complex128 if cplx else np.float64
    A, B, C = (G.dec(case[k], (m, n), cplx) for k in ("A", "B", "C"))
    c0 = G.dec(case["c0"], (m,), cplx)
    Aj, Bj, Cj, cj = (jnp.asarray(a, dtype=dt) for a in (A, B, C, c0))

    def ev(x):
        return Aj @ x + Bj @ jnp.conj(x) + (Cj @ x) ** 2 + cj

    F = Operator((n,), output_shape=(m,), eval_fn=ev, input_dtype=dt, output_dtype=dt)
    return F, G.dec(case["u"], (n,)), G.dec(case["v"], (n,)), G.dec(case["w"], (m,)), cplx


def _cmp_vec(ctx, op, case, impl, mod, oracle=None, rtol=1e-9, exact=False):
    """`exact`: polynomial expressions of dyadic data with few bits are computed without rounding by the code and by the
    model (every intermediate value is representable, so summation order / fused multiply-add do not matter):
    the comparison is then equality"""
    impl = np.asarray(impl, dtype=np.complex128).ravel()
    if exact:
        mod = np.asarray(mod, dtype=np.complex128).ravel()
        ctx.count("exact-comparisons")
        if impl.shape != mod.shape or not np.array_equal(impl, mod):
            ctx.disagree(op, case, G.enc(impl), G.enc(mod), oracle=oracle, note="exact (dyadic) comparison")
            return False
        return True
    if impl.shape != mod.shape or not (common.allclose(impl.real, mod.real, TOLK, rtol) and common.allclose(impl.imag, mod.imag, TOLK, rtol)):
        ctx.disagree(op, case, G.enc(impl), G.enc(mod), oracle=oracle)
        return False
    return True


def stream_jac(ctx, model):
    import scico
    import scico.numpy as snp
    from scico import linop

    rng = ctx.rng
    for _ in range(ctx.n(40, 400)):
        cplx = bool(rng.random() < 0.6)
        n, m = int(rng.integers(1, 5)), int(rng.integers(1, 5))
        dt = np.complex128 if cplx else np.float64
        holo = (not cplx) or rng.random() < 0.5
        A = G.dy(rng, (m, n), cplx)
        B = np.zeros((m, n)) if holo else G.dy(rng, (m, n), cplx)
        C = G.dy(rng, (m, n), cplx) if rng.random() < 0.7 else np.zeros((m, n))
        c0 = G.dy(rng, (m,), cplx)
        u, v, w = G.dy(rng, (n,), cplx), G.dy(rng, (n,), cplx), G.dy(rng, (m,), cplx)
        conjugate = bool(rng.random() < 0.6)
        inc = bool(rng.random() < 0.5)
        case = {"n": n, "m": m, "cplx": cplx, "A": G.enc(A), "B": G.enc(B), "C": G.enc(C), "c0": G.enc(c0),
                "u": G.enc(u), "v": G.enc(v), "w": G.enc(w), "conjugate": conjugate, "include_eval": inc}
        F, _, _, _, _ = _build_operator(case)
        U, V, W = (snp.array(np.asarray(a, dtype=dt)) for a in (u, v, w))
        P = A + 2 * np.diag(C @ u) @ C
        Fu_np = A @ u + B @ np.conj(u) + (C @ u) ** 2 + c0
        got = model.call("jac", n=n, m=m, P=G.cmat(P), Q=G.cmat(B), Fu=G.cv(Fu_np), v=G.cv(v), w=G.cv(w),
                         conjugate=conjugate, include_eval=inc)
        ctx.case({"tag": "jac", "n": n, "m": m, "cplx": cplx, "holomorphic": holo, "conjugate": conjugate, "include_eval": inc},
                 ("jac", n, m, cplx, holo, conjugate, inc, bool(np.any(C))))
        ctx.count(f"jac:{'c128' if cplx else 'f64'}:{'holo' if holo else 'nonholo'}")
        ctx.count(f"jac:conjugate={conjugate}")
        ctx.count(f"jac:include_eval={inc}")
        Fu, Jv = F.jvp(U, V)
        ok = _cmp_vec(ctx, "jac.jvp.value", case, Fu, G.from_cv(G.cv(Fu_np)), jac_oracle)
        ok = ok and _cmp_vec(ctx, "jac.jvp", case, Jv, G.from_cv(got["jvp"]), jac_oracle)
        Fu2, Gmap = F.vjp(U, conjugate=conjugate)
        ok = ok and _cmp_vec(ctx, "jac.vjp", case, Gmap(W), G.from_cv(got["vjp"]), jac_oracle)
        # the operator family inside the model (theorem C07_operator_jacobian: Op.jvp IS the derivative of
        # Op.eval, Op.vjpT its transpose): value, jvp and Gmap computed by the model from A, B, C, c
        gop = model.call("opjac", n=n, m=m, F={"A": G.cmat(A), "B": G.cmat(B), "C": G.cmat(C), "c": G.cv(c0)},
                         u=G.cv(u), v=G.cv(v), w=G.cv(w))
        ok = ok and _cmp_vec(ctx, "jac.op.value", case, Fu, G.from_cv(gop["eval"]), jac_oracle, exact=True)
        ok = ok and _cmp_vec(ctx, "jac.op.jvp", case, Jv, G.from_cv(gop["jvp"]), jac_oracle, exact=True)
        ok = ok and _cmp_vec(ctx, "jac.op.vjp", case, Gmap(W), G.from_cv(gop["vjp" if conjugate else "vjp_noconj"]), jac_oracle, exact=True)
        po, cv_ = scico.cvjp(F, U)
        ok = ok and _cmp_vec(ctx, "jac.cvjp", case, cv_(W)[0], G.from_cv(got["cvjp"]), jac_oracle)
        J = linop.jacobian(F, U, include_eval=inc)
        je, ja = J(V), J.adj(W)
        for name, impl, modb in (("jac.jacobian.eval", je, got["jeval"]["blocks"]), ("jac.jacobian.adj", ja, got["jadj"]["blocks"])):
            blocks = list(impl.arrays) if hasattr(impl, "arrays") else [impl]
            if len(blocks) != len(modb):
                ctx.disagree(name + ".blocks", case, len(blocks), len(modb), oracle=jac_oracle)
                ok = False
                continue
            for b, mb_ in zip(blocks, modb):
                ok = ok and _cmp_vec(ctx, name, case, b, G.from_cv(mb_), jac_oracle)
        if not ok:
            continue
        # finite hypotheses on the basis: dense real-linear Jacobian and Gmap as matrices
        bi, bo = _basis(n, cplx), _basis(m, cplx)
        Jcols = [np.asarray(F.jvp(U, snp.array(np.asarray(e, dtype=dt)))[1]) for e in bi]
        Gc = F.vjp(U, conjugate=True)[1]
        Gcols = [np.asarray(Gc(snp.array(np.asarray(e, dtype=dt)))) for e in bo]
        if cplx:
            JR, GR = _real_rep(bi, Jcols), _real_rep(bo, Gcols)
        else:
            JR, GR = np.real(np.stack(Jcols, axis=1)), np.real(np.stack(Gcols, axis=1))
        ctx.count("jac:basis-pairs", JR.size)
        if not common.allclose(GR, JR.T, TOLK):
            ctx.disagree("jac.adjoint.matrix", case, GR.tolist(), JR.T.tolist(), oracle=jac_oracle)
        if holo and cplx:
            Jc = np.stack([Jcols[j] for j in range(n)], axis=1)
            Gcm = np.stack([Gcols[i] for i in range(m)], axis=1)
            if not (common.allclose(Gcm.real, Jc.conj().T.real, TOLK) and common.allclose(Gcm.imag, Jc.conj().T.imag, TOLK)):
                ctx.disagree("jac.adjoint.matrix.complex", case, G.enc(Gcm), G.enc(Jc.conj().T), oracle=jac_oracle)
            # without the flag: plain transpose
            Gt = F.vjp(U, conjugate=False)[1]
            Gtm = np.stack([np.asarray(Gt(snp.array(np.asarray(bo[i], dtype=dt)))) for i in range(m)], axis=1)
            if not (common.allclose(Gtm.real, Jc.T.real, TOLK) and common.allclose(Gtm.imag, Jc.T.imag, TOLK)):
                ctx.disagree("jac.transpose.matrix", case, G.enc(Gtm), G.enc(Jc.T), oracle=jac_oracle)


def _build_block_operator(case):
    import jax.numpy as jnp
    from scico.operator import Operator

    n1, n2, m, cplx = case["n1"], case["n2"], case["m"], case["cplx"]
    dt = np.complex128 if cplx else np.float64
    A1, B1 = (jnp.asarray(G.dec(case[k], (m, n1), cplx), dtype=dt) for k in ("A1", "B1"))
    C2 = jnp.asarray(G.dec(case["C2"], (m, n2), cplx), dtype=dt)
    c0 = jnp.asarray(G.dec(case["c0"], (m,), cplx), dtype=dt)
    return Operator(((n1,), (n2,)), output_shape=(m,), eval_fn=lambda x: A1 @ x[0] + B1 @ jnp.conj(x[0]) + (C2 @ x[1]) ** 2 + c0,
                    input_dtype=dt, output_dtype=dt)


def jac_block_oracle(case):
    """block-array argument: jvp = finite difference of F; Re<w, J v> = Re<Gmap w, v> summed over the blocks"""
    import scico.numpy as snp

    common.setup_scico()
    F = _build_block_operator(case)
    n1, cplx = case["n1"], case["cplx"]
    dt = np.complex128 if cplx else np.float64
    u, v, w = (G.dec(case[k], None, cplx) for k in ("u", "v", "w"))
    mkb = lambda a: snp.blockarray([np.asarray(a[:n1], dtype=dt), np.asarray(a[n1:], dtype=dt)])  # noqa: E731
    U, V, W = mkb(u), mkb(v), snp.array(np.asarray(w, dtype=dt))
    Fu, Jv = F.jvp(U, V)
    h = 2.0**-10
    fd = (np.asarray(F(U + h * V)) - np.asarray(F(U - h * V))) / (2 * h)
    if not np.allclose(np.asarray(Jv), fd, rtol=1e-5, atol=1e-5):
        return {"u": G.enc(u), "v": G.enc(v), "jvp": G.enc(np.asarray(Jv)), "finite_difference": G.enc(fd)}
    gw = F.vjp(U, conjugate=True)[1](W)
    lhs = float(np.real(np.sum(np.conj(np.asarray(W)) * np.asarray(Jv))))
    rhs = re_inner(gw, V) if hasattr(gw, "arrays") else float("nan")
    if not abs(lhs - rhs) <= 1e-8 * (1 + abs(lhs)):
        return {"u": G.enc(u), "v": G.enc(v), "w": G.enc(w), "Re<w,Jv>": lhs, "Re<vjp(w),v>": rhs}
    return None


def stream_jac_block(ctx, model):
    """operator with a BlockArray argument: `Operator.jvp/vjp`, `linop.jacobian` (tree_map / `G(v)[0]` on blocks);
    the model sees the concatenated vector and the operator family `Op` with block-structured A, B, C"""
    import scico.numpy as snp
    from scico import linop

    rng = ctx.rng
    for _ in range(ctx.n(10, 80)):
        cplx = bool(rng.random() < 0.6)
        dt = np.complex128 if cplx else np.float64
        n1, n2, m = int(rng.integers(1, 4)), int(rng.integers(1, 4)), int(rng.integers(1, 4))
        n = n1 + n2
        A1 = G.dy(rng, (m, n1), cplx)
        B1 = G.dy(rng, (m, n1), cplx, scale=1.0) if (cplx and rng.random() < 0.5) else np.zeros((m, n1))
        C2 = G.dy(rng, (m, n2), cplx, bits=2, scale=1.0)
        c0 = G.dy(rng, (m,), cplx)
        u, v, w = G.dy(rng, (n,), cplx), G.dy(rng, (n,), cplx), G.dy(rng, (m,), cplx)
        conjugate = bool(rng.random() < 0.6)
        case = {"n1": n1, "n2": n2, "m": m, "cplx": cplx, "A1": G.enc(A1), "B1": G.enc(B1), "C2": G.enc(C2), "c0": G.enc(c0),
                "u": G.enc(u), "v": G.enc(v), "w": G.enc(w), "conjugate": conjugate}
        F = _build_block_operator(case)
        mkb = lambda a: snp.blockarray([np.asarray(a[:n1], dtype=dt), np.asarray(a[n1:], dtype=dt)])  # noqa: E731
        U, V, W = mkb(u), mkb(v), snp.array(np.asarray(w, dtype=dt))
        z1, z2 = np.zeros((m, n1)), np.zeros((m, n2))
        gop = model.call("opjac", n=n, m=m, F={"A": G.cmat(np.hstack([A1, z2])), "B": G.cmat(np.hstack([B1, z2])),
                                                  "C": G.cmat(np.hstack([z1, C2])), "c": G.cv(c0)}, u=G.cv(u), v=G.cv(v), w=G.cv(w))
        ctx.case({"tag": "jac_block", "n1": n1, "n2": n2, "m": m, "cplx": cplx, "conjugate": conjugate},
                 ("jac_block", n1, n2, m, cplx, conjugate, bool(np.any(B1))))
        ctx.count(f"jac_block:{'c128' if cplx else 'f64'}:conjugate={conjugate}")
        Fu, Jv = F.jvp(U, V)
        ok = _cmp_vec(ctx, "jac_block.value", case, Fu, G.from_cv(gop["eval"]), jac_block_oracle, exact=True)
        ok = ok and _cmp_vec(ctx, "jac_block.jvp", case, Jv, G.from_cv(gop["jvp"]), jac_block_oracle, exact=True)
        gw = F.vjp(U, conjugate=conjugate)[1](W)
        if not hasattr(gw, "arrays") or _shape_sig(gw) != _shape_sig(U) or _dtype_of(gw) != _dtype_of(U):
            ctx.disagree("jac_block.vjp.structure", case, {"shape": _shape_sig(gw), "dtype": _dtype_of(gw)}, {"shape": _shape_sig(U), "dtype": _dtype_of(U)}, oracle=jac_block_oracle)
            continue
        ok = ok and _cmp_vec(ctx, "jac_block.vjp", case, G.flat_blocks(gw), G.from_cv(gop["vjp" if conjugate else "vjp_noconj"]), jac_block_oracle)
        J = linop.jacobian(F, U)
        ok = ok and _cmp_vec(ctx, "jac_block.jacobian.eval", case, J(V), G.from_cv(gop["jvp"]), jac_block_oracle)
        ok = ok and _cmp_vec(ctx, "jac_block.jacobian.adj", case, G.flat_blocks(J.adj(W)), G.from_cv(gop["vjp"]), jac_block_oracle)


def _gen_optree(rng, n, m, cplx, depth):
    """random operator expression with input size n, output size m: recipe + numpy-free description"""
    def leaf(a, b):
        F = G.gen_nlop(rng, a, cplx)
        F["m"] = b
        z = lambda: G.enc(G.dy(rng, (b, a), cplx, bits=2, scale=1.0))  # noqa: E731
        F.update(A=G.enc(G.dy(rng, (b, a), cplx, bits=2, scale=1.0)), B=z() if (cplx and rng.random() < 0.5) else G.enc(np.zeros((b, a))),
                 C=z() if rng.random() < 0.6 else G.enc(np.zeros((b, a))), c=G.enc(G.dy(rng, (b,), cplx, bits=2, scale=1.0)))
        return {"k": "leaf", "n": a, "m": b, "F": F}

    if depth <= 0:
        return leaf(n, m)
    r = rng.random()
    if r < 0.35:
        mid = int(rng.integers(1, 4))
        return {"k": "comp", "mid": mid, "F": _gen_optree(rng, mid, m, cplx, depth - 1), "G": _gen_optree(rng, n, mid, cplx, depth - 1)}
    if r < 0.55:
        return {"k": "add", "F": _gen_optree(rng, n, m, cplx, depth - 1), "G": _gen_optree(rng, n, m, cplx, depth - 1)}
    if r < 0.7:
        return {"k": "sub", "F": _gen_optree(rng, n, m, cplx, depth - 1), "G": _gen_optree(rng, n, m, cplx, depth - 1)}
    if r < 0.9:
        a = complex(float(common.dyadic(rng, (), bits=1, scale=2.0)) or 0.5, float(common.dyadic(rng, (), bits=1, scale=2.0)) if cplx else 0.0)
        return {"k": "smul", "a": [a.real, a.imag], "side": "l" if rng.random() < 0.5 else "r", "F": _gen_optree(rng, n, m, cplx, depth - 1)}
    return {"k": "neg", "F": _gen_optree(rng, n, m, cplx, depth - 1)}


def _build_optree(t, cplx):
    """recipe -> scico Operator, built with the operator algebra itself (`F(G)`, `+`, `-`, `*`, unary `-`)"""
    k = t["k"]
    if k == "leaf":
        return G.build_nlop(t["F"], t["n"], cplx)
    if k == "comp":
        return _build_optree(t["F"], cplx)(_build_optree(t["G"], cplx))
    if k == "add":
        return _build_optree(t["F"], cplx) + _build_optree(t["G"], cplx)
    if k == "sub":
        return _build_optree(t["F"], cplx) - _build_optree(t["G"], cplx)
    if k == "smul":
        a = complex(*t["a"]) if cplx else t["a"][0]
        F = _build_optree(t["F"], cplx)
        return a * F if t["side"] == "l" else F * a
    return -_build_optree(t["F"], cplx)


def _optree_model(t):
    k = t["k"]
    if k == "leaf":
        return {"k": "leaf", "F": G.nlop_model(t["F"], t["n"])}
    if k == "comp":
        return {"k": "comp", "mid": t["mid"], "F": _optree_model(t["F"]), "G": _optree_model(t["G"])}
    if k in ("add", "sub"):
        return {"k": k, "F": _optree_model(t["F"]), "G": _optree_model(t["G"])}
    if k == "smul":
        return {"k": "smul", "re": f2b(t["a"][0]), "im": f2b(t["a"][1]), "F": _optree_model(t["F"])}
    return {"k": "neg", "F": _optree_model(t["F"])}


def _optree_kinds(t, acc=None):
    acc = [] if acc is None else acc
    acc.append(t["k"])
    for key in ("F", "G"):
        if key in t and isinstance(t[key], dict) and "k" in t[key]:
            _optree_kinds(t[key], acc)
    return acc


def optree_oracle(case):
    """jvp of the composed operator = finite difference; Re<w, J v> = Re<Gmap w, v> for vjp and linop.jacobian"""
    import scico.numpy as snp
    from scico import linop

    common.setup_scico()
    cplx, n, m = case["cplx"], case["n"], case["m"]
    dt = np.complex128 if cplx else np.float64
    T = _build_optree(case["tree"], cplx)
    u, v, w = (G.dec(case[k], None, cplx) for k in ("u", "v", "w"))
    U, V, W = (snp.array(np.asarray(a, dtype=dt)) for a in (u, v, w))
    Fu, Jv = T.jvp(U, V)
    h = 2.0**-12
    fd = (np.asarray(T(U + h * V)) - np.asarray(T(U - h * V))) / (2 * h)
    if not np.allclose(np.asarray(Jv), fd, rtol=1e-4, atol=1e-4 * (1 + np.max(np.abs(fd)))):
        return {"u": G.enc(u), "v": G.enc(v), "jvp": G.enc(np.asarray(Jv)), "finite_difference": G.enc(fd)}
    lhs = float(np.real(np.sum(np.conj(np.asarray(W)) * np.asarray(Jv))))
    for name, gw in (("vjp(w)", T.vjp(U, conjugate=True)[1](W)), ("jacobian.adj(w)", linop.jacobian(T, U).adj(W))):
        rhs = float(np.real(np.sum(np.conj(np.asarray(gw)) * np.asarray(V))))
        if abs(lhs - rhs) > 1e-8 * (1 + abs(lhs)):
            return {"u": G.enc(u), "v": G.enc(v), "w": G.enc(w), "Re<w,Jv>": lhs, f"Re<{name},v>": rhs}
    return None


def stream_optree(ctx, model):
    """operators built with the operator algebra (`F(G)`, `F+G`, `F-G`, `a*F`, `F*a`, `-F`; theorem C07_operator_tree):
    value, jvp, vjp (both flags), linop.jacobian eval/adj of the composed Operator vs the model's chain/sum rules"""
    import scico.numpy as snp
    from scico import linop

    rng = ctx.rng
    for _ in range(ctx.n(16, 160)):
        cplx = bool(rng.random() < 0.6)
        dt = np.complex128 if cplx else np.float64
        n, m = int(rng.integers(1, 4)), int(rng.integers(1, 4))
        # depth <= 2 in BOTH tiers: the executable model represents vectors as closures, so `comp` re-evaluates its inner
        # tree once per entry read and the cost grows exponentially with the nesting (a depth-3 chain of compositions took
        # the driver > 40 CPU-minutes); the theorem C07_operator_tree is for every depth, the tie samples depth 1..2
        t = _gen_optree(rng, n, m, cplx, int(rng.integers(1, 3)))
        u, v, w = G.dy(rng, (n,), cplx, bits=2, scale=1.0), G.dy(rng, (n,), cplx, bits=2, scale=1.0), G.dy(rng, (m,), cplx, bits=2, scale=1.0)
        conjugate = bool(rng.random() < 0.6)
        case = {"tree": t, "n": n, "m": m, "cplx": cplx, "u": G.enc(u), "v": G.enc(v), "w": G.enc(w), "conjugate": conjugate}
        T = _build_optree(t, cplx)
        got = model.call("optree", n=n, m=m, T=_optree_model(t), u=G.cv(u), v=G.cv(v), w=G.cv(w))
        ks = _optree_kinds(t)
        ctx.case({"tag": "optree", "kinds": ks, "cplx": cplx, "conjugate": conjugate}, ("optree", tuple(ks), cplx, n, m, conjugate))
        for kk in set(ks):
            ctx.count(f"optree:kind={kk}")
        U, V, W = (snp.array(np.asarray(a if cplx else a.real, dtype=dt)) for a in (u, v, w))
        Fu, Jv = T.jvp(U, V)
        big = float(np.max(np.abs(G.from_cv(got["eval"])))) if m else 0.0
        if big > 1e6:
            ctx.count("optree:discarded-large")
            continue
        ok = _cmp_vec(ctx, "optree.value", case, T(U), G.from_cv(got["eval"]), optree_oracle)
        ok = ok and _cmp_vec(ctx, "optree.jvp.value", case, Fu, G.from_cv(got["eval"]), optree_oracle)
        ok = ok and _cmp_vec(ctx, "optree.jvp", case, Jv, G.from_cv(got["jvp"]), optree_oracle)
        ok = ok and _cmp_vec(ctx, "optree.vjp", case, T.vjp(U, conjugate=conjugate)[1](W), G.from_cv(got["vjp" if conjugate else "vjp_noconj"]), optree_oracle)
        J = linop.jacobian(T, U)
        ok = ok and _cmp_vec(ctx, "optree.jacobian.eval", case, J(V), G.from_cv(got["jvp"]), optree_oracle)
        ok = ok and _cmp_vec(ctx, "optree.jacobian.adj", case, J.adj(W), G.from_cv(got["vjp"]), optree_oracle)


def stream_jac_mixed(ctx, model):
    """operators whose input and output dtypes differ in kind: real -> complex (a real image and
    complex measurements) and complex -> real"""
    import scico
    import scico.numpy as snp
    from scico import linop

    rng = ctx.rng
    for _ in range(ctx.n(24, 200)):
        mixed = "r2c" if rng.random() < 0.6 else "c2r"
        n, m = int(rng.integers(1, 5)), int(rng.integers(1, 5))
        A, C = G.dy(rng, (m, n), True), (G.dy(rng, (m, n), True) if rng.random() < 0.6 else np.zeros((m, n), dtype=np.complex128))
        c0 = G.dy(rng, (m,), True)
        rin, rout = mixed == "r2c", mixed == "c2r"
        u, v = G.dy(rng, (n,), not rin), G.dy(rng, (n,), not rin)
        w = G.dy(rng, (m,), not rout)
        conjugate = bool(rng.random() < 0.7)
        inc = bool(rng.random() < 0.5)
        case = {"n": n, "m": m, "cplx": True, "mixed": mixed, "A": G.enc(A), "B": G.enc(np.zeros((m, n))), "C": G.enc(C),
                "c0": G.enc(c0), "u": G.enc(u), "v": G.enc(v), "w": G.enc(w), "conjugate": conjugate, "include_eval": inc}
        F, _, _, _, _ = _build_operator(case)
        dti, dto = np.dtype(F.input_dtype), np.dtype(F.output_dtype)
        U, V, W = snp.array(np.asarray(u, dtype=dti)), snp.array(np.asarray(v, dtype=dti)), snp.array(np.asarray(w, dtype=dto))
        if mixed == "r2c":
            P, Q = A + 2 * np.diag(C @ u) @ C, np.zeros((m, n))
            Fu_np = A @ u + (C @ u) ** 2 + c0
        else:
            # J d = Re(A d) + 2 Re(conj(Cu) . C d) = P d + Q conj d with P = (A + 2 diag(conj(Cu)) C)/2, Q = conj(P)
            P = 0.5 * (A + 2 * np.diag(np.conj(C @ u)) @ C)
            Q = np.conj(P)
            Fu_np = np.real(A @ u) + np.abs(C @ u) ** 2
        got = model.call("jac", n=n, m=m, P=G.cmat(P), Q=G.cmat(Q), Fu=G.cv(Fu_np), v=G.cv(v), w=G.cv(w),
                         conjugate=conjugate, include_eval=inc, real_input=rin, in_complex=not rin, out_complex=not rout)
        ctx.case({"tag": "jac_mixed", "kind": mixed, "n": n, "m": m, "conjugate": conjugate, "include_eval": inc},
                 ("jac_mixed", mixed, n, m, conjugate, inc, bool(np.any(C))))
        ctx.count(f"jac_mixed:{mixed}:conjugate={conjugate}")
        Fu, Jv = F.jvp(U, V)
        ok = _cmp_vec(ctx, "jac.jvp.value", case, Fu, G.from_cv(G.cv(Fu_np)), jac_oracle)
        ok = ok and _cmp_vec(ctx, "jac.jvp", case, Jv, G.from_cv(got["jvp"]), jac_oracle)
        Gw = F.vjp(U, conjugate=conjugate)[1](W)
        if np.asarray(Gw).dtype != dti:
            ctx.disagree("jac.vjp.dtype", case, str(np.asarray(Gw).dtype), str(dti), oracle=jac_oracle)
            continue
        ok = ok and _cmp_vec(ctx, "jac.vjp", case, Gw, G.from_cv(got["vjp"]), jac_oracle)
        ok = ok and _cmp_vec(ctx, "jac.cvjp", case, scico.cvjp(F, U)[1](W)[0], G.from_cv(got["cvjp"]), jac_oracle)
        J = linop.jacobian(F, U, include_eval=inc)
        try:
            jadj_impl = J.adj(W)
            jadj_err = None
        except Exception as e:  # noqa: BLE001
            jadj_impl, jadj_err = None, common.err_kind(e)
        if "err" in got["jadj"] and jadj_err is None:
            # the recorded rejection (jacobian-include-eval-mixed-dtype) no longer happens: then the value must be what
            # the unrestricted model says, (F(u), Gmap(w))
            ctx.count("known-finding-no-longer-fails:" + JACMIX)
            got2 = model.call("jac", n=n, m=m, P=G.cmat(P), Q=G.cmat(Q), Fu=G.cv(Fu_np), v=G.cv(v), w=G.cv(w),
                              conjugate=conjugate, include_eval=inc, real_input=rin)
            pairs = (("jac.jacobian.eval", J(V), got["jeval"]["blocks"]), ("jac.jacobian.adj", jadj_impl, got2["jadj"]["blocks"]))
        elif "err" in got["jadj"] or jadj_err is not None:
            ctx.count("jac_mixed:include_eval-adj-rejected")
            if got["jadj"].get("err") != jadj_err:
                ctx.disagree("jac.jacobian.adj.reject", case, jadj_err, got["jadj"].get("err", "a value"), oracle=jac_oracle)
                continue
            pairs = (("jac.jacobian.eval", J(V), got["jeval"]["blocks"]),)
        else:
            pairs = (("jac.jacobian.eval", J(V), got["jeval"]["blocks"]), ("jac.jacobian.adj", jadj_impl, got["jadj"]["blocks"]))
        for name, impl, modb in pairs:
            blocks = list(impl.arrays) if hasattr(impl, "arrays") else [impl]
            if len(blocks) != len(modb):
                ctx.disagree(name + ".blocks", case, len(blocks), len(modb), oracle=jac_oracle)
                continue
            for b, mb_ in zip(blocks, modb):
                ok = ok and _cmp_vec(ctx, name, case, b, G.from_cv(mb_), jac_oracle)
        if not ok:
            continue
        # adjointness exactly as (real) matrices on all basis directions of the declared dtypes
        bi, bo = _basis(n, not rin), _basis(m, not rout)
        Jcols = [np.asarray(F.jvp(U, snp.array(np.asarray(e, dtype=dti)))[1]) for e in bi]
        Gc = F.vjp(U, conjugate=True)[1]
        Gcols = [np.asarray(Gc(snp.array(np.asarray(e, dtype=dto)))) for e in bo]
        JR = _real_rep(bi, Jcols) if not rout else np.real(np.stack(Jcols, axis=1))
        GR = _real_rep(bo, Gcols) if not rin else np.real(np.stack(Gcols, axis=1))
        ctx.count("jac:basis-pairs", JR.size)
        if not common.allclose(GR, JR.T, TOLK):
            ctx.disagree("jac.adjoint.matrix", case, GR.tolist(), JR.T.tolist(), oracle=jac_oracle)


def stream_function(ctx, model):
    """Function.jvp / vjp / jacobian over argument slots; cvjp with jidx; slot plumbing labels"""
    import jax.numpy as jnp
    import scico
    import scico.numpy as snp
    from scico.function import Function

    rng = ctx.rng
    for _ in range(ctx.n(25, 250)):
        cplx = bool(rng.random() < 0.5)
        dt = np.complex128 if cplx else np.float64
        k = int(rng.integers(2, 4))
        m = int(rng.integers(1, 4))
        ns = [int(rng.integers(1, 4)) for _ in range(k)]
        As = [G.dy(rng, (m, ns[s]), cplx) for s in range(k)]
        xs = [G.dy(rng, (ns[s],), cplx) for s in range(k)]
        idx = int(rng.integers(k))
        v, w = G.dy(rng, (ns[idx],), cplx), G.dy(rng, (m,), cplx)
        conjugate = bool(rng.random() < 0.6)
        inc = bool(rng.random() < 0.5)
        Aj = [jnp.asarray(a, dtype=dt) for a in As]

        def ev(*args, Aj=Aj):
            out = Aj[0] @ args[0]
            for s in range(1, len(Aj)):
                out = out * (Aj[s] @ args[s])
            return out

        Fn = Function(tuple((n_,) for n_ in ns), output_shape=(m,), eval_fn=ev, input_dtypes=dt, output_dtype=dt)
        X = [snp.array(np.asarray(x, dtype=dt)) for x in xs]
        V, W = snp.array(np.asarray(v, dtype=dt)), snp.array(np.asarray(w, dtype=dt))
        others = np.ones(m, dtype=np.complex128)
        for s in range(k):
            if s != idx:
                others = others * (As[s] @ xs[s])
        P = np.diag(others) @ As[idx]
        Fu_np = others * (As[idx] @ xs[idx])
        case = {"tag": "function", "k": k, "m": m, "ns": ns, "index": idx, "cplx": cplx, "As": [G.enc(a) for a in As],
                "xs": [G.enc(x) for x in xs], "v": G.enc(v), "w": G.enc(w), "conjugate": conjugate, "include_eval": inc}
        got = model.call("jac", n=ns[idx], m=m, P=G.cmat(P), Q=G.cmat(np.zeros((m, ns[idx]))), Fu=G.cv(Fu_np),
                         v=G.cv(v), w=G.cv(w), conjugate=conjugate, include_eval=inc)
        ctx.case({"tag": "function", "k": k, "index": idx, "cplx": cplx, "conjugate": conjugate, "include_eval": inc},
                 ("function", k, idx, cplx, conjugate, inc, tuple(ns), m))
        ctx.count(f"function:arity={k}:index={idx}")

        def forc(c, Fn=Fn, X=X, V=V, W=W, idx=idx, inc=inc):
            """jvp in slot idx = finite difference of the function in that slot; value = F(*args);
            vjp(conjugate=True) adjoint to it"""
            h = 2.0**-10
            Xp = list(X)
            Xm = list(X)
            Xp[idx] = X[idx] + h * V
            Xm[idx] = X[idx] - h * V
            fd = (np.asarray(Fn(*Xp)) - np.asarray(Fn(*Xm))) / (2 * h)
            val, jv = Fn.jvp(idx, V, *X)
            if not np.allclose(np.asarray(val), np.asarray(Fn(*X)), rtol=1e-9, atol=1e-9):
                return {"index": idx, "jvp_value": G.enc(np.asarray(val)), "F(*args)": G.enc(np.asarray(Fn(*X)))}
            if np.asarray(jv).shape != fd.shape or not np.allclose(np.asarray(jv), fd, rtol=1e-5, atol=1e-5):
                return {"index": idx, "jvp": G.enc(np.asarray(jv)), "finite_difference_in_slot": G.enc(fd)}
            gw = np.asarray(Fn.vjp(idx, *X, conjugate=True)[1](W))
            lhs = float(np.real(np.sum(np.conj(np.asarray(W)) * fd)))
            rhs = float(np.real(np.sum(np.conj(gw) * np.asarray(V)))) if gw.shape == np.asarray(V).shape else float("nan")
            if not abs(lhs - rhs) <= 1e-5 * (1 + abs(lhs)):
                return {"index": idx, "Re<w,J v>": lhs, "Re<vjp(w),v>": rhs}
            # Function.jacobian(index, *args, include_eval): Jacobian block = finite difference in slot idx, evaluation
            # block = F(*args), adj block adjoint to it
            try:
                Jf = Fn.jacobian(idx, *X, include_eval=inc)
                je_, ja_ = Jf(V), Jf.adj(W)
            except Exception as e:  # noqa: BLE001
                return {"index": idx, "include_eval": inc, "jacobian_raised": repr(e)[:200]}
            jb = list(je_.arrays) if hasattr(je_, "arrays") else [je_]
            ab = list(ja_.arrays) if hasattr(ja_, "arrays") else [ja_]
            if np.asarray(jb[-1]).shape != fd.shape or not np.allclose(np.asarray(jb[-1]), fd, rtol=1e-5, atol=1e-5):
                return {"index": idx, "include_eval": inc, "jacobian(v)": G.enc(np.asarray(jb[-1])), "finite_difference_in_slot": G.enc(fd)}
            if inc and not np.allclose(np.asarray(jb[0]), np.asarray(Fn(*X)), rtol=1e-9, atol=1e-9):
                return {"index": idx, "include_eval": inc, "evaluation_block": G.enc(np.asarray(jb[0])), "F(*args)": G.enc(np.asarray(Fn(*X)))}
            ra = float(np.real(np.sum(np.conj(np.asarray(ab[-1])) * np.asarray(V)))) if np.asarray(ab[-1]).shape == np.asarray(V).shape else float("nan")
            if not abs(lhs - ra) <= 1e-5 * (1 + abs(lhs)):
                return {"index": idx, "include_eval": inc, "Re<w,J v>": lhs, "Re<jacobian.adj(w),v>": ra}
            # conjugate=False: the plain transpose (the product function is holomorphic): sum (G w)_i v_i = sum w_i (J v)_i
            gt = np.asarray(Fn.vjp(idx, *X, conjugate=False)[1](W))
            lt = complex(np.sum(np.asarray(W) * fd))
            rt = complex(np.sum(gt * np.asarray(V))) if gt.shape == np.asarray(V).shape else complex("nan")
            if not abs(lt - rt) <= 1e-5 * (1 + abs(lt)):
                return {"index": idx, "conjugate": False, "sum w_i (J v)_i": [lt.real, lt.imag], "sum vjp(w)_i v_i": [rt.real, rt.imag]}
            return None

        Fu, Jv = Fn.jvp(idx, V, *X)
        ok = _cmp_vec(ctx, "function.jvp.value", case, Fu, G.from_cv(G.cv(Fu_np)), forc)
        ok = ok and _cmp_vec(ctx, "function.jvp", case, Jv, G.from_cv(got["jvp"]), forc)
        Fu2, Gmap = Fn.vjp(idx, *X, conjugate=conjugate)
        ok = ok and _cmp_vec(ctx, "function.vjp", case, Gmap(W), G.from_cv(got["vjp"]), forc)
        try:
            J = Fn.jacobian(idx, *X, include_eval=inc)
            jpairs = (("function.jacobian.eval", J(V), got["jeval"]["blocks"]), ("function.jacobian.adj", J.adj(W), got["jadj"]["blocks"]))
        except Exception as e:  # noqa: BLE001
            ctx.disagree("function.jacobian.raised", case, repr(e)[:200], "model: a value, no error", oracle=forc)
            continue
        for name, impl, modb in jpairs:
            blocks = list(impl.arrays) if hasattr(impl, "arrays") else [impl]
            if len(blocks) != len(modb):
                ctx.disagree(name + ".blocks", case, len(blocks), len(modb), oracle=forc)
                continue
            for b, mb_ in zip(blocks, modb):
                ok = ok and _cmp_vec(ctx, name, case, b, G.from_cv(mb_), forc)
        po, cvj = scico.cvjp(ev, *X, jidx=idx)
        ok = ok and _cmp_vec(ctx, "cvjp.jidx.value", case, po, G.from_cv(G.cv(Fu_np)))
        ok = ok and _cmp_vec(ctx, "cvjp.jidx", case, cvj(W)[0], G.from_cv(got["cvjp"]))
    # slot plumbing: which argument list does the underlying function receive?
    for k in range(1, 5):
        for idx in range(k):
            labels = [int(v) for v in rng.integers(1, 9, size=k)]
            var = 9
            got = model.call("args", index=idx, args=labels, var=var)
            weights = [10.0**p for p in range(k)]

            def evl(*args):
                out = 0.0
                for p, a in enumerate(args):
                    out = out + weights[p] * a
                return out

            Fl = Function(tuple((1,) for _ in range(k)), output_shape=(1,), eval_fn=evl, input_dtypes=np.float64, output_dtype=np.float64)
            args = [snp.array(np.array([float(l)])) for l in labels]
            fix = args[:idx] + args[idx + 1 :]
            val = float(np.asarray(Fl.slice(idx, *fix)(snp.array(np.array([float(var)]))))[0])
            want = sum(weights[p] * l for p, l in enumerate(got["slice"]))
            ctx.case({"tag": "args", "k": k, "index": idx}, ("args", k, idx))
            ctx.count("args:slice")
            if got["fix"] != labels[:idx] + labels[idx + 1 :] or abs(val - want) > 1e-9:
                ctx.disagree("args.slice", {"k": k, "index": idx, "labels": labels}, val, want)
            po, _ = scico.cvjp(evl, *args, jidx=idx)
            # cvjp evaluates fun at the primals (slot idx = its own primal)
            got2 = model.call("args", index=idx, args=labels, var=labels[idx])
            want2 = None if got2["cvjp"] is None else sum(weights[p] * l for p, l in enumerate(got2["cvjp"]))
            if want2 is None or abs(float(np.asarray(po)[0]) - want2) > 1e-9:
                ctx.disagree("args.cvjp", {"k": k, "index": idx, "labels": labels}, float(np.asarray(po)[0]), want2)


# --------------------------------------------------------------------------------------------
# Hessian of the squared l2 loss and the exact expansion


def _build_hess_obj(case):
    """the loss of a `hess` case, built the way the stream builds it: optionally the Hessian of the
    base loss is taken (and used) *before* the scaled copy is made"""
    t, n, cplx = case["tree"], case["n"], case["cplx"]
    if t["k"] == "mul" and case.get("touch"):
        base = G.build(t["f"], n, cplx)
        _ = base.hessian
        return t["c"] * base if t["side"] == "l" else base * t["c"]
    f = G.build(t, n, cplx)
    if case.get("touch"):
        _ = f.hessian
    return f


def hess_oracle(case):
    import scico.numpy as snp

    common.setup_scico()
    n, cplx = case["n"], case["cplx"]
    f = _build_hess_obj(case)
    dt = np.complex128 if cplx else np.float64
    x, d = G.dec(case["x"], (n,), cplx), G.dec(case["d"], (n,), cplx)
    X, D = snp.array(np.asarray(x, dtype=dt)), snp.array(np.asarray(d, dtype=dt))
    H = f.hessian
    lhs = float(f(X + D))
    rhs = float(f(X)) + re_inner(f.grad(X), D) + 0.5 * re_inner(H(D), D)
    if abs(lhs - rhs) > 1e-8 * (1 + abs(lhs)):
        return {"x": G.enc(x), "d": G.enc(d), "f(x+d)": lhs, "f(x)+Re<g,d>+0.5Re<Hd,d>": rhs}
    # second difference along d
    h = 2.0**-4
    sd = (float(f(X + h * D)) - 2 * float(f(X)) + float(f(X - h * D))) / (h * h)
    hd = re_inner(H(D), D)
    if abs(sd - hd) > 1e-7 * (1 + abs(hd)):
        return {"x": G.enc(x), "d": G.enc(d), "second_difference": sd, "Re<Hd,d>": hd}
    return None


def stream_hess(ctx, model):
    import scico.numpy as snp

    rng = ctx.rng
    for _ in range(ctx.n(30, 300)):
        cplx = bool(rng.random() < 0.5)
        dt = np.complex128 if cplx else np.float64
        n = int(rng.integers(1, 5))
        op = G.gen_op(rng, n, cplx)
        while op["kind"] == "none" and rng.random() < 0.5:
            op = G.gen_op(rng, n, cplx)
        m = op["m"]
        w = None if rng.random() < 0.3 else [float(v) for v in np.abs(common.dyadic(rng, (m,), bits=2, scale=2.0))]
        s = G.dyscalar(rng)
        t = {"k": "sqL2Loss", "s": s, "op": op, "y": G.enc(G.dy(rng, (m,), cplx)), "w": w}
        scaled = rng.random() < 0.5
        c = G.dyscalar(rng)
        tt = {"k": "mul", "c": c, "side": "r", "f": t} if scaled else t
        x, d = G.dy(rng, (n,), cplx), G.dy(rng, (n,), cplx)
        touch = bool(rng.random() < 0.7)
        case = {"tree": tt, "n": n, "cplx": cplx, "x": G.enc(x), "d": G.enc(d), "touch": touch}
        f = _build_hess_obj(case)
        ctx.count(f"hess:hessian-taken-before-scaling={touch and scaled}")
        seff = s * c if scaled else s
        A = G.op_matrix(op, n)
        wv = [1.0] * m if w is None else w
        got = model.call("hess", n=n, m=m, s=f2b(seff), A=G.cmat(A), w=[f2b(v) for v in wv], x=G.cv(d), y=G.cv(G.dec(t["y"])))
        ctx.case({"tag": "hess", "n": n, "m": m, "cplx": cplx, "op": op["kind"], "scaled": scaled, "weighted": w is not None},
                 ("hess", n, m, cplx, op["kind"], scaled, w is not None))
        ctx.count(f"hess:op={op['kind']}")
        H = f.hessian
        D = snp.array(np.asarray(d if cplx else d.real, dtype=dt))
        if not _cmp_vec(ctx, "hess.apply", case, H(D), G.from_cv(got["apply"]), hess_oracle):
            continue
        if not _cmp_vec(ctx, "hess.adj", case, H.adj(D), G.from_cv(got["apply"]), hess_oracle):
            continue
        cols = [np.asarray(H(snp.array(np.asarray(e, dtype=dt)))) for e in _basis(n, False)]
        Hm = np.stack(cols, axis=1)
        mm = np.array([[complex(common.b2f(r), common.b2f(i)) for r, i in zip(rr, ii)] for rr, ii in zip(got["mat"]["re"], got["mat"]["im"])])
        if not (common.allclose(Hm.real, mm.real, TOLK) and common.allclose(Hm.imag, mm.imag, TOLK)):
            ctx.disagree("hess.matrix", case, G.enc(Hm), G.enc(mm), oracle=hess_oracle)
            continue
        # documented gradient formula at d (used as a point) and the exact expansion on the real code
        g = f.grad(D)
        got2 = model.call("hess", n=n, m=m, s=f2b(seff), A=G.cmat(A), w=[f2b(v) for v in wv], x=G.cv(d), y=G.cv(G.dec(t["y"])))
        if not _cmp_vec(ctx, "hess.gradspec", case, g, G.from_cv(got2["gradspec"]), hess_oracle):
            continue
        r = hess_oracle(case)
        if r is not None:
            ctx.disagree("hess.expansion", case, r, "exact identity C07_quadratic", oracle=hess_oracle)


# --------------------------------------------------------------------------------------------
# Loss copies: histories of new / mul / rmul / div / set_scale


def _loss_factory(kind, rng, n, cplx):
    import scico.numpy as snp
    from scico import functional, linop, loss

    dt = np.complex128 if cplx else np.float64
    M = G.dy(rng, (n, n), cplx)
    A = linop.MatrixOperator(snp.array(np.asarray(M, dtype=dt)))
    y = snp.array(np.asarray(G.dy(rng, (n,), cplx), dtype=dt))
    if kind == "SquaredL2Loss":
        return lambda s: loss.SquaredL2Loss(y=y, A=A, scale=s)
    if kind == "Loss+L1":
        return lambda s: loss.Loss(y=y, A=A, f=functional.L1Norm(), scale=s)
    if kind == "Loss+Huber":
        return lambda s: loss.Loss(y=y, A=None, f=functional.HuberNorm(1.0), scale=s)
    if kind == "SquaredL2SquaredAbsLoss":
        yr = snp.array(np.abs(common.dyadic(rng, (n,), bits=2, scale=2.0)))
        return lambda s: loss.SquaredL2SquaredAbsLoss(y=yr, A=A, scale=s)
    if kind == "SquaredL2AbsLoss":
        yr = snp.array(np.abs(common.dyadic(rng, (n,), bits=2, scale=2.0)))
        return lambda s: loss.SquaredL2AbsLoss(y=yr, A=A, scale=s)
    if kind == "PoissonLoss":
        yp = snp.array(np.abs(common.dyadic(rng, (n,), bits=2, scale=2.0)) + 1.0)
        Ap = linop.MatrixOperator(snp.array(np.abs(np.real(M)) + 0.5))
        return lambda s: loss.PoissonLoss(y=yp, A=Ap, scale=s)
    raise common.Infra(kind)


HEAP_KINDS = ["SquaredL2Loss", "Loss+L1", "Loss+Huber", "SquaredL2SquaredAbsLoss", "SquaredL2AbsLoss", "PoissonLoss"]


def run_history(mk, ops, handles=None, grab_all=False, use_x=None):
    """replay a history on real objects (`touch` = take `obj.hessian`: no effect on the model, which has no cache).
    If `handles` is a list, every Hessian operator taken is KEPT there as (object index, operator) so that it can
    be applied after the rest of the history (`Heap.hessHandleApply`); `grab_all`: also take one from every
    object right after it is created."""
    objs = []
    for op in ops:
        k = op["k"]
        if k == "use":
            # the object is USED (value, gradient, Hessian) before later objects are derived from it: no effect on the
            # model; on the real objects this is what builds any lazily created / cached closure
            o = objs[op["obj"]]
            if use_x is not None:
                _ = o(use_x)
                _ = o.grad(use_x)
                if hasattr(o, "hessian"):
                    try:
                        _ = o.hessian(use_x)
                    except NotImplementedError:
                        pass
            continue
        if k == "touch":
            o = objs[op["obj"]]
            if hasattr(o, "hessian"):
                try:
                    H = o.hessian
                    if handles is not None:
                        handles.append((op["obj"], H))
                except NotImplementedError:
                    pass
        elif k == "new":
            objs.append(mk(op["s"]))
        elif k == "mul":
            objs.append(objs[op["obj"]] * op["c"] if op.get("side", "r") == "r" else op["c"] * objs[op["obj"]])
        elif k == "div":
            objs.append(objs[op["obj"]] / op["c"])
        elif k == "set":
            objs[op["obj"]].set_scale(op["s"])
        if grab_all and handles is not None and k in ("new", "mul", "div") and hasattr(objs[-1], "hessian"):
            try:
                handles.append((len(objs) - 1, objs[-1].hessian))
            except NotImplementedError:
                pass
    return objs


def heap_oracle_factory(kind, seed_state):
    def oracle(case):
        import scico.numpy as snp

        common.setup_scico()
        rng = np.random.Generator(np.random.PCG64(case["factory_seed"]))
        cplx, n = case["cplx"], case["n"]
        mk = _loss_factory(case["kind"], rng, n, cplx)
        dt = np.complex128 if cplx else np.float64
        x = G.dec(case["x"], (n,), cplx)
        X = snp.array(np.asarray(x, dtype=dt))
        handles = []
        objs = run_history(mk, case["ops"], handles, grab_all=bool(case.get("grab_all")), use_x=X)
        rr = np.random.Generator(np.random.PCG64(99))
        for i, o in enumerate(objs):
            g = np.asarray(o.grad(X)).ravel()
            for _ in range(3):
                d = G.dy(rr, (n,), cplx)
                Dd = snp.array(np.asarray(d, dtype=dt))
                fd = fd_directional(o, X, Dd)
                ri = float(np.real(np.sum(np.conj(g) * d)))
                if abs(fd - ri) > 1e-5 * (1 + abs(fd) + abs(float(o(X)))):
                    return {"object": i, "scale": float(o.scale), "x": G.enc(x), "d": G.enc(d), "re_inner_grad_d": ri, "finite_difference": fd}
                if case["kind"] == "SquaredL2Loss":
                    h = 2.0**-4
                    sd = (float(o(X + h * Dd)) - 2 * float(o(X)) + float(o(X - h * Dd))) / (h * h)
                    hd = re_inner(o.hessian(Dd), Dd)
                    if abs(sd - hd) > 1e-7 * (1 + abs(hd)):
                        return {"object": i, "scale": float(o.scale), "x": G.enc(x), "d": G.enc(d), "second_difference": sd, "Re<Hd,d>": hd}
        if case["kind"] == "SquaredL2Loss":
            for oi, H in handles:
                o = objs[oi]
                d = G.dy(rr, (n,), cplx)
                Dd = snp.array(np.asarray(d, dtype=dt))
                h = 2.0**-4
                sd = (float(o(X + h * Dd)) - 2 * float(o(X)) + float(o(X - h * Dd))) / (h * h)
                hd = re_inner(H(Dd), Dd)
                if abs(sd - hd) > 1e-7 * (1 + abs(hd)):
                    return {"object": oi, "current_scale": float(o.scale), "hessian_operator": "taken earlier in the history, applied now",
                            "x": G.enc(x), "d": G.enc(d), "second_difference_of_object_now": sd, "Re<Hd,d>": hd}
        return None

    return oracle


def _check_handles(ctx, case, handles, got, unit, X, orc):
    """Hessian operators taken DURING the history and applied now: each applies 2 * (current scale of the object it
    came from) * A^H W A  (`Heap.hessHandleApply`, theorem C07_hessian_handle)"""
    base = np.asarray(unit.hessian(X)).ravel().astype(np.complex128)
    for oi, H in handles:
        se = common.b2f(got["eval"][oi])
        hx = np.asarray(H(X)).ravel().astype(np.complex128)
        ha = np.asarray(H.adj(X)).ravel().astype(np.complex128)
        ctx.count("heap:kept-hessian-handles")
        for nm, v in (("heap.hessian_handle", hx), ("heap.hessian_handle.adj", ha)):
            if not (common.allclose(v.real, (se * base).real, TOLK) and common.allclose(v.imag, (se * base).imag, TOLK)):
                ctx.disagree(nm, case, {"object": oi, "H(x)": G.enc(v)}, {"current_scale": se, "H(x)": G.enc(se * base)}, oracle=orc)
                return


def stream_heap(ctx, model):
    import scico.numpy as snp

    rng = ctx.rng
    for _ in range(ctx.n(24, 200)):
        kind = HEAP_KINDS[int(rng.integers(len(HEAP_KINDS)))]
        cplx = bool(rng.random() < 0.5) and kind != "PoissonLoss"
        n = int(rng.integers(1, 4))
        fseed = int(rng.integers(1 << 30))
        mk = _loss_factory(kind, np.random.Generator(np.random.PCG64(fseed)), n, cplx)
        L = int(rng.integers(2, ctx.n(7, 12)))
        ops = [{"k": "new", "s": G.dyscalar(rng)}]
        cnt = 1
        for _ in range(L):
            r = rng.random()
            if r < 0.15:
                ops.append({"k": "new", "s": G.dyscalar(rng)})
                cnt += 1
            elif r < 0.55:
                ops.append({"k": "mul", "obj": int(rng.integers(cnt)), "c": G.dyscalar(rng), "side": "l" if rng.random() < 0.5 else "r"})
                cnt += 1
            elif r < 0.75:
                ops.append({"k": "div", "obj": int(rng.integers(cnt)), "c": G.dyscalar(rng)})
                cnt += 1
            else:
                ops.append({"k": "set", "obj": int(rng.integers(cnt)), "s": G.dyscalar(rng)})
            if rng.random() < 0.35:
                ops.append({"k": "touch", "obj": int(rng.integers(cnt))})
            if rng.random() < 0.4:
                ops.append({"k": "use", "obj": int(rng.integers(cnt))})
        if rng.random() < 0.5:
            ops.insert(1, {"k": "use", "obj": 0})  # differentiate the first loss before anything is derived from it
        mops = []
        for op in ops:
            if op["k"] in ("touch", "use"):
                continue
            o = {"k": op["k"]}
            for key in ("s", "c"):
                if key in op:
                    o[key] = f2b(op[key])
            if "obj" in op:
                o["obj"] = op["obj"]
            mops.append(o)
        got = model.call("heap", ops=mops)
        dt = np.complex128 if cplx else np.float64
        if kind == "PoissonLoss":
            x = np.abs(common.dyadic(rng, (n,), bits=3, scale=2.0)) + 0.5
        else:
            x = G.dy(rng, (n,), cplx, nz=True)
        X = snp.array(np.asarray(x, dtype=dt))
        handles = []
        objs = run_history(mk, ops, handles, use_x=X)
        ctx.count("heap:uses-before-deriving", sum(1 for o in ops if o["k"] == "use"))
        unit = mk(1.0)
        base_val = float(unit(X))
        base_grad = np.asarray(unit.grad(X)).ravel().astype(np.complex128)
        case = {"kind": kind, "cplx": cplx, "n": n, "factory_seed": fseed, "ops": ops, "x": G.enc(x)}
        ctx.case({"tag": "heap", "kind": kind, "ops": [o["k"] for o in ops]}, ("heap", kind, tuple(o["k"] for o in ops), cplx))
        ctx.count(f"heap:kind={kind}")
        ctx.count("heap:ops", len(ops))
        orc = heap_oracle_factory(kind, None)
        if len(objs) != len(got["eval"]):
            raise common.Infra("heap: object count mismatch")
        for i, o in enumerate(objs):
            se, sg = common.b2f(got["eval"][i]), common.b2f(got["grad"][i])
            if not common.close(float(o.scale), se):
                ctx.disagree("heap.scale", case, {"object": i, "scale": float(o.scale)}, se, oracle=orc)
                break
            if not common.close(float(o(X)), se * base_val, TOLK):
                ctx.disagree("heap.eval", case, {"object": i, "value": float(o(X))}, se * base_val, oracle=orc)
                break
            g = np.asarray(o.grad(X)).ravel().astype(np.complex128)
            want = sg * base_grad
            if not (common.allclose(g.real, want.real, TOLK) and common.allclose(g.imag, want.imag, TOLK)):
                ctx.disagree("heap.grad", case, {"object": i, "grad": G.enc(g)}, {"grad_scale": sg, "grad": G.enc(want)}, oracle=orc)
                break
            if kind == "SquaredL2Loss":
                hx = np.asarray(o.hessian(X)).ravel().astype(np.complex128)
                wanth = se * np.asarray(unit.hessian(X)).ravel().astype(np.complex128)
                ctx.count("heap:hessian-compared")
                if not (common.allclose(hx.real, wanth.real, TOLK) and common.allclose(hx.imag, wanth.imag, TOLK)):
                    ctx.disagree("heap.hessian", case, {"object": i, "hessian(x)": G.enc(hx)}, {"scale": se, "hessian(x)": G.enc(wanth)}, oracle=orc)
                    break
        if kind == "SquaredL2Loss":
            _check_handles(ctx, case, handles, got, unit, X, orc)


def _heap_histories(depth):
    """ALL histories `new; op_1; ...; op_k` (k <= depth) over {new, c*obj, obj*c, obj/c, obj.set_scale, USE obj (value,
    grad, hessian evaluated at that moment)} with every choice of the object operated on — so every prefix of uses
    precedes every rescaling (fixed dyadic constants: the machine's behaviour does not depend on them)"""
    out = []

    def rec(ops, cnt, k):
        out.append(list(ops))
        if k == 0:
            return
        rec(ops + [{"k": "new", "s": 2.0}], cnt + 1, k - 1)
        for o in range(cnt):
            rec(ops + [{"k": "mul", "obj": o, "c": 3.0, "side": "l"}], cnt + 1, k - 1)
            rec(ops + [{"k": "mul", "obj": o, "c": -0.5, "side": "r"}], cnt + 1, k - 1)
            rec(ops + [{"k": "div", "obj": o, "c": 4.0}], cnt + 1, k - 1)
            rec(ops + [{"k": "set", "obj": o, "s": 0.75}], cnt, k - 1)
            if not (ops and ops[-1]["k"] == "use" and ops[-1]["obj"] == o):
                rec(ops + [{"k": "use", "obj": o}], cnt, k - 1)  # value/grad/hessian of obj evaluated at this moment

    rec([{"k": "new", "s": 1.5}], 1, depth)
    # a history ending in `use` tests nothing new
    return [h for h in out if h[-1]["k"] != "use"]


def stream_heap_exhaustive(ctx, model):
    """exhaustive small scope of the copy / re-bind machine: every history up to depth 2 (quick) / 3 (thorough)
    on a SquaredL2Loss (value, gradient and Hessian scale of EVERY object after the history)"""
    import scico.numpy as snp

    depth = ctx.n(2, 3)
    hs = _heap_histories(depth)
    fseed, n, cplx = 20260930, 2, True
    mk = _loss_factory("SquaredL2Loss", np.random.Generator(np.random.PCG64(fseed)), n, cplx)
    unit = mk(1.0)
    x = np.array([0.5 - 1.0j, -1.25 + 0.25j])
    X = snp.array(x)
    base_val = float(unit(X))
    base_grad = np.asarray(unit.grad(X)).ravel().astype(np.complex128)
    base_hess = np.asarray(unit.hessian(X)).ravel().astype(np.complex128)
    orc = heap_oracle_factory("SquaredL2Loss", None)
    for ops in hs:
        mops = []
        for op in ops:
            if op["k"] == "use":
                continue
            o = {"k": op["k"]}
            for key in ("s", "c"):
                if key in op:
                    o[key] = f2b(op[key])
            if "obj" in op:
                o["obj"] = op["obj"]
            mops.append(o)
        got = model.call("heap", ops=mops)
        handles = []
        objs = run_history(mk, ops, handles, grab_all=True, use_x=X)
        case = {"kind": "SquaredL2Loss", "cplx": cplx, "n": n, "factory_seed": fseed, "ops": ops, "x": G.enc(x), "grab_all": True}
        ctx.case({"tag": "heap_exhaustive", "ops": [o["k"] for o in ops]}, ("heapx", tuple((o["k"], o.get("obj"), o.get("side")) for o in ops)))
        ctx.count("heapx:histories")
        if len(objs) != len(got["eval"]):
            raise common.Infra("heap: object count mismatch")
        for i, o in enumerate(objs):
            se, sg = common.b2f(got["eval"][i]), common.b2f(got["grad"][i])
            g = np.asarray(o.grad(X)).ravel().astype(np.complex128)
            hx = np.asarray(o.hessian(X)).ravel().astype(np.complex128)
            bad = None
            if not common.close(float(o.scale), se):
                bad = ("heap.scale", {"object": i, "scale": float(o.scale)}, se)
            elif not common.close(float(o(X)), se * base_val, TOLK):
                bad = ("heap.eval", {"object": i, "value": float(o(X))}, se * base_val)
            elif not (common.allclose(g.real, (sg * base_grad).real, TOLK) and common.allclose(g.imag, (sg * base_grad).imag, TOLK)):
                bad = ("heap.grad", {"object": i, "grad": G.enc(g)}, {"grad_scale": sg, "grad": G.enc(sg * base_grad)})
            elif not (common.allclose(hx.real, (se * base_hess).real, TOLK) and common.allclose(hx.imag, (se * base_hess).imag, TOLK)):
                bad = ("heap.hessian", {"object": i, "hessian(x)": G.enc(hx)}, {"scale": se, "hessian(x)": G.enc(se * base_hess)})
            if bad:
                ctx.disagree(bad[0], case, bad[1], bad[2], oracle=orc)
                break
        else:
            _check_handles(ctx, case, handles, got, unit, X, orc)
    ctx.extra.setdefault("exhaustive_scopes", {})["loss copy/re-bind machine"] = (
        f"all {len(hs)} histories new;op1..opk, k<={depth}, ops in {{new, c*obj, obj*c, obj/c, set_scale, use(value/grad/hessian)}} x every object")
    ctx.extra["exhaustive_scopes"]["Function/cvjp argument slots"] = "all (index, arity) with arity <= 4"
    ctx.extra["exhaustive_scopes"]["linear_adjoint dtype configurations"] = "all 8 (primal kinds)^2 x output kind; all 4 single-primal cases"


# --------------------------------------------------------------------------------------------
# scico.grad with argnums / has_aux, jacrev, linear_adjoint


def _api_fun(case):
    import jax.numpy as jnp

    cplx = case["cplx"]
    dt = np.complex128 if cplx else np.float64
    n1, n2 = case["sizes"]
    m = case["tree"]["op"]["m"]
    M = G.dec(case["tree"]["op"]["M"], (m, n1 + n2), cplx)
    y = G.dec(case["tree"]["y"], (m,), cplx)
    Aj, Bj, yj = jnp.asarray(M[:, :n1], dtype=dt), jnp.asarray(M[:, n1:], dtype=dt), jnp.asarray(y, dtype=dt)

    def fun(p, q):
        return jnp.sum(jnp.abs(Aj @ p + Bj @ q - yj) ** 2)

    return fun, dt


def api_oracle(case):
    """scico.grad / value_and_grad with argnums and has_aux: Re<g,d> vs finite differences of fun"""
    import scico
    import scico.numpy as snp

    common.setup_scico()
    if "sizes" not in case or case.get("tag") != "api":
        return None
    fun, dt = _api_fun(case)
    cplx = case["cplx"]
    n1, n2 = case["sizes"]
    x = G.dec(case["x"], None, cplx)
    pa, pb = snp.array(np.asarray(x[:n1], dtype=dt)), snp.array(np.asarray(x[n1:], dtype=dt))

    def fun_aux(p, q):
        return fun(p, q), {"aux": p}

    variants = {
        "grad(argnums=(0,1))": lambda: scico.grad(fun, argnums=(0, 1))(pa, pb),
        "grad(has_aux)": lambda: scico.grad(fun_aux, argnums=(0, 1), has_aux=True)(pa, pb)[0],
        "value_and_grad(has_aux)": lambda: scico.value_and_grad(fun_aux, argnums=(0, 1), has_aux=True)(pa, pb)[1],
        "value_and_grad": lambda: scico.value_and_grad(fun, argnums=(0, 1))(pa, pb)[1],
    }
    if "row" in case:
        import jax.numpy as jnp

        n1_, n2_ = case["sizes"]
        m_ = case["tree"]["op"]["m"]
        Mm = G.dec(case["tree"]["op"]["M"], (m_, n1_ + n2_), cplx)
        yv_ = G.dec(case["tree"]["y"], (m_,), cplx)
        A_, B_, y_ = jnp.asarray(Mm[:, :n1_], dtype=dt), jnp.asarray(Mm[:, n1_:], dtype=dt), jnp.asarray(yv_, dtype=dt)
        kk = case["row"]

        def frow(p, q):
            return (jnp.abs(A_ @ p + B_ @ q - y_) ** 2)[kk]

        def fv(p, q):
            return jnp.abs(A_ @ p + B_ @ q - y_) ** 2

        fun = frow
        variants = {"jacrev(argnums=(0,1)) row": lambda: tuple(np.asarray(z)[kk] for z in scico.jacrev(fv, argnums=(0, 1))(pa, pb))}
    rr = np.random.Generator(np.random.PCG64(7))
    for name, call in variants.items():
        g0, g1 = (np.asarray(z) for z in call())
        for _ in range(3):
            d0, d1 = G.dy(rr, (n1,), cplx), G.dy(rr, (n2,), cplx)
            D0, D1 = snp.array(np.asarray(d0, dtype=dt)), snp.array(np.asarray(d1, dtype=dt))
            h = 2.0**-9

            def Dq(hh):
                return (float(fun(pa + hh * D0, pb + hh * D1)) - float(fun(pa - hh * D0, pb - hh * D1))) / (2 * hh)

            fd = (4 * Dq(h / 2) - Dq(h)) / 3
            ri = float(np.real(np.sum(np.conj(g0) * d0) + np.sum(np.conj(g1) * d1)))
            if abs(fd - ri) > 1e-5 * (1 + abs(fd)):
                return {"api": name, "x": case["x"], "d": G.enc(np.concatenate([d0, d1])), "re_inner_grad_d": ri, "finite_difference": fd}
    return None


def jacrev_oracle(case):
    """row k of scico.jacrev(f) must be the gradient of the k-th (real) output"""
    import jax.numpy as jnp
    import scico
    import scico.numpy as snp

    common.setup_scico()
    cplx, n = case["cplx"], case["n"]
    dt = np.complex128 if cplx else np.float64
    m = case["tree"]["op"]["m"]
    A = jnp.asarray(G.dec(case["tree"]["op"]["M"], (m, n), cplx), dtype=dt)
    y = jnp.asarray(G.dec(case["tree"]["y"], (m,), cplx), dtype=dt)

    def fvec(p):
        return jnp.abs(A @ p - y) ** 2

    x = snp.array(np.asarray(G.dec(case["x"], (n,), cplx), dtype=dt))
    Jr = np.asarray(scico.jacrev(fvec)(x))
    k = case["row"]
    rr = np.random.Generator(np.random.PCG64(11))
    for _ in range(4):
        d = G.dy(rr, (n,), cplx)
        Dd = snp.array(np.asarray(d, dtype=dt))
        fd = fd_directional(lambda z: fvec(z)[k], x, Dd)
        ri = float(np.real(np.sum(np.conj(Jr[k]) * d)))
        if abs(fd - ri) > 1e-5 * (1 + abs(fd)):
            return {"row": k, "x": case["x"], "d": G.enc(d), "re_inner_row_d": ri, "finite_difference": fd}
    return None


def linadj_oracle(case):
    """<adj(y), x> = <y, f(x)> on the declared argument type"""
    import jax.numpy as jnp
    import scico
    import scico.numpy as snp

    common.setup_scico()
    branch = case["branch"]
    cp, co = (branch in (0, 3)), (branch in (0, 1))
    realout = branch == 3
    M = G.dec(case["M"], None, True)
    yv = G.dec(case["y"], None, True)
    m = yv.size
    n = M.size // m
    M = M.reshape(m, n)
    Mj = jnp.asarray(M if (co or realout) else M.real, dtype=np.complex128 if (co or realout) else np.float64)
    rr = np.random.Generator(np.random.PCG64(5))
    x = G.dy(rr, (n,), cp)
    xin = snp.array(np.asarray(x, dtype=np.complex128 if cp else np.float64))
    fun = (lambda z: jnp.real(Mj @ z)) if realout else (lambda z: Mj @ z)
    adj = scico.linear_adjoint(fun, xin)
    ay = np.asarray(adj(snp.array(np.asarray(yv if co else yv.real, dtype=np.complex128 if co else np.float64)))[0])
    lhs = np.sum(np.conj(ay) * np.asarray(xin))
    rhs = np.sum(np.conj(yv if co else yv.real) * np.asarray(fun(xin)))
    if not cp or realout:
        lhs, rhs = np.real(lhs), np.real(rhs)  # real argument space / real-linear function: real inner product
    if abs(lhs - rhs) > 1e-9 * (1 + abs(rhs)):
        return {"branch": ["C->C", "R->C", "R->R", "C->R"][branch], "x": G.enc(x), "y": case["y"], "<adj y,x>": complex(lhs).real, "<y,f x>": complex(rhs).real}
    return None


def stream_autograd_api(ctx, model):
    import jax.numpy as jnp
    import scico
    import scico.numpy as snp

    rng = ctx.rng
    for _ in range(ctx.n(20, 150)):
        cplx = bool(rng.random() < 0.6)
        dt = np.complex128 if cplx else np.float64
        n1, n2, m = int(rng.integers(1, 4)), int(rng.integers(1, 4)), int(rng.integers(1, 4))
        A, B = G.dy(rng, (m, n1), cplx), G.dy(rng, (m, n2), cplx)
        y = G.dy(rng, (m,), cplx)
        a, b = G.dy(rng, (n1,), cplx), G.dy(rng, (n2,), cplx)
        Aj, Bj, yj = (jnp.asarray(z, dtype=dt) for z in (A, B, y))

        def fun(p, q):
            return jnp.sum(jnp.abs(Aj @ p + Bj @ q - yj) ** 2)

        def fun_aux(p, q):
            return fun(p, q), {"aux": p}

        pa, pb = snp.array(np.asarray(a, dtype=dt)), snp.array(np.asarray(b, dtype=dt))
        n = n1 + n2
        M = np.concatenate([A, B], axis=1)
        t = {"k": "sqL2Loss", "s": 1.0, "op": {"kind": "matrix", "m": m, "M": G.enc(M)}, "y": G.enc(y), "w": None}
        x = np.concatenate([a, b])
        got = model.call("fn", n=n, x=G.cv(x), f=G.to_model(t, n))
        mg = G.from_cv(got["grad"])
        case = {"tag": "api", "tree": t, "n": n, "cplx": cplx, "x": G.enc(x), "sizes": [n1, n2]}
        ctx.case({"tag": "api", "cplx": cplx, "n1": n1, "n2": n2}, ("api", cplx, n1, n2, m))
        ctx.count("api:grad-argnums")
        g01 = scico.grad(fun, argnums=(0, 1))(pa, pb)
        g0 = scico.grad(fun)(pa, pb)
        g1 = scico.grad(fun, argnums=1)(pa, pb)
        gaux, aux = scico.grad(fun_aux, argnums=(0, 1), has_aux=True)(pa, pb)
        (vv, aux2), gva = scico.value_and_grad(fun_aux, argnums=(0, 1), has_aux=True)(pa, pb)
        vv2, gv0 = scico.value_and_grad(fun, argnums=0)(pa, pb)
        vv3, gv01 = scico.value_and_grad(fun, argnums=(0, 1))(pa, pb)
        ok = isinstance(g01, tuple) and len(g01) == 2
        for name, impl, want in (
            ("api.grad.argnums01", np.concatenate([np.asarray(z).ravel() for z in g01]) if ok else np.zeros(0), mg),
            ("api.grad.argnums0", np.asarray(g0).ravel(), mg[:n1]),
            ("api.grad.argnums1", np.asarray(g1).ravel(), mg[n1:]),
            ("api.grad.has_aux", np.concatenate([np.asarray(z).ravel() for z in gaux]), mg),
            ("api.value_and_grad.has_aux", np.concatenate([np.asarray(z).ravel() for z in gva]), mg),
            ("api.value_and_grad.argnums0", np.asarray(gv0).ravel(), mg[:n1]),
            ("api.value_and_grad.argnums01", np.concatenate([np.asarray(z).ravel() for z in gv01]) if isinstance(gv01, tuple) else np.zeros(0), mg),
        ):
            _cmp_vec(ctx, name, case, impl, np.asarray(want), api_oracle)
        if not all(common.close(float(z), common.b2f(got["eval"]), TOLK) for z in (vv, vv2, vv3)):
            ctx.disagree("api.value_and_grad.value", case, [float(vv), float(vv2), float(vv3)], common.b2f(got["eval"]))
        # jacrev of a real-vector-valued function: row k = gradient of the k-th output
        def fvec(p):
            return jnp.abs(Aj @ p - yj) ** 2

        def fvec2(p, q):
            return jnp.abs(Aj @ p + Bj @ q - yj) ** 2

        Jr2 = scico.jacrev(fvec2, argnums=(0, 1))(pa, pb)
        for kk in range(m):
            wk = [0.0] * m
            wk[kk] = 1.0
            tk2 = {"k": "sqL2Loss", "s": 1.0, "op": {"kind": "matrix", "m": m, "M": G.enc(M)}, "y": G.enc(y), "w": wk}
            gk2 = G.from_cv(model.call("fn", n=n, x=G.cv(x), f=G.to_model(tk2, n))["grad"])
            row = np.concatenate([np.asarray(Jr2[0])[kk].ravel(), np.asarray(Jr2[1])[kk].ravel()]) if isinstance(Jr2, tuple) and len(Jr2) == 2 else np.zeros(0)
            ctx.count("api:jacrev-rows-argnums01")
            _cmp_vec(ctx, "api.jacrev.argnums01.row", {"tag": "api", "tree": t, "n": n, "cplx": cplx, "x": G.enc(x), "sizes": [n1, n2], "row": kk}, row, gk2, api_oracle)
        Jr = np.asarray(scico.jacrev(fvec)(pa))
        for kk in range(m):
            wk = [0.0] * m
            wk[kk] = 1.0
            tk = {"k": "sqL2Loss", "s": 1.0, "op": {"kind": "matrix", "m": m, "M": G.enc(A)}, "y": G.enc(y), "w": wk}
            gk = G.from_cv(model.call("fn", n=n1, x=G.cv(a), f=G.to_model(tk, n1))["grad"])
            ctx.count("api:jacrev-rows")
            _cmp_vec(ctx, "api.jacrev.row", {"tag": "jacrev", "tree": tk, "n": n1, "cplx": cplx, "x": G.enc(a), "row": kk}, Jr[kk], gk, jacrev_oracle)
    # linear_adjoint: the dtype branches (C->C, R->C, R->R) and a complex -> real function x -> Re(M x)
    for _ in range(ctx.n(20, 120)):
        n, m = int(rng.integers(1, 4)), int(rng.integers(1, 4))
        branch = int(rng.integers(4))
        cp, co = (branch in (0, 3)), (branch in (0, 1))
        realout = branch == 3
        M = G.dy(rng, (m, n), co or realout)
        Mj = jnp.asarray(M, dtype=np.complex128 if (co or realout) else np.float64)
        xin = snp.array(np.asarray(G.dy(rng, (n,), cp), dtype=np.complex128 if cp else np.float64))
        yv = G.dy(rng, (m,), co)
        fun = (lambda z: jnp.real(Mj @ z)) if realout else (lambda z: Mj @ z)
        adj = scico.linear_adjoint(fun, xin)
        impl = np.asarray(adj(snp.array(np.asarray(yv, dtype=np.complex128 if co else np.float64)))[0])
        got = G.from_cv(model.call("linadj", n=n, m=m, M=G.cmat(M), y=G.cv(yv), cprimal=cp, cout=co, real_out=realout))
        if branch == 1:
            got = got.real  # real primal: JAX returns the real part of the cotangent
        names = ["C->C", "R->C", "R->R", "C->R"]
        ctx.case({"tag": "linadj", "branch": names[branch], "n": n, "m": m}, ("linadj", branch, n, m))
        ctx.count("linadj:" + names[branch])
        _cmp_vec(ctx, "linadj", {"branch": branch, "M": G.enc(M), "y": G.enc(yv)}, impl, np.asarray(got, dtype=np.complex128), linadj_oracle, exact=True)


API_ARGNUMS = [0, 1, 2, (0, 1), (1, 2), (0, 2)]


def _api_table_setup(case):
    """fun(p0, p1, p2) = sum |A0 p0 + A1 p1 + A2 p2 - y|^2 with complex A_i, y; argument i real or complex"""
    import jax.numpy as jnp
    import scico.numpy as snp

    ns, kinds = case["ns"], case["kinds"]
    m = case["m"]
    As = [jnp.asarray(G.dec(a, (m, n_), True), dtype=np.complex128) for a, n_ in zip(case["As"], ns)]
    yj = jnp.asarray(G.dec(case["y"], (m,), True), dtype=np.complex128)
    cdt = lambda c: np.complex128 if c else np.float64  # noqa: E731
    args = [snp.array(np.asarray(G.dec(x, (n_,), k), dtype=cdt(k))) for x, n_, k in zip(case["xs"], ns, kinds)]

    def fun(p0, p1, p2):
        return jnp.sum(jnp.abs(As[0] @ p0 + As[1] @ p1 + As[2] @ p2 - yj) ** 2)

    def fun_aux(p0, p1, p2):
        return fun(p0, p1, p2), {"aux": p1}

    return fun, fun_aux, args


def _api_table_call(case, fun, fun_aux, args):
    """-> (value or None, tuple of gradients for the selected arguments)"""
    import scico

    an = case["argnums"]
    an_ = tuple(an) if isinstance(an, (list, tuple)) else an
    aux, api = case["has_aux"], case["api"]
    f = fun_aux if aux else fun
    if api == "grad":
        out = scico.grad(f, argnums=an_, has_aux=aux)(*args)
        val, g = None, (out[0] if aux else out)
    else:
        out = scico.value_and_grad(f, argnums=an_, has_aux=aux)(*args)
        val, g = (out[0][0] if aux else out[0]), out[1]
    sel = list(an_) if isinstance(an_, tuple) else [an_]
    gs = list(g) if isinstance(an_, tuple) else [g]
    return val, sel, gs


def api_table_oracle(case):
    """Re<g, d> over the differentiated arguments vs the finite-difference directional derivative of fun"""
    import scico.numpy as snp

    common.setup_scico()
    fun, fun_aux, args = _api_table_setup(case)
    _, sel, gs = _api_table_call(case, fun, fun_aux, args)
    rr = np.random.Generator(np.random.PCG64(29))
    for _ in range(4):
        ds = {i: np.asarray(G.dy(rr, (case["ns"][i],), case["kinds"][i]), dtype=np.asarray(args[i]).dtype) for i in sel}

        def at(h):
            a = list(args)
            for i in sel:
                a[i] = args[i] + h * snp.array(ds[i])
            return float(fun(*a))

        h = 2.0**-9
        D = lambda hh: (at(hh) - at(-hh)) / (2 * hh)  # noqa: E731
        fd = (4 * D(h / 2) - D(h)) / 3
        ri = float(sum(np.real(np.sum(np.conj(np.asarray(g)) * ds[i])) for i, g in zip(sel, gs)))
        if abs(fd - ri) > 1e-5 * (1 + abs(fd)):
            return {"api": case["api"], "argnums": case["argnums"], "has_aux": case["has_aux"],
                    "argument_dtypes": ["complex" if k else "real" for k in case["kinds"]], "xs": case["xs"],
                    "d": {str(i): G.enc(ds[i]) for i in sel}, "re_inner_grad_d": ri, "finite_difference": fd}
    return None


def stream_api_table(ctx, model):
    """EXHAUSTIVE small table of the conjugating wrappers: argnums in {0,1,2,(0,1),(1,2),(0,2)} x the dtype kind of
    each of three arguments (real/complex independently) x has_aux x {grad, value_and_grad}: gradient of every
    selected argument (value, dtype) vs the model (`grad` of the squared loss of the concatenated argument; real
    part for a real argument), value vs the model"""
    rng = ctx.rng
    ntab = 0
    for _ in range(ctx.n(1, 4)):
        ns = [int(rng.integers(1, 3)) for _ in range(3)]
        m = int(rng.integers(1, 4))
        As = [G.dy(rng, (m, n_), True) for n_ in ns]
        y = G.dy(rng, (m,), True)
        for kbits in range(8):
            kinds = [bool(kbits & 1), bool(kbits & 2), bool(kbits & 4)]
            xs = [G.dy(rng, (n_,), k) for n_, k in zip(ns, kinds)]
            x = np.concatenate([np.asarray(v, dtype=np.complex128) for v in xs])
            n = sum(ns)
            t = {"k": "sqL2Loss", "s": 1.0, "op": {"kind": "matrix", "m": m, "M": G.enc(np.hstack(As))}, "y": G.enc(y), "w": None}
            got = model.call("fn", n=n, x=G.cv(x), f=G.to_model(t, n))
            mg, mval = G.from_cv(got["grad"]), common.b2f(got["eval"])
            offs = np.concatenate([[0], np.cumsum(ns)])
            base = {"tag": "api_table", "ns": ns, "m": m, "kinds": kinds, "As": [G.enc(a) for a in As], "y": G.enc(y), "xs": [G.enc(v) for v in xs]}
            fun, fun_aux, args = _api_table_setup(base)
            for an in API_ARGNUMS:
                for aux in (False, True):
                    for api in ("grad", "value_and_grad"):
                        case = dict(base, argnums=list(an) if isinstance(an, tuple) else an, has_aux=aux, api=api)
                        val, sel, gs = _api_table_call(case, fun, fun_aux, args)
                        ctx.case({"tag": "api_table", "kinds": kinds, "argnums": str(an), "has_aux": aux, "api": api},
                                 ("api_table", tuple(kinds), str(an), aux, api, tuple(ns), m))
                        ctx.count("api_table:cells")
                        ntab += 1
                        if len(gs) != len(sel):
                            ctx.disagree("api_table.structure", case, len(gs), len(sel), oracle=api_table_oracle)
                            continue
                        if val is not None and not common.close(float(val), mval, TOLK):
                            ctx.disagree("api_table.value", case, float(val), mval, oracle=api_table_oracle)
                            continue
                        for i, g in zip(sel, gs):
                            want = mg[offs[i]:offs[i + 1]]
                            if not kinds[i]:
                                want = want.real.astype(np.complex128)  # real argument: JAX's cotangent is the real part
                            if np.asarray(g).dtype != np.asarray(args[i]).dtype:
                                ctx.disagree("api_table.dtype", case, str(np.asarray(g).dtype), str(np.asarray(args[i]).dtype), oracle=api_table_oracle)
                                break
                            if not _cmp_vec(ctx, "api_table.grad", case, g, want, api_table_oracle):
                                break
    ctx.extra.setdefault("exhaustive_scopes", {})["scico.grad / value_and_grad options"] = (
        "argnums in {0,1,2,(0,1),(1,2),(0,2)} x (real|complex)^3 argument dtypes x has_aux x {grad, value_and_grad}: all 192 cells per table")


def linadj2_oracle(case):
    """two primals: <adj(y), (p, q)> = <y, M1 p + M2 q> on the declared argument types"""
    import jax.numpy as jnp
    import scico
    import scico.numpy as snp

    common.setup_scico()
    kinds = case["kinds"]
    M1, M2, yv = G.dec(case["M1"]), G.dec(case["M2"]), G.dec(case["y"])
    m = yv.size
    M1, M2 = M1.reshape(m, -1), M2.reshape(m, -1)
    cdt = lambda c: np.complex128 if c else np.float64  # noqa: E731
    co = case["cout"]
    realout = bool(case.get("realout"))
    cm = co or realout
    J1, J2 = jnp.asarray(M1 if cm else M1.real, dtype=cdt(cm)), jnp.asarray(M2 if cm else M2.real, dtype=cdt(cm))
    rr = np.random.Generator(np.random.PCG64(5))
    p = snp.array(np.asarray(G.dy(rr, (M1.shape[1],), kinds[0]), dtype=cdt(kinds[0])))
    q = snp.array(np.asarray(G.dy(rr, (M2.shape[1],), kinds[1]), dtype=cdt(kinds[1])))
    Y = snp.array(np.asarray(yv if co else yv.real, dtype=cdt(co)))
    fun = (lambda a, b: jnp.real(J1 @ a + J2 @ b)) if realout else (lambda a, b: J1 @ a + J2 @ b)
    ap, aq = scico.linear_adjoint(fun, p, q)(Y)
    lhs = float(np.real(np.sum(np.conj(np.asarray(ap)) * np.asarray(p)) + np.sum(np.conj(np.asarray(aq)) * np.asarray(q))))
    rhs = float(np.real(np.sum(np.conj(np.asarray(Y)) * np.asarray(fun(p, q)))))
    if abs(lhs - rhs) > 1e-9 * (1 + abs(rhs)):
        return {"primal_kinds": ["complex" if c else "real" for c in kinds], "y": case["y"], "Re<adj y,(p,q)>": lhs, "Re<y,f(p,q)>": rhs}
    return None


def stream_linadj2(ctx, model):
    """scico.linear_adjoint with two primals whose dtypes differ in kind: the `any(iscomplexobj(primals))`
    branch.  fun(p, q) = M1 p + M2 q; the adjoint is (M1^H y, M2^H y), real part for a real primal."""
    import jax.numpy as jnp
    import scico
    import scico.numpy as snp

    rng = ctx.rng
    cdt = lambda c: np.complex128 if c else np.float64  # noqa: E731
    # every configuration (dtype kind of each primal) x (output: real / complex / real part of a complex map)
    configs = [([False, False], "R"), ([False, False], "C")]
    for kk in ([False, True], [True, False], [True, True]):
        configs += [(kk, "C"), (kk, "Re")]
    for kinds, out in configs * ctx.n(2, 10):
        kinds = list(kinds)
        # real output from complex primals: fun(p, q) = Re(M1 p + M2 q) (real-linear only)
        realout = out == "Re"
        co = out == "C"
        cm = co or realout
        n1, n2, m = int(rng.integers(1, 4)), int(rng.integers(1, 4)), int(rng.integers(1, 4))
        M1, M2 = G.dy(rng, (m, n1), cm), G.dy(rng, (m, n2), cm)
        J1, J2 = jnp.asarray(M1, dtype=cdt(cm)), jnp.asarray(M2, dtype=cdt(cm))
        p = snp.array(np.asarray(G.dy(rng, (n1,), kinds[0]), dtype=cdt(kinds[0])))
        q = snp.array(np.asarray(G.dy(rng, (n2,), kinds[1]), dtype=cdt(kinds[1])))
        yv = G.dy(rng, (m,), co)
        fun = (lambda a, b: jnp.real(J1 @ a + J2 @ b)) if realout else (lambda a, b: J1 @ a + J2 @ b)
        adj = scico.linear_adjoint(fun, p, q)
        ap, aq = adj(snp.array(np.asarray(yv, dtype=cdt(co))))
        cp = any(kinds)
        case = {"kinds": kinds, "cout": co, "realout": realout, "M1": G.enc(M1), "M2": G.enc(M2), "y": G.enc(yv)}
        ctx.case({"tag": "linadj2", "kinds": kinds, "cout": co}, ("linadj2", tuple(kinds), co, n1, n2, m))
        ctx.count(f"linadj2:primals={'C' if kinds[0] else 'R'}{'C' if kinds[1] else 'R'}:out={'C' if co else ('Re' if realout else 'R')}")
        for name, impl, Mx, nx, kx in (("linadj2.first", ap, M1, n1, kinds[0]), ("linadj2.second", aq, M2, n2, kinds[1])):
            got = G.from_cv(model.call("linadj", n=nx, m=m, M=G.cmat(Mx), y=G.cv(yv), cprimal=cp, cout=co, real_out=realout))
            if not kx:
                got = got.real  # real primal: JAX returns a cotangent of the primal's dtype
            if np.asarray(impl).dtype != cdt(kx):
                ctx.disagree(name + ".dtype", case, str(np.asarray(impl).dtype), str(np.dtype(cdt(kx))), oracle=linadj2_oracle)
                continue
            _cmp_vec(ctx, name, case, impl, np.asarray(got, dtype=np.complex128), linadj2_oracle, exact=True)


# --------------------------------------------------------------------------------------------
# corpus, correspondence entry point, findings, search, replay


def generate(ctx):
    """translator (ast): conjugation sites, forwarded flags, linear_adjoint branches, Loss rescaling statements and the
    Functional family -> lean/Scico/Generated/AutogradTables.lean with decide-obligations against Scico.Autograd.Tables"""
    import autograd_translate

    t = autograd_translate.write()
    ctx.extra["translated_tables"] = {"conjugation_sites": len(t["conj"]), "forwarded_flags": len(t["forwards"]),
                                      "linear_adjoint_branches": len(t["linadj"]), "loss_rescale_methods": len(t["rescale"]),
                                      "functional_family": len(t["family"])}
    return [("Scico.Generated.AutogradTables",
             "source tables = model tables (conjugation sites, forwarded conjugate/include_eval flags, linear_adjoint branches, "
             "Loss.__mul__/__truediv__ copy+rebind+set_scale, Functional family); every evaluable __init__ calls super().__init__(); "
             "only Functional defines grad")]


def _function_panel(rng):
    """`Function` with three complex arguments f(a,b,c) = (A0 a) * (A1 b) * (A2 c): for every slot, jvp = finite difference in
    that slot, vjp(conjugate=True) and jacobian(...).adj adjoint to it, vjp(conjugate=False) the plain transpose, the
    evaluation block of include_eval, cvjp(jidx) = vjp(conjugate=True)"""
    import jax.numpy as jnp
    import scico
    import scico.numpy as snp
    from scico.function import Function

    dt = np.complex128
    ns, m = [2, 1, 2], 2
    As = [jnp.asarray(G.dy(rng, (m, k), True), dtype=dt) for k in ns]
    X = [snp.array(np.asarray(G.dy(rng, (k,), True), dtype=dt)) for k in ns]
    W = snp.array(np.asarray(G.dy(rng, (m,), True), dtype=dt))

    def ev(a, b, c):
        return (As[0] @ a) * (As[1] @ b) * (As[2] @ c)

    Fn = Function(tuple((k,) for k in ns), output_shape=(m,), eval_fn=ev, input_dtypes=dt, output_dtype=dt)
    for idx in range(3):
        V = snp.array(np.asarray(G.dy(rng, (ns[idx],), True), dtype=dt))
        h = 2.0**-10
        Xp, Xm = list(X), list(X)
        Xp[idx], Xm[idx] = X[idx] + h * V, X[idx] - h * V
        fd = (np.asarray(Fn(*Xp)) - np.asarray(Fn(*Xm))) / (2 * h)
        val, jv = Fn.jvp(idx, V, *X)
        if not np.allclose(np.asarray(val), np.asarray(Fn(*X))) or not np.allclose(np.asarray(jv), fd, rtol=1e-5, atol=1e-5):
            return {"Function": "product of three linear maps", "index": idx, "jvp": G.enc(np.asarray(jv)), "finite_difference_in_slot": G.enc(fd)}
        lhs = float(np.real(np.sum(np.conj(np.asarray(W)) * fd)))
        cands = [("vjp(conjugate=True)", Fn.vjp(idx, *X, conjugate=True)[1](W)), ("vjp()", Fn.vjp(idx, *X)[1](W)),
                 ("cvjp(jidx)", scico.cvjp(ev, *X, jidx=idx)[1](W)[0])]
        for inc in (False, True):
            J = Fn.jacobian(idx, *X, include_eval=inc)
            je, ja = J(V), J.adj(W)
            jb = list(je.arrays) if hasattr(je, "arrays") else [je]
            ab = list(ja.arrays) if hasattr(ja, "arrays") else [ja]
            if len(jb) != (2 if inc else 1) or not np.allclose(np.asarray(jb[-1]), fd, rtol=1e-5, atol=1e-5) or (inc and not np.allclose(np.asarray(jb[0]), np.asarray(Fn(*X)))):
                return {"Function.jacobian": f"index={idx}, include_eval={inc}", "blocks": len(jb), "jacobian(v)": G.enc(np.asarray(jb[-1])), "finite_difference_in_slot": G.enc(fd)}
            cands.append((f"jacobian(include_eval={inc}).adj", ab[-1]))
        for name, gw in cands:
            rhs = float(np.real(np.sum(np.conj(np.asarray(gw)) * np.asarray(V)))) if np.asarray(gw).shape == np.asarray(V).shape else float("nan")
            if not abs(lhs - rhs) <= 1e-5 * (1 + abs(lhs)):
                return {"Function": name, "index": idx, "Re<w,J v>": lhs, "Re<G w,v>": rhs}
        gt = np.asarray(Fn.vjp(idx, *X, conjugate=False)[1](W))
        lt, rt = complex(np.sum(np.asarray(W) * fd)), complex(np.sum(gt * np.asarray(V)))
        if not abs(lt - rt) <= 1e-5 * (1 + abs(lt)):
            return {"Function": "vjp(conjugate=False)", "index": idx, "sum w_i (J v)_i": [lt.real, lt.imag], "sum vjp(w)_i v_i": [rt.real, rt.imag]}
    return None


def _targeted_oracles(ctx):
    """property oracles on the implementation for the facts the generated tables are about (run when a generated
    obligation no longer checks): a failing input where the changed source really breaks the property"""
    import inspect
    import scico.numpy as snp
    from scico import functional, loss

    common.setup_scico()
    # 1. every evaluable functional / loss that can be built without arguments has a working grad
    x = snp.array(np.array([[0.5, -1.25], [2.0, 0.75]]))
    for name, cls in sorted(list(inspect.getmembers(functional, inspect.isclass)) + list(inspect.getmembers(loss, inspect.isclass))):
        if not (isinstance(cls, type) and issubclass(cls, functional.Functional)) or getattr(cls, "has_eval", None) is False:
            continue
        if name in ("L0Norm", "NonNegativeIndicator", "L2BallIndicator"):
            continue  # not smooth (piecewise constant / indicator): outside C07 (see Tables.family)
        try:
            f = cls(y=x) if issubclass(cls, loss.Loss) else cls()
        except Exception:  # noqa: BLE001
            continue
        try:
            val = float(f(x))
        except Exception:  # noqa: BLE001
            continue
        if not np.isfinite(val):
            continue
        try:
            g = np.asarray(f.grad(x))
        except Exception as e:  # noqa: BLE001
            return {"functional": name, "x": np.asarray(x).tolist(), "grad_raised": repr(e)[:200]}
        if np.all(np.isfinite(g)):
            d = snp.array(np.array([[1.0, 0.5], [-0.25, 2.0]]))
            fd = fd_directional(f, x, d, 2.0**-12)
            ri = float(np.sum(g * np.asarray(d)))
            if abs(fd - ri) > 1e-4 * (1 + abs(fd)) and abs(fd_directional(f, x, d, 2.0**-16) - ri) > 1e-4 * (1 + abs(fd)):
                return {"functional": name, "x": np.asarray(x).tolist(), "d": np.asarray(d).tolist(), "re_inner_grad_d": ri, "finite_difference": fd}
    # 2. the wrappers of _autograd.py on a fixed mixed-dtype table row, vjp/jacobian on a fixed non-holomorphic operator,
    #    a fixed use-then-rescale history
    rng = np.random.Generator(np.random.PCG64(2026))
    ns, m = [2, 1, 2], 2
    base = {"tag": "api_table", "ns": ns, "m": m, "kinds": [False, True, True], "As": [G.enc(G.dy(rng, (m, k), True)) for k in ns],
            "y": G.enc(G.dy(rng, (m,), True)), "xs": [G.enc(G.dy(rng, (k,), c)) for k, c in zip(ns, [False, True, True])]}
    for an in API_ARGNUMS:
        for aux in (False, True):
            for api in ("grad", "value_and_grad"):
                r = api_table_oracle(dict(base, argnums=list(an) if isinstance(an, tuple) else an, has_aux=aux, api=api))
                if r is not None:
                    return r
    n = 2
    A, B, C = G.dy(rng, (m, n), True), G.dy(rng, (m, n), True), G.dy(rng, (m, n), True)
    for inc in (False, True):
        case = {"n": n, "m": m, "cplx": True, "A": G.enc(A), "B": G.enc(B), "C": G.enc(C), "c0": G.enc(G.dy(rng, (m,), True)),
                "u": G.enc(G.dy(rng, (n,), True)), "v": G.enc(G.dy(rng, (n,), True)), "w": G.enc(G.dy(rng, (m,), True)),
                "conjugate": True, "include_eval": inc}
        r = jac_oracle(case)
        if r is not None:
            return r
    for br in range(4):
        r = linadj_oracle({"branch": br, "M": G.enc(G.dy(rng, (2, 2), True)), "y": G.enc(G.dy(rng, (2,), True))})
        if r is not None:
            return r
    for kinds_, out in (([False, True], "Re"), ([True, False], "C"), ([True, True], "Re")):
        r = linadj2_oracle({"kinds": kinds_, "cout": out == "C", "realout": out == "Re", "M1": G.enc(G.dy(rng, (2, 2), True)),
                            "M2": G.enc(G.dy(rng, (2, 1), True)), "y": G.enc(G.dy(rng, (2,), out == "C"))})
        if r is not None:
            return r
    # jacrev rows (single argument and argnums=(0,1))
    M = G.dy(rng, (2, 3), True)
    tj = {"k": "sqL2Loss", "s": 1.0, "op": {"kind": "matrix", "m": 2, "M": G.enc(M)}, "y": G.enc(G.dy(rng, (2,), True)), "w": None}
    xj = G.dy(rng, (3,), True)
    for row in range(2):
        r = jacrev_oracle({"tag": "jacrev", "tree": tj, "n": 3, "cplx": True, "x": G.enc(xj), "row": row})
        if r is None:
            r = api_oracle({"tag": "api", "tree": tj, "n": 3, "cplx": True, "x": G.enc(xj), "sizes": [2, 1], "row": row})
        if r is not None:
            return r
    # Function.jvp / vjp (both flags) / jacobian (with and without include_eval) / cvjp(jidx) over every slot
    r = _function_panel(rng)
    if r is not None:
        return r
    # operator algebra: F(G) - a*F
    for cplx_ in (True, False):
        t_ = {"k": "sub", "F": _gen_optree(rng, 2, 2, cplx_, 2), "G": {"k": "smul", "a": [0.5, 1.0 if cplx_ else 0.0], "side": "l", "F": _gen_optree(rng, 2, 2, cplx_, 0)}}
        r = optree_oracle({"tree": t_, "n": 2, "m": 2, "cplx": cplx_, "u": G.enc(G.dy(rng, (2,), cplx_, bits=2, scale=1.0)),
                           "v": G.enc(G.dy(rng, (2,), cplx_, bits=2, scale=1.0)), "w": G.enc(G.dy(rng, (2,), cplx_, bits=2, scale=1.0))})
        if r is not None:
            return r
    hist = [{"k": "new", "s": 1.5}, {"k": "use", "obj": 0}, {"k": "mul", "obj": 0, "c": 3.0, "side": "l"}, {"k": "div", "obj": 0, "c": 4.0},
            {"k": "set", "obj": 1, "s": 0.75}, {"k": "mul", "obj": 1, "c": -0.5, "side": "r"}]
    for kind in ("SquaredL2Loss", "Loss+L1"):
        r = heap_oracle_factory(kind, None)({"kind": kind, "cplx": True, "n": 2, "factory_seed": 7, "ops": hist, "x": G.enc(np.array([0.5 - 1.0j, -1.25 + 0.25j]))})
        if r is not None:
            return r
    return None


def run_corpus(ctx, model):
    d = common.CORPUS_DIR / "C07"
    if not d.exists():
        return
    for p in sorted(d.glob("*.json")):
        c = json.loads(p.read_text())
        ctx.count("corpus")
        if c.get("kind") == "fn":
            _fn_case(ctx, model, c["tree"], c["n"], c["cplx"], G.dec(c["x"]), sizes=c.get("sizes"), tag="corpus")


def _guard(ctx, model, stream):
    """an exception raised by the real code where the model computes a value is a disagreement
    (the rest of that stream is skipped); harness problems stay Infra"""
    try:
        stream(ctx, model)
    except (common.Infra, ModelErr):
        raise
    except Exception as e:  # noqa: BLE001
        import traceback

        tb = traceback.extract_tb(e.__traceback__)
        where = [f"{fr.filename.split('/')[-1]}:{fr.lineno}" for fr in tb][-4:]
        in_scico = any("/scico/" in fr.filename or "/jax/" in fr.filename for fr in tb)
        if not in_scico:
            raise common.Infra(f"{stream.__name__}: {e!r} at {where}") from e
        ctx.disagree(stream.__name__ + ".raised", {"stream": stream.__name__, "where": where}, repr(e)[:300], "model: a value, no error")


def correspond(ctx, model):
    import warnings

    common.setup_scico()
    warnings.filterwarnings("ignore", message="Casting complex values to real")
    for stream in (run_corpus, stream_boundary, stream_l21, stream_tv, stream_setdist, stream_setdist_convex, stream_nuclear, stream_linop_loss, stream_kinks, stream_defaults, stream_fn, stream_blocks, stream_single, stream_real_arg,
                   stream_div_reject, stream_jac, stream_optree, stream_jac_block, stream_jac_mixed, stream_function, stream_hess, stream_heap, stream_heap_exhaustive, stream_autograd_api, stream_api_table, stream_linadj2, stream_default_precision):
        _guard(ctx, model, stream)


SETDIST = "set-distance-grad-nan"
HUBER0 = "huber-nonsep-grad-at-zero"
ISOTV = "isotv-noncircular-grad-nan"
JACMIX = "jacobian-include-eval-mixed-dtype"


def nan_grad_but_differentiable(f, X, g, shape):
    """entries where grad is NaN although the two one-sided difference quotients along that
    coordinate agree (so the functional is differentiable in that coordinate): list of dicts"""
    import scico.numpy as snp

    out = []
    gn = np.asarray(g)
    h = 2.0**-10
    f0 = float(f(X))
    for idx in zip(*np.where(np.isnan(gn.real) | np.isnan(np.imag(gn)))):
        e = np.zeros(shape, dtype=np.asarray(X).dtype)
        e[idx] = 1.0
        E = snp.array(e)
        fdp = (float(f(X + h * E)) - f0) / h
        fdm = (f0 - float(f(X - h * E))) / h
        if abs(fdp - fdm) <= 1e-2 * (1.0 + abs(fdp)):
            out.append({"index": [int(i) for i in idx], "right_difference": fdp, "left_difference": fdm})
    return out


def findings(ctx, model):
    """known findings of C07 on the real code"""
    common.setup_scico()
    import scico.numpy as snp
    from scico import functional

    # HuberNorm(separable=False) is differentiable at 0 (it is 0.5||x||^2 there, gradient 0); before
    # /repo commit 7a3a18a the code differentiated through norm(x): 0 * (0/0) = NaN
    bad = []
    for dt in (np.float64, np.complex128):
        f = functional.HuberNorm(delta=1.0, separable=False)
        z = snp.zeros((3,), dtype=dt)
        g = np.asarray(f.grad(z))
        d = snp.array(np.asarray([1.0, -2.0, 0.5], dtype=dt))
        h = 2.0**-8
        fd = (float(f(z + h * d)) - float(f(z - h * d))) / (2 * h)
        if np.any(np.isnan(g)) and abs(fd) < 1e-12:
            bad.append(str(np.dtype(dt)))
    if bad:
        if ctx.is_known(HUBER0):
            ctx.known_finding(HUBER0, True, "dtypes " + ",".join(bad))
        else:
            ctx.violation({"kind": "failing-input", "op": "fn.huber_nonsep.zero", "failing": {
                "functional": "HuberNorm(delta=1.0, separable=False)", "x": [0.0, 0.0, 0.0], "grad": "nan",
                "finite_difference_along_[1,-2,0.5]": 0.0, "dtypes": bad}}, True, "HuberNorm(separable=False).grad(0) is NaN")
    else:
        ctx.known_finding(HUBER0, False)
    # linop.jacobian(F, u, include_eval=True).adj for a real -> complex operator
    import jax.numpy as jnp
    from scico import linop
    from scico.operator import Operator

    Ar = jnp.asarray(np.array([[1.0 + 1.0j, 2.0], [0.5j, -1.0]]))
    Fr = Operator((2,), output_shape=(2,), eval_fn=lambda x: Ar @ x, input_dtype=np.float64, output_dtype=np.complex128)
    ur = snp.array(np.array([1.0, -2.0]))
    wr = snp.array(np.array([1.0 + 0.5j, -1.0j]))
    try:
        linop.jacobian(Fr, ur, include_eval=True).adj(wr)
        raised = None
    except Exception as e:  # noqa: BLE001
        raised = repr(e)[:120]
    ok_plain = np.allclose(np.asarray(linop.jacobian(Fr, ur, include_eval=False).adj(wr)), np.real(np.conj(np.asarray(Ar)).T @ np.asarray(wr)))
    if not ok_plain:
        ctx.violation({"kind": "failing-input", "op": "jac.jacobian.adj", "failing": {"operator": "x -> A x, A=[[1+1j,2],[0.5j,-1]], real input",
                       "u": [1.0, -2.0], "w": "[1+0.5j, -1j]", "what": "jacobian(...).adj(w) != Re(A^H w)"}}, True, "jacobian adj of a real->complex operator")
    if raised is not None:
        if ctx.is_known(JACMIX):
            ctx.known_finding(JACMIX, True, raised)
        else:
            ctx.violation({"kind": "failing-input", "op": "jac.jacobian.adj.reject", "failing": {
                "operator": "x -> A x, A=[[1+1j,2],[0.5j,-1]], input float64, output complex128", "u": [1.0, -2.0],
                "include_eval": True, "adj_raised": raised}}, True, "jacobian(include_eval=True).adj raises for mixed dtypes")
    else:
        ctx.known_finding(JACMIX, False)
    # IsotropicTVNorm with non-circular boundary: structurally zero difference pair at the last pixel
    shape = (3, 4)
    f = functional.IsotropicTVNorm(circular=False, input_shape=shape, input_dtype=np.float64)
    X = snp.array((np.arange(12, dtype=np.float64).reshape(shape)) ** 2)
    g = f.grad(X)
    badn = nan_grad_but_differentiable(f, X, g, shape) if np.any(np.isnan(np.asarray(g))) else []
    if badn:
        if ctx.is_known(ISOTV):
            ctx.known_finding(ISOTV, True, f"nan at {badn[0]['index']}")
        else:
            ctx.violation({"kind": "failing-input", "op": "search.nan-gradient", "failing": {
                "functional": "IsotropicTVNorm(circular=False, input_shape=(3,4), input_dtype=float64)",
                "x": np.asarray(X).tolist(), "nan_entries": badn}}, True, "IsotropicTVNorm(circular=False).grad has NaN")
    else:
        ctx.known_finding(ISOTV, False)
    # SquaredSetDistance is C^1 everywhere (gradient x - P(x), zero on the set); SetDistance is identically zero
    # near interior points of the set: NaN there is a defect (before /repo 8f5a90e both differentiated through norm(0))
    Pbox = lambda v: snp.clip(v, 0.0, 1.0)  # noqa: E731
    xin = snp.array(np.array([0.25, 0.5, 0.75]))
    badd = {}
    for cls in (functional.SquaredSetDistance, functional.SetDistance):
        fd_ = cls(Pbox)
        gd = fd_.grad(xin)
        if np.any(np.isnan(np.asarray(gd))):
            bb = nan_grad_but_differentiable(fd_, xin, gd, (3,))
            if bb:
                badd[cls.__name__] = bb
    if badd:
        if ctx.is_known(SETDIST):
            ctx.known_finding(SETDIST, True, "NaN gradient inside the set: " + ",".join(sorted(badd)))
        else:
            ctx.violation({"kind": "failing-input", "op": "search.nan-gradient", "failing": {
                "functional": "SquaredSetDistance / SetDistance (proj = clip to [0,1])", "x": [0.25, 0.5, 0.75],
                "nan_entries": badd}}, True, "set distance gradient is NaN at points of the set")
    else:
        ctx.known_finding(SETDIST, False)


def _search_fd(ctx, budget):
    """finite-difference oracle on a wide set of functionals/losses of the implementation, including
    classes outside the Lean model (TV norms, nuclear norm, set distances, Poisson, abs losses, proximal average)"""
    common.setup_scico()
    import scico.numpy as snp
    from scico import functional, linop, loss

    rng = ctx.rng
    tested = 0
    for it in range(budget):
        cplx = bool(rng.random() < 0.4)
        dt = np.complex128 if cplx else np.float64
        r, c = int(rng.integers(2, 4)), int(rng.integers(2, 4))
        shape = (r, c)
        which = int(rng.integers(14))
        X = G.dy(rng, shape, cplx, nz=True, bits=3)
        # keep away from coincidences by an irrational-ish offset
        X = X + (0.0137 * (1 + np.arange(r * c).reshape(shape)))
        y = G.dy(rng, shape, cplx)
        name = None
        try:
            if which == 0:
                f, name = functional.L21Norm(l2_axis=int(rng.integers(2))), "L21Norm"
            elif which == 1:
                f, name = functional.L1MinusL2Norm(beta=0.5), "L1MinusL2Norm"
            elif which == 2:
                f, name = functional.SetDistance(lambda v: snp.clip(v.real, 0.0, 0.5) + 0j * v if cplx else snp.clip(v, 0.0, 0.5)), "SetDistance"
                if cplx:
                    continue
                if rng.random() < 0.3:
                    X = 0.25 + 0.125 * np.real(X) / 2.5  # a point in the interior of the set
            elif which == 3:
                if cplx:
                    continue
                f, name = functional.SquaredSetDistance(lambda v: snp.clip(v, 0.0, 0.5)), "SquaredSetDistance"
                if rng.random() < 0.4:
                    X = 0.25 + 0.125 * np.real(X) / 2.5  # a point of the set (the squared distance is C^1 there)
            elif which == 4:
                f, name = functional.AnisotropicTVNorm(input_shape=shape, input_dtype=dt), "AnisotropicTVNorm"
            elif which == 5:
                f, name = functional.IsotropicTVNorm(circular=bool(rng.integers(2)), input_shape=shape, input_dtype=dt), "IsotropicTVNorm"
            elif which == 6:
                if cplx:
                    continue
                f, name = functional.NuclearNorm(), "NuclearNorm"
            elif which == 7:
                if cplx:
                    continue
                f, name = functional.ProximalAverage([functional.L1Norm(), functional.SquaredL2Norm()]), "ProximalAverage"
            elif which == 8:
                if cplx:
                    continue
                A = linop.Diagonal(snp.array(np.abs(np.real(G.dy(rng, shape, False))) + 0.5))
                f, name = loss.PoissonLoss(y=snp.array(np.abs(np.real(y)) + 1.0), A=A, scale=G.dyscalar(rng, True)), "PoissonLoss"
                X = np.abs(np.real(X)) + 0.5
            elif which == 9:
                A = linop.Diagonal(snp.array(np.asarray(G.dy(rng, shape, cplx, nz=True), dtype=dt)))
                f, name = loss.SquaredL2AbsLoss(y=snp.array(np.abs(np.real(y))), A=A, scale=G.dyscalar(rng)), "SquaredL2AbsLoss"
            elif which == 10:
                A = linop.Diagonal(snp.array(np.asarray(G.dy(rng, shape, cplx, nz=True), dtype=dt)))
                f, name = 2.0 * loss.SquaredL2SquaredAbsLoss(y=snp.array(np.abs(np.real(y))), A=A, scale=G.dyscalar(rng)), "2*SquaredL2SquaredAbsLoss"
            elif which == 11:
                # loss composed with a nonlinear operator
                from scico.operator import Operator
                import jax.numpy as jnp

                Fop = Operator(shape, output_shape=shape, eval_fn=lambda v: v * v + 0.5 * v, input_dtype=dt, output_dtype=dt)
                f, name = loss.SquaredL2Loss(y=snp.array(np.asarray(y, dtype=dt)), A=Fop, scale=G.dyscalar(rng)) / 2.0, "SquaredL2Loss(nonlinear A)/2"
            elif which == 12:
                f, name = (functional.HuberNorm(0.75, separable=bool(rng.integers(2))) + 0.5 * functional.L2Norm()) * 3.0, "(Huber+0.5*L2)*3"
            else:
                A = linop.Convolve(h=snp.array(np.asarray(G.dy(rng, (2, 2), cplx), dtype=dt)), input_shape=shape, input_dtype=dt, mode="same")
                f, name = loss.SquaredL2Loss(y=snp.array(np.asarray(y, dtype=dt)), A=A) * G.dyscalar(rng), "SquaredL2Loss(Convolve)*c"
        except Exception as e:  # noqa: BLE001
            ctx.count(f"search:construct-failed:{type(e).__name__}")
            continue
        Xs = snp.array(np.asarray(X if cplx else np.real(X), dtype=dt))
        try:
            g = np.asarray(f.grad(Xs))
        except Exception as e:  # noqa: BLE001
            return {"functional": name, "x": G.enc(X), "shape": list(shape), "grad_raised": repr(e)[:300]}
        tested += 1
        ctx.count(f"search:{name}")
        if np.any(np.isnan(g)):
            badn = nan_grad_but_differentiable(f, Xs, g, shape)
            known_nan = (name == "IsotropicTVNorm" and ctx.is_known(ISOTV)) or (name in ("SetDistance", "SquaredSetDistance") and ctx.is_known(SETDIST))
            if badn and not known_nan:
                return {"functional": name, "shape": list(shape), "cplx": cplx, "x": G.enc(X), "grad_is_nan_at": badn}
            ctx.count("search:nan-gradient:" + ("known" if badn else "at-a-kink"))
            continue
        for _ in range(3):
            d = G.dy(rng, shape, cplx, bits=3, scale=1.0)
            Ds = snp.array(np.asarray(d if cplx else np.real(d), dtype=dt))
            h = 2.0**-12
            fd = fd_directional(f, Xs, Ds, h)
            ri = float(np.real(np.sum(np.conj(g) * np.asarray(Ds))))
            if abs(fd - ri) > 2e-5 * (1 + abs(fd) + abs(float(f(Xs)))):
                # a kink within the stencil would also look like this: re-test on a shorter stencil
                fd2 = fd_directional(f, Xs, Ds, h / 16)
                if abs(fd2 - ri) > 2e-5 * (1 + abs(fd2) + abs(float(f(Xs)))):
                    return {"functional": name, "shape": list(shape), "cplx": cplx, "x": G.enc(X), "d": G.enc(d),
                            "re_inner_grad_d": ri, "finite_difference": fd2}
    ctx.extra["search_tested"] = tested
    return None


def search(ctx, model, why):
    if why is not None:
        r = _targeted_oracles(ctx)
        if r is not None:
            return r
    return _search_fd(ctx, ctx.n(60, 600))


def replay(ctx, model, case):
    common.setup_scico()
    c = case.get("case", case)
    op = case.get("op", "")
    r = None
    if c.get("tag") == "api_table":
        r = api_table_oracle(c)
    elif c.get("tag") == "api":
        r = api_oracle(c)
    elif "tree" in c and "x" in c and op.startswith("fn"):
        r = fn_oracle(ctx.seed)(c)
    elif op.startswith("api.jacrev"):
        r = jacrev_oracle(c)
    elif op.startswith("linadj2"):
        r = linadj2_oracle(c)
    elif op.startswith("tv"):
        r = tv_oracle(c)
    elif op.startswith("linop_loss"):
        r = linop_loss_oracle(c)
    elif op.startswith("linadj"):
        r = linadj_oracle(c)
    elif op.startswith("optree"):
        r = optree_oracle(c)
    elif op.startswith("jac_block"):
        r = jac_block_oracle(c)
    elif op.startswith("jac"):
        r = jac_oracle(c)
    elif op.startswith("hess"):
        r = hess_oracle(c)
    elif op.startswith("heap"):
        r = heap_oracle_factory(c.get("kind"), None)(c)
    print("replay:", "property FAILS on implementation:" if r else "no failure at this input", json.dumps(r)[:600] if r else "")
    if r:
        ctx.violation({"kind": "failing-input", "case": c, "failing": r}, True, "replay")
