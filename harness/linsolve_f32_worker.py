"""Default-precision worker of the LinSolve engine (C14, C10) - run as a subprocess WITHOUT jax_enable_x64.

Everything is built from float32 / complex64 data (and Python scalars, weakly typed); for every item: nothing may raise, the returned
array must be 32-bit of the kind of the data, the DOCUMENTED system (evaluated here in numpy float64) must be satisfied at a
float32-appropriate relative residual, and a reported `accuracy` / `rel_res` must be consistent with the true relative residual.
Reads {"repo": …, "which": "c14" | "c10", "seed": s} on stdin, prints {"results": [...]} on stdout.
"""

import json
import os
import sys
import warnings

os.environ["JAX_PLATFORMS"] = "cpu"
os.environ.pop("JAX_ENABLE_X64", None)
req = json.loads(sys.stdin.read())
sys.path.insert(0, req["repo"])
warnings.simplefilter("ignore")
import numpy as np  # noqa: E402

import jax  # noqa: E402

assert not jax.config.jax_enable_x64
import jax.numpy as jnp  # noqa: E402

from scico import functional, linop, loss, solver  # noqa: E402
from scico.flax import inverse  # noqa: E402
from scico.optimize import ADMM  # noqa: E402
from scico.optimize import _admmaux as aux  # noqa: E402

rng = np.random.Generator(np.random.PCG64(1000 + int(req.get("seed", 0))))
out = []


def rnd(shape, cplx):
    v = rng.integers(-8, 9, size=shape) / 8.0
    if cplx:
        v = v + 1j * rng.integers(-8, 9, size=shape) / 8.0
    return v


def hpd(n, cplx):
    B = rnd((n, n), cplx)
    return B @ B.conj().T + n * np.eye(n)


def dt(cplx):
    return np.complex64 if cplx else np.float32


def relres(ax, b):
    nrm = max(float(np.linalg.norm(np.ravel(ax))), float(np.linalg.norm(np.ravel(b))))
    return 0.0 if nrm == 0 else float(np.linalg.norm(np.ravel(b - ax))) / nrm


def item(name, cplx, fn):
    """fn() -> (x, lhs64(x64) , rhs64, tol, extra) ; x is the jax result"""
    rec = {"name": name, "dtype": "complex64" if cplx else "float32"}
    try:
        x, H, q, tol, extra = fn()
        xa = np.asarray(x)
        rec["result_dtype"] = str(xa.dtype)
        rec["dtype_ok"] = bool(xa.dtype == dt(cplx))
        res = relres(H(xa.astype(np.complex128 if cplx else np.float64)), q)
        rec["relative_residual"] = res
        rec["tolerance"] = tol
        rec["finite"] = bool(np.all(np.isfinite(xa)))
        rec["value_ok"] = bool(rec["finite"] and res <= tol)
        for k, v in (extra or {}).items():
            rec[k] = v
        if extra and "reported" in extra:
            rec["reported_ok"] = bool(np.isfinite(extra["reported"]) and abs(float(extra["reported"]) - extra.get("true_for_reported", res)) <= 5e-3)
    except Exception as e:  # noqa: BLE001
        rec["raised"] = repr(e)[:300]
    out.append(rec)


# ---------------------------------------------------------------------------------------------- C14


def c14_items():
    for cplx in (False, True):
        d = dt(cplx)
        n = 4
        A = hpd(n, cplx)
        b = rnd((n,), cplx)
        Aj = jnp.array(A, dtype=d)
        bj = jnp.array(b, dtype=d)
        Aop = linop.MatrixOperator(Aj)

        def cg_op():
            x, info = solver.cg(Aop, bj)
            rr = float(info["rel_res"])
            return x, (lambda v: A @ v), b, 1e-3, {"reported": rr, "true_for_reported": float(np.linalg.norm(b - A @ np.asarray(x))) / float(np.linalg.norm(b)),
                                                    "num_iter": int(info["num_iter"])}

        item("cg(LinearOperator, defaults)", cplx, cg_op)

        def cg_fn():
            x, info = solver.cg(lambda v: Aj @ v, bj, jnp.zeros(n, dtype=d), tol=1e-4, M=lambda r: r / jnp.diag(Aj).real.astype(d))
            return x, (lambda v: A @ v), b, 2e-3, {"num_iter": int(info["num_iter"])}

        item("cg(callable, x0, M)", cplx, cg_fn)

        def cgs():
            x = inverse.cg_solver(lambda v: Aj @ v, bj, maxiter=8)
            return x, (lambda v: A @ v), b, 1e-3, None

        item("cg_solver(maxiter=8)", cplx, cgs)
        T = rnd((6, 3), cplx) + np.eye(6, 3) * 2
        bt = rnd((6,), cplx)

        def ls():
            x = solver.lstsq(linop.MatrixOperator(jnp.array(T, dtype=d)), jnp.array(bt, dtype=d))
            return x, (lambda v: T.conj().T @ (T @ v)), T.conj().T @ bt, 2e-3, None

        item("lstsq(defaults)", cplx, ls)
        for shape, ddiag, wk, k in (((5, 3), True, True, 0), ((2, 4), True, True, 0), ((2, 4), True, False, 3), ((3, 3), False, True, 2), ((2, 4), False, False, 0)):
            m, nn = shape
            Am = rnd(shape, cplx)
            Dm = (rng.integers(2, 9, size=nn) / 2.0) if ddiag else hpd(nn, cplx) / nn + np.eye(nn)
            Wv = rng.integers(1, 9, size=m) / 4.0 if wk else None
            bm = rnd((nn,) if k == 0 else (nn, k), cplx)
            H = Am.conj().T @ (np.eye(m) if Wv is None else np.diag(Wv)) @ Am + (np.diag(Dm) if ddiag else Dm)

            def atad(Am=Am, Dm=Dm, Wv=Wv, bm=bm, H=H):
                s = solver.MatrixATADSolver(jnp.array(Am, dtype=d), jnp.array(Dm, dtype=d), None if Wv is None else jnp.array(Wv, dtype=d))
                bj_ = jnp.array(bm, dtype=d)
                x = s.solve(bj_)
                acc = float(s.accuracy(x, bj_))
                return x, (lambda v: H @ v), bm, 1e-3, {"reported": acc, "woodbury": bool(s.woodbury)}

            item(f"MatrixATADSolver({m}x{nn}, D {'1-D' if ddiag else '2-D'}, W {'given' if wk else 'None'}, rhs {'vector' if k == 0 else 'matrix'})", cplx, atad)
        K, N = 2, 4
        h = rnd((K, 2), cplx)
        bb = rnd((K, N), cplx)

        def conv():
            C = linop.CircularConvolve(jnp.array(h, dtype=d), input_shape=(K, N), ndims=1, input_dtype=d)
            Aop2 = linop.Sum(input_shape=(K, N), input_dtype=d, axis=0) @ C
            D = linop.CircularConvolve(jnp.full((K, N), 2.0, dtype=np.complex64), input_shape=(K, N), ndims=1, input_dtype=d, h_is_dft=True)
            s = solver.ConvATADSolver(Aop2, D)
            bj_ = jnp.array(bb, dtype=d)
            x = s.solve(bj_)
            acc = float(s.accuracy(x, bj_))
            hp = np.zeros((K, N), dtype=np.complex128)
            hp[:, :2] = h
            hh = np.fft.fft(hp, axis=1)

            def Hf(v):
                vh = np.fft.fft(v, axis=1)
                sm = np.sum(hh * vh, axis=0, keepdims=True)
                r = np.fft.ifft(np.conj(hh) * sm, axis=1) + 2.0 * v
                return r if cplx else r.real

            return x, Hf, bb, 1e-3, {"reported": acc}

        item("ConvATADSolver(K=2)", cplx, conv)
    # scalar solvers: float32 brackets, default tolerances (below the float32 resolution: the loops run to maxiter)
    roots = np.array([0.3, -1.2, 2.0])
    a = jnp.array(roots - 1.0, dtype=np.float32)
    b2 = jnp.array(roots + 0.75, dtype=np.float32)
    rj = jnp.array(roots, dtype=np.float32)

    def bis():
        x = solver.bisect(lambda t: (t - rj) * (1.0 + (t - rj) ** 2), a, b2)
        return x, (lambda v: v), roots, 1e-5, {"inside_bracket": bool(np.all(np.asarray(x) >= np.asarray(a)) and np.all(np.asarray(x) <= np.asarray(b2)))}

    item("bisect(defaults)", False, bis)

    def gold():
        x, info = solver.golden(lambda t: (t - rj) ** 2 + 1.0, a, b2, full_output=True)
        return x, (lambda v: v), roots, 2e-3, {"iter": int(info["iter"])}

    item("golden(defaults)", False, gold)


# ---------------------------------------------------------------------------------------------- C10


def c10_items():
    for cplx in (False, True):
        d = dt(cplx)
        n = 3
        A = rnd((4, n), cplx)
        y = rnd((4,), cplx)
        Wv = rng.integers(1, 9, size=4) / 4.0
        Cd = rnd((n,), cplx) + 2.0
        z1, u1, z2, u2 = rnd((n,), cplx), rnd((n,), cplx), rnd((n,), cplx), rnd((n,), cplx)
        alpha, r1, r2 = 2.0, 1.5, 0.5
        H = 2 * alpha * A.conj().T @ (Wv[:, None] * A) + r1 * np.eye(n) + r2 * np.diag(np.abs(Cd) ** 2)
        q = 2 * alpha * A.conj().T @ (Wv * y) + r1 * (z1 - u1) + r2 * np.conj(Cd) * (z2 - u2)

        def dense(sv):
            def run():
                f = loss.SquaredL2Loss(y=jnp.array(y, dtype=d), A=linop.MatrixOperator(jnp.array(A, dtype=d)), scale=alpha,
                                       W=linop.Diagonal(jnp.array(Wv, dtype=np.float32)))
                C_list = [linop.Diagonal(jnp.ones(n, dtype=d)), linop.Diagonal(jnp.array(Cd, dtype=d))]
                admm = ADMM(f=f, g_list=[functional.ZeroFunctional(), functional.ZeroFunctional()], C_list=C_list, rho_list=[r1, r2],
                            x0=jnp.zeros(n, dtype=d), maxiter=1, subproblem_solver=sv)
                admm.z_list = [jnp.array(z1, dtype=d), jnp.array(z2, dtype=d)]
                admm.u_list = [jnp.array(u1, dtype=d), jnp.array(u2, dtype=d)]
                x = sv.solve(jnp.zeros(n, dtype=d))
                extra = {}
                if getattr(sv, "accuracy", None) is not None and not callable(getattr(sv, "accuracy")):
                    extra["reported"] = float(sv.accuracy)
                return x, (lambda v: H @ v), q, 5e-3, extra

            return run

        item("LinearSubproblemSolver(scico cg)", cplx, dense(aux.LinearSubproblemSolver()))
        item("LinearSubproblemSolver(jax cg)", cplx, dense(aux.LinearSubproblemSolver(cg_function="jax")))
        item("MatrixSubproblemSolver", cplx, dense(aux.MatrixSubproblemSolver(check_solve=True)))
        if not cplx:
            item("GenericSubproblemSolver", cplx, dense(aux.GenericSubproblemSolver()))
        # circulant
        N = 5
        h = rnd((2,), cplx)
        yc = rnd((N,), cplx)
        zc, uc = rnd((N,), cplx), rnd((N,), cplx)
        zf, uf = rnd((1, N), cplx), rnd((1, N), cplx)

        def circ():
            Aop = linop.CircularConvolve(jnp.array(h, dtype=d), input_shape=(N,), ndims=1, input_dtype=d)
            f = loss.SquaredL2Loss(y=jnp.array(yc, dtype=d), A=Aop, scale=alpha)
            C_list = [linop.Identity((N,), input_dtype=d), linop.FiniteDifference((N,), input_dtype=d, circular=True)]
            sv = aux.CircularConvolveSolver(ndims=1)
            admm = ADMM(f=f, g_list=[functional.ZeroFunctional(), functional.ZeroFunctional()], C_list=C_list, rho_list=[r1, r2],
                        x0=jnp.zeros(N, dtype=d), maxiter=1, subproblem_solver=sv)
            admm.z_list = [jnp.array(zc, dtype=d), jnp.array(zf, dtype=d)]
            admm.u_list = [jnp.array(uc, dtype=d), jnp.array(uf, dtype=d)]
            x = sv.solve(admm.x)
            hp = np.zeros(N, dtype=np.complex128)
            hp[:2] = h
            Am = np.stack([np.roll(hp, k) for k in range(N)], axis=1)
            Fd = np.roll(np.eye(N), -1, axis=0) - np.eye(N)
            Hm = 2 * alpha * Am.conj().T @ Am + r1 * np.eye(N) + r2 * Fd.T @ Fd
            qm = 2 * alpha * Am.conj().T @ yc + r1 * (zc - uc) + r2 * Fd.T @ (zf - uf)[0]
            if not cplx:
                Hm, qm = Hm.real, qm.real
            return x, (lambda v: Hm @ v), qm, 2e-3, None

        item("CircularConvolveSolver", cplx, circ)
        K = 2
        hb = rnd((K, 2), cplx)
        yb = rnd((N,), cplx)
        zb, ub = rnd((K, N), cplx), rnd((K, N), cplx)
        z0, u0 = rnd((N,), cplx), rnd((N,), cplx)

        def block(which):
            def run():
                Cc = linop.CircularConvolve(jnp.array(hb, dtype=d), input_shape=(K, N), ndims=1, input_dtype=d)
                AA = linop.Sum(input_shape=(K, N), input_dtype=d, axis=0) @ Cc
                Id = linop.Identity((K, N), input_dtype=d)
                hp = np.zeros((K, N), dtype=np.complex128)
                hp[:, :2] = hb
                Ak = [np.stack([np.roll(hp[k], j) for j in range(N)], axis=1) for k in range(K)]
                Am = np.concatenate(Ak, axis=1)  # N x (K N), row-major flattening of (K, N)
                if which == "fblock":
                    f = loss.SquaredL2Loss(y=jnp.array(yb, dtype=d), A=AA, scale=alpha)
                    sv = aux.FBlockCircularConvolveSolver(ndims=1, check_solve=True)
                    admm = ADMM(f=f, g_list=[functional.ZeroFunctional()], C_list=[Id], rho_list=[r1], x0=jnp.zeros((K, N), dtype=d), maxiter=1,
                                subproblem_solver=sv)
                    admm.z_list, admm.u_list = [jnp.array(zb, dtype=d)], [jnp.array(ub, dtype=d)]
                    Hm = 2 * alpha * Am.conj().T @ Am + r1 * np.eye(K * N)
                    qm = 2 * alpha * Am.conj().T @ yb + r1 * (zb - ub).ravel()
                else:
                    g1 = loss.SquaredL2Loss(y=jnp.array(yb, dtype=d), scale=0.5)
                    sv = aux.G0BlockCircularConvolveSolver(ndims=1, check_solve=True)
                    admm = ADMM(f=functional.ZeroFunctional(), g_list=[g1, functional.ZeroFunctional()], C_list=[AA, Id], rho_list=[r2, r1],
                                x0=jnp.zeros((K, N), dtype=d), maxiter=1, subproblem_solver=sv)
                    admm.z_list = [jnp.array(z0, dtype=d), jnp.array(zb, dtype=d)]
                    admm.u_list = [jnp.array(u0, dtype=d), jnp.array(ub, dtype=d)]
                    Hm = r2 * Am.conj().T @ Am + r1 * np.eye(K * N)
                    qm = r2 * Am.conj().T @ (z0 - u0) + r1 * (zb - ub).ravel()
                if not cplx:
                    Hm, qm = Hm.real, qm.real
                x = sv.solve(admm.x)
                return x, (lambda v: (Hm @ v.ravel()).reshape(K, N)), qm.reshape(K, N), 2e-3, {"reported": float(sv.accuracy)}

            return run

        item("FBlockCircularConvolveSolver", cplx, block("fblock"))
        item("G0BlockCircularConvolveSolver(scale 0.5)", cplx, block("g0"))


(c14_items if req.get("which") == "c14" else c10_items)()
print(json.dumps({"results": out}))
