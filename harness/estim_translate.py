"""Translator of the Estim engine (C17): data of `scico/linop/_util.py`, `_diag.py`, `_matrix.py`, `scico/optimize/_primaldual.py`,
`_padmm.py` that the Lean model copies -> lean/Scico/Generated/EstimTables.lean.   `ast` only, nothing is imported.

* signatures (parameters and defaults: maxiter, key, ratio, factor, x, z, B) of `power_iteration`, `operator_norm` and the three
  `estimate_parameters`; the literal that replaces `factor=None` in PDHG; the smallest accepted budget of `power_iteration`;
* the `ord` tables: keys and functions of `ordfunc` in `Diagonal.norm`, its remapping chain (`None -> 'fro'`, `-1,-2 -> -inf`,
  `1,2 -> inf`), the branches of `ScaledIdentity.norm` (orders and returned expression);
* statement skeletons of the eight transcribed functions.
"""

from __future__ import annotations

import ast
from pathlib import Path

import common
from stepsize_translate import (Untranslatable, find_function, lean_lit, lean_sig, lean_skeletons, lean_str, pylit, signature,
                                skeleton)

OUT = common.LEAN_DIR / "Scico" / "Generated" / "EstimTables.lean"

UTIL, DIAG, MAT, PD, PADMM = ("scico/linop/_util.py", "scico/linop/_diag.py", "scico/linop/_matrix.py",
                              "scico/optimize/_primaldual.py", "scico/optimize/_padmm.py")

FUNCS = [
    ("power_iteration", UTIL, None, "power_iteration"),
    ("operator_norm", UTIL, None, "operator_norm"),
    ("PDHG.estimate_parameters", PD, "PDHG", "estimate_parameters"),
    ("ProximalADMM.estimate_parameters", PADMM, "ProximalADMM", "estimate_parameters"),
    ("NonLinearPADMM.estimate_parameters", PADMM, "NonLinearPADMM", "estimate_parameters"),
    ("Diagonal.norm", DIAG, "Diagonal", "norm"),
    ("ScaledIdentity.norm", DIAG, "ScaledIdentity", "norm"),
    ("MatrixOperator.norm", MAT, "MatrixOperator", "norm"),
]


def ord_of(node, where):
    """the model's `Ord` of a source expression: None, 'fro', 'nuc', snp.inf, -snp.inf, an integer"""
    txt = ast.unparse(node)
    if txt == "None":
        return "Ord.none"
    if txt in ("'fro'", '"fro"'):
        return "Ord.fro"
    if txt in ("'nuc'", '"nuc"'):
        return "Ord.nuc"
    if txt in ("snp.inf", "np.inf"):
        return "Ord.pinf"
    if txt in ("-snp.inf", "-np.inf"):
        return "Ord.ninf"
    l = pylit(node)
    if l[0] == "int":
        return f"Ord.int ({l[1]})"
    raise Untranslatable(f"{where}: order {txt} has no counterpart in the model")


def ords_of_test(test, var, where):
    """orders selected by a test on `var`: `var is None`, `var == c`, `var in (c1, …)`, joined by `or`"""
    if isinstance(test, ast.BoolOp) and isinstance(test.op, ast.Or):
        return [o for t in test.values for o in ords_of_test(t, var, where)]
    if isinstance(test, ast.Compare) and len(test.ops) == 1 and ast.unparse(test.left) == var:
        op, rhs = test.ops[0], test.comparators[0]
        if isinstance(op, (ast.Is, ast.Eq)):
            return [ord_of(rhs, where)]
        if isinstance(op, ast.In) and isinstance(rhs, (ast.Tuple, ast.List)):
            return [ord_of(e, where) for e in rhs.elts]
    raise Untranslatable(f"{where}: test {ast.unparse(test)} is not a selection of orders of `{var}`")


def if_chain(node):
    out = []
    while True:
        out.append((node.test, node.body))
        if len(node.orelse) == 1 and isinstance(node.orelse[0], ast.If):
            node = node.orelse[0]
            continue
        return out, node.orelse


def read_tables(repo: Path | None = None):
    repo = Path(repo) if repo else common.REPO
    trees = {}
    fns = {}
    for key, path, cname, fname in FUNCS:
        if path not in trees:
            trees[path] = ast.parse((repo / path).read_text())
        fn = find_function(trees[path], cname, fname)
        if fn is None:
            raise Untranslatable(f"{path}: {key} not found")
        fns[key] = fn
    out = {"signatures": [(k, signature(fns[k])) for k, *_ in FUNCS[:5]], "skeletons": [(k, skeleton(fns[k].body)) for k, *_ in FUNCS]}
    # `if factor is None: factor = <lit>` in PDHG.estimate_parameters
    lit = None
    for st in fns["PDHG.estimate_parameters"].body:
        if isinstance(st, ast.If) and ast.unparse(st.test) == "factor is None" and len(st.body) == 1 and isinstance(st.body[0], ast.Assign):
            lit = pylit(st.body[0].value)
    if lit is None:
        raise Untranslatable("PDHG.estimate_parameters: replacement of factor=None not found")
    out["pdhgFactorNone"] = lit
    # `if maxiter < <lit>: raise ValueError` in power_iteration
    lit = None
    for st in fns["power_iteration"].body:
        if (isinstance(st, ast.If) and isinstance(st.test, ast.Compare) and ast.unparse(st.test.left) == "maxiter"
                and isinstance(st.test.ops[0], ast.Lt) and isinstance(st.body[0], ast.Raise)):
            lit = pylit(st.test.comparators[0])
    if lit is None:
        raise Untranslatable("power_iteration: budget check not found")
    out["powerMinBudget"] = lit
    # Diagonal.norm: ordfunc and the remapping chain of mord
    dn = fns["Diagonal.norm"]
    ordfunc = [st for st in dn.body if isinstance(st, ast.Assign) and ast.unparse(st.targets[0]) == "ordfunc"]
    if len(ordfunc) != 1 or not isinstance(ordfunc[0].value, ast.Dict):
        raise Untranslatable("Diagonal.norm: ordfunc dict literal not found")
    out["diagOrdFunc"] = [(ord_of(k, "Diagonal.norm"), ast.unparse(v)) for k, v in zip(ordfunc[0].value.keys, ordfunc[0].value.values)]
    chains = [st for st in dn.body if isinstance(st, ast.If) and "mord" in ast.unparse(st.test) and "not in" not in ast.unparse(st.test)]
    if len(chains) != 1:
        raise Untranslatable("Diagonal.norm: remapping chain of mord not found")
    branches, orelse = if_chain(chains[0])
    if orelse:
        raise Untranslatable("Diagonal.norm: remapping chain has an else branch")
    remap = []
    for test, body in branches:
        if len(body) != 1 or not (isinstance(body[0], ast.Assign) and ast.unparse(body[0].targets[0]) == "mord"):
            raise Untranslatable("Diagonal.norm: remapping branch is not a single assignment to mord")
        remap.append((ords_of_test(test, "mord", "Diagonal.norm"), ord_of(body[0].value, "Diagonal.norm")))
    out["diagRemap"] = remap
    # ScaledIdentity.norm: if-chain on ord with returns, else raise
    sn = fns["ScaledIdentity.norm"]
    chains = [st for st in sn.body if isinstance(st, ast.If)]
    if len(chains) != 1:
        raise Untranslatable("ScaledIdentity.norm: expected one if-chain")
    branches, orelse = if_chain(chains[0])
    if not (len(orelse) == 1 and isinstance(orelse[0], ast.Raise)):
        raise Untranslatable("ScaledIdentity.norm: chain does not end in raise")
    sid = []
    for test, body in branches:
        if len(body) != 1 or not isinstance(body[0], ast.Return):
            raise Untranslatable("ScaledIdentity.norm: branch is not a single return")
        sid.append((ords_of_test(test, "ord", "ScaledIdentity.norm"), ast.unparse(body[0].value)))
    out["sidBranches"] = sid
    return out


def _ords(os):
    return "[" + ", ".join(os) + "]"


def lean_tables(t, names):
    sigs = "[\n" + ",\n".join(f"  ({lean_str(k)}, {lean_sig(s)})" for k, s in t["signatures"]) + "]"
    return "\n".join([
        f"def {names['signatures']} : List (String × List (String × PyLit)) := " + sigs, "",
        f"def {names['pdhgFactorNone']} : PyLit := " + lean_lit(t["pdhgFactorNone"]), "",
        f"def {names['powerMinBudget']} : PyLit := " + lean_lit(t["powerMinBudget"]), "",
        f"def {names['diagOrdFunc']} : List (Ord × String) := [" + ", ".join(f"({o}, {lean_str(v)})" for o, v in t["diagOrdFunc"]) + "]", "",
        f"def {names['diagRemap']} : List (List Ord × Ord) := [" + ", ".join(f"({_ords(os)}, {o})" for os, o in t["diagRemap"]) + "]", "",
        f"def {names['sidBranches']} : List (List Ord × String) := [" + ", ".join(f"({_ords(os)}, {lean_str(v)})" for os, v in t["sidBranches"]) + "]", "",
        f"def {names['skeletons']} : List (String × List (Nat × String)) := " + lean_skeletons(t["skeletons"]), "",
    ])


MODEL_NAMES = {"signatures": "estimSignatures", "pdhgFactorNone": "pdhgFactorNone", "powerMinBudget": "powerMinBudget",
               "diagOrdFunc": "diagOrdFunc", "diagRemap": "diagRemap", "sidBranches": "sidBranches", "skeletons": "sourceSkeletons"}
GEN_NAMES = {k: "src_" + k for k in MODEL_NAMES}


def render(t) -> str:
    obl = "\n".join(f"theorem {k}_ok : {GEN_NAMES[k]} = Scico.Estim.{MODEL_NAMES[k]} := by decide +kernel" for k in MODEL_NAMES)
    return "\n".join([
        "/- GENERATED by harness/estim_translate.py from scico/linop/_util.py, _diag.py, _matrix.py, scico/optimize/_primaldual.py,",
        "   _padmm.py — rewritten on every run, do not edit. -/",
        "import Scico.Model.EstimSource",
        "",
        "namespace Scico.Generated.EstimTables",
        "open Scico.Estim",
        "",
        lean_tables(t, GEN_NAMES),
        obl,
        "",
        "end Scico.Generated.EstimTables",
        "",
    ])


def render_model(t) -> str:
    return lean_tables(t, MODEL_NAMES)


def generate(repo: Path | None = None):
    t = read_tables(repo)
    txt = render(t)
    OUT.parent.mkdir(parents=True, exist_ok=True)
    if not OUT.exists() or OUT.read_text() != txt:
        OUT.write_text(txt)
    return t


PINNED = Path(__file__).resolve().parent / "estim_pinned.json"


def _flat(t):
    """tables as {row key: value} for comparison"""
    import json as _json

    out = {}
    for k, v in t.items():
        if k == "skeletons":
            for name, lines in v:
                out["skeleton:" + name] = _json.dumps(lines)
        elif k == "signatures":
            for name, sig in v:
                out["signature:" + name] = _json.dumps(sig)
        elif k == "classes":
            for row in v:
                out["class:" + row[0]] = _json.dumps(row)
        else:
            out[k] = _json.dumps(v, default=str)
    return out


def write_pinned(repo=None):
    """snapshot of the tables the model file was refreshed from (written together with `--model`)"""
    import json as _json

    PINNED.write_text(_json.dumps(_flat(read_tables(repo)), indent=0, sort_keys=True))


def changed_keys(repo=None):
    """rows of the current source tables that differ from the pinned snapshot (= from the model's tables)"""
    import json as _json

    cur = _flat(read_tables(repo))
    old = _json.loads(PINNED.read_text()) if PINNED.exists() else {}
    return sorted(k for k in set(cur) | set(old) if cur.get(k) != old.get(k))


if __name__ == "__main__":
    import sys

    if "--model" in sys.argv:
        print(render_model(read_tables()))
        write_pinned()
    else:
        import json

        print(json.dumps(read_tables(), indent=1, default=str))
