"""Catalog of scico objects for the multi-mode / multi-history differential runner of C19 (engine Cache),
and deep snapshots of object state for the mutation / aliasing probes.

An entry is `Entry(name, kind, build, calls, hist, tol)`:
  build(jit)   -> fresh object (jit in {None, True, False}: constructor option, None = not passed)
  calls        -> list of (call name, fn(obj) -> callable on arrays, tuple of argument arrays)
  hist(obj)    -> use the object with OTHER shapes / dtypes / parameters (history stream), or None
  has_jit      -> the constructor accepts `jit=`
Nothing is imported at module import time (call common.setup_scico() first).
"""

from __future__ import annotations

from dataclasses import dataclass, field
from typing import Any, Callable, List, Optional, Tuple

import numpy as np

import common


@dataclass
class Entry:
    name: str
    kind: str
    build: Callable[[Optional[bool]], Any]
    calls: List[Tuple[str, Callable[[Any], Callable], tuple]]
    hist: Optional[Callable[[Any], None]] = None
    has_jit: bool = False
    rtol: float = 1e-9
    dtype: str = "float64"


def _arr(rng, shape, dtype=np.float64, bits=4, scale=2.0):
    import jax.numpy as jnp

    if len(shape) and isinstance(shape[0], (tuple, list)):  # nested shape -> block array
        from scico.numpy import BlockArray

        return BlockArray([_arr(rng, tuple(s), dtype, bits, scale) for s in shape])

    a = common.dyadic(rng, shape, bits=bits, scale=scale)
    if np.dtype(dtype).kind == "c":
        a = a + 1j * common.dyadic(rng, shape, bits=bits, scale=scale)
    return jnp.asarray(a.astype(dtype))


def _rtol(dtype):
    return 2e-4 if np.dtype(dtype).itemsize <= 4 or np.dtype(dtype) == np.complex64 else 1e-9


# ----------------------------------------------------------------------------------------------
# functionals and losses


def functional_entries(rng, dtypes):
    import jax.numpy as jnp
    from scico import functional as F
    from scico.numpy import BlockArray

    ents = []

    def hist_for(shapes_dtypes, lam_list=(0.5, 2.0)):
        def hist(obj):
            for shp, dt in shapes_dtypes:
                v = _arr(np.random.default_rng(7), shp, dt)
                if getattr(obj, "has_eval", False):
                    try:
                        obj(v)
                    except Exception:  # noqa: BLE001  (history calls may legitimately be rejected)
                        pass
                if getattr(obj, "has_prox", False):
                    for lam in lam_list:
                        try:
                            obj.prox(v, lam)
                        except Exception:  # noqa: BLE001
                            pass

        return hist

    def add(name, mk, shape, dt, smooth=False, lam=0.75, other=None, real_only=False):
        if real_only and np.dtype(dt).kind == "c":
            return
        x = _arr(rng, shape, dt)
        v = _arr(rng, shape, dt)
        calls = []
        probe = mk()
        if probe.has_eval:
            calls.append(("eval", lambda o: (lambda a: o(a)), (x,)))
        if probe.has_prox:
            calls.append(("prox", lambda o: (lambda a, l: o.prox(a, l)), (v, jnp.asarray(lam, dtype=np.dtype(dt).type(0).real.dtype))))
        if smooth:
            calls.append(("grad", lambda o: (lambda a: o.grad(a)), (x,)))
        other_dt = np.float32 if np.dtype(dt) != np.float32 else np.float64
        oshape = other if other is not None else tuple(s + 1 for s in shape)
        ents.append(Entry(f"{name}/{np.dtype(dt).name}", "functional", lambda jit, mk=mk: mk(), calls,
                          hist_for([(oshape, dt), (shape, other_dt), (oshape, other_dt), (shape, dt)]), False, _rtol(dt), np.dtype(dt).name))

    def per_dtype(dt):
        add("L0Norm", lambda: F.L0Norm(), (3, 4), dt)
        add("L1Norm", lambda: F.L1Norm(), (3, 4), dt)
        add("SquaredL2Norm", lambda: F.SquaredL2Norm(), (3, 4), dt, smooth=True)
        add("L2Norm", lambda: F.L2Norm(), (3, 4), dt, smooth=True)
        add("L21Norm", lambda: F.L21Norm(l2_axis=0), (3, 4), dt)
        add("HuberNorm(sep)", lambda: F.HuberNorm(delta=0.5, separable=True), (3, 4), dt, smooth=True)
        add("HuberNorm(nonsep)", lambda: F.HuberNorm(delta=0.5, separable=False), (3, 4), dt, smooth=True)
        add("NuclearNorm", lambda: F.NuclearNorm(), (3, 4), dt, real_only=True)
        add("L1MinusL2Norm", lambda: F.L1MinusL2Norm(beta=0.5), (3, 4), dt, real_only=True)
        add("ZeroFunctional", lambda: F.ZeroFunctional(), (3, 4), dt)
        add("NonNegativeIndicator", lambda: F.NonNegativeIndicator(), (3, 4), dt, real_only=True)
        add("L2BallIndicator", lambda: F.L2BallIndicator(radius=1.5), (3, 4), dt)
        add("ScaledFunctional", lambda: 2.5 * F.L1Norm(), (3, 4), dt)
        add("SetDistance", lambda: F.SetDistance(lambda a: jnp.maximum(a, 0)), (3, 4), dt, real_only=True)
        add("SquaredSetDistance", lambda: F.SquaredSetDistance(lambda a: jnp.maximum(a, 0)), (3, 4), dt, real_only=True)
        add("ProximalAverage", lambda: F.ProximalAverage([F.L1Norm(), F.SquaredL2Norm()]), (3, 4), dt, real_only=True)
        for circ in (True, False):
            add(f"AnisotropicTVNorm(circ={circ})", lambda circ=circ: F.AnisotropicTVNorm(circular=circ), (4, 6), dt, other=(6, 4), real_only=False)
            add(f"IsotropicTVNorm(circ={circ})", lambda circ=circ: F.IsotropicTVNorm(circular=circ), (4, 6), dt, other=(6, 4), real_only=False)
            add(f"AnisotropicTVNorm(circ={circ},prebuilt)",
                lambda circ=circ, dt=dt: F.AnisotropicTVNorm(circular=circ, input_shape=(4, 6), input_dtype=dt), (4, 6), dt, other=(6, 4))

    for dt in dtypes:
        per_dtype(dt)
    # separable functional on a block array (float64 only)
    xb = BlockArray([_arr(rng, (3,)), _arr(rng, (2, 2))])
    ents.append(Entry("SeparableFunctional/float64", "functional", lambda jit: F.SeparableFunctional([F.L1Norm(), F.SquaredL2Norm()]),
                      [("eval", lambda o: (lambda a: o(a)), (xb,)), ("prox", lambda o: (lambda a, l: o.prox(a, l)), (xb, jnp.asarray(0.75)))],
                      None, False, 1e-9))
    return ents


def loss_entries(rng, dtypes):
    import jax.numpy as jnp
    from scico import linop, loss

    ents = []

    def per_dtype(dt):
        real = np.dtype(dt).kind != "c"
        n = 5
        y = _arr(rng, (n,), dt)
        x = _arr(rng, (n,), dt)
        d = _arr(rng, (n,), dt) + (3.0 if real else 3.0)
        M = _arr(rng, (n, n), dt)
        rdt = np.zeros((), dt).real.dtype
        W = linop.Diagonal(jnp.asarray(np.abs(common.dyadic(rng, (n,), bits=3, scale=2.0)).astype(rdt)))
        lam = jnp.asarray(0.5, dtype=rdt)

        def loss_hist(x, lam, prox, grad):
            # history stream of a loss: the same object with other points / proximal parameters, and rescaled
            # copies of it (same class, same shapes, other scale) evaluated before the probe
            def hist(o):
                steps = [lambda: o(2 * x + 1), lambda: (3.0 * o)(x), lambda: (o / 4.0)(2 * x + 1)]
                if grad:
                    steps += [lambda: o.grad(2 * x + 1), lambda: (3.0 * o).grad(x)]
                if prox:
                    steps += [lambda: o.prox(2 * x + 1, 2.5 * lam), lambda: (3.0 * o).prox(x, lam), lambda: o.prox(x, 0.25 * lam)]
                for st in steps:
                    try:
                        st()
                    except Exception:  # noqa: BLE001
                        pass

            return hist

        def E(name, mk, prox=True, grad=True, rtol=None):
            calls = [("eval", lambda o: (lambda a: o(a)), (x,))]
            if grad:
                calls.append(("grad", lambda o: (lambda a: o.grad(a)), (x,)))
            if prox:
                calls.append(("prox", lambda o: (lambda a, l: o.prox(a, l)), (x, lam)))
            ents.append(Entry(f"{name}/{np.dtype(dt).name}", "loss", lambda jit, mk=mk: mk(), calls, loss_hist(x, lam, prox, grad), False,
                              rtol or _rtol(dt), np.dtype(dt).name))

        E("SquaredL2Loss(I)", lambda: loss.SquaredL2Loss(y=y, scale=0.75))
        E("SquaredL2Loss(Diag,W)", lambda: loss.SquaredL2Loss(y=y, A=linop.Diagonal(d), W=W))
        E("SquaredL2Loss(Matrix)", lambda: loss.SquaredL2Loss(y=y, A=linop.MatrixOperator(M), scale=0.25,
                                                               prox_kwargs={"maxiter": 200, "tol": 1e-12}), rtol=max(_rtol(dt), 1e-6))
        E("2*SquaredL2Loss(Diag)", lambda: 2.0 * loss.SquaredL2Loss(y=y, A=linop.Diagonal(d)))
        if real:
            yp = jnp.abs(y) + 1.0
            xp = jnp.abs(x) + 0.5
            ents.append(Entry(f"PoissonLoss/{np.dtype(dt).name}", "loss", lambda jit, yp=yp: loss.PoissonLoss(y=yp, scale=0.5),
                              [("eval", lambda o: (lambda a: o(a)), (xp,)), ("grad", lambda o: (lambda a: o.grad(a)), (xp,))],
                              loss_hist(xp, lam, False, True), False, _rtol(dt), np.dtype(dt).name))
        ya = jnp.abs(y).astype(rdt) + 0.25
        E("SquaredL2AbsLoss", lambda ya=ya: loss.SquaredL2AbsLoss(y=ya, W=W), grad=False)
        E("SquaredL2SquaredAbsLoss", lambda ya=ya: loss.SquaredL2SquaredAbsLoss(y=ya, W=W), grad=False)

    for dt in dtypes:
        per_dtype(dt)
    return ents


# ----------------------------------------------------------------------------------------------
# operators


def operator_entries(rng, dtypes, heavy=True):
    import jax.numpy as jnp
    from scico import linop, operator

    ents = []

    def L(name, mk, dt, has_jit=True, lin=True, out_complex=False, rtol=None, sibling=None):
        probe = mk(None)
        x = _arr(rng, probe.input_shape, probe.input_dtype)
        calls = [("eval", lambda o: (lambda a: o(a)), (x,))]
        if lin:
            ydt = probe.output_dtype
            yv = _arr(rng, probe.output_shape, ydt)
            calls.append(("adj", lambda o: (lambda a: o.adj(a)), (yv,)))
            calls.append(("gram", lambda o: (lambda a: o.gram(a)), (x,)))

        def hist(o, x=x, lin=lin, sibling=sibling):
            # operators have a fixed input shape: the history stream repeats calls with other values,
            # interleaves adjoint/gram evaluations, and derives other operators from this one.
            # A history call that is itself rejected (dtype bookkeeping of derived operators is the
            # subject of C05/C12) must not hide the probe call: it is skipped.
            steps = [lambda: o(2 * x + 1)]
            if sibling is not None:
                # ANOTHER operator of the same class, shapes and dtype but a different map, used before the probe
                sb = sibling()
                steps += [lambda: sb(x), lambda: sb.adj(sb(x)), lambda: sb.gram(x)]
            if lin:
                steps += [lambda: o.gram(x * 0.5), lambda: (2.0 * o)(x), lambda: (o.T, o.H), lambda: (o.H @ o)(x), lambda: o.adj(o(x))]
            for st in steps:
                try:
                    st()
                except Exception:  # noqa: BLE001
                    pass

        ents.append(Entry(f"{name}/{np.dtype(dt).name}", "operator", mk, calls, hist, has_jit, rtol or _rtol(dt), np.dtype(dt).name))

    def kw(jit):
        return {} if jit is None else {"jit": jit}

    def per_dtype(dt):
        shp = (4, 5)
        d = _arr(rng, shp, dt)
        M = _arr(rng, (3, 5), dt)
        h = _arr(rng, (2, 3), dt)
        L("Identity", lambda jit: linop.Identity(shp, input_dtype=dt, **kw(jit)), dt)
        L("ScaledIdentity", lambda jit: linop.ScaledIdentity(1.5, shp, input_dtype=dt, **kw(jit)), dt)
        L("Diagonal", lambda jit: linop.Diagonal(d, **kw(jit)), dt)
        L("MatrixOperator", lambda jit: linop.MatrixOperator(M), dt, has_jit=False)
        for circ in (True, False):
            L(f"FiniteDifference(circ={circ})", lambda jit, circ=circ: linop.FiniteDifference(shp, input_dtype=dt, circular=circ, **kw(jit)), dt)
        L("FiniteDifference(append=0)", lambda jit: linop.FiniteDifference(shp, input_dtype=dt, append=0, axes=(1,), **kw(jit)), dt)
        L("SingleAxisFiniteDifference", lambda jit: linop.SingleAxisFiniteDifference(shp, input_dtype=dt, axis=0, prepend=1, **kw(jit)), dt)
        L("CircularConvolve", lambda jit: linop.CircularConvolve(h, shp, input_dtype=dt, **kw(jit)), dt, rtol=max(_rtol(dt), 1e-8))
        L("Convolve", lambda jit: linop.Convolve(h, shp, input_dtype=dt, mode="same", **kw(jit)), dt)
        L("Pad", lambda jit: linop.Pad(shp, ((1, 0), (0, 2)), input_dtype=dt, **kw(jit)), dt)
        L("Crop", lambda jit: linop.Crop(((1, 0), (0, 2)), shp, input_dtype=dt, **kw(jit)), dt)
        L("Slice", lambda jit: linop.Slice(np.s_[1:, ::2], shp, input_dtype=dt, **kw(jit)), dt)
        L("Sum", lambda jit: linop.Sum(shp, input_dtype=dt, axis=0, **kw(jit)), dt)
        L("Transpose", lambda jit: linop.Transpose(shp, (1, 0), input_dtype=dt, **kw(jit)), dt)
        L("Reshape", lambda jit: linop.Reshape(shp, (2, 10), input_dtype=dt, **kw(jit)), dt)
        L("VerticalStack", lambda jit: linop.VerticalStack((linop.Diagonal(d), linop.Identity(shp, input_dtype=dt)), **kw(jit)), dt)
        L("A@B", lambda jit: linop.MatrixOperator(M) @ linop.Diagonal(d[0]), dt, has_jit=False)
        L("2A+B", lambda jit: 2.0 * linop.Diagonal(d) + linop.Identity(shp, input_dtype=dt), dt, has_jit=False)
        L("A.T", lambda jit: linop.MatrixOperator(M).T, dt, has_jit=False)
        L("A.H", lambda jit: linop.CircularConvolve(h, shp, input_dtype=dt, **kw(jit)).H, dt, has_jit=True, rtol=max(_rtol(dt), 1e-8))
        L("LinearOperator(eval_fn)", lambda jit: linop.LinearOperator(input_shape=shp, eval_fn=lambda a: a[::-1] * 2.0, input_dtype=dt, **kw(jit)), dt,
          sibling=lambda: linop.LinearOperator(input_shape=shp, eval_fn=lambda a: 3.0 * a + a[:, ::-1], input_dtype=dt))
        L("Diagonal(sibling)", lambda jit: linop.Diagonal(d, **kw(jit)), dt, sibling=lambda: linop.Diagonal(2.0 * d + 1.0))
        L("operator.Abs", lambda jit: operator.Abs(shp, input_dtype=dt, **kw(jit)), dt, lin=False)
        L("Operator(eval_fn)", lambda jit: operator.Operator(input_shape=shp, eval_fn=lambda a: a * a + 1.0, input_dtype=dt, **kw(jit)), dt, lin=False)
        L("Operator∘LinOp", lambda jit: operator.Abs((3,), input_dtype=dt)(linop.MatrixOperator(M)), dt, has_jit=False, lin=False)
        if np.dtype(dt).kind == "c":
            L("DFT", lambda jit: linop.DFT(shp, **kw(jit)), dt, rtol=max(_rtol(dt), 1e-8))

    for dt in dtypes:
        per_dtype(dt)

    # scico.function.Function: evaluation, slice (-> Operator), join (-> Operator on a block array)
    def per_dtype_fn(dt):
        from scico import function
        from scico.numpy import BlockArray

        a = _arr(rng, (4,), dt)
        b = _arr(rng, (4,), dt)

        def mk(jit):
            return function.Function(((4,), (4,)), output_shape=(4,), eval_fn=lambda u, w: u * w + 2.0 * u[::-1], input_dtypes=dt,
                                     output_dtype=dt, **({} if jit is None else {"jit": jit}))

        calls = [("eval", lambda o: (lambda u, w: o(u, w)), (a, b)),
                 ("slice", lambda o: (lambda u: o.slice(0, b)(u)), (a,)),
                 ("join", lambda o: (lambda ba: o.join()(ba)), (BlockArray([a, b]),))]
        ents.append(Entry(f"Function/{np.dtype(dt).name}", "function", mk, calls, lambda o: [o(b, a), o.slice(1, a)(b)], True, _rtol(dt), np.dtype(dt).name))

    for dt in dtypes:
        per_dtype_fn(dt)
    if heavy:
        from scico.linop import xray

        ang = np.linspace(0, np.pi, 4, endpoint=False)
        L("XRayTransform2D", lambda jit: xray.XRayTransform2D((6, 6), ang), np.float32, has_jit=False, rtol=2e-4)
        mats = xray.XRayTransform3D.matrices_from_euler_angles((4, 4, 4), (6, 6), "X", np.array([[0.0], [0.7]])) if hasattr(
            xray.XRayTransform3D, "matrices_from_euler_angles") else None
        if mats is not None:
            L("XRayTransform3D", lambda jit: xray.XRayTransform3D((4, 4, 4), mats, (6, 6)), np.float32, has_jit=False, rtol=2e-4)
    return ents


# ----------------------------------------------------------------------------------------------
# optimisers: a "call" performs k steps from the initial state and returns the iterate(s)


def optimiser_entries(rng, heavy=True):
    import jax.numpy as jnp
    from scico import functional as F
    from scico import linop, loss, optimize
    from scico.optimize import admm as admmaux
    from scico.optimize import pgm as pgmaux

    n = 6
    dt = np.float64
    y = _arr(rng, (n,), dt)
    d = jnp.abs(_arr(rng, (n,), dt)) + 1.0
    x0 = _arr(rng, (n,), dt)

    def prob():
        A = linop.Diagonal(d)
        f = loss.SquaredL2Loss(y=y, A=A)
        C = linop.FiniteDifference((n,), input_dtype=dt, circular=True)
        g = 0.25 * F.L1Norm()
        return A, f, C, g

    def steps(mk, k=2, outs=("x",)):
        def run(o_unused=None):
            o = mk()
            for _ in range(k):
                o.step()
            res = []
            for nm in outs:
                v = getattr(o, nm)
                if isinstance(v, (list, tuple)):
                    res.extend(v)
                else:
                    res.append(v)
            return tuple(res)

        return run

    ents = []

    def O(name, mk, outs=("x",), rtol=1e-8):
        # the "object" is the factory; the single call runs k steps on a fresh optimiser
        ents.append(Entry(name, "optimiser", lambda jit, mk=mk: mk, [("2steps", lambda o, outs=outs: (lambda: steps(o, 2, outs)()), ())], None, False, rtol))

    def admm_lin():
        A, f, C, g = prob()
        return optimize.ADMM(f=f, g_list=[g], C_list=[C], rho_list=[1.5], x0=x0, subproblem_solver=admmaux.LinearSubproblemSolver(cg_kwargs={"tol": 1e-12, "maxiter": 200}))

    def admm_gen():
        A, f, C, g = prob()
        return optimize.ADMM(f=f, g_list=[g], C_list=[C], rho_list=[1.5], x0=x0)

    def ladmm():
        A, f, C, g = prob()
        return optimize.LinearizedADMM(f=F.SquaredL2Norm(), g=g, C=C, mu=0.2, nu=0.05, x0=x0)

    def padmm():
        A, f, C, g = prob()
        return optimize.ProximalADMM(f=F.SquaredL2Norm(), g=g, A=C, rho=1.0, mu=4.5, nu=1.5, x0=x0)

    def nlpadmm():
        from scico import function

        A, f, C, g = prob()
        H = function.Function(((n,), (n,)), output_shape=(n,), eval_fn=lambda a, b: C(a)[: n] - b, input_dtypes=dt)
        return optimize.NonLinearPADMM(f=F.SquaredL2Norm(), g=g, H=H, rho=1.0, mu=4.5, nu=1.5, x0=x0, z0=jnp.zeros((n,), dt), u0=jnp.zeros((n,), dt))

    def pdhg():
        A, f, C, g = prob()
        return optimize.PDHG(f=F.SquaredL2Norm(), g=g, C=C, tau=0.2, sigma=0.2, x0=x0)

    def pgm(ss=None, acc=False):
        A, f, C, g = prob()
        cls = optimize.AcceleratedPGM if acc else optimize.PGM
        return cls(f=f, g=g, L0=30.0, x0=x0, step_size=ss() if ss else None)

    O("ADMM(LinearSubproblemSolver)", admm_lin, ("x", "z_list", "u_list"), rtol=1e-7)
    if heavy:
        O("ADMM(GenericSubproblemSolver)", admm_gen, ("x", "z_list", "u_list"), rtol=1e-4)
    O("LinearizedADMM", ladmm, ("x", "z", "u"))
    O("ProximalADMM", padmm, ("x", "z", "u"))
    O("PDHG", pdhg, ("x", "z"))
    O("PGM", lambda: pgm(), ("x",))
    O("AcceleratedPGM", lambda: pgm(acc=True), ("x", "v"))
    O("PGM(BBStepSize)", lambda: pgm(pgmaux.BBStepSize), ("x",))
    O("PGM(AdaptiveBBStepSize)", lambda: pgm(pgmaux.AdaptiveBBStepSize), ("x",))
    O("AcceleratedPGM(LineSearchStepSize)", lambda: pgm(pgmaux.LineSearchStepSize, acc=True), ("x", "v"))
    O("AcceleratedPGM(RobustLineSearchStepSize)", lambda: pgm(pgmaux.RobustLineSearchStepSize, acc=True), ("x", "v"))
    if heavy:
        try:
            nlpadmm()
            O("NonLinearPADMM", nlpadmm, ("x", "z", "u"))
        except Exception:  # noqa: BLE001  (constructor signature differs: not part of the catalog then)
            pass
    return ents


# ----------------------------------------------------------------------------------------------
# canonical values and deep snapshots


def canon(v):
    """result of a call -> list of numpy arrays (blocks / tuple entries flattened)"""
    from scico.numpy import BlockArray

    if isinstance(v, BlockArray):
        return [np.asarray(b) for b in v]
    if isinstance(v, (tuple, list)):
        out = []
        for e in v:
            out.extend(canon(e))
        return out
    return [np.asarray(v)]


def same(a, b, rtol):
    """agreement to rounding of two canonical results (shapes and dtypes exactly, values within rtol)"""
    if len(a) != len(b):
        return False
    for x, y in zip(a, b):
        if x.shape != y.shape or x.dtype != y.dtype:
            return False
        if x.dtype.kind == "c":
            if not (common.allclose(x.real, y.real, rtol=rtol) and common.allclose(x.imag, y.imag, rtol=rtol)):
                return False
        elif x.dtype.kind in "fiub":
            if not common.allclose(x, y, rtol=rtol):
                return False
    return True


def snapshot(obj, depth=4, _seen=None):
    """deep, comparison-friendly picture of the public state of an object (arrays by value)"""
    import jax

    if _seen is None:
        _seen = set()
    if isinstance(obj, (float, complex)) and not isinstance(obj, bool):
        return ("num", repr(obj))  # NaN does not compare equal to itself
    if obj is None or isinstance(obj, (bool, int, str, bytes)):
        return obj
    if isinstance(obj, (np.ndarray, jax.Array, np.generic)):
        a = np.asarray(obj)
        return ("array", str(a.dtype), a.shape, a.tobytes())
    if isinstance(obj, (list, tuple)):
        return (type(obj).__name__, tuple(snapshot(e, depth, _seen) for e in obj))
    if isinstance(obj, dict):
        return ("dict", tuple(sorted((str(k), snapshot(v, depth, _seen)) for k, v in obj.items())))
    if isinstance(obj, (type, np.dtype)) or callable(obj) and not hasattr(obj, "__dict__"):
        return ("callable", getattr(obj, "__name__", type(obj).__name__))
    if id(obj) in _seen or depth <= 0:
        return ("ref", type(obj).__name__)
    _seen = _seen | {id(obj)}
    from scico.numpy import BlockArray

    if isinstance(obj, BlockArray):
        return ("block", tuple(snapshot(b, depth, _seen) for b in obj))
    d = getattr(obj, "__dict__", None)
    if d is None:
        return ("opaque", type(obj).__name__)
    items = []
    for k, v in sorted(d.items()):
        if k.startswith("_"):
            continue
        if callable(v) and not hasattr(v, "input_shape") and not hasattr(v, "has_prox"):
            items.append((k, ("callable",)))
            continue
        items.append((k, snapshot(v, depth - 1, _seen)))
    return (type(obj).__name__, tuple(items))


def defaults_snapshot(classes):
    """snapshot of the default argument values of the constructors (shared mutable defaults)"""
    out = {}
    for c in classes:
        f = c.__init__
        # class-level mutable containers (shared by all instances) count as shared defaults too
        cls_state = tuple(sorted((k, snapshot(v)) for k, v in vars(c).items() if not k.startswith("__") and isinstance(v, (dict, list, set))))
        out[c.__name__] = (snapshot(getattr(f, "__defaults__", None)), snapshot(getattr(f, "__kwdefaults__", None)), cls_state)
    return out
