"""C03 - optimisers keep an optimal point fixed and converge to the true minimiser; monotone quantities.

Engine `Steps` (DESIGN §5.3).  Lean side: lean/Scico/Proofs/Steps{Convex,Fixed,PGM,Lyap}.lean,
lean/Scico/Props/C03.lean; the step maps are those of lean/Scico/Model/Steps.lean (tied to the code by C11).

Tie of this property: *manufactured* problems whose minimiser and dual certificate are exact dyadic rationals
(x*, a sub-gradient y_i of each g_i at C_i x*, and the data of f chosen so that the KKT conditions hold
exactly).  For every optimiser class
  (a) the KKT state is written into the REAL object and one step() must leave it unchanged
      (fixed-point residual <= 1e-9), and the Lean model's documented step must do the same;
  (b) trajectories of the real objects from random starts are checked for the quantities the theorems say
      are monotone (PGM distance / objective / linear rate, FISTA t_k, ADMM Lyapunov function for one
      constraint and alpha = 1) and - numerically only - for convergence to x* (all classes; ADMM
      Lyapunov function for several constraints).
"""

from __future__ import annotations

import json

import numpy as np

import common
import steps_gen as G
import steps_translate
from common import Infra

PROP = "C03"
CLAIMED = True
ENGINE = "Steps"
DESIGN_REF = "DESIGN.md §5.3"
TECHNIQUE = (
    "Lean 4 proofs over arbitrary real inner-product spaces (sub-gradient KKT conditions, proximal-map contracts): "
    "fixed points of the 8 documented step maps; PGM monotonicity / linear rate / convergence; FISTA momentum and O(1/k^2) "
    "objective bound; ADMM Lyapunov descent for N constraints with relaxation alpha in (0,2), residuals -> 0 and convergence "
    "of the iterates for strongly convex f from every start; PDHG Fejer monotonicity and residuals -> 0; Lyapunov functions "
    "of proximal and linearized ADMM under the documented parameter constraints; manufactured problems with exact dyadic "
    "minimisers replayed on the real optimisers, every one-step inequality evaluated along the real trajectories"
)
LEVEL_TEXT = (
    "Lean theorems: a KKT point of the documented problem is a fixed point of the documented iteration of ADMM (N constraints, "
    "any alpha), LinearizedADMM, ProximalADMM (general B, c and defaults), NonLinearPADMM, PDHG (linear / non-linear C), PGM, "
    "AcceleratedPGM; KKT points minimise f + g∘C. For strongly convex f the iterates (minimizer()) converge to the unique "
    "minimiser from EVERY start for PGM (linear rate), AcceleratedPGM (O(1/k^2) rate), ADMM (N constraints, relaxation alpha in "
    "(0,2], any x-solver meeting the stationarity contract), LinearizedADMM (mu|C|^2 <= nu), ProximalADMM (mu >= |A|^2, nu >= "
    "|B|^2), PDHG (alpha = 1, linear C, tau sigma |C|^2 < 1). Monotone quantities: PGM distance / objective (base and arbitrary "
    "hook with L >= Lipschitz); FISTA t_k, potential and F(x_k) - F* <= 2L|x_0-x*|^2/(k+1)^2; ADMM W+ + a(2-a)Σρ|Cx+-z|^2 + "
    "2am|x+-x*|^2 <= W (and Boyd's V for alpha = 1); PDHG Fejer inequality in the M-metric; Lyapunov functions of proximal and "
    "linearized ADMM; all residual accessors -> 0. Merely convex problems in finite dimension: the iterates of ADMM (N "
    "constraints, 0 < alpha < 2), LinearizedADMM, ProximalADMM and PDHG (alpha = 1) converge to a KKT / saddle point (Opial). "
    "PDHG with any alpha: Fejer inequality with an explicit defect; for alpha = 0 (inside the documented range) a proved "
    "counterexample shows that merely convex problems need not converge; for m-strongly convex f and every alpha in [0,1] "
    "Fejer monotonicity in M_alpha = |a|^2/tau - 2 alpha<Ca,b> + |b|^2/sigma and convergence of the iterates under the extra "
    "step condition (1-alpha) sigma |C|^2 < 2m. AcceleratedPGM, merely convex f: all iterates in the ball |x_k-x*| <= |x_0-x*| "
    "around every minimiser, every cluster point a minimiser, convergence of the whole sequence when the minimiser is unique "
    "(finite dimension). The x-update of the linear-system solver family (lhs_op x = compute_rhs(), transcribed) meets the "
    "stationarity contract every ADMM theorem assumes of the x-solver. The docstring parameter ranges are pinned strings checked against the source by a generated "
    "obligation. Tie: fixed-point residuals at manufactured exact optima and every one "
    "of these one-step inequalities along trajectories of the real classes."
)
LEVEL_NOTE = (
    "Outside the theorems (numerical exercise only): convergence of the whole sequence of AcceleratedPGM iterates for merely "
    "convex f with SEVERAL minimisers (open problem for the library's t rule; boundedness, optimal cluster points and the "
    "unique-minimiser case are proved) and of any class for merely convex problems in infinite dimension; PDHG with alpha < 1 "
    "for strongly convex f outside the step condition (1-alpha) sigma |C|^2 < 2m (for merely convex f convergence is disproved for alpha = 0); NonLinearPADMM and non-linear PDHG beyond fixed points (non-convex); adaptive step-size policies "
    "(C16); inexact sub-problem solvers (C10/C14). Trusted: Lean kernel + Mathlib; real-number idealisation; prox maps / "
    "operators enter through contracts (IsProx = argmin for convex functionals; adjoint identity; operator-norm bounds as "
    "hypotheses); step maps tied to the code by C11."
)
PROP_MODULES = ["Scico.Props.C03"]
EXTRA_TARGETS = ["Drv.Steps"]
DRIVER = "Steps"
FILES = [
    "scico/optimize/_admm.py",
    "scico/optimize/_admmaux.py",
    "scico/optimize/_ladmm.py",
    "scico/optimize/_padmm.py",
    "scico/optimize/_primaldual.py",
    "scico/optimize/_pgm.py",
    "scico/optimize/_pgmaux.py",
    "scico/optimize/_common.py",
    "scico/functional/_functional.py",
]
RULE = (
    "one case = one manufactured problem (exact dyadic minimiser x*, dual certificates y_i, data of f solved from the KKT "
    "system) on one optimiser class: fixed-point residual of the real step() and of the model's documented step at the KKT "
    "state, then a trajectory from a random dyadic start checked for the monotone quantities / convergence. Non-trivial when "
    "x* != 0, some certificate is non-zero and the start differs from x*; distinct by (class, dtype, sizes, operator kinds, "
    "functional kinds, parameters, start)."
)
ASSUMPTIONS = [
    "IsProx contract of the proximal maps (C02), adjoint identity of the operators (C01), exactness of the x-update solver (C10)",
    "L0 >= Lipschitz constant is computed by numpy (largest eigenvalue) with a dyadic safety margin",
    "the manufactured problems have a strongly convex f, so convergence of the iterates is a theorem for every convex class; "
    "the iteration budget of the numerical convergence criterion is a heuristic (extended 20x before a case is reported)",
]

TOL = 1e-9


# --------------------------------------------------------------------------------------------
# manufactured problems


def _P(rng, xs):
    return G._pick(rng, xs)


def subgrad_of(rng, g, z):
    """a dyadic sub-gradient of the functional recipe g at the dyadic point z (real flat vector), or None"""
    k = g["k"]
    w = g.get("w", 1.0)
    z = np.asarray(z, dtype=np.float64)
    if k == "zero":
        return np.zeros_like(z)
    if k == "sql2":
        return 2.0 * w * z
    if k == "l1":
        y = w * np.sign(z)
        free = z == 0
        y[free] = w * G.dy(rng, (int(free.sum()),), 3, 1.0)
        return y
    if k == "nonneg":
        if (z < 0).any():
            return None
        y = np.zeros_like(z)
        act = z == 0
        y[act] = -np.abs(G.dy(rng, (int(act.sum()),), 2, 2.0))
        return y
    return None


def point_for(rng, g, n):
    """a dyadic point with interesting structure for g (zeros for l1 / active constraints for nonneg)"""
    z = G.dy(rng, (n,), 2, 2.0)
    if g["k"] in ("l1", "nonneg"):
        z[rng.random(n) < 0.4] = 0.0
    if g["k"] == "nonneg":
        z = np.abs(z)
    return z


def gen_g(rng, kinds=("l1", "sql2", "nonneg", "zero")):
    k = _P(rng, list(kinds))
    r = {"k": k}
    if k in ("l1", "sql2"):
        r["w"] = _P(rng, [0.25, 0.5, 1.0, 2.0])
    return r


def gen_lin(rng, n, allow=("id", "mat", "fd", "sid", "diag")):
    return G.gen_op(rng, [n], False, False, list(allow))


def half_loss(y0):
    return {"k": "sqloss", "s": 0.5, "A": None, "yshape": [len(y0)], "y": list(map(float, y0))}


def manufacture(rng, alg):
    """returns (recipe, kkt_state, xstar) with the KKT state in the model representation"""
    n = int(rng.integers(2, 6))
    if alg == "admm" and rng.integers(0, 4) == 0:
        # complex data, MatrixSubproblemSolver with a MIXED constraint list (complex Diagonal + complex MatrixOperator, legal
        # since 35adc7f): the Gram matrix of the diagonal constraint is conj(d) * d, which differs from d**2 only here
        cd = lambda sh, b_, sc_: G.dy(rng, sh, b_, sc_) + 1j * G.dy(rng, sh, b_, sc_)  # noqa: E731
        rl = lambda a_: G.realify(a_, True).tolist()  # noqa: E731
        d = cd((n,), 2, 1.5)
        d[np.abs(d) == 0] = 1.0 + 0.5j
        m = int(rng.integers(1, 4))
        M = cd((m, n), 2, 1.0)
        Cs = [{"t": "diag", "d": d.real.tolist(), "di": d.imag.tolist()}, {"t": "mat", "M": M.real.tolist(), "Mi": M.imag.tolist()}]
        if rng.integers(0, 2):
            Cs.reverse()
        gs = [gen_g(rng, ("sql2", "zero")) for _ in Cs]
        xs = cd((n,), 2, 1.5)
        Ms = [np.asarray(G.op_dense(c, [n])[0]) for c in Cs]
        zs = [Mi @ xs for Mi in Ms]
        ys = [2.0 * g.get("w", 0.0) * z if g["k"] == "sql2" else np.zeros_like(z) for g, z in zip(gs, zs)]
        rho = [_P(rng, [0.5, 1.0, 2.0]) for _ in Cs]
        sc = _P(rng, [0.5, 1.0, 2.0])
        y0 = xs + sum(Mi.conj().T @ y for Mi, y in zip(Ms, ys)) / (2.0 * sc)
        recipe = {"alg": "admm", "cplx": True, "xshape": [n], "C": Cs, "g": gs,
                  "f": {"k": "sqloss", "s": sc, "A": None, "yshape": [n], "y": rl(y0)}, "rho": rho,
                  "alpha": _P(rng, [1.0, 1.5, 0.5]), "solver": "matrix", "x0": rl(xs)}
        kkt = {"x": rl(xs), "z": [rl(z) for z in zs], "zold": [rl(z) for z in zs], "u": [rl(y / r) for y, r in zip(ys, rho)]}
        return recipe, kkt, np.asarray(rl(xs))
    if alg == "admm" and rng.integers(0, 6) == 0:
        # complex data, MatrixSubproblemSolver on the WOODBURY path of MatrixATADSolver: every constraint diagonal (complex Diagonal,
        # optionally a ScaledIdentity) and f.A a complex MatrixOperator with fewer rows than columns.
        #   f = sc ||A x - b||^2, g_1 = w ||.||^2 on C_1 = diag(d): 2 sc A^H r + 2 w |d|^2 x* = 0 with r = A x* - b free
        cd = lambda sh, b_, sc_: G.dy(rng, sh, b_, sc_) + 1j * G.dy(rng, sh, b_, sc_)  # noqa: E731
        rl = lambda a_: G.realify(a_, True).tolist()  # noqa: E731
        n = max(n, 3)
        m = int(rng.integers(1, n))
        A = cd((m, n), 1, 1.0)
        d = np.asarray([_P(rng, [1.0, 1j, -1.0, 2.0, 1 + 1j, 1 - 1j, 0.5j]) for _ in range(n)], dtype=np.complex128)
        w, sc = _P(rng, [0.5, 1.0, 2.0]), _P(rng, [0.5, 1.0, 2.0])
        rres = cd((m,), 2, 1.5)
        xs = -(sc / w) * (A.conj().T @ rres) / (np.abs(d) ** 2)
        bdat = A @ xs - rres
        Cs = [{"t": "diag", "d": d.real.tolist(), "di": d.imag.tolist()}]
        gs = [{"k": "sql2", "w": w}]
        zs, ys = [d * xs], [2.0 * w * d * xs]
        if rng.integers(0, 2):
            sv = _P(rng, [0.5, 2.0, -1.0])
            Cs.append({"t": "sid", "s": sv})
            gs.append({"k": "zero"})
            zs.append(sv * xs)
            ys.append(np.zeros_like(xs))
        rho = [_P(rng, [0.5, 1.0, 2.0]) for _ in Cs]
        recipe = {"alg": "admm", "cplx": True, "xshape": [n], "C": Cs, "g": gs,
                  "f": {"k": "sqloss", "s": sc, "A": {"t": "mat", "M": A.real.tolist(), "Mi": A.imag.tolist()}, "yshape": [m], "y": rl(bdat)},
                  "rho": rho, "alpha": _P(rng, [1.0, 1.5, 0.5]), "solver": "matrix", "x0": rl(xs), "_woodbury": True}
        kkt = {"x": rl(xs), "z": [rl(z) for z in zs], "zold": [rl(z) for z in zs], "u": [rl(y / r) for y, r in zip(ys, rho)]}
        return recipe, kkt, np.asarray(rl(xs))
    if alg == "admm" and rng.integers(0, 5) == 0:
        # DFT-domain block solvers.  x of shape (K, n), A = Sum o CircularConvolve, one identity constraint with g = w ||.||^2:
        #   FBlock : min  om ||A x - y||^2 + w ||x||^2                (f = om ||A . - y||^2)
        #   G0Block: f = 0, g_1 = om ||. - y||^2 on C_1 = A, g_2 = w ||.||^2 on C_2 = I; the x-step of the solver's docstring
        #            weights the first term by rho_1 * om, so for om != 1/2 the fixed point is that of the problem with g_1
        #            scaled by 2 om (known finding C10 g0-scale) - the manufactured point is the fixed point of the DOCUMENTED
        #            x-step; trajectories (standard-ADMM monitors) only for om = 1/2
        kind = _P(rng, ["fblock", "g0block"])
        K, nn = int(rng.integers(2, 4)), int(rng.integers(3, 6))
        A = {"t": "sumconv", "h": G.dy(rng, (K, int(rng.integers(2, 4))), 2, 1.5).tolist()}
        MA = np.asarray(G.op_dense(A, [K, nn])[0])
        om = _P(rng, [0.5, 0.5, 1.0, 2.0])
        w = _P(rng, [0.5, 1.0, 2.0])
        rho1 = _P(rng, [0.4, 1.0, 2.5])
        rres = G.dy(rng, (nn,), 2, 1.5)  # residual A x* - y at the optimum
        fac = om if kind == "fblock" else 2.0 * om * om  # stationarity: 2 fac A^T r + 2 w x* = 0
        xs = -(fac / w) * (MA.T @ rres)
        ydata = MA @ xs - rres
        loss = {"k": "sqloss", "s": om, "A": None, "yshape": [nn], "y": ydata.tolist()}
        alpha = _P(rng, [1.0, 1.0, 1.5, 0.5])
        if kind == "fblock":
            rho = [rho1]
            recipe = {"alg": "admm", "cplx": False, "xshape": [K, nn], "C": [{"t": "id"}], "g": [{"k": "sql2", "w": w}],
                      "f": dict(loss, A=A), "rho": rho, "alpha": alpha, "solver": "fblock", "x0": xs.tolist()}
            zs, ys = [xs], [2.0 * w * xs]
        else:
            rho = [rho1, _P(rng, [0.5, 1.0, 2.0])]
            recipe = {"alg": "admm", "cplx": False, "xshape": [K, nn], "C": [A, {"t": "id"}], "g": [loss, {"k": "sql2", "w": w}],
                      "f": None, "rho": rho, "alpha": alpha, "solver": "g0block", "x0": xs.tolist(),
                      "xweights": [2.0 * om, 1.0]}
            zs, ys = [MA @ xs, xs], [2.0 * om * rres, 2.0 * w * xs]
        if rng.integers(0, 2):
            recipe["reuse"] = {"y": G.dy(rng, (nn,), 2, 2.0).tolist(), "s": _P(rng, [0.5, 1.0, 2.0])}
        kkt = {"x": xs.tolist(), "z": [z.tolist() for z in zs], "zold": [z.tolist() for z in zs],
               "u": [(y / r).tolist() for y, r in zip(ys, rho)]}
        return recipe, kkt, xs
    if alg == "admm":
        N = int(rng.integers(1, 4))
        # x* must be compatible with non-negativity constraints: use identity-like operators for those
        gs = [gen_g(rng) for _ in range(N)]
        circ = bool(rng.integers(0, 3) == 0)  # shift-invariant constraints -> CircularConvolveSolver
        Cs = []
        for g in gs:
            if g["k"] == "nonneg":
                Cs.append({"t": "id"})
            elif circ:
                Cs.append(_P(rng, [{"t": "id"}, {"t": "sid", "s": _P(rng, [0.5, 2.0, -1.0])},
                                   {"t": "fd", "axes": 0, "circular": True, "append": None}]))
            else:
                Cs.append(gen_lin(rng, n))
        xs = point_for(rng, {"k": "nonneg"} if any(g["k"] == "nonneg" for g in gs) else {"k": "l1"}, n)
        Ms = [G.op_dense(c, [n])[0] for c in Cs]
        zs = [M @ xs for M in Ms]
        ys = [subgrad_of(rng, g, z) for g, z in zip(gs, zs)]
        if any(y is None for y in ys):
            return None
        rho = [_P(rng, [0.5, 1.0, 2.0, 4.0]) for _ in range(N)]
        sc = _P(rng, [0.5, 0.5, 1.0, 2.0, 0.25])  # f = sc * ||x - y0||^2 : grad = 2 sc (x - y0)
        y0 = xs + sum(M.T @ y for M, y in zip(Ms, ys)) / (2.0 * sc)
        alpha = _P(rng, [1.0, 1.0, 1.5, 0.5, 1.75])
        f = half_loss(y0)
        f["s"] = sc
        recipe = {"alg": "admm", "cplx": False, "xshape": [n], "C": Cs, "g": gs, "f": f, "rho": rho,
                  "alpha": alpha, "solver": "circ" if circ else _P(rng, ["linear", "linear-jax"]), "x0": xs.tolist()}
        us = [(y / r).tolist() for y, r in zip(ys, rho)]
        kkt = {"x": xs.tolist(), "z": [z.tolist() for z in zs], "zold": [z.tolist() for z in zs], "u": us}
        if rng.integers(0, 2):
            # helper-reuse history: the sub-problem solver object first serves another problem (other data and scale)
            recipe["reuse"] = {"y": G.dy(rng, (n,), 2, 2.0).tolist(), "s": _P(rng, [0.5, 1.0, 2.0, 0.25])}
        return recipe, kkt, xs
    if alg in ("ladmm", "padmm", "pdhg") and rng.integers(0, 4) == 0:
        # complex data (fixed-point part): the adjoints are CONJUGATE transposes, B and c general for ProximalADMM
        cd = lambda sh, b_, sc_: G.dy(rng, sh, b_, sc_) + 1j * G.dy(rng, sh, b_, sc_)  # noqa: E731
        rl = lambda a_: G.realify(a_, True).tolist()  # noqa: E731
        cm = lambda M_: {"t": "mat", "M": M_.real.tolist(), "Mi": M_.imag.tolist()}  # noqa: E731
        p_ = int(rng.integers(1, 5))
        A = cd((p_, n), 2, 1.5)
        xs = cd((n,), 2, 1.5)
        w = _P(rng, [0.5, 1.0, 2.0])
        a2 = max(float(np.linalg.norm(A, 2) ** 2), 1e-3)
        if alg == "padmm":
            m = int(rng.integers(1, 4))
            B = cd((p_, m), 2, 1.0)
            lam = cd((p_,), 2, 1.0)
            rho = _P(rng, [0.5, 1.0, 2.0])
            zs = -(B.conj().T @ lam) / (2.0 * w)
            c = A @ xs + B @ zs
            b2 = max(float(np.linalg.norm(B, 2) ** 2), 1e-3)
            u = rl(lam / rho)
            recipe = {"alg": "padmm", "cplx": True, "xshape": [n], "A": cm(A), "B": cm(B), "zshape": [m], "c": rl(c),
                      "f": {"k": "sqloss", "s": 0.5, "A": None, "yshape": [n], "y": rl(xs + A.conj().T @ lam)},
                      "g": {"k": "sql2", "w": w}, "rho": rho, "mu": float(np.ceil(1.01 * a2 * 64) / 64),
                      "nu": float(np.ceil(1.01 * b2 * 64) / 64), "fast": bool(rng.integers(0, 2)), "x0": rl(xs), "z0": rl(zs), "u0": u}
            return recipe, {"x": rl(xs), "z": rl(zs), "zold": rl(zs), "u": u, "uold": u}, np.asarray(rl(xs))
        y = 2.0 * w * (A @ xs)
        f = {"k": "sqloss", "s": 0.5, "A": None, "yshape": [n], "y": rl(xs + A.conj().T @ y)}
        if alg == "ladmm":
            nu = _P(rng, [1.0, 2.0, 0.5])
            mu = float(np.floor(0.9 * nu / a2 * 256) / 256) or 1.0 / 256
            recipe = {"alg": "ladmm", "cplx": True, "xshape": [n], "C": cm(A), "f": f, "g": {"k": "sql2", "w": w}, "mu": mu,
                      "nu": nu, "x0": rl(xs)}
            z = rl(A @ xs)
            return recipe, {"x": rl(xs), "z": z, "zold": z, "u": rl(nu * y)}, np.asarray(rl(xs))
        tau = _P(rng, [0.5, 0.25])
        sigma = float(np.floor(0.9 / (tau * a2) * 256) / 256) or 1.0 / 256
        recipe = {"alg": "pdhg", "cplx": True, "xshape": [n], "C": cm(A), "nl": None, "f": f, "g": {"k": "sql2", "w": w},
                  "tau": tau, "sigma": sigma, "alpha": _P(rng, [1.0, 0.5]), "x0": rl(xs), "z0": rl(y)}
        return recipe, {"x": rl(xs), "xold": rl(xs), "z": rl(y), "zold": rl(y)}, np.asarray(rl(xs))
    if alg == "ladmm":
        g = gen_g(rng)
        C = {"t": "id"} if g["k"] == "nonneg" else gen_lin(rng, n)
        xs = point_for(rng, g if g["k"] == "nonneg" else {"k": "l1"}, n)
        M = G.op_dense(C, [n])[0]
        z = M @ xs
        y = subgrad_of(rng, g, z)
        if y is None:
            return None
        nu = _P(rng, [1.0, 2.0, 0.5])
        c2 = max(float(np.linalg.norm(M, 2) ** 2), 1e-3)
        mu = float(np.floor(_P(rng, [0.5, 0.9]) * nu / c2 * 256) / 256) or 1.0 / 256
        recipe = {"alg": "ladmm", "cplx": False, "xshape": [n], "C": C, "f": half_loss(xs + M.T @ y), "g": g, "mu": mu,
                  "nu": nu, "x0": xs.tolist()}
        kkt = {"x": xs.tolist(), "z": z.tolist(), "zold": z.tolist(), "u": (nu * y).tolist()}
        return recipe, kkt, xs
    if alg == "padmm":
        general = bool(rng.integers(0, 2))
        A = gen_lin(rng, n, ("id", "mat", "sid", "diag") if general else ("id", "mat", "sid", "diag", "fd"))
        MA = G.op_dense(A, [n])[0]
        p = MA.shape[0]
        xs = G.dy(rng, (n,), 2, 2.0)
        rho = _P(rng, [0.5, 1.0, 2.0])
        if general:
            m = int(rng.integers(1, 5))
            B = G.gen_mat(rng, p, m, False)
            MB = np.asarray(B["M"])
            lam = G.dy(rng, (p,), 2, 1.0)  # multiplier rho*u
            w = _P(rng, [0.5, 1.0, 2.0])
            g = {"k": "sql2", "w": w}
            zs = -(MB.T @ lam) / (2.0 * w)
            c = MA @ xs + MB @ zs
            recipe_B, zshape, cval = B, [m], c.tolist()
        else:
            # default B = -I ; c = 0 (default) or a given constant : z* = A x* - c, rho*u = y in dg(z*)
            g = gen_g(rng, ("l1", "sql2", "zero"))
            cvec = G.dy(rng, (p,), 2, 1.0) if rng.integers(0, 2) else None
            zs = MA @ xs - (0.0 if cvec is None else cvec)
            y = subgrad_of(rng, g, zs)
            lam = y
            MB = -np.eye(p)
            recipe_B, zshape, cval = None, None, (None if cvec is None else cvec.tolist())
        a2 = max(float(np.linalg.norm(MA, 2) ** 2), 1e-3)
        b2 = max(float(np.linalg.norm(MB, 2) ** 2), 1e-3)
        recipe = {"alg": "padmm", "cplx": False, "xshape": [n], "A": A, "B": recipe_B, "c": cval,
                  "f": half_loss(xs + MA.T @ lam), "g": g, "rho": rho, "mu": float(np.ceil(1.01 * a2 * 64) / 64),
                  "nu": float(np.ceil(1.01 * b2 * 64) / 64), "fast": bool(rng.integers(0, 2)), "x0": xs.tolist(),
                  "z0": zs.tolist(), "u0": (lam / rho).tolist()}
        if zshape is not None:
            recipe["zshape"] = zshape
        u = (lam / rho).tolist()
        kkt = {"x": xs.tolist(), "z": zs.tolist(), "zold": zs.tolist(), "u": u, "uold": u}
        return recipe, kkt, xs
    if alg == "nlpadmm":
        m, p = int(rng.integers(2, 5)), int(rng.integers(2, 5))
        A, B = G.dy(rng, (p, n), 2, 1.5), G.dy(rng, (p, m), 2, 1.5)
        Pm, Q = G.dy(rng, (p, n), 1, 1.0), G.dy(rng, (p, m), 1, 1.0)
        q = G.dy(rng, (p,), 1, 1.0) if rng.integers(0, 3) else np.zeros(p)
        xs = G.dy(rng, (n,), 1, 1.0)
        lam = G.dy(rng, (p,), 1, 1.0)
        w = _P(rng, [0.5, 1.0, 2.0])
        Jz = B + (q * (Pm @ xs))[:, None] * Q
        zs = -(Jz.T @ lam) / (2.0 * w)
        Jx = A + (q * (Q @ zs))[:, None] * Pm
        c = A @ xs + B @ zs + q * (Pm @ xs) * (Q @ zs)
        rho = _P(rng, [0.5, 1.0, 2.0])
        mu = float(np.ceil(1.05 * max(np.linalg.norm(Jx, 2) ** 2, 1e-3) * 16) / 16) * 2
        nu = float(np.ceil(1.05 * max(np.linalg.norm(Jz, 2) ** 2, 1e-3) * 16) / 16) * 2
        H = {"A": A.tolist(), "B": B.tolist(), "P": Pm.tolist(), "Q": Q.tolist(), "q": q.tolist(), "c": c.tolist()}
        u = (lam / rho).tolist()
        recipe = {"alg": "nlpadmm", "cplx": False, "xshape": [n], "H": H, "f": half_loss(xs + Jx.T @ lam),
                  "g": {"k": "sql2", "w": w}, "rho": rho, "mu": mu, "nu": nu, "fast": True, "x0": xs.tolist(),
                  "z0": zs.tolist(), "u0": u}
        kkt = {"x": xs.tolist(), "z": zs.tolist(), "zold": zs.tolist(), "u": u, "uold": u}
        return recipe, kkt, xs
    if alg == "pdhg" and rng.integers(0, 6) == 0:
        # complex data, holomorphic non-linear C(x) = Mx + q (Px)^2 : the conjugate-transposed Jacobian enters the KKT system
        m = int(rng.integers(2, 4))
        cd = lambda sh, b, sc: G.dy(rng, sh, b, sc) + 1j * G.dy(rng, sh, b, sc)  # noqa: E731
        M, Pm, q, xs = cd((m, n), 2, 1.5), cd((m, n), 1, 1.0), cd((m,), 1, 1.0), cd((n,), 2, 1.0)
        w = _P(rng, [0.5, 1.0, 0.25])
        Cx = M @ xs + q * (Pm @ xs) ** 2
        J = M + (2.0 * q * (Pm @ xs))[:, None] * Pm
        y = 2.0 * w * Cx
        y0 = xs + J.conj().T @ y
        rl = lambda a: G.realify(a, True).tolist()  # noqa: E731
        rec = {"M": M.real.tolist(), "Mi": M.imag.tolist(), "P": Pm.real.tolist(), "Pi": Pm.imag.tolist(),
               "q": q.real.tolist(), "qi": q.imag.tolist()}
        c2 = max(float(np.linalg.norm(J, 2) ** 2), 0.25) * 4
        tau = _P(rng, [0.5, 0.25])
        sigma = float(np.floor(0.5 / (tau * c2) * 1024) / 1024) or 1.0 / 1024
        recipe = {"alg": "pdhg", "cplx": True, "xshape": [n], "C": None, "nl": rec,
                  "f": {"k": "sqloss", "s": 0.5, "A": None, "yshape": [n], "y": rl(y0)}, "g": {"k": "sql2", "w": w},
                  "tau": tau, "sigma": sigma, "alpha": _P(rng, [1.0, 0.5]), "x0": rl(xs), "z0": rl(y)}
        kkt = {"x": rl(xs), "xold": rl(xs), "z": rl(y), "zold": rl(y)}
        return recipe, kkt, np.asarray(rl(xs))
    if alg == "pdhg":
        nl = bool(rng.integers(0, 3) == 0)
        g = gen_g(rng, ("l1", "sql2", "zero") if nl else ("l1", "sql2", "nonneg", "zero"))
        xs = point_for(rng, g if g["k"] == "nonneg" else {"k": "l1"}, n)
        if nl:
            m = int(rng.integers(2, 5))
            M, Pm, q = G.dy(rng, (m, n), 2, 1.5), G.dy(rng, (m, n), 1, 1.0), G.dy(rng, (m,), 1, 1.0)
            Cx = M @ xs + q * (Pm @ xs) ** 2
            J = M + (2.0 * q * (Pm @ xs))[:, None] * Pm
            rec, C = {"M": M.tolist(), "P": Pm.tolist(), "q": q.tolist()}, None
            c2 = max(float(np.linalg.norm(J, 2) ** 2), 0.25) * 4
        else:
            C = {"t": "id"} if g["k"] == "nonneg" else gen_lin(rng, n)
            J = G.op_dense(C, [n])[0]
            Cx = J @ xs
            rec = None
            c2 = max(float(np.linalg.norm(J, 2) ** 2), 1e-3)
        y = subgrad_of(rng, g, Cx)
        if y is None:
            return None
        tau = _P(rng, [0.5, 0.25, 1.0])
        sigma = float(np.floor(_P(rng, [0.9, 0.5]) / (tau * c2) * 256) / 256) or 1.0 / 256
        alpha = _P(rng, [1.0, 1.0, 1.0, 1.0, 0.5, 0.0, 0.25, 0.0])
        if alpha < 1.0 and rng.integers(0, 4) != 0:
            # C03_pdhg_alpha_strong (f = 1/2||x - y0||^2, m = 1): the additional step condition (1 - alpha) sigma ||C||^2 <= 2m
            sigma = min(sigma, float(np.floor(_P(rng, [1.75, 1.0]) / ((1.0 - alpha) * c2) * 256) / 256) or 1.0 / 256)
        recipe = {"alg": "pdhg", "cplx": False, "xshape": [n], "C": C, "nl": rec, "f": half_loss(xs + J.T @ y), "g": g,
                  "tau": tau, "sigma": sigma, "alpha": alpha, "x0": xs.tolist(), "z0": y.tolist()}
        kkt = {"x": xs.tolist(), "xold": xs.tolist(), "z": y.tolist(), "zold": y.tolist()}
        return recipe, kkt, xs
    if alg in ("pgm", "apgm"):
        g = gen_g(rng)
        xs = point_for(rng, g if g["k"] == "nonneg" else {"k": "l1"}, n)
        y = subgrad_of(rng, g, xs)
        if y is None:
            return None
        d = np.asarray([_P(rng, [0.5, 1.0, 2.0, -1.0]) for _ in range(n)])
        useA = bool(rng.integers(0, 2))
        unique = True
        if useA:  # f = 1/2 ||diag(d) x - b||^2 ,  d(dx* - b) = -y  =>  b = d x* + y / d
            xs = np.asarray(xs, dtype=np.float64)
            y = np.asarray(y, dtype=np.float64)
            if n >= 2 and rng.integers(0, 3) == 0:
                # MERELY CONVEX f: coordinate j does not enter the loss (d_j = 0), so -grad f(x*)_j = 0 has to be a subgradient of
                # g there (any j for g = 0 / the non-negativity indicator, x*_j = 0 for l1 / squared l2).  With g = 0 / indicator
                # the minimiser is not unique: only the monotone quantities (valid for EVERY minimiser) are checked then
                cand = [j for j in range(n) if g["k"] in ("nonneg", "zero") or xs[j] == 0.0]
                if cand:
                    j = int(_P(rng, cand))
                    d[j] = 0.0
                    y = y.copy()
                    y[j] = 0.0
                    unique = g["k"] in ("l1", "sql2")
            dd = np.where(d != 0.0, d, 1.0)
            yv = np.where(d != 0.0, d * xs + y / dd, 1.0)
            f = {"k": "sqloss", "s": 0.5, "A": {"t": "diag", "d": d.tolist()}, "yshape": [n], "y": yv.tolist()}
            lip, mstrong = float(np.max(d**2)), float(np.min(d**2))
        else:
            f = half_loss(xs + y)
            lip, mstrong = 1.0, 1.0
        if rng.integers(0, 3) == 0:
            # the loss object is produced by the arithmetic of Loss objects (c * L, L * c, L / c): same function, rescaled `scale`
            f["resc"] = _P(rng, [["/", 2.0], ["/", 3.0], ["l*", 2.0], ["r*", 0.5]])
        L0 = lip * _P(rng, [1.0, 1.5, 2.0])
        recipe = {"alg": alg, "cplx": False, "xshape": [n], "f": f, "g": g, "L0": L0, "x0": xs.tolist(),
                  "pol": {"kind": "base", "real": True}, "_lip": lip, "_m": mstrong, "_unique": unique}
        if rng.integers(0, 3) == 0:
            # the library's own adaptive step-size policies (C16): a KKT point must stay fixed and the iterates must still
            # reach the minimiser; the monotone quantities that presuppose L >= Lipschitz constant do not apply
            kind = _P(rng, ["bb", "adaptiveBB", "lineSearch"] + (["robust"] if alg == "apgm" else []))
            recipe["pol"] = {"kind": kind, "real": True}
            if kind == "adaptiveBB":
                recipe["pol"]["kappa"] = 0.5
            if rng.integers(0, 2):
                recipe["reuse"] = {"y": G.dy(rng, (n,), 2, 2.0).tolist(), "L0": 4.0 * L0}
        elif rng.integers(0, 2):
            # history: a second solver with the default step-size object and a far too small L0 is constructed afterwards
            # and stays alive; it must not influence this one (see steps_gen.Built)
            recipe["decoy_L0"] = L0 / 16.0
        if alg == "pgm":
            kkt = {"x": xs.tolist(), "L": L0, "fpr": 0.0, "mem": [0.0]}
        else:
            kkt = {"x": xs.tolist(), "v": xs.tolist(), "t": 1.0, "L": L0, "fpr": 0.0, "mem": [0.0]}
        return recipe, kkt, xs
    raise Infra("alg")


# --------------------------------------------------------------------------------------------


def _dist(a, b):
    return float(np.linalg.norm(np.asarray(a) - np.asarray(b)))


def fixed_point_case(ctx, model, recipe, kkt):
    """(a) the real step() and the model's documented step leave the KKT state unchanged"""
    alg = recipe["alg"]
    b = G.Built(recipe)
    b.write(kkt)
    b.solver.step()
    post = b.read()
    ignore = ("mem", "fpr", "t", "L")
    fld = G.states_close(kkt, post, rtol=TOL, skip=ignore)
    if alg in ("pgm", "apgm") and recipe["pol"]["kind"] != "base":
        # library step-size policies: no model counterpart here; any positive L keeps a KKT point fixed
        ctx.count(f"fixed-point:{alg}:policy-{recipe['pol']['kind']}")
        fm = None
    else:
        m = G.state_from_wire(model.call("step", alg=alg, p=b.p, s=G.state_json(kkt), k=1, mode="spec")[0])
        fm = G.states_close(kkt, m, rtol=TOL, skip=ignore)
    if fm is not None:
        # the model (whose spec step provably fixes KKT points) moved: the manufactured point is not KKT -> harness bug
        raise Infra(f"manufactured point is not a fixed point of the model ({alg}, field {fm}): {json.dumps(recipe)[:400]}")
    ctx.count(f"fixed-point:{alg}")
    if fld is not None:
        case = {"recipe": recipe, "kkt": kkt}

        def oracle(c):
            res = max(
                (_dist(np.ravel(np.concatenate([np.ravel(x) for x in (post[k] if isinstance(post[k][0], list) else [post[k]])])),
                       np.ravel(np.concatenate([np.ravel(x) for x in (kkt[k] if isinstance(kkt[k][0], list) else [kkt[k]])])))
                 for k in kkt if k not in ignore),
                default=0.0,
            )
            return {"class": type(b.solver).__name__, "recipe": recipe, "kkt_state": kkt, "after_step": post, "field": fld,
                    "fixed_point_residual": res}

        ctx.disagree(f"steps.{alg}.kkt-fixed-point", case, {fld: post[fld]}, {fld: kkt[fld]}, oracle=oracle)
        return False
    return True


def objective_of(b, x):
    return float(b.solver.f(x)) + float(b.solver.g(x))


def trajectory_case(ctx, recipe, kkt, xs, rng, K, check_conv=True):
    """(b) monotone quantities / convergence along a real trajectory from a random start"""
    alg = recipe["alg"]
    r = dict(recipe)
    n = len(xs)
    x0 = (xs + G.dy(rng, (n,), 2, 2.0)).tolist()
    r["x0"] = x0
    for k in ("z0", "u0"):
        if k in r and r[k] is not None:
            r[k] = None
    b = G.Built(r)
    s = b.solver
    cx = b.cplx
    nonbase = alg in ("pgm", "apgm") and recipe["pol"]["kind"] != "base"
    d0 = _dist(G.flat(s.x, cx), xs)
    case = {"recipe": r, "xstar": xs.tolist(), "steps": K}
    bad = None
    dists, objs, Vs, ts = [d0], [], [], []
    lip = recipe.get("_lip")
    states = [b.read()]  # full public state along the trajectory (first MONITOR steps) for the Lyapunov-type quantities
    fobjs = []
    for k in range(K):
        if alg == "pgm":
            objs.append(objective_of(b, s.x))
        s.step()
        if k < MONITOR:
            states.append(b.read())
            if alg == "apgm":
                fobjs.append(objective_of(b, s.x))
        x = np.asarray(G.flat(s.x, cx))
        dists.append(_dist(x, xs))
        if alg == "apgm":
            ts.append(float(s.t))
        if alg == "admm":
            V = sum(rho * (_dist(G.flat(u, cx), us) ** 2 + _dist(G.flat(z, cx), zs) ** 2)
                    for rho, u, z, us, zs in zip(s.rho_list, s.u_list, s.z_list, kkt["u"], kkt["z"]))
            Vs.append(V)
    tol = lambda v: 1e-9 * (1.0 + abs(v))  # noqa: E731
    if alg == "pgm" and not nonbase:
        objs.append(objective_of(b, s.x))
        L = float(recipe["L0"])
        q = 1.0 - recipe["_m"] / L
        for k in range(K):
            if dists[k + 1] > dists[k] + tol(dists[k]):
                bad = {"quantity": "distance to minimiser", "k": k, "before": dists[k], "after": dists[k + 1]}
                break
            if np.isfinite(objs[k]) and objs[k + 1] > objs[k] + tol(objs[k]):
                bad = {"quantity": "objective", "k": k, "before": objs[k], "after": objs[k + 1]}
                break
            if dists[k + 1] ** 2 > q ** (k + 1) * d0**2 + tol(d0**2):
                bad = {"quantity": "linear rate (1-m/L)^k", "k": k, "dist_sq": dists[k + 1] ** 2, "bound": q ** (k + 1) * d0**2}
                break
        ctx.count("monotone:pgm-distance+objective+rate")
    if alg == "apgm" and recipe["pol"]["kind"] != "robust":
        for k, t in enumerate(ts):
            if t < (k + 3) / 2.0 - 1e-12:
                bad = {"quantity": "FISTA t_k >= (k+2)/2", "k": k + 1, "t": t}
                break
        ctx.count("monotone:fista-t")
    if alg == "admm" and recipe["alpha"] == 1.0:
        for k in range(1, len(Vs)):
            if Vs[k] > Vs[k - 1] + tol(Vs[k - 1]):
                bad = {"quantity": "ADMM Lyapunov function (N=%d)" % len(recipe["C"]), "k": k,
                       "before": Vs[k - 1], "after": Vs[k]}
                break
        ctx.count("monotone:admm-lyapunov-N%d" % len(recipe["C"]))
    if bad is None:
        bad = lyapunov_monitors(ctx, recipe, kkt, xs, states, fobjs, b)
    # numerical convergence (proved for PGM and - strongly convex f - ADMM; otherwise outside the theorems): the distance
    # must have dropped substantially
    if bad is None and check_conv:
        target = 0.05 * d0 + 1e-7
        if alg == "pgm" and not nonbase:
            target = float("inf")  # the proved rate bound above is the criterion
        if alg == "apgm" and not nonbase:
            qq = 1.0 - recipe["_m"] / float(recipe["L0"])
            target = max(0.05, 2.0 * qq ** (K / 2.0)) * d0 + 1e-7
            if recipe["_m"] == 0.0:
                target = 0.05 * d0 + 1e-7  # merely convex f, unique minimiser: C03_fista_merely_convex (no rate; extended budget)
        if recipe.get("_unique") is False:
            target = float("inf")  # several minimisers: the iterates need not approach the manufactured one
            ctx.count(f"merely-convex:{alg}:minimiser-not-unique")
        elif recipe.get("_m") == 0.0:
            ctx.count(f"merely-convex:{alg}:unique-minimiser")
        # no rate is claimed for these classes (only convergence is a theorem): slowly converging instances (large rho,
        # ill-conditioned C) get up to 20x the budget before the case is reported
        extra = 0
        while dists[-1] > target and d0 > 0 and extra < 19 * K:
            for _ in range(K):
                s.step()
            extra += K
            dists.append(_dist(np.asarray(G.flat(s.x, cx)), xs))
        if extra:
            ctx.count("convergence:extended-budget")
        if dists[-1] > target and d0 > 0:
            bad = {"quantity": "distance to the manufactured minimiser after %d steps" % (K + extra), "start": d0,
                   "end": dists[-1], "required": target}
        ctx.count(f"convergence:{alg}" + (":policy-" + recipe["pol"]["kind"] if nonbase else "") + (":complex" if cx else ""))
    if not common.allclose(G.flat(s.minimizer(), cx), G.flat(s.x, cx), rtol=0.0):
        bad = {"quantity": "minimizer() is x"}
    if bad is not None:
        bad.update({"class": type(s).__name__, "recipe": r, "xstar": xs.tolist()})
        ctx.disagree(f"steps.{alg}.trajectory", case, bad, "monotone / convergent", oracle=lambda c: bad)
    return d0


MONITOR = 60  # number of leading steps whose full state is recorded for the Lyapunov-type inequalities


def _sq(v):
    v = np.asarray(v, dtype=np.float64)
    return float(v @ v)


def lyapunov_monitors(ctx, recipe, kkt, xs, states, fobjs, b):
    """the one-step inequalities of the round-2 theorems evaluated on consecutive states of the REAL trajectory
    (C03_admm_relax_lyapunov, C03_pdhg_fejer, C03_padmm_lyapunov, C03_ladmm_lyapunov, C03_fista_rate); every inequality is
    checked from the first iterate on (k >= 1: states produced by step(), the hypothesis of the theorems), PDHG from k = 0.
    Returns a failing-input dict or None."""
    alg = recipe["alg"]
    cx = bool(recipe.get("cplx"))
    n = len(xs) // 2 if cx else len(xs)  # xs is in the model representation (complex data: interleaved re / im)
    dense = lambda rec, sh: np.asarray(G.realify_mat(G.op_dense(rec, sh)[0], cx), dtype=np.float64)  # noqa: E731
    if alg in ("pgm", "apgm") and recipe["pol"]["kind"] != "base":
        return None  # the monotone quantities presuppose the constant step size 1/L, L >= Lipschitz constant
    tol = lambda v: 1e-8 * (1.0 + abs(v))  # noqa: E731
    A_ = lambda k: np.asarray(k, dtype=np.float64)  # noqa: E731
    # strong-monotonicity modulus of grad f (f = s ||x - y0||^2 : 2 s); 0 when f is not of that form (plain convexity)
    fr = recipe.get("f") or {}
    m_f = 2.0 * float(fr["s"]) if fr.get("k") == "sqloss" and fr.get("A") is None and fr.get("W") is None else 0.0
    if alg == "admm" and 0.0 < recipe["alpha"] < 2.0:
        al = float(recipe["alpha"])
        Ms = [dense(c, recipe["xshape"]) for c in recipe["C"]]
        rho = [float(r) for r in recipe["rho"]]
        m = m_f
        zs = [A_(z) for z in kkt["z"]]
        us = [A_(u) for u in kkt["u"]]

        def W(st):
            return sum(r * _sq(A_(z) + A_(u) - zz - uu) for r, z, u, zz, uu in zip(rho, st["z"], st["u"], zs, us))

        for k in range(1, len(states) - 1):
            s0, s1 = states[k], states[k + 1]
            x1 = A_(s1["x"])
            Q = sum(r * _sq(M @ x1 - A_(z)) for r, M, z in zip(rho, Ms, s0["z"]))
            lhs = W(s1) + al * (2.0 - al) * Q + 2.0 * al * m * _sq(x1 - xs)
            if lhs > W(s0) + tol(W(s0)):
                return {"quantity": "relaxed-ADMM function W (N=%d, alpha=%g): W+ + a(2-a)Q + 2 a m |x+-x*|^2 <= W" % (len(rho), al),
                        "k": k, "lhs": lhs, "W_before": W(s0), "W_after": W(s1), "Q": Q}
            # ||z+ - z|| <= alpha ||C x+ - z||  and  ||C x+ - z+|| <= (1 + alpha) ||C x+ - z||   (per constraint)
            for r, M, z0, z1 in zip(rho, Ms, s0["z"], s1["z"]):
                q = np.sqrt(_sq(M @ x1 - A_(z0)))
                if np.sqrt(_sq(A_(z1) - A_(z0))) > al * q + tol(q) or np.sqrt(_sq(M @ x1 - A_(z1))) > (1 + al) * q + tol(q):
                    return {"quantity": "ADMM residual bounds |z+-z| <= a|Cx+-z|, |Cx+-z+| <= (1+a)|Cx+-z|", "k": k, "q": q}
        ctx.count("monotone:admm-relaxed-W-alpha%s" % ("=1" if al == 1.0 else "!=1"))
    if alg == "pdhg" and recipe.get("nl") is None:
        M = dense(recipe["C"], [n])
        tau, sig = float(recipe["tau"]), float(recipe["sigma"])
        zs = A_(kkt["z"])

        def Mn(a, bb):
            return _sq(a) / tau - 2.0 * float((M @ a) @ bb) + _sq(bb) / sig

        for k in range(0, len(states) - 1):
            s0, s1 = states[k], states[k + 1]
            a0, b0 = A_(s0["x"]) - xs, A_(s0["z"]) - zs
            a1, b1 = A_(s1["x"]) - xs, A_(s1["z"]) - zs
            al = float(recipe["alpha"])
            # alpha = 1: Fejer inequality with the strong-convexity gain; alpha != 1: with the defect of C03_pdhg_alpha_defect
            lhs = Mn(a1, b1) + Mn(a0 - a1, b0 - b1) + (2.0 * m_f * _sq(a1) if al == 1.0 else 0.0)
            rhs = Mn(a0, b0) + 2.0 * (1.0 - al) * float(b1 @ (M @ (a0 - a1)))
            if lhs > rhs + tol(Mn(a0, b0)):
                return {"quantity": "PDHG Fejer inequality in the M-metric (alpha=%g; gain 2m|x+-x*|^2 for alpha=1, defect 2(1-alpha)<z+-z*,C(x-x+)> otherwise)" % al, "k": k, "lhs": lhs, "M_before": Mn(a0, b0),
                        "M_after": Mn(a1, b1)}
        ctx.count("monotone:pdhg-fejer-M" + ("" if float(recipe["alpha"]) == 1.0 else "-with-alpha-defect"))
        # C03_pdhg_alpha_strong: alpha in [0,1), m-strongly convex f, tau sigma L^2 <= 1 and (1-alpha) sigma L^2 <= 2m:
        #   M_alpha(w+ - w*) + (2m - (1-alpha) sigma L^2) |x+ - x*|^2 <= M_alpha(w - w*),   M_alpha = |a|^2/tau - 2 alpha <Ca,b> + |b|^2/sigma
        al = float(recipe["alpha"])
        L2 = float(np.linalg.norm(M, 2) ** 2) * (1.0 + 1e-12)
        gap = 2.0 * m_f - (1.0 - al) * sig * L2
        if 0.0 <= al < 1.0 and m_f > 0.0 and gap >= 0.0 and tau * sig * L2 <= 1.0:
            def MA(a, bb):
                return _sq(a) / tau - 2.0 * al * float((M @ a) @ bb) + _sq(bb) / sig

            for k in range(0, len(states) - 1):
                s0, s1 = states[k], states[k + 1]
                a0, b0 = A_(s0["x"]) - xs, A_(s0["z"]) - zs
                a1, b1 = A_(s1["x"]) - xs, A_(s1["z"]) - zs
                if MA(a1, b1) + gap * _sq(a1) > MA(a0, b0) + tol(MA(a0, b0)):
                    return {"quantity": "PDHG Fejer inequality in the M_alpha-metric (alpha=%g < 1, strongly convex f): M_a(w+) + gap|x+-x*|^2 <= M_a(w)" % al,
                            "k": k, "gap": gap, "M_before": MA(a0, b0), "M_after": MA(a1, b1), "x_dist_sq": _sq(a1)}
            ctx.count("monotone:pdhg-fejer-M_alpha-strongly-convex")
        elif 0.0 <= al < 1.0:
            ctx.count("pdhg-alpha<1:step-condition-(1-alpha)sigma|C|^2<=2m-not-met")
    if alg == "padmm":
        MA = dense(recipe["A"], [n])
        p = MA.shape[0]
        MB = -np.eye(p) if recipe["B"] is None else dense(recipe["B"], recipe["zshape"])
        rho, mu, nu = float(recipe["rho"]), float(recipe["mu"]), float(recipe["nu"])
        zs, us = A_(kkt["z"]), A_(kkt["u"])
        nP = lambda a: rho * (mu * _sq(a) - _sq(MA @ a))  # noqa: E731
        nQ = lambda bb: rho * (nu * _sq(bb) - _sq(MB @ bb))  # noqa: E731

        def Psi(st):
            return (rho * _sq(A_(st["u"]) - us) + nP(A_(st["x"]) - xs) + rho * nu * _sq(A_(st["z"]) - zs)
                    + nQ(A_(st["z"]) - A_(st["zold"])))

        for k in range(1, len(states) - 1):
            s0, s1 = states[k], states[k + 1]
            diss = nP(A_(s1["x"]) - A_(s0["x"])) + rho * nu * _sq(A_(s1["z"]) - A_(s0["z"])) + rho * _sq(A_(s1["u"]) - A_(s0["u"]))
            diss += 2.0 * m_f * _sq(A_(s1["x"]) - xs)
            if Psi(s1) + diss > Psi(s0) + tol(Psi(s0)):
                return {"quantity": "proximal-ADMM Lyapunov function Psi", "k": k, "Psi_before": Psi(s0), "Psi_after": Psi(s1),
                        "dissipation": diss}
        ctx.count("monotone:padmm-lyapunov-" + ("defaultB" if recipe["B"] is None else "generalB"))
    if alg == "ladmm":
        M = dense(recipe["C"], [n])
        mu, nu = float(recipe["mu"]), float(recipe["nu"])
        us = A_(kkt["u"])
        zs = M @ xs

        def V(st):
            return (_sq(A_(st["u"]) - us) + _sq(A_(st["z"]) - zs)) / nu + _sq(A_(st["x"]) - xs) / mu - _sq(M @ (A_(st["x"]) - xs)) / nu

        for k in range(1, len(states) - 1):
            s0, s1 = states[k], states[k + 1]
            dx = A_(s1["x"]) - A_(s0["x"])
            diss = _sq(dx) / mu - _sq(M @ dx) / nu + (_sq(A_(s1["z"]) - A_(s0["z"])) + _sq(A_(s1["u"]) - A_(s0["u"]))) / nu
            diss += 2.0 * m_f * _sq(A_(s1["x"]) - xs)
            if V(s1) + diss > V(s0) + tol(V(s0)):
                return {"quantity": "linearized-ADMM Lyapunov function V", "k": k, "V_before": V(s0), "V_after": V(s1),
                        "dissipation": diss}
        ctx.count("monotone:ladmm-lyapunov")
    if alg == "apgm" and fobjs:
        L = float(recipe["L0"])
        Fs = objective_of(b, G.unflat(xs.tolist(), [n], False))
        d0sq = _sq(A_(states[0]["x"]) - xs)
        for k, Fk in enumerate(fobjs):  # fobjs[k] = F(x_{k+1})
            bound = 2.0 * L * d0sq / (k + 2.0) ** 2
            if np.isfinite(Fk) and Fk - Fs > bound + tol(bound):
                return {"quantity": "FISTA rate F(x_k) - F(x*) <= 2 L |x0 - x*|^2 / (k+1)^2", "k": k + 1, "gap": Fk - Fs, "bound": bound}
        ctx.count("monotone:fista-rate")
        # the potential E = 2 t (t-1) (F(x) - F*) + L |t v - (t-1) x - x*|^2 of C03_fista_potential never increases
        def E(st, Fx):
            t = float(st["t"])
            gap = 0.0 if t == 1.0 else 2.0 * t * (t - 1.0) * (Fx - Fs)
            return gap + L * _sq(t * A_(st["v"]) - (t - 1.0) * A_(st["x"]) - xs)

        Es = [E(states[0], 0.0)] + [E(states[k + 1], fobjs[k]) for k in range(len(fobjs)) if np.isfinite(fobjs[k])]
        for k in range(1, len(Es)):
            if Es[k] > Es[k - 1] + tol(Es[k - 1]):
                return {"quantity": "FISTA potential 2t(t-1)(F(x)-F*) + L|t v-(t-1)x-x*|^2", "k": k, "before": Es[k - 1], "after": Es[k]}
        ctx.count("monotone:fista-potential")
        # C03_fista_iterates_ball: every iterate stays in the closed ball of radius |x0 - x*| around the minimiser (f merely convex)
        r0 = float(np.sqrt(d0sq))
        for k in range(1, len(states)):
            dk = float(np.sqrt(_sq(A_(states[k]["x"]) - xs)))
            if np.isfinite(dk) and dk > r0 + tol(r0):
                return {"quantity": "FISTA iterates in the ball |x_k - x*| <= |x_0 - x*|", "k": k, "distance": dk, "radius": r0}
        ctx.count("monotone:fista-ball")
    return None


def generate(ctx):
    """translator (harness/steps_translate.py): tables read with `ast` from the working tree, one generated module whose
    `decide` obligations compare them with Model/StepsSource.lean"""
    steps_translate.generate()
    return [("Scico.Generated.StepsTables",
             "constructor parameters with defaults of ADMM / LinearizedADMM / ProximalADMM(Base) / NonLinearPADMM / PDHG / PGM / AcceleratedPGM, "
             "normalised statement lists of every transcribed method (step, __init__, accessors, residuals, z_init / u_init, "
             "_working_vars_finite, _itstat_extra_fields, Functional.conj_prox, LinearSubproblemSolver.compute_rhs / solve), order of the "
             "self-attribute assignments of step() / __init__, the parameter constraints printed in the class docstrings, and the "
             "sub-problem solver classes (base, reduction over C_list, defaults) equal the tables the model transcribes "
             "(Model/StepsSource.lean)")]


def corpus_cases():
    d = common.CORPUS_DIR / PROP
    out = []
    if d.exists():
        for f in sorted(d.glob("*.json")):
            out.append((f.name, json.loads(f.read_text())))
    return out


BUDGET = {"admm": 300, "ladmm": 1500, "padmm": 3000, "nlpadmm": 3000, "pdhg": 2000, "pgm": 60, "apgm": 300}


def one(ctx, model, rng, alg, recipe, kkt, xs, traj, tag):
    """`_one`, with an exception raised INSIDE the library on this manufactured problem reported as a failing input instead of
    ending the run as an infrastructure error"""
    try:
        return _one(ctx, model, rng, alg, recipe, kkt, xs, traj, tag)
    except Infra:
        raise
    except Exception as e:  # noqa: BLE001
        if type(e).__name__ == "ModelErr" or not G.raised_in_library(e):
            raise
        fail = {"class": alg, "recipe": recipe, "kkt_state": kkt, "raised": f"{type(e).__name__}: {e}"[:400]}
        ctx.disagree(f"steps.{alg}.raises", {"recipe": recipe, "kkt": kkt}, fail["raised"], "evaluates", oracle=lambda c: fail)


def _one(ctx, model, rng, alg, recipe, kkt, xs, traj, tag):
    # non-linear C / H make the problem non-convex: only the fixed-point part of the property applies
    nonconvex = False
    if alg == "admm" and recipe.get("solver") in ("fblock", "g0block"):
        ctx.count("admm.block-solver:" + recipe["solver"] + (":omega=1/2" if (recipe["g"][0] if recipe["solver"] == "g0block" else recipe["f"])["s"] == 0.5 else ":omega!=1/2"))
        if recipe["solver"] == "g0block" and recipe["g"][0]["s"] != 0.5:
            traj, nonconvex = False, True  # not the standard ADMM x-step (C10 g0-scale): fixed point of the documented x-step only
    if recipe.get("reuse") is not None:
        ctx.count("history:helper-object-reused")
    if alg == "admm" and recipe.get("cplx"):
        ctx.count("admm.complex-matrix-solver:" + ("woodbury-path" if recipe.get("_woodbury") else "mixed-constraints"))
    if recipe.get("cplx"):
        ctx.count(f"complex-data:{alg}")
    if recipe.get("decoy_L0") is not None:
        ctx.count("history:second-solver-with-default-step-size-alive")
    if alg == "pdhg" and recipe.get("nl") is not None:
        traj, nonconvex = False, True
    if alg == "nlpadmm" and any(recipe["H"]["q"]):
        traj, nonconvex = False, True
    ok = fixed_point_case(ctx, model, recipe, kkt)
    d0 = None
    if ok and traj:
        K = BUDGET[alg] if ctx.thorough else max(40, BUDGET[alg] // 4)
        if alg in ("pgm", "apgm") and recipe["pol"]["kind"] != "base":
            K = 40  # the library's line searches run un-jitted Python per step
        d0 = trajectory_case(ctx, recipe, kkt, np.asarray(xs, dtype=np.float64), rng, K)
    elif ok and not nonconvex:
        # short trajectory: only the proved one-step inequalities (Lyapunov / Fejer / rate), no convergence budget
        d0 = trajectory_case(ctx, recipe, kkt, np.asarray(xs, dtype=np.float64), rng, MONITOR, check_conv=False)
    key = G.describe({k: v for k, v in recipe.items() if not k.startswith("_")})
    nz = bool(np.any(np.asarray(xs) != 0))
    ctx.case({"config": key, "stream": tag, "trajectory": bool(traj)}, (key, tuple(np.asarray(xs).tolist())) if nz else None,
             sample_every=25)
    ctx.count(f"alg:{alg}")
    ctx.count(f"stream:{tag}")


F32_RTOL = 5e-4


def default_precision(ctx, model):
    """the library's DEFAULT mode (no jax_enable_x64): manufactured KKT states of every class (real / complex, all solver kinds) are
    written into optimisers built at float32 / complex64 in a worker subprocess; one step() must not raise, must keep every state
    array 32-bit, and must leave the state fixed to float32 tolerance"""
    rng = np.random.Generator(np.random.PCG64(ctx.seed + 5407))
    per = 5 if ctx.thorough else 2
    items = []
    for alg in G.ALGS:
        made = 0
        for _ in range(60):
            if made >= per:
                break
            m = manufacture(rng, alg)
            if m is None:
                continue
            made += 1
            items.append(m)
    res = G.run_f32_worker([{"recipe": {k: v for k, v in m[0].items()}, "pre": m[1]} for m in items])
    ignore = ("mem", "fpr", "t", "L")
    mode = "float32 / complex64 (jax_enable_x64 off)"
    for (recipe, kkt, xs), rec in zip(items, res):
        a = recipe["alg"]
        key = G.describe({k: v for k, v in recipe.items() if not k.startswith("_")})
        ctx.case({"default_precision_fixed_point": key}, ("f32", key, tuple(np.asarray(xs).tolist())), sample_every=6)
        ctx.count(f"default-precision-fixed-point:{a}" + (":complex64" if recipe.get("cplx") else ":float32"))
        if rec.get("raised") or rec.get("bad_dtypes"):
            fail = {"class": a, "recipe": recipe, "kkt_state": kkt, "mode": mode, "raised": rec.get("raised"),
                    "state_dtypes_not_32bit": rec.get("bad_dtypes"), "dtypes": rec.get("dtypes")}
            ctx.disagree(f"steps.{a}.default_precision", {"recipe": recipe, "kkt": kkt, "mode": mode},
                         {k: fail[k] for k in ("raised", "state_dtypes_not_32bit")}, "step() evaluates; state stays 32-bit",
                         oracle=lambda c, fail=fail: fail)
            continue
        fld = G.states_close(kkt, rec["post"], rtol=F32_RTOL, skip=ignore)
        if fld is not None:
            fail = {"class": a, "recipe": recipe, "kkt_state": kkt, "mode": mode, "field": fld, "after_step_float32": rec["post"][fld]}
            ctx.disagree(f"steps.{a}.default_precision.kkt-fixed-point", {"recipe": recipe, "kkt": kkt, "mode": mode},
                         {fld: rec["post"][fld]}, {fld: kkt[fld]}, oracle=lambda c, fail=fail: fail)


def correspond(ctx, model):
    common.setup_scico()
    rng = ctx.rng
    default_precision(ctx, model)
    for name, c in corpus_cases():
        one(ctx, model, rng, c["recipe"]["alg"], c["recipe"], c["kkt"], c["xstar"], True, "corpus")
        ctx.count(f"corpus:{name}")
    n = ctx.n(12, 36)
    import gc

    import jax

    for it in range(n):
        if it % 4 == 3:
            # every optimiser instance compiles its own jitted closures; release them (the XLA JIT otherwise
            # runs out of executable-memory mappings after a few thousand compilations)
            jax.clear_caches()
            gc.collect()
        for alg in G.ALGS:
            m = None
            for _ in range(20):
                m = manufacture(rng, alg)
                if m is not None:
                    break
            if m is None:
                raise Infra("could not manufacture a problem")
            recipe, kkt, xs = m
            traj = (it % 3 == 0) if not ctx.thorough else (it % 2 == 0)
            if alg in ("pgm", "apgm"):
                traj = True
            one(ctx, model, rng, alg, recipe, kkt, xs, traj, "manufactured")


def findings(ctx, model):
    pass


def search(ctx, model, why):
    """oracle search on the implementation alone (no model): step() at manufactured KKT states must not move, and a short
    run from a perturbed start must not move away from the optimum of a strongly convex instance"""
    common.setup_scico()
    rng = np.random.Generator(np.random.PCG64(ctx.seed + 104729))
    if why is not None:
        # aim at the classes whose pinned statement lists / defaults differ from the working tree: manufactured problems of exactly
        # those classes, KKT fixed point + monitored trajectory, oracles evaluated on the implementation alone
        import c11

        rows = steps_translate.diff_rows()
        ctx.obligation_notes.append("stale table rows: " + ", ".join(rows[:20]))
        probe = c11._Probe(ctx)
        for alg, kinds in c11.panel_targets(rows):
            made = 0
            for it in range(400):
                if made >= 10 or probe.failing is not None:
                    break
                m = manufacture(rng, alg)
                if m is None:
                    continue
                if kinds is not None and m[0].get("solver") not in kinds:
                    continue
                made += 1
                one(probe, model, rng, alg, m[0], m[1], m[2], True, "panel")
                ctx.count(f"targeted-panel:{alg}")
        if probe.failing is not None:
            probe.failing["stale_table_rows"] = rows[:12]
            return probe.failing
    ignore = ("mem", "fpr", "t", "L")
    for it in range(ctx.n(4, 12)):
        for alg in G.ALGS:
            m = None
            for _ in range(20):
                m = manufacture(rng, alg)
                if m is not None:
                    break
            if m is None:
                continue
            recipe, kkt, xs = m
            b = G.Built(recipe)
            b.write(kkt)
            b.solver.step()
            post = b.read()
            ctx.count("oracle-search-cases")
            fld = G.states_close(kkt, post, rtol=TOL, skip=ignore)
            if fld is not None:
                return {"class": type(b.solver).__name__, "recipe": recipe, "kkt_state": kkt, "field": fld, "after_step": post[fld]}
    return None


def replay(ctx, model, case):
    common.setup_scico()
    c = case.get("case", case)
    if "kkt" in c:
        b = G.Built(c["recipe"])
        b.write(c["kkt"])
        b.solver.step()
        post = b.read()
        fld = G.states_close(c["kkt"], post, rtol=TOL, skip=("mem", "fpr", "t", "L"))
        print("replay: fixed-point", "VIOLATED at field " + str(fld) if fld else "holds")
        if fld:
            ctx.violation({"kind": "failing-input", "case": c, "failing": {"field": fld, "after_step": post[fld]}}, True, "replay")
    else:
        print("replay: trajectory cases are re-run by the check itself (recipe in the file)")
