"""C01 - adjoint identity <Ax,y> = <x,A^H y> for every linear operator (engine `Adjoint`).

Tie of the Lean model (lean/Scico/Model/Adjoint.lean) and theorems (lean/Scico/Props/C01.lean) to /repo:

 1. finite obligations of `C01_basis` on the REAL code: for every constructor configuration of every linear-operator
    class (adjoint_grid.py) the dense matrices of `eval` and `adj` are built on basis vectors and
    realmat(adj) == realmat(eval)^T is checked (exhaustive in the inputs of that configuration), together with
    C-linearity, declared sizes and "adj accepts every conforming y";
 2. the views: matrix(A.T) = M^T, matrix(A.H) = M^H, matrix(A.conj()) = conj(M), matrix(gram_op) = M^H M, and each
    view is again an adjoint pair;
 3. the model: leaves are measured on the real code (matrices of eval and adj), the derivation tree is sent to the
    Lean driver, which builds the derived closures exactly as `Model/Adjoint.lean` says scico builds them; the dense
    matrices of the model's derived eval/adj are compared with those of the real derived operator;
    leaf models (`Op.mat`, `Op.circBatch`, scatter/gather for the X-ray projectors) are compared with
    MatrixOperator / CircularConvolve / XRayTransform2D / XRayTransform3D;
 4. oracle: the adjoint identity on random x, y on the implementation.
"""

from __future__ import annotations

import json
import os
import warnings
from pathlib import Path

import numpy as np

import adjoint_dense as D
import adjoint_grid as G
import adjoint_trees as T
import adjoint_types as Y
import adjoint_translate
import common
from common import ModelErr, fs2b, b2f

PROP = "C01"
CLAIMED = True
ENGINE = "Adjoint"
DESIGN_REF = "DESIGN.md §5.1 (C01 parts)"
TECHNIQUE = (
    "Lean 4 proof by induction over operator derivation trees (adjoint closures as scico builds them), closed-form leaf "
    "adjoints (matrix, circular convolution in the signal and in the transform domain, scatter/gather incl. the slab "
    "loops), basis lifting lemma; a second executable model of the dtype/shape guards and declared metadata with an "
    "induction over typed trees (adjoint never fails for a conforming input) linked to the value model; finite "
    "basis-pair obligations and model correspondence (values and types) evaluated on the real code for every class over "
    "a constructor-configuration grid and random typed trees"
)
LEVEL_TEXT = (
    "Theorems (all sizes, all vectors, trees of any depth, field with involution = R or C): every operator derived by "
    "+,-,scalar *,/,@,.T,.H,.conj(),gram_op, vertical/diagonal stacks, replication along any axes satisfies "
    "<Ax,y>=<x,A^H y> if its leaves do (also in Re<.,.> with real scalars); .H is the conjugate transpose, .T the plain "
    "transpose, .conj() the entrywise conjugate, real => T = H; MatrixOperator, CircularConvolve (incl. batch-axis sum), "
    "scatter-add/gather (all index arrays) leaf adjoints; X-ray back-projectors as coded since e359064 (fill-0 gather) are "
    "the adjoints of the projectors for every geometry, 2-D and 3-D incl. the slab loops (full statement; the clamped "
    "gather of the pinned tree is kept as a proved negation); linear_adjoint branches given the jax.linear_transpose "
    "contract; identity on basis pairs => identity for all vectors.  C01_adj_total: for every typed derivation tree "
    "accepted by scico's construction tests without a sum of operands on different dtypes (recorded finding, shown "
    "necessary), over leaves that return their declared types, adj passes every dtype/shape guard for the conforming y "
    "and returns the declared input type; C01_typed_tree links accepted typed trees to the value induction; "
    "CircularConvolve._adj as coded (ifftn(conj(h_dft) fftn y)) is the adjoint for every h_dft; XRayTransform3D slab loops "
    "= whole-volume scatter/gather.  Tie: dense matrices of eval/adj of the real operators on basis vectors for every "
    "class x configuration, views, y @ A, derived forms, random derivation trees vs the Lean model's derived adjoint; "
    "declared metadata, acceptance, result types and error kinds of D(x), D.adj(y) at every node of random typed trees."
)
LEVEL_NOTE = (
    "Classes without a closed-form Lean model (Abel, optics, projected gradients, Convolve, DFT, Pad/Crop/..., Jacobian) "
    "are covered per sampled/enumerated configuration by the finite basis-pair check + C01_basis (+ linearity, C06), "
    "not for all configurations.  jax.linear_transpose / fft / vmap are contracts.  Floating point rounding is not "
    "modelled (tolerance 1e-9 for 64-bit, 2e-4 for 32-bit results)."
)
PROP_MODULES = ["Scico.Props.C01"]
EXTRA_TARGETS = ["Drv.Adjoint"]
DRIVER = "Adjoint"
FILES = [
    "scico/linop/_linop.py",
    "scico/operator/_operator.py",
    "scico/_autograd.py",
    "scico/linop/_stack.py",
    "scico/operator/_stack.py",
    "scico/linop/_circconv.py",
    "scico/linop/_convolve.py",
    "scico/linop/_diag.py",
    "scico/linop/_matrix.py",
    "scico/linop/_func.py",
    "scico/linop/_diff.py",
    "scico/linop/_dft.py",
    "scico/linop/_grad.py",
    "scico/linop/abel.py",
    "scico/linop/optics.py",
    "scico/linop/xray/_xray.py",
    "scico/linop/_util.py",
    "scico/functional/_tvnorm.py",
]
RULE = (
    "grid: every configuration of adjoint_grid.grid() (thorough) or a seeded sample containing every class (quick); a "
    "case = one operator object, evaluated on ALL real basis vectors of its input and output space; non-trivial when "
    "both spaces are non-empty and the matrix is not zero; distinct by configuration dict.  views/derived forms: "
    "operator x form; trees: random derivation trees (depth <= 3 quick / 5 thorough) over measured leaves, distinct by "
    "(tree, leaves); malformed stream: trees with a size mismatch at one node (both sides must reject); typed trees: one "
    "case per internal node of a random typed tree (mixed dtypes, weak/strong scalars, stacks, replication; 8% of the "
    "binary nodes with a same-size-other-shape or dtype-mismatched partner: both sides must reject), distinct by "
    "(subtree, its leaves); spectral: CircularConvolve configurations (plain / integer / fractional centre / h_is_dft)."
)
ASSUMPTIONS = [
    "linearity of eval/adj of every operator (property C06) - lets the finite basis-pair check decide the identity for all vectors (theorem C01_basis)",
    "jax.linear_transpose returns the transposed map (contract JaxTranspose of theorem C01_linear_adjoint_*; exercised by every Generic configuration)",
    "jnp.fft.fftn/ifftn compute the DFT (CircularConvolve is modelled in the signal domain and compared numerically)",
    "jax scatter `.at[].add` drops and gather `.at[].get(mode='fill')` zero-fills out-of-range indices (modelled; compared on every X-ray configuration)",
    "row-major flattening identifies N-d arrays and BlockArrays with vectors",
    "ifftn is a real multiple of the conjugate transpose of fftn (hypothesis of C01_circ_dft_domain; the 1-D DFT pair is proved to satisfy it, the tie compares Op.spectral built from the object's own h_dft)",
    "jax.dtypes.result_type under x64 for float/complex dtypes and weak Python scalars (modelled as DT.promote / SK.res; compared at every typed-tree node)",
]

MAX_SLICE_LEN = 10  # XRayTransform3D._project / _back_project
KNOWN_ABEL = "abel-adj-odd-width"
KNOWN_JAC = "jacobian-include-eval"


# ----------------------------------------------------------------------------------------------------------
# helpers


def _js(o):
    return json.loads(json.dumps(o, default=str))


def generate(ctx):
    """translator: override table of every LinearOperator class, closures / declared metadata of the derived constructors,
    branch structure of linear_adjoint and digests of the methods the model follows line by line - read from the working
    tree with `ast`, against the pinned tables of Scico/Proofs/AdjointTables.lean (four `decide` obligations)"""
    adjoint_translate.generate()
    return [("Scico.Generated.AdjointTables",
             "which classes hand-write their adjoint / views / arithmetic, eval_fn / adj_fn / metadata of the derived constructors of "
             "_linop.py, the three branches of scico.linear_adjoint, and the statements of the guards, stack adjoints, class overrides, "
             "CircularConvolve and X-ray methods equal the tables the model was written against")]


def build_and_check(cfg, rng, builder=None):
    """returns (A|None, res|None, construct_error|None)"""
    with warnings.catch_warnings():
        warnings.simplefilter("ignore")
        try:
            A = (builder or G.build)(cfg)
        except Exception as e:  # noqa: BLE001
            return None, None, f"{common.err_kind(e)}: {str(e)[:160]}"
        return A, D.check_operator(A, rng), None


def make_oracle(builder=None):
    """property oracle: the adjoint identity on random vectors (and on the failing basis pair) on the implementation"""

    def oracle(case):
        cfg = case.get("cfg", case)
        with warnings.catch_warnings():
            warnings.simplefilter("ignore")
            try:
                A = (builder or G.build)(cfg) if "tree" not in case else _realize_case(case)
            except Exception as e:  # noqa: BLE001
                return {"construction_raised": repr(e)[:300]}
            rng = np.random.Generator(np.random.PCG64(12345))
            bad = D.identity_on_random(A, rng, k=6)
            if bad is not None:
                bad["operator"] = type(A).__name__
                bad["input_shape"] = str(A.input_shape)
                bad["output_shape"] = str(A.output_shape)
                return bad
            # basis pairs (exhaustive for this configuration)
            r = D.check_operator(A, rng)
            for tag, det in r["fails"]:
                if tag in ("adjoint", "adj-accepts", "adj-accepts-out", "out-size", "adj-faithful", "eval-raises"):
                    return {"obligation": tag, "detail": det, "operator": type(A).__name__, "meta": _js(r["meta"])}
        return None

    return oracle


def _realize_case(case):
    ops = [G.build(c) for c in case["leaves"]]
    return T.realize(case["tree"], ops)


def pq_of(R, rows, c_rows, cols, c_cols):
    """(P,Q) with f(x) = P x + Q conj(x) from the realified matrix (see DESIGN of the driver op `derive`)"""
    m, n = rows, cols
    R11 = R[:m, :n]
    R21 = R[m:, :n] if c_rows else np.zeros((m, n))
    if c_cols:
        R12 = R[:m, n:]
        R22 = R[m:, n:] if c_rows else np.zeros((m, n))
    else:  # complex-linear extension of a map given on real vectors
        R12, R22 = -R21, R11
    P = (R11 + R22) / 2 + 1j * (R21 - R12) / 2
    Q = (R11 - R22) / 2 + 1j * (R21 + R12) / 2
    return P, Q


def leaf_wire_pq(res, cin, cout):
    n = res["RA"].shape[1] // (2 if cin else 1)
    m = res["RB"].shape[1] // (2 if cout else 1)
    eP, eQ = pq_of(res["RA"], m, cout, n, cin)
    aP, aQ = pq_of(res["RB"], n, cin, m, cout)
    w = {"t": "pq", "nin": n, "nout": m}
    for name, Mx in (("eP", eP), ("eQ", eQ), ("aP", aP), ("aQ", aQ)):
        w[name + "r"] = fs2b(Mx.real)
        w[name + "i"] = fs2b(Mx.imag)
    return w


def model_realmat(part, rows, cols, c_rows, c_cols):
    """realified matrix of a model closure from the driver's probe reply; also returns the largest entry that the
    declared realification drops (imaginary parts in a real space)"""

    def colmat(cl):
        if not cl:
            return np.zeros((rows, 0), dtype=np.complex128)
        return np.array([[complex(b2f(z[0]), b2f(z[1])) for z in col] for col in cl], dtype=np.complex128).T.reshape(rows, -1)

    one = colmat(part["one"])
    blocks = [one]
    if c_cols:
        blocks.append(colmat(part["i"]))
    Z = np.concatenate(blocks, axis=1) if blocks else one
    dropped = 0.0
    if c_rows:
        R = np.concatenate([Z.real, Z.imag], axis=0)
    else:
        R = Z.real
        dropped = float(np.max(np.abs(Z.imag), initial=0.0))
    return R, dropped


def compare_model(model, leaves_wire, tree_wire, res, cin, cout, rep=None):
    """returns None when the model's derived eval/adj matrices equal the real ones, else a description"""
    try:
        if rep is None:
            rep = model.call("derive", leaves=leaves_wire, tree=tree_wire)
    except ModelErr as e:
        return {"model_err": e.kind}
    n = res["RA"].shape[1] // (2 if cin else 1)
    m = res["RB"].shape[1] // (2 if cout else 1)
    if rep["nin"] != n or rep["nout"] != m:
        return {"model_dims": [rep["nin"], rep["nout"]], "impl_dims": [n, m]}
    RE, dE = model_realmat(rep["eval"], m, n, cout, cin)
    RJ, dJ = model_realmat(rep["adj"], n, m, cin, cout)
    tol = max(res.get("tol", D.TOL64), D.TOL64)
    out = {}
    if not D.mat_close(RE, res["RA"], tol):
        out["eval_max_diff"] = float(np.max(np.abs(RE - res["RA"])))
    if not D.mat_close(RJ, res["RB"], tol):
        out["adj_max_diff"] = float(np.max(np.abs(RJ - res["RB"])))
    scale = 1 + float(np.max(np.abs(res["RA"]), initial=0.0))
    if dE > tol * scale * max(m, n) and not cout:
        out["model_eval_imag_in_real_space"] = dE
    if dJ > tol * scale * max(m, n) and not cin and not res["meta"].get("adj_returns_complex_for_real_space"):
        out["model_adj_imag_in_real_space"] = dJ
    return out or None


# ----------------------------------------------------------------------------------------------------------
# X-ray projectors: model trees from the implementation's own index/weight computation


def xray2_model(A):
    """(leaves, tree) of XRayTransform2D as the code assembles it: per view, two scatter terms"""
    from scico.linop.xray import XRayTransform2D

    inds, weights = XRayTransform2D._calc_weights(A.x0, A.dx, A.nx, A.angles, A.y0)
    inds = np.asarray(inds)
    weights = np.asarray(weights, dtype=np.float64)
    na = inds.shape[0]
    npix = int(np.prod(A.nx))
    ny = int(A.ny)
    leaves, ops = [], []
    off_detector = False
    for a in range(na):
        I = [int(v) for v in inds[a].ravel()]
        w = weights[a].ravel()
        for off, ww in ((0, w), (1, 1.0 - w)):
            leaves.append({"t": "scat", "np": npix, "ny": ny, "I": I, "off": off, "w": fs2b(ww), "exact": True})
            for p in range(npix):
                idx = I[p] + off  # negative values are redirected per bin (repo e359064)
                if not (0 <= idx < ny) and ww[p] != 0.0:
                    off_detector = True
        ops.append({"k": "add", "a": {"k": "leaf", "i": 2 * a}, "b": {"k": "leaf", "i": 2 * a + 1}})
    tree = {"k": "vstack", "ops": ops, "nin": npix}
    return leaves, tree, off_detector


def xray3_model(A):
    from scico.linop.xray import XRayTransform3D

    ish = tuple(int(s) for s in A.input_shape)
    det = tuple(int(s) for s in A.det_shape)
    nvox = int(np.prod(ish))
    leaves, ops = [], []
    off_detector = False
    for v, matrix in enumerate(np.asarray(A.matrices)):
        ul, ulw, urw, llw, lrw = XRayTransform3D._calc_weights(ish, matrix, det, 0)
        ul = np.asarray(ul)
        a = [int(t) for t in ul[0].ravel()]
        b = [int(t) for t in ul[1].ravel()]
        base = len(leaves)
        for (da, db), w in (((0, 0), ulw), ((1, 0), urw), ((0, 1), llw), ((1, 1), lrw)):
            w = np.asarray(w, dtype=np.float64).ravel()
            leaves.append({"t": "scat2", "np": nvox, "d0": det[0], "d1": det[1], "a": a, "b": b, "da": da, "db": db, "w": fs2b(w), "exact": True})
            if ish[0] > MAX_SLICE_LEN:
                # the slab loops of the code (Model: slabScatter / slabGatherFill; theorems C01_xray3d_slab_loop, C01_xray3d_slab): the indices
                # of slab k computed with slice_offset = 10 k are the whole-volume ones at flat positions k*B + p
                leaves[-1]["B"] = MAX_SLICE_LEN * ish[1] * ish[2]
                leaves[-1]["nslab"] = -(-ish[0] // MAX_SLICE_LEN)
            for p in range(nvox):
                if w[p] != 0.0 and not (0 <= a[p] + da < det[0] and 0 <= b[p] + db < det[1]):
                    off_detector = True
        t = {"k": "leaf", "i": base}
        for k in range(1, 4):
            t = {"k": "add", "a": t, "b": {"k": "leaf", "i": base + k}}
        ops.append(t)
    tree = {"k": "vstack", "ops": ops, "nin": nvox}
    return leaves, tree, off_detector


def xray_tie(ctx, model, cfg, A, res):
    """model <-> code for an X-ray configuration: the scatter(drop) / gather(fill 0) tree assembled from the
    implementation's own `_calc_weights` output must reproduce `project` and `back_project` (since e359064 the coded
    back-projector is the fill-0 gather: theorems C01_xray_backproject, C01_xray_projector, C01_xray3d_slab - the
    adjoint obligation must hold for EVERY geometry, on or off the detector)"""
    is2 = cfg["cls"] == "XRayTransform2D"
    leaves, tree, off = (xray2_model if is2 else xray3_model)(A)
    if res.get("RA") is None:
        return None
    diff = compare_model(model, leaves, tree, res, False, False)
    ctx.count("xray-model-tie")
    ctx.count(f"xray footprint-leaves-detector={off}")
    if diff is not None:
        ctx.disagree("adjoint.xray_model", {"cfg": cfg}, {"impl": "dense matrices of project/back_project"}, diff, oracle=make_oracle(),
                     note="scatter(drop)/gather(fill 0) model of the projector differs from the implementation")
        return None
    # the model itself must be an adjoint pair (instance of the theorems; a failure here is a harness/driver bug)
    rep = model.call("derive", leaves=leaves, tree=tree)
    n, m = rep["nin"], rep["nout"]
    RE, _ = model_realmat(rep["eval"], m, n, False, False)
    RJ, _ = model_realmat(rep["adj"], n, m, False, False)
    if not D.mat_close(RJ, RE.T, 1e-9):
        raise common.Infra("model: scatter/gatherFill0 is not an adjoint pair - contradicts theorem C01_xray_projector")
    return None


# ----------------------------------------------------------------------------------------------------------
# streams


KNOWN_MIXED = "mixed-operand-dtypes"
DTYPE_TAGS = {"adj-accepts", "adj-accepts-out", "eval-dtype", "eval-clinear", "adj-clinear", "eval-faithful", "adj-faithful"}


def stack_tie(ctx, model, cfg, A, res, rng):
    """VerticalStack / DiagonalStack / DiagonalReplicated configurations of the grid: the model's construction applied
    to the measured closures of the real operand(s) must reproduce the real stacked operator (same comparison as for
    a tree node)"""
    with warnings.catch_warnings():
        warnings.simplefilter("ignore")
        if cfg["cls"] == "DiagonalReplicated":
            ch = [G.build(cfg["op"])]
            ish, osh = D.norm_shape(ch[0].input_shape), D.norm_shape(ch[0].output_shape)
            ia = cfg.get("ia", 0)
            ia = ia if ia >= 0 else len(ish) + 1 + ia
            oa = cfg.get("oa")
            oa = ia if oa is None else oa
            node = {"k": "drep", "rep": int(cfg["k"]), "qi": int(np.prod(ish[ia:], dtype=np.int64)), "qo": int(np.prod(osh[oa:], dtype=np.int64)),
                    "a": {"k": "leaf", "i": 0}}
        else:
            ch = [G.build(c) for c in cfg["ops"]]
            if cfg["cls"] == "VerticalStack":
                node = {"k": "vstack", "ops": [{"k": "leaf", "i": i} for i in range(len(ch))], "nin": D.flat_size(D.norm_shape(ch[0].input_shape))}
            else:
                node = {"k": "dstack", "ops": [{"k": "leaf", "i": i} for i in range(len(ch))]}
        rs = [D.check_operator(o, None) for o in ch]
    if any(r.get("RA") is None or not r["ok"] for r in rs):
        return
    wl = [leaf_wire_pq(r, D.is_complex(o.input_dtype), D.is_complex(o.output_dtype)) for o, r in zip(ch, rs)]
    res = dict(res, tol=max([res.get("tol", D.TOL64)] + [r.get("tol", D.TOL64) for r in rs]))  # least precise operand
    diff = compare_model(model, wl, T.wire_tree(node), res, D.is_complex(A.input_dtype), D.is_complex(A.output_dtype))
    ctx.count("stack-model-tie:" + cfg["cls"])
    if diff is not None:
        ctx.disagree("adjoint.stack_model", {"cfg": cfg}, {"impl": "dense matrices of the stacked operator"}, diff, oracle=make_oracle(),
                     note="the model's stack construction applied to the measured operand closures differs from the implementation")


def derived_tie(ctx, model, cfg, A, res):
    """derived forms of the grid: the model's construction applied to the measured closures of the real operands must
    reproduce the real derived operator (covers the class-specific shortcuts: Diagonal@Diagonal, MatrixOperator.T, ...)"""
    form = cfg["form"]
    with warnings.catch_warnings():
        warnings.simplefilter("ignore")
        ch = [G.build(cfg["a"])] + ([G.build(cfg["b"])] if "b" in cfg else [])
        rs = [D.check_operator(o, None) for o in ch]
    if any(r.get("RA") is None or not r["ok"] for r in rs):
        return
    if any(D.is_complex(o.input_dtype) != D.is_complex(A.input_dtype) and form not in ("T", "H", "comp") for o in ch):
        return  # operands on spaces of different kind: not expressible over one scalar field (known mixed-operand-dtypes)
    leaf = lambda i: {"k": "leaf", "i": i}
    c = cfg.get("c")
    c2 = [float(c[0]), float(c[1])] if isinstance(c, (list, tuple)) else ([float(c), 0.0] if c is not None else None)
    node = {
        "T": lambda: {"k": "T", "cplx": bool(D.is_complex(ch[0].input_dtype)), "a": leaf(0)},
        "H": lambda: {"k": "H", "a": leaf(0)},
        "conj": lambda: {"k": "conj", "a": leaf(0)},
        "gram": lambda: {"k": "gram", "a": leaf(0)},
        "neg": lambda: {"k": "neg", "a": leaf(0)},
        "smul": lambda: {"k": "smul", "c": c2, "a": leaf(0)},
        "rsmul": lambda: {"k": "smul", "c": c2, "a": leaf(0)},
        "sdiv": lambda: {"k": "sdiv", "c": c2, "a": leaf(0)},
        "add": lambda: {"k": "add", "a": leaf(0), "b": leaf(1)},
        "sub": lambda: {"k": "sub", "a": leaf(0), "b": leaf(1)},
        "comp": lambda: {"k": "comp", "a": leaf(0), "b": leaf(1)},
    }[form]()
    kinds = {(D.is_complex(o.input_dtype), D.is_complex(o.output_dtype)) for o in ch + [A]}
    if any(a != b for a, b in kinds):
        ctx.count("derived-model-tie:skipped real<->complex operand")
        return  # real->complex operands: only the basis-pair obligations (Re<.,.>) are evaluated
    wl = [leaf_wire_pq(r, D.is_complex(o.input_dtype), D.is_complex(o.output_dtype)) for o, r in zip(ch, rs)]
    # operands of mixed precision (complex128 - complex64 of the closed-form classes): the measured 32-bit operand limits
    # the precision of the comparison
    res = dict(res, tol=max([res.get("tol", D.TOL64)] + [r.get("tol", D.TOL64) for r in rs]))
    diff = compare_model(model, wl, T.wire_tree(node), res, D.is_complex(A.input_dtype), D.is_complex(A.output_dtype))
    ctx.count("derived-model-tie:" + form)
    if diff is not None:
        ctx.disagree("adjoint.derived_model", {"cfg": cfg}, {"impl": "dense matrices of the derived operator"}, diff, oracle=make_oracle(),
                     note=f"form {form}: the model applied to the measured operand closures differs from the implementation")


def jacobian_tie(ctx, model, cfg, A, res):
    """linop.jacobian: the model `Op.jacobian` (eval = push-forward, adj = conjFun of the RAW pull-back of jax.vjp, theorem
    C01_jacobian_adj) built from the measured jax.jvp / jax.vjp maps of the same Operator must reproduce the operator"""
    import jax

    with warnings.catch_warnings():
        warnings.simplefilter("ignore")
        F, u = G.jac_parts(cfg)
        n, m = int(cfg["n"]), int(cfg["m"])
        dt = np.dtype(F.input_dtype)
        cx = D.is_complex(dt)
        Dj = D.dense(lambda v: jax.jvp(F, (u,), (v,))[1], (n,), dt)
        pull = jax.vjp(F, u)[1]
        Dg = D.dense(lambda ct: pull(ct)[0], (m,), dt)
    eP, eQ = pq_of(Dj.R, m, cx, n, cx)
    gP, gQ = pq_of(Dg.R, n, cx, m, cx)
    leaf = {"t": "jac", "m": m, "n": n}
    for name, Mx in (("eP", eP), ("eQ", eQ), ("aP", gP), ("aQ", gQ)):
        leaf[name + "r"] = fs2b(Mx.real)
        leaf[name + "i"] = fs2b(Mx.imag)
    diff = compare_model(model, [leaf], {"k": "leaf", "i": 0}, res, cx, cx)
    ctx.count("jacobian-tie")
    if diff is not None:
        ctx.disagree("adjoint.jacobian", {"cfg": cfg}, {"impl": "dense matrices of the Jacobian operator"}, diff, oracle=make_oracle(),
                     note="Op.jacobian on the measured jvp / raw vjp differs from linop.jacobian")


INDEX_MAP_CLASSES = ("Slice", "Crop", "Pad", "Transpose", "Reshape", "Sum")


def index_map_tie(ctx, model, cfg, A, res):
    """Slice / Crop / zero Pad / Transpose / Reshape read the input along an index map, Sum adds along one: the map is read
    off ONE evaluation on the probe 1..n (Sum: of the adjoint on 1..m) and the model `Op.imap` / `Op.scatFill .. 1`
    (theorems C01_index_map, C01_xray_backproject) must reproduce eval AND adj on all basis vectors"""
    in_shape, out_shape = D.norm_shape(A.input_shape), D.norm_shape(A.output_shape)
    n, m = D.flat_size(in_shape), D.flat_size(out_shape)
    with warnings.catch_warnings():
        warnings.simplefilter("ignore")
        if cfg["cls"] == "Sum":
            v = D.flatten(A.adj(D.unflatten(np.arange(1, m + 1, dtype=np.float64), out_shape, A.output_dtype)))
            kind, bound = "scatter", m
        else:
            v = D.flatten(A(D.unflatten(np.arange(1, n + 1, dtype=np.float64), in_shape, A.input_dtype)))
            kind, bound = "gather", n
    v = np.real(v)
    if not np.all(v == np.round(v)) or np.any(v < 0) or np.any(v > bound):
        ctx.disagree("adjoint.index_map", {"cfg": cfg}, {"probe": D._js(v)}, "an index map", oracle=make_oracle(),
                     note="the operator does not act as an index map on the probe vector")
        return
    phi = [int(t) - 1 if t >= 1 else bound for t in v]
    leaf = {"t": "imap", "n": n, "m": m, "phi": phi, "kind": kind}
    cin, cout = D.is_complex(A.input_dtype), D.is_complex(A.output_dtype)
    diff = compare_model(model, [leaf], {"k": "leaf", "i": 0}, res, cin, cout)
    ctx.count("index-map-tie:" + cfg["cls"])
    if diff is not None:
        ctx.disagree("adjoint.index_map", {"cfg": cfg}, {"impl": "dense matrices of eval / adj"}, diff, oracle=make_oracle(),
                     note="index-map model (gather / scatter along phi) differs from the implementation")


def classify_known(ctx, model, cfg, A, res, view=None):
    """slug of the known finding a failed obligation is an instance of (structural predicate on the configuration
    AND on the kind of failure), or None"""
    tags = {t for t, _ in res["fails"]}
    if cfg["cls"] == "AbelTransform" and tags == {"adjoint"} and int(G._t(cfg["ishape"])[1]) % 2 == 1:
        return KNOWN_ABEL
    if cfg["cls"] == "Derived" and cfg["form"] in ("add", "sub") and view is None:
        with warnings.catch_warnings():
            warnings.simplefilter("ignore")
            a = G.build(cfg["a"])
            b = G.build(cfg["b"])
        mixed = np.dtype(a.input_dtype) != np.dtype(b.input_dtype) or np.dtype(a.output_dtype) != np.dtype(b.output_dtype)
        # the sum of operators on different spaces: its adj raises the dtype error of one operand (or, where the
        # guard happens to pass, mixes real and complex parts)
        if mixed and tags <= DTYPE_TAGS | {"adjoint"} and tags & DTYPE_TAGS:
            return KNOWN_MIXED
    if cfg["cls"] == "Derived" and cfg["form"] == "comp" and view is None and tags <= DTYPE_TAGS:
        with warnings.catch_warnings():
            warnings.simplefilter("ignore")
            a = G.build(cfg["a"])
            b = G.build(cfg["b"])
        # MatrixOperator(A) @ B builds the composite without the dtype check of ComposedLinearOperator
        if type(a).__name__ == "MatrixOperator" and np.dtype(a.input_dtype) != np.dtype(b.output_dtype):
            return KNOWN_MIXED
        # A @ B through a REAL intermediate space with complex outer spaces (B = (real->complex operator).H): the
        # composite is declared complex->complex but is only real-linear; the identity holds in Re<.,.> (no `adjoint`
        # tag: theorem C01_derived_re), the complex identity cannot hold for any adjoint
        if (tags <= {"eval-clinear", "adj-clinear"} and not D.is_complex(a.input_dtype) and not D.is_complex(b.output_dtype)
                and D.is_complex(a.output_dtype) and D.is_complex(b.input_dtype)):
            return KNOWN_MIXED
    return None


def run_config(ctx, model, cfg, rng, views=False, stream="grid"):
    A, res, cerr = build_and_check(cfg, rng)
    cls = cfg["cls"] if cfg["cls"] != "Derived" else "Derived:" + cfg["form"]
    if cerr is not None:
        ctx.case({"stream": stream, "cfg": cfg, "construct": cerr}, None)
        ctx.count(f"{stream}:rejected-at-construction")
        ctx.count(f"reject:{cerr.split(':')[0]}")
        return None
    meta = res["meta"]
    M = res["M"]
    nontrivial = None
    if M is not None and not meta.get("empty_space") and M.size and float(np.max(np.abs(M))) > 0:
        nontrivial = G.key_of(cfg)
    ctx.case({"stream": stream, "cls": cls, "in": str(meta["input_shape"]), "out": str(meta["output_shape"]),
              "dtypes": [meta["input_dtype"], meta["output_dtype"]], "ok": res["ok"]}, nontrivial, sample_every=97)
    ctx.count(f"class:{cls}")
    ctx.count(f"dtype:{meta['input_dtype']}->{meta['output_dtype']}")
    ctx.count(f"size:{D.flat_size(meta['input_shape'])}x{D.flat_size(meta['output_shape'])}")
    if is_nested_any(meta):
        ctx.count("block-array space")
    known = None
    if cfg["cls"] in ("XRayTransform2D", "XRayTransform3D") and res.get("RA") is not None:
        known = xray_tie(ctx, model, cfg, A, res)
    if cfg["cls"] in ("VerticalStack", "DiagonalStack", "DiagonalReplicated") and res.get("RA") is not None and res["ok"]:
        stack_tie(ctx, model, cfg, A, res, rng)
    if cfg["cls"] == "Derived" and res.get("RA") is not None and res["ok"]:
        derived_tie(ctx, model, cfg, A, res)
    if cfg["cls"] in INDEX_MAP_CLASSES and res.get("RA") is not None and res["ok"] and not meta.get("empty_space"):
        index_map_tie(ctx, model, cfg, A, res)
    if cfg["cls"] == "Jacobian" and res.get("RA") is not None and res["ok"]:
        jacobian_tie(ctx, model, cfg, A, res)
    if not res["ok"]:
        known = known or classify_known(ctx, model, cfg, A, res)
        ctx.count("obligation-failed:" + "+".join(sorted({t for t, _ in res["fails"]})))
        ctx.disagree("adjoint.basis_pairs", {"cfg": cfg}, {"fails": _js(res["fails"]), "meta": _js(meta)},
                     "matrix(adj) = matrix(eval)^H; adj accepts conforming y", oracle=make_oracle(), known_id=known)
        return res
    if M is not None and not meta.get("empty_space"):
        check_rmatmul(ctx, cfg, A, res, rng)
    if views and M is not None and not meta.get("empty_space"):
        check_views(ctx, cfg, A, res, rng)
    return res


def is_nested_any(meta):
    return D.is_nested(meta["input_shape"]) or D.is_nested(meta["output_shape"])


def check_views(ctx, cfg, A, res, rng):
    """A.T, A.H, A.conj(), A.gram_op: matrices against the specification built from M, and each view is again an
    adjoint pair"""
    M = res["M"]
    cin = D.is_complex(A.input_dtype)
    cout = D.is_complex(A.output_dtype)
    clinear = cin == cout or (cin and cout)
    tol = res.get("tol", D.TOL64)
    specs = {"H": M.conj().T, "T": M.T, "conj": M.conj(), "gram": M.conj().T @ M}
    for name in ("T", "H", "conj", "gram"):
        try:
            with warnings.catch_warnings():
                warnings.simplefilter("ignore")
                B = {"T": lambda: A.T, "H": lambda: A.H, "conj": lambda: A.conj(), "gram": lambda: A.gram_op}[name]()
                rB = D.check_operator(B, rng)
        except Exception as e:  # noqa: BLE001
            ctx.disagree(f"adjoint.view_{name}", {"cfg": cfg, "view": name}, {"raised": repr(e)[:200]}, "view exists", oracle=view_oracle(name))
            continue
        ctx.case({"stream": "view", "view": name, "cls": cfg["cls"]}, ("view", name, G.key_of(cfg)))
        ctx.count(f"view:{name}")
        fails = list(rB["fails"])
        if clinear and rB["M"] is not None and not (cin is False and cout is True):
            if rB["M"].shape != specs[name].shape:
                fails.append((f"{name}-matrix", f"shape {rB['M'].shape} vs {specs[name].shape}"))
            elif not D.mat_close(rB["M"], specs[name], max(tol, rB.get("tol", tol)) * (M.shape[0] if name == "gram" else 1)):
                fails.append((f"{name}-matrix", f"max diff {float(np.max(np.abs(rB['M'] - specs[name]))):.3e}"))
        if fails:
            ctx.count("view-failed:" + name)
            known = classify_known(ctx, None, cfg, A, {"fails": fails}, view=name)
            ctx.disagree(f"adjoint.view_{name}", {"cfg": cfg, "view": name}, {"fails": _js(fails), "meta": _js(rB["meta"])},
                         {"T": "M^T", "H": "M^H", "conj": "conj(M)", "gram": "M^H M"}[name], oracle=view_oracle(name), known_id=known)


def check_rmatmul(ctx, cfg, A, res, rng):
    """`y @ A` (LinearOperator.__rmatmul__: `self.adj(y.conj().T).conj().T`) is the vector-matrix product y^T M = M^T y
    (same closure as `A.T`: theorem C01_T_unconj); only for vector spaces (`.T` of an N-d array reverses its axes)"""
    M = res["M"]
    in_shape, out_shape = D.norm_shape(A.input_shape), D.norm_shape(A.output_shape)
    cin, cout = D.is_complex(A.input_dtype), D.is_complex(A.output_dtype)
    if D.is_nested(in_shape) or D.is_nested(out_shape) or len(in_shape) != 1 or len(out_shape) != 1 or cin != cout or M is None:
        return
    yv = D.random_vec(rng, out_shape, A.output_dtype)
    want = M.T @ yv
    case = {"cfg": cfg, "view": "rmatmul", "y": D._js(yv)}
    ctx.case({"stream": "view", "view": "rmatmul", "cls": cfg["cls"]}, ("view", "rmatmul", G.key_of(cfg)))
    ctx.count("view:rmatmul")
    try:
        with warnings.catch_warnings():
            warnings.simplefilter("ignore")
            got = D.flatten(D.unflatten(yv, out_shape, A.output_dtype) @ A)
    except Exception as e:  # noqa: BLE001
        ctx.disagree("adjoint.rmatmul", case, {"raised": repr(e)[:200]}, "y @ A = M^T y", oracle=rmatmul_oracle)
        return
    if got.shape != want.shape or not D.mat_close(got.reshape(1, -1), want.reshape(1, -1), res.get("tol", D.TOL64)):
        ctx.disagree("adjoint.rmatmul", case, {"y@A": D._js(got)}, {"M^T y": D._js(want)}, oracle=rmatmul_oracle)


def rmatmul_oracle(case):
    """<A x, conj y> = (y @ A) . x  on the implementation (the defining property of the vector-matrix product)"""
    cfg = case["cfg"]
    with warnings.catch_warnings():
        warnings.simplefilter("ignore")
        A = G.build(cfg)
        in_shape, out_shape = D.norm_shape(A.input_shape), D.norm_shape(A.output_shape)
        rng = np.random.Generator(np.random.PCG64(4242))
        for _ in range(4):
            yv = D.random_vec(rng, out_shape, A.output_dtype)
            xv = D.random_vec(rng, in_shape, A.input_dtype)
            try:
                yA = D.flatten(D.unflatten(yv, out_shape, A.output_dtype) @ A)
            except Exception as e:  # noqa: BLE001
                return {"y": D._js(yv), "y@A raised": repr(e)[:200]}
            Ax = D.flatten(A(D.unflatten(xv, in_shape, A.input_dtype)))
            lhs, rhs = np.sum(yv * Ax), np.sum(yA * xv)
            if abs(lhs - rhs) > D.tol_for(A.input_dtype, A.output_dtype) * max(xv.size, yv.size) * (1 + abs(lhs) + abs(rhs)):
                return {"x": D._js(xv), "y": D._js(yv), "y.(A x)": D._jc(lhs), "(y@A).x": D._jc(rhs)}
    return None


def view_oracle(name):
    def oracle(case):
        cfg = case["cfg"]
        with warnings.catch_warnings():
            warnings.simplefilter("ignore")
            A = G.build(cfg)
            B = {"T": lambda: A.T, "H": lambda: A.H, "conj": lambda: A.conj(), "gram": lambda: A.gram_op}[name]()
            rng = np.random.Generator(np.random.PCG64(999))
            bad = D.identity_on_random(B, rng, k=6)
            if bad is not None:
                bad["view"] = name
                return bad
            # the view's own specification on a random vector:  A.H(y) = A.adj(y),  A.T(y) = conj(A.adj(conj y)), ...
            in_shape, in_dt = D.norm_shape(B.input_shape), np.dtype(B.input_dtype)
            v = D.random_vec(rng, in_shape, in_dt)
            x = D.unflatten(v, in_shape, in_dt)
            got = D.flatten(B(x))
            if name == "H":
                want = D.flatten(A.adj(x))
            elif name == "T":
                want = np.conj(D.flatten(A.adj(D.unflatten(np.conj(v), in_shape, in_dt))))
            elif name == "conj":
                want = np.conj(D.flatten(A(D.unflatten(np.conj(v), in_shape, in_dt))))
            else:
                want = D.flatten(A.adj(A(x)))
            if got.shape != want.shape or not D.mat_close(got.reshape(1, -1), want.reshape(1, -1), D.tol_for(in_dt)):
                return {"view": name, "x": D._js(v), "view(x)": D._js(got), "specification": D._js(want)}
        return None

    return oracle


def sample_grid(ctx, cfgs, n):
    """seeded sample that contains every class at least twice"""
    idx = ctx.rng.permutation(len(cfgs))
    per, chosen = {}, []
    rest = []
    for i in idx:
        c = cfgs[int(i)]["cls"]
        if per.get(c, 0) < 2:
            per[c] = per.get(c, 0) + 1
            chosen.append(int(i))
        else:
            rest.append(int(i))
    chosen += rest[: max(0, n - len(chosen))]
    return [cfgs[i] for i in sorted(chosen)]


def correspond(ctx, model):
    common.setup_scico()
    rng = ctx.rng
    import time as _time

    _t = [_time.time()]
    walls = ctx.extra.setdefault("stream_wall_s", {})

    def _mark(name):
        walls[name] = round(_time.time() - _t[0], 1)
        _t[0] = _time.time()

    # 0. the pairing of the model is the one valid_adjoint uses -------------------------------------------------
    for _ in range(ctx.n(5, 20)):
        n = int(rng.integers(0, 6))
        u = common.dyadic(rng, (n,)) + 1j * common.dyadic(rng, (n,))
        w = common.dyadic(rng, (n,)) + 1j * common.dyadic(rng, (n,))
        z = model.call("ip", n=n, ur=fs2b(u.real), ui=fs2b(u.imag), wr=fs2b(w.real), wi=fs2b(w.imag))
        got = complex(b2f(z[0]), b2f(z[1]))
        want = complex(np.sum(np.conj(w) * u))
        ctx.case({"stream": "ip", "n": n}, None)
        if not (common.close(got.real, want.real, n) and common.close(got.imag, want.imag, n)):
            ctx.disagree("adjoint.ip", {"n": n, "u": D._js(u), "w": D._js(w)}, [want.real, want.imag], [got.real, got.imag])
    _mark("ip")
    # 1. corpus ---------------------------------------------------------------------------------------------------
    cdir = common.CORPUS_DIR / "C01"
    for f in sorted(cdir.glob("*.json")) if cdir.exists() else []:
        case = json.loads(f.read_text())
        ctx.count("corpus")
        if case.get("nox64"):
            continue  # run by the x64-off worker stream (nox64_stream collects them)
        if case.get("types"):
            run_types_case(ctx, model, case)
        elif "tree" in case:
            run_tree_case(ctx, model, case["tree"], case["leaves"], rng, stream="corpus")
        else:
            run_config(ctx, model, case["cfg"], rng, views=case.get("views", False), stream="corpus")
    _mark("corpus")
    # 2. class grid: finite obligations of C01_basis -----------------------------------------------------------------
    full = G.grid()
    if ctx.thorough:
        cfgs = full
        ctx.exhaustive = True
    else:
        cfgs = sample_grid(ctx, full, ctx.n(205, len(full)))
        ctx.exhaustive = False
    ctx.extra["grid"] = {"configurations_total": len(full), "configurations_run": len(cfgs)}
    nviews = ctx.n(36, 160)
    view_idx = set(int(i) for i in rng.permutation(len(cfgs))[:nviews])
    for i, cfg in enumerate(cfgs):
        run_config(ctx, model, cfg, rng, views=(i in view_idx), stream="grid")
    _mark("grid")
    # 3. derived forms of the grid (T, H, conj, c*A, A/c, A+B, A-B, A@B, gram) -------------------------------------------
    dfull = G.derived_grid()
    unary = [c for c in dfull if c["form"] not in ("add", "sub", "comp")]
    binary = [c for c in dfull if c["form"] in ("add", "sub", "comp")]
    pick_u = [unary[int(i)] for i in rng.permutation(len(unary))[: ctx.n(40, 500)]]
    pick_b = [binary[int(i)] for i in rng.permutation(len(binary))[: ctx.n(55, 300)]]
    ctx.extra["derived_grid"] = {"unary_total": len(unary), "unary_run": len(pick_u), "binary_total": len(binary), "binary_run": len(pick_b)}
    short = G.shortcut_grid()
    ctx.extra["derived_grid"]["shortcut_pairs_run"] = len(short)
    for cfg in pick_u + pick_b:
        run_config(ctx, model, cfg, rng, views=False, stream="derived")
    fam = lambda c: c["cls"] in ("Diagonal", "ScaledIdentity", "Identity")
    always = [c for c in short if c["form"] == "comp" and fam(c["a"]) and fam(c["b"])]  # cheap: run in both tiers
    rest = [c for c in short if not (c["form"] == "comp" and fam(c["a"]) and fam(c["b"]))]
    pick_s = rest if ctx.thorough else [rest[int(i)] for i in rng.permutation(len(rest))[:40]]
    for cfg in always + pick_s:
        run_config(ctx, model, cfg, rng, views=False, stream="shortcut")
    _mark("derived")
    # 4. leaf models ------------------------------------------------------------------------------------------------
    leaf_models(ctx, model, rng)
    spectral_models(ctx, model, rng)
    closed_models(ctx, model, rng)
    nested_views(ctx, model, rng)
    _mark("leaf-models")
    # 5. random derivation trees against the Lean model -------------------------------------------------------------
    ntrees = ctx.n(45, 90)
    maxd = ctx.n(3, 5)
    for t in range(ntrees):
        dt = [G.R64, G.C128, G.C128, G.R64, G.C64, G.R32][int(rng.integers(6))]
        depth = int(rng.integers(1, maxd + 1))
        tree, leaves, forms = T.random_tree(rng, depth, dt)
        run_tree_case(ctx, model, tree, leaves, rng)
    _mark("trees")
    # 6. malformed stream: one size mismatch in the tree -> both sides reject -------------------------------------
    for t in range(ctx.n(12, 60)):
        malformed_case(ctx, model, rng)
    _mark("malformed")
    # 7. dtype / shape layer: guards of adj, declared metadata, "adj never fails for a conforming input" -------------
    types_stream(ctx, model, rng)
    _mark("types")
    # 8. default precision mode (x64 disabled), subprocess ------------------------------------------------------------
    nox64_stream(ctx, model, rng)
    _mark("x64-off")


def run_tree_case(ctx, model, tree, leaves, rng, stream="tree"):
    """One derivation tree: every node of the REAL tree is measured (dense matrices of eval/adj on basis vectors,
    adjoint obligation), and for every internal node the model's construction, applied to the measured closures of
    the real operands, must reproduce the real node (per-node tie: exact depth-1 instance of `run`).  Small trees
    are additionally sent whole (end-to-end instance of `run` on the measured leaves)."""
    case = {"tree": tree, "leaves": leaves}
    with warnings.catch_warnings():
        warnings.simplefilter("ignore")
        try:
            ops = [G.build(c) for c in leaves]
        except Exception as e:  # noqa: BLE001
            raise common.Infra(f"tree leaf failed to build: {e!r}")
        leaf_res = [D.check_operator(op, None) for op in ops]
        if any(r.get("RA") is None or not r["ok"] for r in leaf_res):
            ctx.count("tree:leaf-not-adjoint-skipped")  # reported by the grid streams
            return
        nodes = []  # (tree node, op, res, [(child op, child res)])

        def ev(t):
            if t["k"] == "leaf":
                return ops[t["i"]], leaf_res[t["i"]]
            ch = [ev(c) for c in T.children_of(t)]
            if any(c is None for c in ch):
                return None
            if t["k"] == "T":
                t["cplx"] = bool(D.is_complex(ch[0][0].input_dtype))
            op = T.apply_node(t, [c[0] for c in ch])
            res = D.check_operator(op, rng)
            nodes.append((t, op, res, ch))
            if res.get("RA") is None or not res["ok"]:
                return None
            return op, res

        try:
            top = ev(tree)
        except Exception as e:  # noqa: BLE001
            ctx.count("tree:rejected-by-scico:" + common.err_kind(e))
            ctx.case({"stream": stream, "rejected": common.err_kind(e)}, None)
            ctx.disagree("adjoint.tree_construct", case, {"raised": repr(e)[:300]}, "wf", oracle=None,
                         note="scico rejected a tree that the generator built with conforming shapes")
            return
    depth = T.depth_of(tree)
    key = json.dumps([T.wire_tree(tree), [G.key_of(c) for c in leaves]], sort_keys=True)
    ctx.count(f"tree-depth:{depth}")
    for t, op, res, ch in nodes:
        cin, cout = D.is_complex(op.input_dtype), D.is_complex(op.output_dtype)
        ctx.case({"stream": stream, "node": t["k"], "in": str(op.input_shape), "out": str(op.output_shape),
                  "dtype": str(np.dtype(op.input_dtype)), "tree_depth": depth}, json.dumps([key, _path(tree, t)]), sample_every=53)
        ctx.count(f"tree-node:{t['k']}")
        ctx.count(f"tree-dtype:{np.dtype(op.input_dtype)}")
        if res.get("RA") is None or not res["ok"]:
            ctx.disagree("adjoint.tree_basis_pairs", {"tree": t, "leaves": leaves, "root": tree}, {"fails": _js(res["fails"]), "meta": _js(res["meta"])},
                         "matrix(adj) = matrix(eval)^H", oracle=make_oracle())
            return
        wl = [leaf_wire_pq(r, D.is_complex(o.input_dtype), D.is_complex(o.output_dtype)) for o, r in ch]
        diff = compare_model(model, wl, T.wire_tree(T.one_level(t, len(ch))), res, cin, cout)
        if diff is not None:
            ctx.disagree("adjoint.node_model", {"tree": t, "leaves": leaves, "root": tree}, {"impl": "dense matrices of the derived operator"}, diff,
                         oracle=make_oracle(), note=f"construction {t['k']}: the model applied to the measured operand closures differs from the implementation")
            return
    if top is None or not nodes:
        return
    # whole tree, when the nested closures are cheap enough for the interpreter
    Dop, res = top
    n, m = D.flat_size(D.norm_shape(Dop.input_shape)), D.flat_size(D.norm_shape(Dop.output_shape))
    if T.size_of(tree) <= 6 and depth <= 3 and max(n, m) <= 6:
        cin, cout = D.is_complex(Dop.input_dtype), D.is_complex(Dop.output_dtype)
        wl = [leaf_wire_pq(r, D.is_complex(o.input_dtype), D.is_complex(o.output_dtype)) for o, r in zip(ops, leaf_res)]
        diff = compare_model(model, wl, T.wire_tree(tree), res, cin, cout)
        ctx.count("tree:whole-tree-model-run")
        ctx.case({"stream": stream, "whole_tree_depth": depth, "leaves": len(leaves)}, key)
        if diff is not None:
            ctx.disagree("adjoint.tree_model", case, {"impl": "dense matrices of the derived operator"}, diff, oracle=make_oracle(),
                         note="run env tree on the measured leaves differs from the implementation's derived operator")


def _path(root, node, pre=()):
    if root is node:
        return list(pre)
    for i, c in enumerate(T.children_of(root)):
        r = _path(c, node, pre + (i,))
        if r is not None:
            return r
    return None


def _forms(tree):
    out = [tree["k"]]
    for k in ("a", "b"):
        if k in tree:
            out += _forms(tree[k])
    for t in tree.get("ops", []):
        out += _forms(t)
    return out


def malformed_case(ctx, model, rng):
    """A + B / A - B / A @ B / VerticalStack with operands whose sizes do not conform: scico must raise, the model's
    `wf` must be false"""
    dt = [G.R64, G.C128][int(rng.integers(2))]
    n1, n2 = int(rng.integers(1, 4)), int(rng.integers(4, 6))
    m = int(rng.integers(1, 4))
    kind = ["add", "sub", "comp", "vstack", "add-out"][int(rng.integers(5))]
    a = G._seeded({"cls": "MatrixOperator", "m": m, "n": n1, "dt": dt, "cols": 0})
    if kind in ("add", "sub"):
        b = G._seeded({"cls": "MatrixOperator", "m": m, "n": n2, "dt": dt, "cols": 0, "x": 1})
        tree = {"k": kind, "a": {"k": "leaf", "i": 0}, "b": {"k": "leaf", "i": 1}}
    elif kind == "add-out":
        b = G._seeded({"cls": "Generic", "m": m + 3, "n": n1, "idt": dt, "odt": dt})
        tree = {"k": "add", "a": {"k": "leaf", "i": 0}, "b": {"k": "leaf", "i": 1}}
    elif kind == "comp":
        b = G._seeded({"cls": "Generic", "m": n2, "n": 2, "idt": dt, "odt": dt})
        tree = {"k": "comp", "a": {"k": "leaf", "i": 0}, "b": {"k": "leaf", "i": 1}}
    else:
        b = G._seeded({"cls": "Generic", "m": m, "n": n2, "idt": dt, "odt": dt})
        tree = {"k": "vstack", "ops": [{"k": "leaf", "i": 0}, {"k": "leaf", "i": 1}], "nin": n1, "co": True}
    leaves = [a, b]
    with warnings.catch_warnings():
        warnings.simplefilter("ignore")
        ops = [G.build(c) for c in leaves]
        try:
            T.realize(tree, ops)
            impl = "ok"
        except Exception as e:  # noqa: BLE001
            impl = common.err_kind(e)
        wl = [leaf_wire_pq(D.check_operator(op, None), D.is_complex(op.input_dtype), D.is_complex(op.output_dtype)) for op in ops]
    try:
        model.call("derive", leaves=wl, tree=T.wire_tree(tree))
        mod = "ok"
    except ModelErr as e:
        mod = e.kind
    ctx.case({"stream": "malformed", "kind": kind}, None)
    ctx.count(f"malformed:{kind}:{impl}")
    if (impl == "ok") != (mod == "ok"):
        ctx.disagree("adjoint.reject", {"tree": tree, "leaves": leaves}, impl, mod)


def leaf_models(ctx, model, rng):
    """Op.mat vs MatrixOperator, Op.circBatch vs CircularConvolve"""
    import jax.numpy as jnp
    from scico import linop

    for t in range(ctx.n(8, 60)):
        dt = [G.R64, G.C128][int(rng.integers(2))]
        m, n = int(rng.integers(1, 5)), int(rng.integers(1, 5))
        M = G.dy(rng, (m, n), G.cplx(dt))
        A = linop.MatrixOperator(jnp.asarray(M, dtype=dt))
        res = D.check_operator(A, rng)
        cin = G.cplx(dt)
        leaf = {"t": "mat", "m": m, "n": n, "Mr": fs2b(M.real), "Mi": fs2b(M.imag if cin else np.zeros_like(M))}
        diff = compare_model(model, [leaf], {"k": "leaf", "i": 0}, res, cin, cin) if res.get("RA") is not None else {"impl": res["fails"]}
        ctx.case({"stream": "leaf-model", "leaf": "mat", "m": m, "n": n, "dtype": dt}, ("mat", m, n, dt, t))
        ctx.count("leaf-model:mat")
        if diff is not None:
            ctx.disagree("adjoint.leaf_mat", {"cfg": {"cls": "MatrixOperator", "M": D._js(M.ravel()), "m": m, "n": n, "dt": dt}}, _js(res["fails"]), diff)
    for t in range(ctx.n(10, 80)):
        hdt = [G.R64, G.C128][int(rng.integers(2))]
        idt = hdt if rng.random() < 0.7 else [G.R64, G.C128][int(rng.integers(2))]
        n = int(rng.integers(1, 6))
        k = int(rng.integers(1, 4))
        L = int(rng.integers(1, n + 2))  # filter length; > n is cut by fftn(h, s=n), < n is zero-padded
        batched = rng.random() < 0.5
        hshape = (k, L) if batched else (L,)
        h = G.dy(rng, hshape, G.cplx(hdt))
        with warnings.catch_warnings():
            warnings.simplefilter("ignore")
            A = linop.CircularConvolve(jnp.asarray(h, dtype=hdt), (n,), ndims=1, input_dtype=idt)
            res = D.check_operator(A, rng)
        kk = k if batched else 1
        hp = np.zeros((kk, n), dtype=np.complex128)
        h2 = h.reshape(kk, L)
        hp[:, : min(L, n)] = h2[:, : min(L, n)]
        leaf = {"t": "circ", "k": kk, "n": n, "hr": fs2b(hp.real), "hi": fs2b(hp.imag)}
        cin, cout = D.is_complex(A.input_dtype), D.is_complex(A.output_dtype)
        ctx.case({"stream": "leaf-model", "leaf": "circ", "n": n, "k": kk, "L": L, "hdt": hdt, "idt": idt}, ("circ", n, kk, L, hdt, idt, t))
        ctx.count("leaf-model:circ" + ("-batch" if batched else ""))
        if res.get("RA") is None or not res["ok"]:
            ctx.disagree("adjoint.leaf_circ", {"cfg": {"cls": "CircularConvolve", "hshape": list(hshape), "ishape": [n], "ndims": 1, "hdt": hdt, "idt": idt}},
                         _js(res["fails"]), "adjoint pair", oracle=None)
            continue
        if cin != cout:
            # real input, complex filter: the code's adjoint returns complex values; only Re enters (checked above)
            ctx.count("leaf-model:circ real->complex (basis check only)")
            continue
        diff = compare_model(model, [leaf], {"k": "leaf", "i": 0}, res, cin, cout)
        if diff is not None:
            ctx.disagree("adjoint.leaf_circ", {"h": D._js(hp.ravel()), "n": n, "k": kk, "hdt": hdt, "idt": idt}, "CircularConvolve dense matrices", diff)



def nested_views(ctx, model, rng):
    """EXHAUSTIVE scope of nested views: every word of length <= 3 over {T, H, conj, gram_op} applied to complex operators WITHOUT a
    closed-form override (generic LinearOperator with automatic adjoint, CircularConvolve) and to the composite `B @ A.T` (words of
    length <= 2): the real nested view vs `run` of the model on the measured leaves (whole tree), plus all C01 obligations of the
    nested operator (theorem C01_view_algebra).  thorough: all words; quick: a seeded sample"""
    import itertools

    leaf_cfgs = [
        G._seeded({"cls": "Generic", "m": 2, "n": 3, "idt": G.C128, "odt": G.C128}),
        G._seeded({"cls": "CircularConvolve", "hshape": [2], "ishape": [3], "ndims": 1, "hdt": G.C128, "idt": G.C128}),
        G._seeded({"cls": "Generic", "m": 2, "n": 3, "idt": G.C128, "odt": G.C128, "x": 1}),
    ]
    with warnings.catch_warnings():
        warnings.simplefilter("ignore")
        ops = [G.build(c) for c in leaf_cfgs]
        lres = [D.check_operator(o, None) for o in ops]
    wl = [leaf_wire_pq(r, True, True) for r in lres]
    words = [w for k in (1, 2, 3) for w in itertools.product(["T", "H", "conj", "gram"], repeat=k)]
    cases = [(i, w) for i in (0, 1) for w in words]
    cases += [("comp", w) for k in (0, 1, 2) for w in itertools.product(["T", "H", "conj", "gram"], repeat=k)]
    total = len(cases)
    if not ctx.thorough:
        cases = [cases[int(i)] for i in rng.permutation(total)[: ctx.n(12, total)]]
    ctx.extra["nested_views"] = {"words_total": total, "words_run": len(cases)}
    attr = {"T": lambda a: a.T, "H": lambda a: a.H, "conj": lambda a: a.conj(), "gram": lambda a: a.gram_op}
    for base, w in cases:
        with warnings.catch_warnings():
            warnings.simplefilter("ignore")
            if base == "comp":
                # B @ A.T  with A = leaf 0 (3 -> 2), B = leaf 2 (3 -> 2):  (2 -> 3) then (3 -> 2)
                A = ops[2] @ ops[0].T
                tree = {"k": "comp", "a": {"k": "leaf", "i": 2}, "b": {"k": "T", "cplx": True, "a": {"k": "leaf", "i": 0}}}
            else:
                A = ops[base]
                tree = {"k": "leaf", "i": base}
            for v in w:
                A = attr[v](A)
                tree = {"k": v, "a": tree} if v != "T" else {"k": "T", "cplx": True, "a": tree}
            res = D.check_operator(A, rng)
        desc = {"nested": {"base": base if base == "comp" else leaf_cfgs[base]["cls"], "word": list(w)}}
        ctx.case({"stream": "nested-views", "base": str(base), "word": ".".join(w)}, ("nested", str(base), w))
        ctx.count(f"nested-views:len{len(w)}")
        if res.get("RA") is None or not res["ok"]:
            ctx.disagree("adjoint.nested_view", dict(desc, leaves=leaf_cfgs), _js(res["fails"]), "adjoint pair", oracle=nested_oracle)
            continue
        diff = compare_model(model, wl, T.wire_tree(tree), res, True, True)
        if diff is not None:
            ctx.disagree("adjoint.nested_view", dict(desc, leaves=leaf_cfgs), "dense matrices of the nested view", diff, oracle=nested_oracle)


def nested_oracle(case):
    c = case["nested"]
    attr = {"T": lambda a: a.T, "H": lambda a: a.H, "conj": lambda a: a.conj(), "gram": lambda a: a.gram_op}
    with warnings.catch_warnings():
        warnings.simplefilter("ignore")
        ops = [G.build(x) for x in case["leaves"]]
        A = ops[2] @ ops[0].T if c["base"] == "comp" else next(o for o, x in zip(ops, case["leaves"]) if x["cls"] == c["base"])
        for v in c["word"]:
            A = attr[v](A)
        bad = D.identity_on_random(A, np.random.Generator(np.random.PCG64(5)), k=6)
        if bad is None:
            r = D.check_operator(A, np.random.Generator(np.random.PCG64(6)))
            for tag, det in r["fails"]:
                return {"obligation": tag, "detail": det, "word": c["word"]}
        return bad


def closed_models(ctx, model, rng):
    """class-specific overrides of Diagonal / ScaledIdentity / Identity / MatrixOperator (.T .H .conj() gram_op + - * / @):
    the operator the REAL override returns must equal the closed form of theorems C01_diagonal_overrides /
    C01_matrix_overrides computed by the model from the operand data (driver op `closed`)"""
    import jax.numpy as jnp
    from scico import linop

    forms = ["T", "H", "conj", "gram", "add", "sub", "smul", "sdiv", "comp"]
    for t in range(ctx.n(36, 240)):
        dt = [G.R64, G.C128, G.C128][int(rng.integers(3))]
        cx = G.cplx(dt)
        form = forms[t % len(forms)]
        cls = ["Diagonal", "ScaledIdentity", "Identity", "MatrixOperator", "MatrixOperator"][int(rng.integers(5))]
        cval = complex(float(rng.integers(1, 4)), float(rng.integers(-2, 3)) if cx else 0.0)
        cpy = cval if cx else cval.real
        req = {"form": form, "c": [common.f2b(cval.real), common.f2b(cval.imag)]}
        with warnings.catch_warnings():
            warnings.simplefilter("ignore")
            if cls == "MatrixOperator":
                m, n = int(rng.integers(1, 4)), int(rng.integers(1, 4))
                A = G.dy(rng, (m, n), cx)
                bshape = (n, int(rng.integers(1, 4))) if form == "comp" else (m, n)
                B = G.dy(rng, bshape, cx)
                a, b = linop.MatrixOperator(jnp.asarray(A, dtype=dt)), linop.MatrixOperator(jnp.asarray(B, dtype=dt))
                req.update({"cls": "mat", "m": m, "n": n, "Ar": fs2b(np.real(A)), "Ai": fs2b(np.imag(A) if cx else np.zeros_like(A)),
                            "bm": bshape[0], "bn": bshape[1], "Br": fs2b(np.real(B)), "Bi": fs2b(np.imag(B) if cx else np.zeros_like(B))})
            else:
                shape = [(3,), (2, 2), (1, 3)][int(rng.integers(3))]
                n = int(np.prod(shape))

                def mk(which):
                    if which == "Diagonal":
                        d = G.dy(rng, shape, cx)
                        return linop.Diagonal(jnp.asarray(d, dtype=dt), input_dtype=dt), np.asarray(d).ravel()
                    if which == "ScaledIdentity":
                        sc = complex(float(rng.integers(-2, 3)), float(rng.integers(-2, 3)) if cx else 0.0)
                        return linop.ScaledIdentity(sc if cx else sc.real, shape, input_dtype=dt), np.full(n, sc)
                    return linop.Identity(shape, input_dtype=dt), np.ones(n)

                a, d = mk(cls)
                b, e = mk(["Diagonal", "ScaledIdentity", "Identity"][int(rng.integers(3))])
                req.update({"cls": "diag", "n": n, "dr": fs2b(np.real(d)), "di": fs2b(np.imag(d) if np.iscomplexobj(d) else np.zeros(n)),
                            "er": fs2b(np.real(e)), "ei": fs2b(np.imag(e) if np.iscomplexobj(e) else np.zeros(n))})
            R = {"T": lambda: a.T, "H": lambda: a.H, "conj": lambda: a.conj(), "gram": lambda: a.gram_op, "add": lambda: a + b,
                 "sub": lambda: a - b, "smul": lambda: cpy * a, "sdiv": lambda: a / cpy, "comp": lambda: a @ b}[form]()
            res = D.check_operator(R, rng)
        desc = {"closed": {"cls": cls, "form": form, "dt": dt, "result_class": type(R).__name__}}
        ctx.case({"stream": "closed-form", "cls": cls, "form": form, "dt": dt, "result": type(R).__name__}, ("closed", json.dumps(req, sort_keys=True)))
        ctx.count(f"closed-form:{cls}:{form}")
        if res.get("RA") is None or not res["ok"]:
            ctx.disagree("adjoint.closed", dict(desc, request=req), _js(res["fails"]), "adjoint pair", oracle=None)
            continue
        try:
            rep = model.call("closed", **req)
        except ModelErr as ex:
            ctx.disagree("adjoint.closed", dict(desc, request=req), "built", {"model_err": ex.kind})
            continue
        cin, cout = D.is_complex(R.input_dtype), D.is_complex(R.output_dtype)
        diff = compare_model(model, None, None, res, cin, cout, rep=rep)
        if diff is not None:
            ctx.disagree("adjoint.closed", dict(desc, request=req), "dense matrices of the operator the override returns", diff)


def spectral_models(ctx, model, rng):
    """CircularConvolve AS CODED (transform domain): `Op.spectral` (+ real-part wrappers) built from the object's own
    `h_dft` must reproduce eval and adj - ndims 1 and 2, integer and fractional `h_center`, `h_is_dft=True`, filters
    shorter/longer than the signal, real/complex filter and signal, and the batch axes: filters batched against one signal
    (model: vertical stack of spectral leaves - `_adj` sums over the batch axis), filters and signals batched (diagonal
    stack), singleton signal axis broadcast against the filter batch (theorems C01_circ_dft_domain, C01_dft_pair,
    C01_dft_nd_pair, C01_circ_real_wrappers, C01_derived for the stacks)"""
    import jax.numpy as jnp
    from scico import linop

    for t in range(ctx.n(20, 120)):
        nd = 1 if rng.random() < 0.55 else 2
        dims = [int(rng.integers(1, 6))] if nd == 1 else [int(rng.integers(1, 4)), int(rng.integers(1, 4))]
        n = int(np.prod(dims))
        batch = ["none", "none", "filters", "both", "singleton", "filters-singleton"][int(rng.integers(6))]
        k = int(rng.integers(2, 4)) if batch != "none" else 1
        k2 = int(rng.integers(2, 4)) if batch == "filters-singleton" else 1
        hdt = [G.R64, G.C128][int(rng.integers(2))]
        idt = hdt if rng.random() < 0.6 else [G.R64, G.C128][int(rng.integers(2))]
        mode = ["plain", "center-int", "center-frac", "is-dft"][int(rng.integers(4))]
        kw = {}
        bsh = ([k, k2] if batch == "filters-singleton" else [k]) if batch != "none" else []
        if mode == "is-dft":
            h = G.dy(rng, tuple(bsh + dims), True)
            kw["h_is_dft"] = True
            harr = jnp.asarray(h, dtype=np.complex128)
        else:
            L = [int(rng.integers(1, d + 2)) for d in dims]
            h = G.dy(rng, tuple(bsh + L), G.cplx(hdt))
            harr = jnp.asarray(h, dtype=hdt)
            if mode == "center-int":
                kw["h_center"] = [int(rng.integers(0, l)) for l in L]
            elif mode == "center-frac":
                kw["h_center"] = [float([0.5, 1.25, -0.75, 2.5][int(rng.integers(4))]) for _ in L]
        # filters-singleton: h has a leading batch axis beyond the input rank AND an axis broadcast against a singleton input axis
        ishape = {"none": dims, "filters": dims, "both": [k] + dims, "singleton": [1] + dims, "filters-singleton": [1] + dims}[batch]
        k = k * k2
        with warnings.catch_warnings():
            warnings.simplefilter("ignore")
            A = linop.CircularConvolve(harr, tuple(ishape), ndims=nd, input_dtype=idt, jit=False, **kw)
            res = D.check_operator(A, rng)
            hd = np.asarray(A.h_dft, dtype=np.complex128).reshape(k, n)
        cin, cout = D.is_complex(A.input_dtype), D.is_complex(A.output_dtype)
        wrap = "none" if cin else ("rc" if cout else "rr")
        cfgd = {"cls": "CircularConvolve", "dims": dims, "ishape": ishape, "batch": batch, "mode": mode, "hshape": list(np.shape(h)),
                "h": D._js(np.asarray(h).ravel()), "hdt": hdt, "idt": idt, "kw": {kk: v for kk, v in kw.items()}}
        ctx.case({"stream": "leaf-model", "leaf": "spectral", "dims": dims, "batch": batch, "mode": mode, "wrap": wrap},
                 ("spectral", json.dumps(cfgd, sort_keys=True)))
        ctx.count(f"leaf-model:spectral:{nd}d:{batch}:{mode}:{wrap}")
        if res.get("RA") is None or not res["ok"]:
            ctx.disagree("adjoint.leaf_spectral", {"spectral": cfgd}, _js(res["fails"]), "adjoint pair", oracle=spectral_oracle)
            continue
        leaves = [{"t": "spec", "dims": dims, "Dr": fs2b(hd[b].real), "Di": fs2b(hd[b].imag), "wrap": wrap} for b in range(k)]
        ops = [{"k": "leaf", "i": b} for b in range(k)]
        if batch == "none":
            tree = ops[0]
        elif batch == "both":
            tree = {"k": "dstack", "ops": ops}
        else:
            tree = {"k": "vstack", "ops": ops, "nin": n}
        diff = compare_model(model, leaves, tree, res, cin, cout)
        if diff is not None:
            ctx.disagree("adjoint.leaf_spectral", {"spectral": cfgd}, "CircularConvolve dense matrices", diff, oracle=spectral_oracle)


def spectral_oracle(case):
    import jax.numpy as jnp
    from scico import linop

    c = case["spectral"]
    h = np.array([complex(*z) if isinstance(z, list) else z for z in c["h"]]).reshape(c["hshape"])
    dt = np.complex128 if c["mode"] == "is-dft" else c["hdt"]
    with warnings.catch_warnings():
        warnings.simplefilter("ignore")
        A = linop.CircularConvolve(jnp.asarray(h, dtype=dt), tuple(c["ishape"]), ndims=len(c["dims"]), input_dtype=c["idt"], jit=False, **c["kw"])
        return D.identity_on_random(A, np.random.Generator(np.random.PCG64(77)), k=6)


# ----------------------------------------------------------------------------------------------------------
# dtype / shape layer (Model/AdjointTy.lean, theorem C01_adj_total)


def types_stream(ctx, model, rng):
    """random typed derivation trees (mixed dtypes, weak/strong scalars, stacks, replication): declared metadata,
    acceptance at construction, result type / error kind of D(x) and D.adj(y) for y of every dtype - model vs code at
    EVERY node; instance of C01_adj_total on the code"""
    coded = ctx.is_known(Y.KNOWN_T)  # `.T` as the code has it while the finding is open, else with the repaired dtypes
    ntrees = ctx.n(45, 300)
    maxd = ctx.n(3, 4)
    for t in range(ntrees):
        g = Y.Gen(rng, [0.0, 0.15, 0.4][t % 3])
        with warnings.catch_warnings():
            warnings.simplefilter("ignore")
            g.gen(int(rng.integers(1, maxd + 1)), g.shape(), g.shape(), g.pick(Y.DTN), None)
            lw = [Y.leaf_wire(op) for op in g.ops]
        fl = [Y.faithful(w) for w in lw]
        for nd in g.nodes:
            types_node(ctx, model, g, nd, lw, fl, coded)
    types_exhaustive(ctx, model, rng)


def run_types_case(ctx, model, case):
    """one recorded typed tree (corpus): every node against the dtype / shape model"""
    coded = ctx.is_known(Y.KNOWN_T)
    with warnings.catch_warnings():
        warnings.simplefilter("ignore")
        ops = [Y.build_leaf(c) for c in case["leaves"]]
        g = Y.Gen(None, 0.0)
        g.leaves, g.ops = case["leaves"], ops

        def reb(t):
            if t["k"] == "leaf":
                return Y.Node(t, ops[t["i"]])
            ch = [reb(c) for c in ([t[k] for k in ("a", "b") if k in t] + list(t.get("ops", [])))]
            node = {k: v for k, v in t.items() if k not in ("a", "b", "ops")}
            if "sk" in node and "pysk" not in node:
                node["pysk"], node["side"] = node["sk"], 0
            return g.combine(node, ch)

        reb(case["tree"])
        lw = [Y.leaf_wire(o) for o in ops]
    fl = [Y.faithful(w) for w in lw]
    for nd in g.nodes:
        types_node(ctx, model, g, nd, lw, fl, coded, stream="corpus-types")


# ----------------------------------------------------------------------------------------------------------
# the library's default precision mode (x64 disabled)

KNOWN_XRAY3_DONATE = "xray3d-adj-donated-buffer"
_DT_KEYS = ("dt", "idt", "odt", "hdt")


def _is32(cfg):
    """configuration whose dtypes (recursively) are all 32-bit, or that takes the library defaults"""
    if isinstance(cfg, dict):
        for k, v in cfg.items():
            if k in _DT_KEYS and isinstance(v, str) and v not in ("float32", "complex64"):
                return False
            if isinstance(v, (dict, list)) and not _is32(v):
                return False
    elif isinstance(cfg, list):
        return all(_is32(v) for v in cfg)
    return True


def nox64_configs():
    cfgs = [c for c in G.grid() if _is32(c)]
    # XRayTransform3D around MAX_SLICE_LEN: one slab that IS the whole volume (n0 <= 10), two and three slabs
    for n0 in (1, 4, 10, 11, 25):
        cfgs.append(G._seeded({"cls": "XRayTransform3D", "ishape": [n0, 2, 2], "det": [n0 + 2, 4], "angles": [0.0, 0.4], "seq": "Y"}))
        cfgs.append(G._seeded({"cls": "XRayTransform3D", "ishape": [n0, 1, 2], "det": [3, 3], "angles": [0.3], "seq": "Z", "shift": [-0.5, 0.25]}))
    return cfgs


def run_nox64_worker(cfgs):
    import subprocess
    import sys as _sys

    env = {k: v for k, v in os.environ.items() if k != "JAX_ENABLE_X64"}
    env["SCICO_REPO"] = str(common.REPO)
    env["JAX_PLATFORMS"] = "cpu"
    p = subprocess.run([_sys.executable, str(Path(__file__).resolve().parent / "adjoint_nox64_worker.py")], input=json.dumps(cfgs),
                       capture_output=True, text=True, env=env, timeout=3000)
    rows = []
    for line in p.stdout.splitlines():
        try:
            rows.append(json.loads(line))
        except json.JSONDecodeError:
            continue
    if any("infra" in r for r in rows) or len([r for r in rows if "i" in r]) != len(cfgs):
        raise common.Infra(f"x64-off worker: rc={p.returncode} rows={len(rows)}/{len(cfgs)} {p.stderr[-600:]}")
    return rows


def nox64_oracle(case):
    rows = run_nox64_worker([case["cfg"]])
    return rows[0].get("fail")


def nox64_stream(ctx, model, rng):
    """'applying the adjoint never fails for a conforming input' and the adjoint identity in the library's DEFAULT precision
    mode: a subprocess WITHOUT jax_enable_x64 builds every 32-bit / default-dtype configuration of the grid (thorough: all;
    quick: a seeded sample with every class) and evaluates eval / adj / adj(eval) twice on conforming arguments"""
    full = nox64_configs()
    must = [c for c in full if c["cls"] == "XRayTransform3D" and c["ishape"][0] in (1, 4, 10, 11, 25) and len(c["angles"]) == 2]
    cdir = common.CORPUS_DIR / "C01"
    for f in sorted(cdir.glob("*.json")) if cdir.exists() else []:
        case = json.loads(f.read_text())
        if case.get("nox64"):
            must.append(case["cfg"])
            if case["cfg"] not in full:
                full.append(case["cfg"])
    if ctx.thorough:
        cfgs = full
    else:
        idx = rng.permutation(len(full))
        per, chosen = {}, []
        for i in idx:
            c = full[int(i)]["cls"]
            if per.get(c, 0) < 1:
                per[c] = per.get(c, 0) + 1
                chosen.append(full[int(i)])
        cfgs = chosen + [c for c in must if c not in chosen]
    ctx.extra["nox64"] = {"configurations_total": len(full), "configurations_run": len(cfgs)}
    rows = run_nox64_worker(cfgs)
    for r in rows:
        cfg = cfgs[r["i"]]
        if "skip" in r:
            ctx.case({"stream": "x64-off", "cls": cfg["cls"], "skip": r["skip"][:80]}, None)
            ctx.count("x64-off:rejected-at-construction")
            continue
        ctx.case({"stream": "x64-off", "cls": cfg["cls"]}, None if r.get("empty") else ("x64-off", G.key_of(cfg)), sample_every=37)
        ctx.count("x64-off:" + cfg["cls"])
        if "fail" in r:
            ctx.disagree("adjoint.x64_off", {"cfg": cfg, "nox64": True}, r["fail"], "eval / adj total and adjoint pair in the default precision mode",
                         oracle=nox64_oracle)


def types_exhaustive(ctx, model, rng):
    """EXHAUSTIVE small scope of the dtype layer: every derived construction applied to leaves of EVERY combination of input
    and output dtype (16 generic leaves (2,)->(2,)): 16 x {neg, T, H, conj, gram, c* and /c for the 8 scalar typings} and
    16 x 16 x {+, -, @} - each compared with the model as a typed-tree node (thorough: all 1 104; quick: a seeded sample)"""
    coded = ctx.is_known(Y.KNOWN_T)
    g = Y.Gen(rng, 0.0)
    with warnings.catch_warnings():
        warnings.simplefilter("ignore")
        base = [g.leaf((2,), (2,), i, o, False) for i in Y.DTN for o in Y.DTN]
        lw = [Y.leaf_wire(op) for op in g.ops]
    fl = [Y.faithful(w) for w in lw]
    sks = ["wreal", "wcplx", "float32", "float64", "complex64", "complex128", "jfloat32", "jcomplex64"]
    cases = []
    for a in range(len(base)):
        for k in ("neg", "T", "H", "conj", "gram"):
            cases.append(({"k": k}, [a]))
        for k in ("smul", "sdiv"):
            for sk in sks:
                cases.append(({"k": k, "sk": Y.sk_wire(sk), "pysk": sk, "side": (a + len(sk)) % 2}, [a]))
        for b in range(len(base)):
            for k in ("add", "sub", "comp"):
                cases.append(({"k": k}, [a, b]))
    total = len(cases)
    if not ctx.thorough:
        cases = [cases[int(i)] for i in rng.permutation(total)[: ctx.n(70, total)]]
    ctx.extra["types_exhaustive"] = {"cases_total": total, "cases_run": len(cases), "leaves": len(base)}
    for node, idx in cases:
        g.nodes = []
        with warnings.catch_warnings():
            warnings.simplefilter("ignore")
            nd = g.combine(dict(node), [base[i] for i in idx])
        types_node(ctx, model, g, nd, lw, fl, coded, stream="types-exhaustive")


def _poisoned(nd):
    return Y.mixed_stack(nd) or any(_poisoned(c) for c in getattr(nd, "children", []))


def _leaf_ids(tree):
    return sorted({t["i"] for t in Y.subtrees(tree) if t["k"] == "leaf"})


def types_node(ctx, model, g, nd, lw, fl, coded, stream="types"):
    if nd.err == "operand-rejected":
        return
    case = {"tree": Y.wire_tree(nd.tree), "leaves": g.leaves, "types": True}
    key = json.dumps([case["tree"], [g.leaves[i] for i in _leaf_ids(nd.tree)]], sort_keys=True, default=str)
    k = nd.tree["k"]
    if nd.op is None:
        # scico rejected the construction: the model's `wfT` must be false
        rep = model.call("types", leaves=lw, tree=case["tree"], coded=coded, probe_x=[], probe_y=[])
        ctx.case({"stream": stream, "node": k, "rejected": nd.err}, None)
        ctx.count(f"types:rejected-at-construction:{nd.err}")
        if rep["wf"]:
            ctx.disagree("adjoint.types_reject", case, {"raised": nd.err}, {"wf": True})
        return
    if Y.mixed_stack(nd):
        # accepted by scico although `check_if_stackable` means to reject it (its test is a no-op); the model rejects
        rep = model.call("types", leaves=lw, tree=case["tree"], coded=coded, probe_x=[], probe_y=[])
        ctx.case({"stream": stream, "node": k, "mixed_stack": True}, None)
        ctx.count("types:stack of operands on different dtypes (accepted by scico)")
        if rep["wf"]:
            ctx.disagree("adjoint.types_stack", case, "accepted", {"wf": True}, note="model accepts a dtype-mixed stack")
        else:
            ctx.disagree("adjoint.types_stack", case, "accepted", {"wf": False}, oracle=Y.total_oracle, known_id=Y.KNOWN_STACK,
                         note="scico accepts a stack of operators with different dtypes; check_if_stackable is meant to reject it")
        return
    if _poisoned(nd):
        ctx.count("types:above a dtype-mixed stack (skipped)")
        return
    with warnings.catch_warnings():
        warnings.simplefilter("ignore")
        obs = Y.observe_operator(nd.op)
    ish, osh = Y.norm_shape(nd.op.input_shape), Y.norm_shape(nd.op.output_shape)
    px, py = Y.probes(ish, osh, obs["idt"])
    rep = Y.model_reply(model, lw, nd.tree, coded, px, py)
    leaves_ok = all(fl[i] for i in _leaf_ids(nd.tree))
    ctx.case({"stream": stream, "node": k, "in": [obs["idt"], str(ish)], "out": [obs["odt"], str(osh)], "homog": rep["homog"]}, key, sample_every=41)
    ctx.count(f"types-node:{k}")
    ctx.count(f"types-dtypes:{obs['idt']}->{obs['odt']}")
    ctx.count("types:homogeneous" if rep["homog"] else "types:mixed-dtype sum or .T inside")
    diff = {}
    if not rep["wf"]:
        diff["wf"] = [True, False]
    for f in ("ish", "osh", "idt", "odt", "call", "adj"):
        if rep[f] != obs[f]:
            diff[f] = {"impl": obs[f], "model": rep[f]}
    if diff:
        ctx.disagree("adjoint.types", case, {"impl": "declared metadata, D(x), D.adj(y) on the implementation"}, diff, oracle=Y.total_oracle,
                     note=f"construction {k}: dtype/shape model differs from the implementation")
        return
    conforming = obs["adj"][Y.DTN.index(obs["odt"])]
    want = {"ok": {"dt": obs["idt"], "sh": Y.shp_wire(ish)}}
    if rep["homog"] and leaves_ok:
        # instance of theorem C01_adj_total on the real code
        ctx.count("types:C01_adj_total instance")
        if conforming != want:
            ctx.disagree("adjoint.adj_total", case, {"adj(conforming y)": conforming}, {"theorem": want}, oracle=Y.total_oracle)
    elif conforming != want:
        ctx.count("types:adj fails / wrong dtype for the conforming y (mixed dtypes: excluded case)")


# ----------------------------------------------------------------------------------------------------------


def findings(ctx, model):
    common.setup_scico()
    rng = np.random.Generator(np.random.PCG64(7))
    wit = {
        KNOWN_ABEL: {"cls": "AbelTransform", "ishape": [3, 3]},
    }
    fdc = {"cls": "SingleAxisFiniteDifference", "ishape": [3], "axis": -1, "prepend": None, "append": None, "circular": True, "dt": G.R64}
    wit[KNOWN_MIXED] = {"cls": "Derived", "form": "add", "a": G._seeded(dict(fdc)), "b": G._seeded({"cls": "MatrixOperator", "m": 3, "n": 3, "dt": G.C128, "cols": 0})}
    for fid, cfg in wit.items():
        if not ctx.is_known(fid):
            continue
        A, res, cerr = build_and_check(G._seeded(dict(cfg)), rng)
        still = cerr is None and not res["ok"]
        ctx.known_finding(fid, still, detail="" if not still else res["fails"][0][1])
    if ctx.is_known(KNOWN_JAC):
        with warnings.catch_warnings():
            warnings.simplefilter("ignore")
            still, detail = _jac_include_eval_witness()
        ctx.known_finding(KNOWN_JAC, still, detail=detail)
    # dtype-layer witnesses
    if ctx.is_known(Y.KNOWN_STACK):
        with warnings.catch_warnings():
            warnings.simplefilter("ignore")
            still, detail = _stack_witness()
        ctx.known_finding(Y.KNOWN_STACK, still, detail=detail)
    if ctx.is_known(Y.KNOWN_T):
        with warnings.catch_warnings():
            warnings.simplefilter("ignore")
            still, detail = _T_witness()
        ctx.known_finding(Y.KNOWN_T, still, detail=detail)


def _jac_include_eval_witness():
    """linop.jacobian(F, u, include_eval=True) is a LinearOperator object that declares F's shapes but returns the
    BlockArray (F(u), J v): not linear (J(0) = (F(u), 0)), output not in the declared space, adj returns (F(u), J^H y)"""
    import jax.numpy as jnp
    from scico.linop import jacobian
    from scico.operator import Operator

    W = jnp.asarray(np.arange(6.0).reshape(2, 3))
    u = jnp.asarray([1.0, 2.0, 0.5])
    F = Operator(input_shape=(3,), output_shape=(2,), eval_fn=lambda x: (W @ x) ** 2, input_dtype=np.float64, output_dtype=np.float64)
    J = jacobian(F, u, include_eval=True)
    r = J(jnp.zeros(3))
    a = J.adj(jnp.ones(2))
    bad = D.norm_shape(D.shape_of(r)) != D.norm_shape(J.output_shape) or float(np.max(np.abs(D.flatten(r)))) != 0.0 \
        or D.norm_shape(D.shape_of(a)) != D.norm_shape(J.input_shape)
    return bad, f"declares {J.input_shape}->{J.output_shape}; J(0) has shape {D.shape_of(r)}, max |J(0)| = {float(np.max(np.abs(D.flatten(r))))}; adj returns shape {D.shape_of(a)}"


def _stack_witness():
    """VerticalStack([MatrixOperator(float64 2x3), float64->complex128 operator]) is accepted; adj raises for the conforming y"""
    from scico import linop

    a = Y.build_leaf({"cls": "MatrixOperator", "ish": [3], "osh": [2], "idt": "float64", "odt": "float64", "seed": 1})
    b = Y.build_leaf({"cls": "Generic", "ish": [3], "osh": [2], "idt": "float64", "odt": "complex128", "seed": 2})
    try:
        S = linop.VerticalStack([a, b], jit=False)
    except Exception:  # noqa: BLE001
        return False, ""
    r = Y.observe(S.adj, Y.make(S.output_dtype, S.output_shape))
    return "err" in r, f"VerticalStack declares {np.dtype(S.output_dtype)}; adj(conforming y) -> {r}"


def _T_witness():
    """A: complex128 (3,) -> float64 (2,): A.T declares input_dtype complex128 / output_dtype float64 (not swapped);
    A.T(x) raises for the conforming x and A.T.H.adj(y) raises for the conforming y"""
    A = Y.build_leaf({"cls": "Generic", "ish": [3], "osh": [2], "idt": "complex128", "odt": "float64", "seed": 3})
    Tt = A.T
    r1 = Y.observe(Tt, Y.make(Tt.input_dtype, Tt.input_shape))
    TH = Tt.H
    r2 = Y.observe(TH.adj, Y.make(TH.output_dtype, TH.output_shape))
    return ("err" in r1) or ("err" in r2), f"A.T declares {np.dtype(Tt.input_dtype)}->{np.dtype(Tt.output_dtype)}; A.T(x) -> {r1}; A.T.H.adj(y) -> {r2}"


PANEL_RULES = [
    # (substring of a changed table row, classes of the grid, forms of the derived grid / "*" = every derived form)
    ("XRayTransform3D", ["XRayTransform3D"], []),
    ("XRayTransform2D", ["XRayTransform2D"], []),
    ("_circconv", ["CircularConvolve"], ["*CircularConvolve"]),
    ("_stack.py", ["VerticalStack", "DiagonalStack", "DiagonalReplicated", "FiniteDifference", "FiniteSum", "HaarTransform"], []),
    ("_matrix.py", ["MatrixOperator"], ["*MatrixOperator"]),
    ("_diag.py", ["Diagonal", "ScaledIdentity", "Identity"], ["*Diagonal", "*ScaledIdentity", "*Identity"]),
    ("jacobian", ["Jacobian"], []),
    ("vjp", ["Jacobian"], []),
    ("linear_adjoint", ["Generic", "Slice", "Pad", "Sum", "DFT", "Convolve"], []),
    ("_set_adjoint", ["Generic", "Slice", "Pad", "Sum", "DFT", "Convolve"], []),
    ("__add__", [], ["add"]), ("__sub__", [], ["sub"]), ("__mul__", [], ["smul", "rsmul", "neg"]), ("__truediv__", [], ["sdiv"]),
    ("_to_output_space", [], ["smul", "rsmul", "sdiv", "neg"]), ("__neg__", [], ["neg"]),
    ("LinearOperator.T", [], ["T"]), ("LinearOperator.H", [], ["H"]), ("LinearOperator.conj", [], ["conj"]),
    ("gram", [], ["gram"]), ("ComposedLinearOperator", [], ["comp"]), ("_wrap_add_sub", [], ["add", "sub"]),
    ("LinearOperator.adj", [], ["*"]), ("LinearOperator.__call__", [], ["*"]), ("Operator.__call__", [], ["*"]),
    ("override:", [], ["*"]),
]


def targeted_panel(changed):
    """configurations that exercise the functions whose pinned table rows differ (ALL of them, not a sample)"""
    classes, forms = set(), set()
    for row in changed:
        for sub, cl, fm in PANEL_RULES:
            if sub in row:
                classes.update(cl)
                forms.update(fm)
        if row.startswith("override:"):
            classes.add(row.split(":", 1)[1])
    panel = [c for c in G.grid() if c["cls"] in classes]
    derived = G.derived_grid() + G.shortcut_grid()
    if "*" in forms:
        panel += derived[:: max(1, len(derived) // 400)]
    else:
        for f in forms:
            if f.startswith("*"):
                panel += [c for c in derived if f[1:] in (c["a"].get("cls"), c.get("b", {}).get("cls"))][:300]
            else:
                panel += [c for c in derived if c["form"] == f][:300]
    return panel


def search(ctx, model, why):
    """failing-input search on the implementation alone.  After a broken generated obligation (`why`): the TARGETED panel - every
    grid / derived configuration that exercises the functions whose pinned table rows differ, each with the exhaustive basis-pair
    obligations and the random-vector oracle (and the x64-off worker for the X-ray classes).  Otherwise (thorough tier): the
    adjoint identity on random vectors over random grid configurations and derived forms (known findings excluded)"""
    common.setup_scico()
    rng = ctx.rng
    if why is not None:
        changed = adjoint_translate.changed_rows()
        ctx.extra["changed_table_rows"] = changed
        panel = targeted_panel(changed)
        ctx.count(f"search:targeted-panel:{len(panel)}")
        for cfg in panel:
            with warnings.catch_warnings():
                warnings.simplefilter("ignore")
                try:
                    A = G.build(cfg)
                except Exception as e:  # noqa: BLE001
                    if cfg["cls"] != "Derived":
                        return {"cfg": cfg, "construction_raised": repr(e)[:300], "changed_rows": changed}
                    continue
                r = D.check_operator(A, rng)
            if r["ok"]:
                continue
            kid = classify_known(ctx, model, cfg, A, r)
            if kid is not None and ctx.is_known(kid):
                continue
            bad = make_oracle()({"cfg": cfg}) or {"fails": _js(r["fails"])}
            bad["cfg"], bad["changed_rows"] = cfg, changed
            return bad
        if any("XRay" in row for row in changed):
            xr = [c for c in nox64_configs() if c["cls"].startswith("XRay")]
            for r in run_nox64_worker(xr):
                if "fail" in r:
                    return {"cfg": xr[r["i"]], "x64_off": r["fail"], "changed_rows": changed}
    full = G.grid() + G.derived_grid()
    n = ctx.n(40, 300)
    for i in rng.permutation(len(full))[:n]:
        cfg = full[int(i)]
        with warnings.catch_warnings():
            warnings.simplefilter("ignore")
            try:
                A = G.build(cfg)
            except Exception:  # noqa: BLE001
                continue
            bad = D.identity_on_random(A, rng, k=2)
        ctx.count("search:cases")
        if bad is None:
            continue
        if cfg["cls"] == "AbelTransform" and ctx.is_known(KNOWN_ABEL):
            continue
        with warnings.catch_warnings():
            warnings.simplefilter("ignore")
            r = D.check_operator(A, rng)
        kid = classify_known(ctx, model, cfg, A, r) if not r["ok"] else None
        if kid is not None and ctx.is_known(kid):
            ctx.count("search:known:" + kid)
            continue
        bad["cfg"] = cfg
        return bad
    return None


def replay(ctx, model, case):
    common.setup_scico()
    c = case.get("case", case)
    if c.get("nox64"):
        r = nox64_oracle(c)
    elif "nested" in c:
        r = nested_oracle(c)
    elif c.get("types"):
        r = Y.total_oracle(c)
    elif "spectral" in c:
        r = spectral_oracle(c)
    elif c.get("view") == "rmatmul":
        r = rmatmul_oracle(c)
    elif "view" in c:
        r = view_oracle(c["view"])(c)
    else:
        r = make_oracle()(c)
    print("replay:", "property FAILS on implementation:" if r else "no failure at this input", json.dumps(r, default=str)[:1500] if r else "")
    if r:
        ctx.violation({"kind": "failing-input", "case": c, "failing": r}, True, "replay")
