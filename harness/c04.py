"""C04 - built-in operators compute exactly their documented mathematical maps.

For every configuration of the grid of harness/opgrid.py the dense matrix of the REAL operator (basis
vectors) is compared with
  (a) the documented matrix computed by the Lean model (`Drv/LinOps.lean`, the `...Matrix` definitions the
      theorems of Props/C04.lean are about) together with the code-shaped `...Eval` on random dyadic inputs, and
  (b) an independent numpy implementation of the documented formula (harness/linops_ref.py) - the only
      reference for the classes outside the Lean model.
Quick: seeded sample of the grid; thorough: the whole grid.
"""

from __future__ import annotations

import json
import os
import math
import warnings

import numpy as np

import common
from common import ModelErr, b2f, b2fs, f2b, fs2b

PROP = "C04"
CLAIMED = True
ENGINE = "LinOps"
DESIGN_REF = "DESIGN.md §5.5"
TECHNIQUE = (
    "Lean 4 proofs (code-shaped construction = documented dense matrix, for all sizes/options) + dense-matrix "
    "correspondence of every built-in linear operator over a configuration grid (Lean-computed documented matrix and "
    "independent numpy formula)"
)
LEVEL_TEXT = (
    "Lean theorems for all n / all shapes / all options: finite differences (3x3 prepend/append + circular) = documented banded matrix, "
    "lifted to any axis (I (x) A (x) I) and any axes subset from the constructor arguments (normalize_axes, block column); stacks = "
    "block matrices; circular convolution in ANY number of dimensions: the DFT-domain evaluation of the code with the constructor's "
    "shift phases (integer centres, filters longer than the axis cropped) = signal-domain N-d circular convolution = N-d circulant "
    "(convolution theorem by induction over the axes); arbitrary spectra (h_is_dft, fractional centres) = convolution with ifft(H); "
    "Hermitian symmetry / DC invariance of the fractional phases; from_operator; N-d Convolve/ConvolveByX modes = windows of the N-d "
    "Toeplitz matrix; slice/pad/crop/sum/transpose/reshape index maps, pad modes edge/wrap/reflect/symmetric/mean (Crop = left "
    "inverse of every mode); projected gradients = sum_m diag(c_m) G_m with G from the finite-difference theorems, orthonormal polar "
    "frame; X-ray 2-D: scatter-add = two-bin matrix, mass conservation from the geometry, weights in (0,1], angle 0 / pi/2 = row / "
    "column sums from the index/weight formulas (floor a contract); X-ray 3-D footprint split = overlap length; DFT shape "
    "bookkeeping with Python axes, N-d inversion over any subset of axes (unpadded); fftfreq grid. "
    "The model is tied to scico by comparing dense matrices of the real operators over the configuration grid."
)
LEVEL_NOTE = (
    "Numerical tie only (no theorem beyond structure): Abel (PyAbel reference), Euler-angle matrices and four-pixel scatter of the 3-D "
    "X-ray projector, coordinate fields (arctan2/sin/cos) of the polar/cylindrical/spherical gradients, propagator transfer functions "
    "(exp/sqrt), zero-padded N-d DFT. Contracts: jnp.fft, jnp.pad, jax.scipy.signal.convolve, floor/ceil, exp/cos through the "
    "exponential law. DFT.inv with a zero-padding axes_shape (hence propagators with pad_factor>1) is a known defect (dft-inv-padded, "
    "negation witness proved). Rounding is not modelled."
)
PROP_MODULES = ["Scico.Props.C04"]
EXTRA_TARGETS = ["Drv.LinOps"]
DRIVER = "LinOps"
FILES = [
    "scico/linop/_diff.py", "scico/linop/_dft.py", "scico/linop/_circconv.py", "scico/linop/_convolve.py",
    "scico/linop/_func.py", "scico/linop/_grad.py", "scico/linop/_stack.py", "scico/operator/_stack.py",
    "scico/operator/biconvolve.py", "scico/operator/_func.py", "scico/linop/xray/_xray.py", "scico/linop/optics.py",
    "scico/linop/abel.py", "scico/functional/_tvnorm.py", "scico/linop/_diag.py", "scico/linop/_matrix.py",
]
RULE = (
    "a case is one (operator class, constructor configuration) of the grid in harness/opgrid.py (shapes incl. non-square and "
    "singleton axes <= 5, every axes subset, every boundary option, mode, ndims, integer and fractional h_center, norm, "
    "axes_shape, pad widths, dx, angles, detector sizes); quick = seeded sample per class, thorough = whole grid; a case is "
    "non-trivial when the documented matrix is not an identity matrix; distinct by (class, configuration)."
)
ASSUMPTIONS = [
    "jnp.diff / pad / fft / scatter-add / convolve obey their documented contracts (modelled, exercised by every case)",
    "real-number idealisation: comparison within 1e-9 relative (1e-5 for classes that compute in single precision)",
    "floor() in the X-ray index computation is a contract; configurations whose projected pixel edge is within 1e-9 of a bin edge are discarded for the index/weight comparison",
]

TOL = {
    "AbelTransform": 1e-5, "AngularSpectrumPropagator": 2e-5, "FresnelPropagator": 2e-5, "FraunhoferPropagator": 2e-5,
    "XRayTransform3D": 1e-6,
}
MODELLED = {
    "SingleAxisFiniteDifference", "FiniteDifference", "DFT", "CircularConvolve", "Convolve", "ConvolveByX", "Pad", "Crop",
    "Reshape", "Transpose", "Sum", "Slice", "VerticalStack", "DiagonalStack", "DiagonalReplicated", "XRayTransform2D",
    "SingleAxisFiniteSum", "FiniteSum", "SingleAxisHaarTransform", "HaarTransform",
    "ProjectedGradient", "PolarGradient", "CylindricalGradient", "SphericalGradient", "AbelTransform",
}
HIPREC = {"DFT": np.complex128, "XRayTransform2D": np.float64, "XRayTransform3D": np.float64}


def _tol(name, cfg):
    return 1e-5 if cfg.get("dtype") == "float32" else TOL.get(name, 1e-9)


def _close(R, D, tol):
    R, D = np.asarray(R), np.asarray(D)
    if R.shape != D.shape:
        return False
    if R.size == 0:
        return True
    return bool(np.max(np.abs(R - D)) <= tol * (1 + max(np.max(np.abs(D)), np.max(np.abs(R)))))


def _mat(d):
    return np.array(b2fs(d["d"]), dtype=np.float64).reshape(d["r"], d["c"])


def _cmat(d):
    return (np.array(b2fs(d["re"])) + 1j * np.array(b2fs(d["im"]))).reshape(d["r"], d["c"])


def _blk(M):
    return {"r": int(M.shape[0]), "c": int(M.shape[1]), "d": fs2b(M)}


def _prod(s):
    return int(np.prod(s, dtype=int))


# --------------------------------------------------------------------------
# documented matrices from the Lean model


class Lean:
    """builds the documented matrix D of (class, config) through the driver; also pushes `xs` through the
    code-shaped evaluations.  Returns (D, ys) or None when the class/config is outside the Lean model."""

    def __init__(self, model, rng):
        self.m = model
        self.rng = rng

    def xs(self, n, k=2):
        return [common.dyadic(self.rng, (n,), bits=3, scale=2.0) for _ in range(k)]

    def chain(self, shape, steps, xs):
        """apply 1-d specs along axes one after the other (alongAxis / kronAxis)"""
        shape = list(shape)
        D = np.eye(_prod(shape))
        for ax, spec in steps:
            outer, inner = _prod(shape[:ax]), _prod(shape[ax + 1 :])
            r = self.m.call("lift", spec=dict(spec, n=shape[ax]), outer=outer, inner=inner, xs=[fs2b(x) for x in xs])
            D = _mat(r["mat"]) @ D
            xs = [np.array(b2fs(y)) for y in r["ys"]]
            shape[ax] = r["r"] // max(outer * inner, 1)
        return D, xs, shape

    def build(self, name, c, op):
        import opgrid

        real = c.get("dtype", "float64") in ("float64", "float32")
        if name in ("SingleAxisFiniteDifference", "FiniteDifference") and real:
            sh = c["shape"]
            nd = len(sh)
            raw = [c["axis"]] if name == "SingleAxisFiniteDifference" else ([c["axes"]] if isinstance(c["axes"], int) else c["axes"])
            axes = self.m.call("normaxes", nd=nd, axes=raw)  # normalize_axes of the model (None = all axes, negative from the end)
            xs = self.xs(_prod(sh))
            r = self.m.call("fdnd", shape=sh, axes=axes, prepend=c["prepend"], append=c["append"], circular=c["circular"], xs=[fs2b(x) for x in xs])
            return _mat(r["mat"]), (xs, [np.array(b2fs(y)) for y in r["ys"]])
        if name == "Pad" and c["mode"] in ("constant", "edge", "wrap", "reflect", "symmetric", "mean") and real:
            import linops_ref

            w = linops_ref._pw(c["pad_width"], len(c["shape"]))
            xs = self.xs(_prod(c["shape"]))
            if c["mode"] == "constant":
                spec = lambda lo, hi: {"kind": "pad", "lo": lo, "hi": hi}  # noqa: E731
            elif c["mode"] == "mean":
                spec = lambda lo, hi: {"kind": "padmean", "lo": lo, "hi": hi}  # noqa: E731
            else:
                spec = lambda lo, hi: {"kind": "padmode", "mode": c["mode"], "lo": lo, "hi": hi}  # noqa: E731
            # numpy pads one axis after the other (corners are pads of pads): the same chain of 1-d maps
            D, ys, _ = self.chain(c["shape"], [(ax, spec(lo, hi)) for ax, (lo, hi) in enumerate(w)], xs)
            return D, (xs, ys)
        if name == "Crop" and real:
            import linops_ref

            w = linops_ref._pw(c["crop_width"], len(c["shape"]))
            xs = self.xs(_prod(c["shape"]))
            D, ys, _ = self.chain(c["shape"], [(ax, {"kind": "crop", "lo": lo, "hi": hi}) for ax, (lo, hi) in enumerate(w)], xs)
            return D, (xs, ys)
        if name == "Slice" and real:
            idx = [i for i in opgrid._idx_dec(c["idx"]) if i is not None]
            nd = len(c["shape"])
            if Ellipsis in idx:
                k = idx.index(Ellipsis)
                idx = idx[:k] + [slice(None)] * (nd - (len(idx) - 1)) + idx[k + 1 :]
            idx = idx + [slice(None)] * (nd - len(idx))
            steps = []
            for ax, i in enumerate(idx):
                if isinstance(i, slice):
                    steps.append((ax, {"kind": "slice", "start": i.start, "stop": i.stop, "step": i.step}))
                else:
                    i = i % c["shape"][ax]
                    steps.append((ax, {"kind": "slice", "start": i, "stop": i + 1, "step": 1}))
            xs = self.xs(_prod(c["shape"]))
            D, ys, _ = self.chain(c["shape"], steps, xs)
            return D, (xs, ys)
        if name == "Sum" and "blocks" in c:
            return None  # BlockArray input: documented per-block reduction, numpy reference only
        if name == "Sum" and real:
            nd = len(c["shape"])
            ax = c["axis"]
            axes = list(range(nd)) if ax is None else ([ax % nd] if isinstance(ax, int) else [a % nd for a in ax])
            xs = self.xs(_prod(c["shape"]))
            D, ys, _ = self.chain(c["shape"], [(a, {"kind": "sum"}) for a in axes], xs)
            return D, (xs, ys)
        if name == "Transpose":
            nd = len(c["shape"])
            perm = list(range(nd))[::-1] if c["axes"] is None else c["axes"]
            r = self.m.call("transpose", dims=c["shape"], perm=perm)
            n = _prod(c["shape"])
            D = np.zeros((n, n))
            D[np.arange(n), r["src"]] = 1
            if tuple(r["oshape"]) != tuple(op.output_shape):
                return np.zeros((0, 0)), None
            return D, None
        if name == "Reshape":
            n = _prod(c["shape"])
            # row-major: Reshape keeps the flat index; check the round trip of the index calculus at the new shape
            tgt = [int(s) for s in op.output_shape]
            for k in range(n):
                r = self.m.call("unravel", dims=tgt, k=k)
                if r["back"] != k or list(np.unravel_index(k, tgt)) != r["idx"]:
                    return np.zeros((0, 0)), None
            return np.eye(n), None
        if name == "CircularConvolve":
            return self.circ(c)
        if name in ("Convolve", "ConvolveByX") and c["dtype"] != "complex128" and c["h"]["im"] is None:
            h = opgrid.dec(c["h"])
            xs = self.xs(_prod(c["shape"]))
            rn = self.m.call("convnd", dims=c["shape"], ks=list(h.shape), mode=c["mode"], byx=(name == "ConvolveByX"), h=fs2b(h.ravel()), xs=[fs2b(x) for x in xs])
            if tuple(rn["oshape"]) != tuple(op.output_shape):
                return np.zeros((0, 0)), None
            Dn = _mat(rn["mat"])
            if len(c["shape"]) == 1:  # the 1-d definitions of C04_conv_modes must give the same matrix
                r = self.m.call("op1", spec={"kind": "conv" if name == "Convolve" else "convbyx", "n": c["shape"][0], "mode": c["mode"], "h": fs2b(h)}, xs=[fs2b(x) for x in xs])
                if not np.array_equal(_mat(r["mat"]), Dn):
                    raise common.Infra("model: 1-d and N-d convolution matrices differ")
            return Dn, (xs, [np.array(b2fs(y)) for y in rn["ys"]])
        if name in ("VerticalStack", "DiagonalStack"):
            subs = [opgrid.build(n, cc) for n, cc in c["ops"]]
            Ms = [opgrid.dense(s) for s in subs]
            if any(np.iscomplexobj(M) for M in Ms):
                return None
            xs = self.xs(Ms[0].shape[1] if name == "VerticalStack" else sum(M.shape[1] for M in Ms))
            if name == "VerticalStack":
                r = self.m.call("vstack", blocks=[_blk(M) for M in Ms], n=int(Ms[0].shape[1]), xs=[fs2b(x) for x in xs])
            else:
                r = self.m.call("dstack", blocks=[_blk(M) for M in Ms], xs=[fs2b(x) for x in xs])
            return _mat(r["mat"]), (xs, [np.array(b2fs(y)) for y in r["ys"]])
        if name == "DiagonalReplicated":
            sub = opgrid.build(*c["op"])
            A = opgrid.dense(sub)
            if np.iscomplexobj(A):
                return None
            ish, osh, rep = list(sub.input_shape), list(sub.output_shape), c["replicates"]
            ia = c["input_axis"] if c["input_axis"] >= 0 else len(ish) + 1 + c["input_axis"]
            oa = ia if c["output_axis"] is None else c["output_axis"]
            if oa < 0:
                oa = len(osh) + 1 + oa
            in_sh = ish[:ia] + [rep] + ish[ia:]
            # move the replication axis to the front, block-diagonal of `rep` copies, move it to output_axis
            perm_in = [ia] + [a for a in range(len(in_sh)) if a != ia]
            r1 = self.m.call("transpose", dims=in_sh, perm=perm_in)
            n = _prod(in_sh)
            P1 = np.zeros((n, n))
            P1[np.arange(n), r1["src"]] = 1
            r2 = self.m.call("dstack", blocks=[_blk(A)] * rep, xs=[])
            mid = [rep] + osh
            perm_out = list(range(1, oa + 1)) + [0] + list(range(oa + 1, len(mid)))
            r3 = self.m.call("transpose", dims=mid, perm=perm_out)
            mo = _prod(mid)
            P2 = np.zeros((mo, mo))
            P2[np.arange(mo), r3["src"]] = 1
            return P2 @ _mat(r2["mat"]) @ P1, None
        if name in ("ProjectedGradient", "PolarGradient", "CylindricalGradient", "SphericalGradient") and real:
            import linops_ref

            sh = c["shape"]
            N = _prod(sh)
            axes, coords = linops_ref.proj_coords(name, c)
            spec = {"kind": "cdiff"} if c["cdiff"] else {"kind": "fd", "prepend": None, "append": 0, "circular": False}
            Gs = [self.chain(sh, [(a % len(sh), spec)], [])[0] for a in axes]
            xs = self.xs(N)
            if coords is None:
                r = self.m.call("vstack", blocks=[_blk(G) for G in Gs], n=N, xs=[fs2b(x) for x in xs])
                return _mat(r["mat"]), (xs, [np.array(b2fs(y)) for y in r["ys"]])
            mats, ys = [], [[] for _ in xs]
            for cs in coords:
                fields = [fs2b(np.broadcast_to(np.asarray(cm, dtype=np.float64), sh).ravel()) for cm in cs]
                r = self.m.call("proj", coords=fields, grads=[_blk(G) for G in Gs], n=N, xs=[fs2b(x) for x in xs])
                mats.append(_mat(r["mat"]))
                for k, y in enumerate(r["ys"]):
                    ys[k].append(np.array(b2fs(y)))
            return np.vstack(mats), (xs, [np.concatenate(y) for y in ys])
        if name == "AbelTransform":
            # quadrant assembly of the model (abelEval = I (x) abelRowMatrix, C04_abel_rows) around the single-quadrant
            # matrix the operator holds (PyAbel's Daun basis projection: a contract)
            n, mm = c["shape"]
            P = np.asarray(op.proj_mat_quad, dtype=np.float64)
            xs = self.xs(n * mm)
            r = self.m.call("abel", n=n, m=mm, P=[_blk(P)], xs=[fs2b(x) for x in xs])
            if not np.array_equal(_mat(r["mat"]), _mat(r["doc"])):
                raise common.Infra("model: abelEval and I (x) abelRowMatrix differ")
            return _mat(r["mat"]), (xs, [np.array(b2fs(y)) for y in r["ys"]])
        if name in ("SingleAxisFiniteSum", "FiniteSum", "SingleAxisHaarTransform", "HaarTransform") and real:
            sh = c["shape"]
            nd = len(sh)
            if name.startswith("SingleAxis"):
                axes = [c["axis"] % nd]
            else:
                axes = [a % nd for a in (c["axes"] if c["axes"] is not None else range(nd))]
            haar = "Haar" in name
            blocks = []
            for a in axes:
                S, _, _ = self.chain(sh, [(a, {"kind": "fsum"})], [])
                if haar:  # (1/sqrt 2) * (two-point sum ; circular difference)
                    Dc, _, _ = self.chain(sh, [(a, {"kind": "fd", "prepend": None, "append": None, "circular": True})], [])
                    blocks += [S / math.sqrt(2.0), Dc / math.sqrt(2.0)]
                else:
                    blocks.append(S)
            xs = self.xs(_prod(sh))
            r = self.m.call("vstack", blocks=[_blk(B) for B in blocks], n=_prod(sh), xs=[fs2b(x) for x in xs])
            return _mat(r["mat"]), (xs, [np.array(b2fs(y)) for y in r["ys"]])
        return None

    def circ(self, c):
        """(a) DFT-domain path of the code (`circspec`: spectrum of the filter times the constructor's shift phases, or
        the given spectrum; ifftn(H . fftn x)) for every configuration: any ndims, fractional centres, h_is_dft, complex
        data; (b) for integer centres also the signal-domain N-d circulant (`circnd`); (c) for the simple 1-d real cases
        the structure (batch / multi-filter) through the Lean lift / vstack / dstack as before.  All must agree."""
        import opgrid

        old = self.circ_1d(c)
        gen = self.circ_general(c)
        if gen is None:
            return old
        D, ev = gen
        if old is not None:
            if old[0].shape != D.shape or not _close(old[0], D, 1e-12):
                raise common.Infra("model: 1-d structured and general circular-convolution matrices differ")
            ev = old[1] if ev is None else ev
        return D, ev

    def circ_general(self, c):
        import opgrid

        xs_shape = list(c["shape"])
        if c["route"] == "from_operator":
            if c["inner"] != "circ":
                return None
            c = dict(c, route="init", h_center=None, h_is_dft=False)
        nd = c["ndims"] if c["ndims"] is not None else len(xs_shape)
        dims = xs_shape[len(xs_shape) - nd:]
        bx = xs_shape[: len(xs_shape) - nd]
        N = _prod(dims)
        h = np.asarray(opgrid.dec(c["h"]))
        cplx_x = c["dtype"] == "complex128"
        if c["h_is_dft"]:
            bh = list(h.shape[: h.ndim - nd])
            filt = h.reshape([_prod(bh)] + [N]).astype(np.complex128)
            real_out = not cplx_x
            mats = [_cmat(self.m.call("circspec", dims=dims, hre=fs2b(f.real), him=fs2b(f.imag), h_is_dft=True, xs=[])["mat"]) for f in filt]
        else:
            ks = list(h.shape[h.ndim - nd:])
            bh = list(h.shape[: h.ndim - nd])
            hc = c["h_center"]
            cen = [0.0] * nd if hc is None else ([float(hc)] if isinstance(hc, (int, float)) else [float(v) for v in hc])
            if len(cen) != nd:
                return None
            integer = all(float(v) == int(v) for v in cen)
            filt = h.reshape([_prod(bh)] + ks).astype(np.complex128)
            real_out = not (np.iscomplexobj(h) or cplx_x)
            mats = []
            for f in filt:
                Ms = _cmat(self.m.call("circspec", dims=dims, ks=ks, hre=fs2b(f.real.ravel()), him=fs2b(f.imag.ravel()), center=fs2b(cen), h_is_dft=False, xs=[])["mat"])
                if integer:  # signal-domain definition (C04_circ_nd) with the centre reduced modulo the axis length (C04_circ_phase_integer)
                    r = self.m.call("circnd", dims=dims, ks=ks, cs=[int(v) % n for v, n in zip(cen, dims)], hre=fs2b(f.real.ravel()), him=fs2b(f.imag.ravel()))
                    Mc, Me = _cmat(r["mat"]), _cmat(r["eval"])
                    self.count("circ-signal-domain")
                    if not (_close(Mc, Ms, 1e-12) and _close(Me, Mc, 1e-12)):
                        raise common.Infra("model: DFT-domain and signal-domain circular convolution differ (convolution theorem)")
                mats.append(Ms)
        self.count("circ-dft-domain")
        # numpy broadcasting of the leading (batch / filter) axes
        try:
            bo = list(np.broadcast_shapes(tuple(bh), tuple(bx)))
        except ValueError:
            return None
        M = np.zeros((_prod(bo) * N, _prod(bx) * N), dtype=complex)
        for o in np.ndindex(*bo) if bo else [()]:
            fi = tuple(o[len(bo) - len(bh) + t] if bh[t] != 1 else 0 for t in range(len(bh)))
            xi = tuple(o[len(bo) - len(bx) + t] if bx[t] != 1 else 0 for t in range(len(bx)))
            ro = int(np.ravel_multi_index(o, bo)) if bo else 0
            cx = int(np.ravel_multi_index(xi, bx)) if bx else 0
            fk = int(np.ravel_multi_index(fi, bh)) if bh else 0
            M[ro * N:(ro + 1) * N, cx * N:(cx + 1) * N] += mats[fk]
        return (M.real if real_out else M), None

    def count(self, key):
        if getattr(self, "ctx", None) is not None:
            self.ctx.count(key)

    def circ_1d(self, c):
        import opgrid

        if c["dtype"] == "complex128" or ("h" in c and c["h"]["im"] is not None):
            return None
        xs_shape = c["shape"]
        if c["route"] == "from_operator":
            if c["inner"] == "fd_circular":
                nd = len(xs_shape)
                x = self.xs(_prod(xs_shape))
                r = self.m.call("fdnd", shape=xs_shape, axes=[c["axis"] % nd], prepend=None, append=None, circular=True, xs=[fs2b(v) for v in x])
                return _mat(r["mat"]), (x, [np.array(b2fs(y)) for y in r["ys"]])
            c = dict(c, route="init", h_center=None, h_is_dft=False)
        if c.get("h_is_dft"):
            return None
        nd = c["ndims"] if c["ndims"] is not None else len(xs_shape)
        if nd != 1:
            return None
        hc = c["h_center"]
        if hc is None:
            cen = 0
        else:
            hv = hc if isinstance(hc, (int, float)) else hc[0]
            if float(hv) != int(hv):
                return None
            cen = int(hv)
        h = opgrid.dec(c["h"])
        n = xs_shape[-1]
        cen = cen % n
        xl = xs_shape[:-1]
        hl = list(h.shape[:-1])
        if len(xl) > 1 or len(hl) > 1:
            return None
        spec = lambda hv: {"kind": "circ", "n": n, "c": cen, "h": fs2b(hv)}  # noqa: E731
        nx = xl[0] if xl else None
        nh = hl[0] if hl else None
        x = self.xs(_prod(xs_shape))
        if nh is None:  # one filter, batch axis in x: block diagonal of the same H'
            r = self.m.call("lift", spec=spec(h), outer=(nx or 1), inner=1, xs=[fs2b(v) for v in x])
            return _mat(r["mat"]), (x, [np.array(b2fs(y)) for y in r["ys"]])
        mats = [_mat(self.m.call("op1", spec=spec(h[k]), xs=[])["mat"]) for k in range(nh)]
        if nx is None or nx == 1:  # block column
            r = self.m.call("vstack", blocks=[_blk(M) for M in mats], n=n, xs=[fs2b(v) for v in x])
        elif nx == nh:  # block diagonal of different filters
            r = self.m.call("dstack", blocks=[_blk(M) for M in mats], xs=[fs2b(v) for v in x])
        elif nh == 1:
            r = self.m.call("dstack", blocks=[_blk(mats[0])] * nx, xs=[fs2b(v) for v in x])
        else:
            return None
        return _mat(r["mat"]), (x, [np.array(b2fs(y)) for y in r["ys"]])


# --------------------------------------------------------------------------
# known findings


def classify(name, c, what="matrix"):
    """slug of the known finding a failing (class, config, check) is an instance of, else None"""
    if name == "DFT" and what == "inverse":
        import linops_ref

        axes, ash = linops_ref.dft_axes(c)
        if any(m > c["shape"][a] for a, m in zip(axes, ash)):
            return "dft-inv-padded"
    if name in ("AngularSpectrumPropagator", "FresnelPropagator") and c.get("pad_factor", 1) > 1:
        return "dft-inv-padded"
    if name == "ProjectedGradient" and c["cdiff"] and c["coord"] is not None:
        nax = len(c["shape"]) if c["axes"] is None else len(c["axes"])
        if nax == 1:
            return "projgrad-cdiff-single-axis"
    return None


# --------------------------------------------------------------------------
# the property oracle on the implementation


def _nshape(v):
    """(nested) shape as tuples of ints"""
    return tuple(_nshape(b) for b in v) if isinstance(v, (tuple, list)) and len(v) and isinstance(v[0], (tuple, list)) else tuple(int(t) for t in v)


def make_oracle(rng_seed=12345):
    import linops_ref
    import opgrid

    def oracle(case):
        name, c = case["class"], case["config"]
        what = case.get("check", "matrix")
        rng = np.random.Generator(np.random.PCG64(rng_seed))
        try:
            op = opgrid.build(name, c)
        except Exception as e:  # noqa: BLE001
            return {"class": name, "config": c, "constructor_raised": repr(e)[:300]}
        dt = HIPREC.get(name)
        tol = 10 * _tol(name, c)
        if what == "inverse":
            D = linops_ref.dft_inverse_documented(c)
            fn = op.inv
            n = _prod(op.output_shape)
            shape_in = tuple(op.output_shape)
        else:
            D = linops_ref.ref_matrix(name, c)
            fn = op
            n = opgrid.size_of(op.input_shape)
            shape_in = op.input_shape
        cplx = np.dtype(dt or op.input_dtype).kind == "c"
        for t in range(4):
            x = common.dyadic(rng, (n,), bits=3, scale=2.0)
            if cplx:
                x = x + 1j * common.dyadic(rng, (n,), bits=3, scale=2.0)
            try:
                yraw = fn(opgrid.unflat(x, shape_in, dt or op.input_dtype))
                y = opgrid.flat(yraw)
            except Exception as e:  # noqa: BLE001
                return {"class": name, "config": c, "x": [str(v) for v in x], "evaluation_raised": repr(e)[:300]}
            if what != "inverse" and hasattr(yraw, "shape") and str(_nshape(yraw.shape)) != str(_nshape(op.output_shape)):
                return {"class": name, "config": c, "x": [str(v) for v in x.tolist()], "returned_shape": str(yraw.shape),
                        "declared_output_shape": str(op.output_shape)}
            want = D @ x
            if y.shape != want.shape or not _close(y, want, tol):
                return {"class": name, "config": c, "check": what, "x": [str(v) for v in x.tolist()],
                        "operator_returned": [str(v) for v in np.asarray(y).tolist()], "documented_map": [str(v) for v in want.tolist()]}
        return None

    return oracle


# --------------------------------------------------------------------------
# one configuration


def check_config(ctx, lean, oracle, name, c, op):
    import linops_ref
    import opgrid

    case = {"class": name, "config": c}
    key = name + ":" + json.dumps(c, sort_keys=True)
    ctx.count(f"class:{name}")
    if isinstance(op, Exception):
        ctx.case(case, key)
        ctx.count("constructor-raised")
        ctx.disagree(f"{name}.construct", case, repr(op)[:200], "constructs", oracle=oracle, known_id=classify(name, c))
        return
    tol = _tol(name, c)
    try:
        R = opgrid.dense(op, dtype=HIPREC.get(name))
    except Exception as e:  # noqa: BLE001
        ctx.case(case, key)
        ctx.disagree(f"{name}.eval", case, repr(e)[:200], "evaluates", oracle=oracle, known_id=classify(name, c))
        return
    declared = (opgrid.size_of(op.output_shape), opgrid.size_of(op.input_shape))
    if not dtype_check(ctx, oracle, name, c, op, case, lean):
        return
    D_np = linops_ref.ref_matrix(name, c)
    trivial = D_np.shape[0] == D_np.shape[1] and D_np.size > 0 and np.array_equal(D_np, np.eye(D_np.shape[0]))
    ctx.case(case, None if trivial else key)
    ctx.count(f"in={declared[1]}")
    if R.shape != declared:
        ctx.disagree(f"{name}.shape", case, list(R.shape), list(declared), oracle=oracle, known_id=classify(name, c))
        return
    if name == "Slice":  # declared output shape (indexed_shape) = shape numpy gives for the same index expression
        want = tuple(np.zeros(c["shape"])[opgrid._idx_dec(c["idx"])].shape)
        ctx.count("slice-shape-checked")
        if tuple(op.output_shape) != want:
            ctx.disagree("linops.Slice.output_shape", case, list(op.output_shape), list(want), oracle=oracle,
                         note="declared output shape differs from the shape of x[idx]")
            return
    L = lean.build(name, c, op)
    if L is not None:
        ctx.count("lean-documented-matrix")
        D_lean, ev = L
        if not _close(R, D_lean, tol):
            ctx.disagree(f"linops.{name}.matrix", case, _summ(R), _summ(D_lean), oracle=oracle, known_id=classify(name, c),
                         note="dense matrix of the real operator differs from the Lean documented matrix")
            return
        if ev is not None:
            xs, ys = ev
            for x, y in zip(xs, ys):
                got = opgrid.flat(op(opgrid.unflat(x, op.input_shape, op.input_dtype)))
                ctx.count("lean-eval-compared")
                if not _close(got, y, tol):
                    ctx.disagree(f"linops.{name}.eval", case, _summ(got), _summ(y), oracle=oracle, known_id=classify(name, c),
                                 note="code-shaped Lean evaluation differs from the real operator on a dyadic input")
                    return
    else:
        ctx.count("numpy-reference-only")
    if name in ("AngularSpectrumPropagator", "FresnelPropagator") and _prod(c["shape"]) * c["pad_factor"] ** len(c["shape"]) <= 16:
        # the code AS IT IS for every pad_factor (`propEval`: coded inverse of the padded transform) around the operator's own
        # transfer function; for pad_factor > 1 this is the tie of the model under the known finding dft-inv-padded
        ms = [c["pad_factor"] * v for v in c["shape"]]
        Dd = np.asarray(op.D.diagonal).astype(np.complex128).ravel()
        rp = lean.m.call("prop", ns=c["shape"], ms=ms, dre=fs2b(Dd.real), dim=fs2b(Dd.imag))
        ctx.count("optics-propagator-model")
        if not _close(R, _cmat(rp["coded"]), 2e-5):
            ctx.disagree(f"linops.{name}.as_coded", case, _summ(R), _summ(_cmat(rp["coded"])), oracle=oracle,
                         note="real propagator differs from the model of Propagator._eval (F.inv(D @ F @ x) with the coded inverse)")
            return
        if not _close(_cmat(rp["doc"]), D_np, 2e-5):
            raise common.Infra("model: documented propagator (propEvalDoc) differs from the numpy F^-1 D F")
    if name == "XRayTransform2D":
        if not xray_checks(ctx, lean, oracle, name, c, op, R, case):
            return
    elif name == "XRayTransform3D":
        if not xray3d_checks(ctx, lean, oracle, name, c, op, R, case, tol):
            return
    elif not _close(R, D_np, tol):
        ctx.disagree(f"ref.{name}.matrix", case, _summ(R), _summ(D_np), oracle=oracle, known_id=classify(name, c),
                     note="dense matrix of the real operator differs from the independent numpy formula")
        return
    if name == "DFT":
        dft_checks(ctx, lean, oracle, c, op, case)
    if name in ("AngularSpectrumPropagator", "FresnelPropagator"):
        optics_checks(ctx, lean, oracle, name, c, op, case)
    if name == "XRayTransform3D" and "matrices" in c:
        # hand-written axis-aligned views: the documented convention makes them plain sums along one axis
        perms = {((1, 0, 0, 0), (0, 1, 0, 0)): lambda a: a.sum(axis=2), ((0, 1, 0, 0), (0, 0, 1, 0)): lambda a: a.sum(axis=0),
                 ((0, 0, 1, 0), (1, 0, 0, 0)): lambda a: a.sum(axis=1).T}
        for v, Mh in enumerate(c["matrices"]):
            key = tuple(tuple(float(t) for t in row) for row in Mh)
            if key in perms:
                x = common.dyadic(ctx.rng, tuple(c["shape"]), bits=3, scale=2.0)
                y = np.asarray(op(opgrid.unflat(x.ravel(), op.input_shape, np.float64)))[v]
                ctx.count("xray3d-handwritten-axis-sum")
                if not _close(y, perms[key](x), 1e-6):
                    ctx.disagree("linops.XRayTransform3D.axis_sum", dict(case, view=v), _summ(y), _summ(perms[key](x)), oracle=oracle,
                                 note="hand-written axis-aligned projection matrix (documented convention) does not give the sum along the axis")
                    return
    if name == "XRayTransform3D" and "matrices" not in c and c["voxel_spacing"] is None and c["det_spacing"] is None and list(c["det_shape"]) == list(c["shape"][:2]):
        # identity rotation: voxel (i,j,k) lands exactly on detector pixel (i,j): the view is the sum along axis 2
        for v, ang in enumerate(c["angles"]):
            if all(a == 0.0 for a in ang):
                x = common.dyadic(ctx.rng, tuple(c["shape"]), bits=3, scale=2.0)
                y = np.asarray(op(opgrid.unflat(x.ravel(), op.input_shape, np.float64)))[v]
                ctx.count("xray3d-axis-aligned-sum")
                if not _close(y, x.sum(axis=2), 1e-6):
                    ctx.disagree("linops.XRayTransform3D.axis_sum", dict(case, view=v), _summ(y), _summ(x.sum(axis=2)), oracle=oracle,
                                 note="axis-aligned view does not equal the sum of the volume along the projection axis")
                    return
    if name == "AbelTransform":
        x = common.dyadic(ctx.rng, tuple(c["shape"]), bits=3, scale=2.0).astype(np.float32)
        back = np.asarray(op.inverse(op(x)))
        ctx.count("abel-inverse")
        if not _close(back, x, 1e-3):
            ctx.disagree("ref.AbelTransform.inverse", case, _summ(back), _summ(x), oracle=oracle)
    if name == "Crop":
        # Crop is the adjoint (transpose) of the zero Pad of the same widths and its left inverse
        P = linops_ref.r_Pad({"shape": [int(s) for s in op.output_shape], "pad_width": c["crop_width"], "mode": "constant"})
        if P.shape == R.T.shape and not (np.array_equal(R, P.T) and np.array_equal(R @ P, np.eye(R.shape[0]))):
            ctx.disagree("linops.Crop.adjoint_of_pad", case, _summ(R), _summ(P.T), oracle=oracle)


def dtype_check(ctx, oracle, name, c, op, case, lean=None):
    """dtype of the returned array = declared output dtype = documented promoted dtype (convolutions:
    result_type(filter dtype, input dtype)); only the convolution classes are decided here (the rest is C12's)"""
    import opgrid

    if opgrid._is_nested(op.input_shape):
        return True
    x = common.dyadic(ctx.rng, tuple(op.input_shape), bits=3, scale=2.0).astype(op.input_dtype)
    try:
        y = op(opgrid.unflat(x.ravel(), op.input_shape, op.input_dtype))
    except Exception:  # noqa: BLE001  (reported by the matrix comparison)
        return True
    # container and shape of the returned value = declared output_shape (BlockArray: the tuple of block shapes)
    def _shp(v):
        return tuple(_shp(b) for b in v) if isinstance(v, (tuple, list)) and v and isinstance(v[0], (tuple, list)) else tuple(int(t) for t in v)

    if hasattr(y, "shape"):
        ctx.count("returned-shape-checked")
        if _shp(y.shape) != _shp(op.output_shape):
            ctx.disagree(f"linops.{name}.returned_shape", case, str(y.shape), str(op.output_shape), oracle=oracle, known_id=classify(name, c),
                         note="shape / container (array vs BlockArray) of the returned value differs from the declared output_shape")
            return False
    got = np.dtype(opgrid.flat(y).dtype)
    decl = np.dtype(op.output_dtype)
    if name in ("CircularConvolve", "Convolve", "ConvolveByX"):
        if c.get("route", "init") == "init" and not c.get("h_is_dft"):
            hdt = np.complex128 if c["h"]["im"] is not None else (np.float32 if c["dtype"] == "float32" else np.float64)
            doc = np.result_type(hdt, np.dtype(c["dtype"]))
        else:
            doc = decl
        # constructor metadata of the Lean model (circInit / convInit): declared shape, dtype, `real` flag
        if c.get("route", "init") == "init":
            hdn = str(np.dtype(np.complex128 if (c.get("h_is_dft") or c["h"]["im"] is not None) else (np.float32 if c["dtype"] == "float32" else np.float64)))
            try:
                if name == "CircularConvolve":
                    mi = lean.m.call("circinit", hshape=c["h"]["shape"], shape=c["shape"], ndims=c["ndims"], h_is_dft=bool(c["h_is_dft"]),
                                     has_center=c["h_center"] is not None, hdtype=hdn, dtype=c["dtype"])
                    impl = {"output_shape": [int(v) for v in op.output_shape], "output_dtype": str(np.dtype(op.output_dtype)), "real": bool(op.real)}
                else:
                    mi = {"output_dtype": lean.m.call("convinit", hndim=len(c["h"]["shape"]), ndim=len(c["shape"]), mode=c["mode"], hdtype=hdn, dtype=c["dtype"])}
                    impl = {"output_dtype": str(np.dtype(op.output_dtype))}
            except ModelErr as e:
                mi, impl = e.kind, "constructs"
            ctx.count("conv-constructor-metadata")
            if mi != impl:
                ctx.disagree(f"linops.{name}.init", case, impl, mi, oracle=oracle, note="declared output shape / dtype / real flag differ from the model of the constructor")
                return False
        ctx.count(f"dtype-checked:{doc}")
        if not (got == decl == doc):
            ctx.disagree(f"linops.{name}.dtype", case, {"returned": str(got), "declared": str(decl)}, {"documented": str(doc)}, oracle=oracle,
                         note="dtype of the result differs from the documented promotion result_type(filter, input)")
            return False
    elif got != decl:
        ctx.count(f"returned-dtype-differs-from-declared:{name}")
    return True


def _summ(a):
    a = np.asarray(a)
    flat = a.ravel()
    return {"shape": list(a.shape), "head": [str(v) for v in flat[:12].tolist()]}


# --------------------------------------------------------------------------
# class-specific checks


def xray_checks(ctx, lean, oracle, name, c, op, R, case):
    """(a) scatter-add model on the REAL indices/weights = real matrix; (b) mass conservation when the detector
    covers the shadow; (c) index/weight formulas vs Lean Float and numpy (near-ties discarded); (d) row / column sums"""
    import jax.numpy as jnp

    import linops_ref
    from scico.linop.xray import XRayTransform2D

    sh, dx, x0, ny, y0 = linops_ref.xray2d_geometry(c)
    inds, weights = XRayTransform2D._calc_weights(jnp.asarray(op.x0), jnp.asarray(op.dx), tuple(op.nx), jnp.asarray(op.angles), op.y0)
    inds, weights = np.asarray(inds), np.asarray(weights, dtype=np.float64)
    npx = _prod(sh)
    x = np.abs(common.dyadic(ctx.rng, (npx,), bits=3, scale=2.0)) + 0.125
    y_real = np.asarray(op(jnp.asarray(x.reshape(sh)))).astype(np.float64)
    ok = True
    for v, ang in enumerate(c["angles"]):
        r = lean.m.call("xray", ny=ny, I=[int(i) for i in inds[v].ravel()], w=fs2b(weights[v].ravel()), x=fs2b(x))
        Dv = _mat(r["mat"])
        ctx.count("xray-view")
        if not _close(R[v * ny : (v + 1) * ny], Dv, 1e-9):
            ctx.disagree("linops.XRayTransform2D.scatter", dict(case, view=v), _summ(R[v * ny : (v + 1) * ny]), _summ(Dv), oracle=oracle,
                         note="two-bin scatter-add model on the real indices/weights differs from the real projector")
            return False
        if r["all_on"]:
            ctx.count("xray-mass-hypothesis-holds")
            if not (common.close(y_real[v].sum(), x.sum(), npx) and common.close(b2f(r["mass_out"]), b2f(r["mass_in"]), npx)):
                ctx.disagree("linops.XRayTransform2D.mass", dict(case, view=v), float(y_real[v].sum()), float(x.sum()), oracle=oracle,
                             note="detector covers the shadow but the view does not conserve mass")
                return False
        else:
            ctx.count("xray-detector-does-not-cover")
        # (b') the TRUE covering hypothesis of C04_xray_mass_covered: every boxcar [Px, Px + width] on the detector [0, ny]
        _, _, Pxg = linops_ref.xray2d_weights(c, ang)
        wdt = linops_ref.xray2d_width(c, ang)
        if float(np.min(np.abs(Pxg - np.round(Pxg)))) >= 1e-9 and bool(np.all(Pxg >= 0) and np.all(Pxg + wdt <= ny)):
            ctx.count("xray-covered-by-geometry")
            if not common.close(y_real[v].sum(), x.sum(), npx):
                ctx.disagree("linops.XRayTransform2D.mass_covered", dict(case, view=v), float(y_real[v].sum()), float(x.sum()), oracle=oracle,
                             note="every pixel's boxcar lies on the detector but the view does not conserve mass")
                return False
        # (c) index / weight formulas
        rw = lean.m.call("xrayw", x0=fs2b(x0), dx=fs2b(dx), nx=sh, angle=f2b(ang), y0=f2b(y0))
        margin = b2f(rw["margin"])
        ri, rwt, Px = linops_ref.xray2d_weights(c, ang)
        mnp = float(np.min(np.abs(Px - np.round(Px))))
        if min(margin, mnp) < 1e-9:
            ctx.count("xray-weights-near-tie-discarded")
            ok_tie = False
        else:
            ok_tie = True
            ctx.count("xray-weights-compared")
            li, lw = np.array(rw["inds"]).reshape(sh), np.array(b2fs(rw["weights"])).reshape(sh)
            for src, (ii, ww) in (("lean", (li, lw)), ("numpy", (ri, rwt))):
                if not (np.array_equal(ii, inds[v]) and _close(ww, weights[v], 1e-9)):
                    ctx.disagree(f"linops.XRayTransform2D.weights.{src}", dict(case, view=v), {"inds": inds[v].ravel().tolist()[:12]}, {"inds": ii.ravel().tolist()[:12]}, oracle=oracle,
                                 note="bin indices / weights differ from the documented footprint model")
                    return False
        if ok_tie:
            D_np_v = linops_ref.r_XRayTransform2D(dict(c, angles=[ang]))
            if not _close(R[v * ny : (v + 1) * ny], D_np_v, 1e-9):
                ctx.count("xray-differs-from-documented")
                ctx.disagree("ref.XRayTransform2D.matrix", dict(case, view=v), _summ(R[v * ny : (v + 1) * ny]), _summ(D_np_v), oracle=oracle,
                             note="view differs from the documented boxcar model (contribution w to bin I and 1 - w to bin I + 1, each when on the detector)")
                return False
        # (d) documented angles: 0 sums rows, pi/2 sums columns (unit pixels, detector wide enough)
        if c["dx"] == 1.0 and c["x0"] is None and ny >= max(sh) + 1 and r["all_on"]:
            want = None  # (pixel edges coincide with bin edges only when ny - n has the parity of 0)
            if ang == 0.0 and (ny - sh[0]) % 2 == 0:
                want = x.reshape(sh).sum(axis=1)
            elif ang == math.pi / 2 and (ny - sh[1]) % 2 == 0:
                want = x.reshape(sh).sum(axis=0)
            if want is not None:
                ctx.count("xray-row-column-sums")
                nz = y_real[v][np.abs(y_real[v]) > 1e-12]
                if not (nz.shape == want.shape and _close(nz, want, 1e-9)):
                    ctx.disagree("linops.XRayTransform2D.rowcol", dict(case, view=v), y_real[v].tolist(), want.tolist(), oracle=oracle,
                                 note="angle 0 / pi/2 does not reduce to row / column sums")
                    return False
    return ok


def xray3d_checks(ctx, lean, oracle, name, c, op, R, case, tol):
    """(a) real matrix = DOCUMENTED footprint model (area of the footprint square inside each detector pixel); (b) the 1-d footprint splits of the Lean model
    (coded and documented) against the weights the code computes; (c) mass conservation per view when the detector covers
    every footprint"""
    import jax.numpy as jnp

    import linops_ref
    import opgrid
    from scico.linop.xray import XRayTransform3D

    sh, det = c["shape"], c["det_shape"]
    if "matrices" not in c:
        # matrices_from_euler_angles: the assembly of the model (eulerM / eulerT, C04_xray3d_euler_centre) around scipy's rotation
        from scipy.spatial.transform import Rotation

        vs = [1.0] * 3 if c["voxel_spacing"] is None else list(c["voxel_spacing"])
        ds = [1.0] * 2 if c["det_spacing"] is None else list(c["det_spacing"])
        Rs = Rotation.from_euler(c["seq"], np.asarray(c["angles"], dtype=float)).as_matrix()
        for v, Rv in enumerate(Rs):
            got = np.array(b2fs(lean.m.call("euler", R=[_blk(Rv[:2, :])], vs=fs2b(vs), ds=fs2b(ds), half_in=fs2b(np.asarray(sh) / 2), half_out=fs2b(np.asarray(det) / 2)))).reshape(2, 4)
            ctx.count("xray3d-euler-assembly")
            if not _close(np.asarray(op.matrices[v], dtype=np.float64), got, 1e-9):
                ctx.disagree("linops.XRayTransform3D.euler", dict(case, view=v), _summ(np.asarray(op.matrices[v])), _summ(got), oracle=oracle,
                             note="projection matrix built by matrices_from_euler_angles differs from M = diag(1/ds) R diag(vs), t = -M in/2 + out/2")
                return False
    le = linops_ref.xray3d_left_edges(c)  # (views, voxels, 2)
    dist = np.abs(le - np.round(le))
    int_edge = bool(np.any(dist < 1e-9))
    D_doc = linops_ref.r_XRayTransform3D(c)
    if not _close(R, D_doc, tol):
        ctx.count("xray3d-differs-from-documented")
        ctx.disagree("ref.XRayTransform3D.matrix", case, _summ(R), _summ(D_doc), oracle=oracle,
                     note="dense matrix of the real projector differs from the documented voxel-footprint model")
        return False
    # (b) Lean 1-d splits on the left edges vs the weights of the code (whole volume = one slab when <= 10 slices)
    exact_or_far = not bool(np.any((dist > 0) & (dist < 1e-9)))
    if sh[0] <= 10 and exact_or_far:
        for v in range(le.shape[0]):
            r = lean.m.call("x3split", le=fs2b(le[v].ravel()), w=f2b(0.5))
            coded = np.array(b2fs(r["coded"])).reshape(-1, 2)  # floor(le) + 1 - le capped by w: the code
            doc = np.array(b2fs(r["doc"])).reshape(-1, 2)  # overlap of the footprint with its first bin (C04_xray3d_split)
            if not _close(coded, doc, 1e-12):
                raise common.Infra("model: x3ToNext and x3Overlap differ")
            ul_ind, ulw, urw, llw, lrw = XRayTransform3D._calc_weights(tuple(sh), jnp.asarray(op.matrices[v]), tuple(det))
            got = np.stack([np.asarray(a, dtype=np.float64).ravel() for a in (ulw, urw, llw, lrw)], 1)
            want = np.stack([doc[:, 0] * doc[:, 1], (0.5 - doc[:, 0]) * doc[:, 1], doc[:, 0] * (0.5 - doc[:, 1]), (0.5 - doc[:, 0]) * (0.5 - doc[:, 1])], 1) * 4
            ctx.count("xray3d-footprint-splits")
            if not _close(got, want, 1e-6):
                ctx.disagree("linops.XRayTransform3D.weights", dict(case, view=v), _summ(got), _summ(want), oracle=oracle,
                             note="weights of the four detector pixels differ from the documented footprint split (Lean x3Overlap)")
                return False
    # (c) the four-pixel scatter of the Lean model (xray3Project / xray3Matrix) on the footprints of each view, and mass
    #     conservation per view when the detector covers every footprint (hypothesis of C04_xray3d_mass, decided by the model)
    x = np.abs(common.dyadic(ctx.rng, tuple(sh), bits=3, scale=2.0)) + 0.125
    y = np.asarray(op(opgrid.unflat(x.ravel(), op.input_shape, np.float64)))
    nd = _prod(det)
    for v in range(le.shape[0]):
        covered = bool(np.all(le[v] >= 0) and np.all(le[v][:, 0] + 0.5 <= det[0]) and np.all(le[v][:, 1] + 0.5 <= det[1]))
        if exact_or_far and _prod(sh) <= 48:
            r = lean.m.call("xray3", le0=fs2b(le[v][:, 0]), le1=fs2b(le[v][:, 1]), w=f2b(0.5), d0=det[0], d1=det[1], x=fs2b(x.ravel()))
            ctx.count("xray3d-scatter-model")
            Mv, Dv = _mat(r["mat"]), _mat(r["doc"])
            if not _close(Mv, Dv, 1e-12):
                raise common.Infra("model: xray3Project and xray3Matrix differ")
            if r["covered"] != covered:
                raise common.Infra("model and adapter disagree on the covering hypothesis")
            if not _close(R[v * nd:(v + 1) * nd], Mv, tol):
                ctx.disagree("linops.XRayTransform3D.scatter", dict(case, view=v), _summ(R[v * nd:(v + 1) * nd]), _summ(Mv), oracle=oracle,
                             note="four-pixel scatter of the Lean model on the documented footprints differs from the real projector")
                return False
            if covered and not common.close(b2f(r["mass_out"]), b2f(r["mass_in"]), x.size):
                raise common.Infra("model: covered view does not conserve mass (contradicts C04_xray3d_mass)")
        if not covered:
            ctx.count("xray3d-detector-does-not-cover")
            continue
        ctx.count("xray3d-mass-hypothesis-holds")
        if not common.close(float(y[v].sum()), float(x.sum()), 1000 * x.size):
            ctx.disagree("linops.XRayTransform3D.mass", dict(case, view=v), float(y[v].sum()), float(x.sum()), oracle=oracle,
                         note="the detector covers every voxel footprint but the view does not conserve the total mass")
            return False
    return True


def dft_checks(ctx, lean, oracle, c, op, case):
    import linops_ref
    import opgrid

    # constructor bookkeeping
    try:
        r = lean.m.call("dftinit", shape=c["shape"], axes=c["axes"], axes_shape=c["axes_shape"])
    except ModelErr as e:
        ctx.disagree("linops.DFT.init", case, "constructs", e.kind)
        return
    impl = {"axes": None if op.axes is None else [int(a) for a in op.axes], "output_shape": [int(s) for s in op.output_shape],
            "inv_axes_shape": None if op.inv_axes_shape is None else [int(s) for s in op.inv_axes_shape]}
    mdl = {k: r[k] for k in impl}
    ctx.count("dft-bookkeeping")
    if impl != mdl:
        ctx.disagree("linops.DFT.init", dict(case, check="inverse"), impl, mdl, oracle=_inv_oracle, note="axes / output_shape / inv_axes_shape bookkeeping differs")
        return
    # forward transform from the Lean 1-d matrices
    axes, ash = linops_ref.dft_axes(c)
    cur = list(c["shape"])
    D = np.eye(_prod(cur), dtype=complex)
    for a, m in zip(axes, ash):
        W = _cmat(lean.m.call("dft1", n=cur[a], m=m, norm=c["norm"] or "backward", inv=False))
        D = linops_ref.kron_axis(cur, a, W) @ D
        cur[a] = m
    R = opgrid.dense(op, dtype=np.complex128)
    if not _close(R, D, 1e-9):
        ctx.disagree("linops.DFT.matrix", case, _summ(R), _summ(D), oracle=oracle, note="Lean 1-d DFT matrices lifted to the axes differ from the real operator")
        return
    if all(m == c["shape"][a] for a, m in zip(axes, ash)) and _prod(c["shape"]) <= 12 and len(set(axes)) == len(axes):
        # the N-d definition of C04_dft_axes_inv (any subset of the axes, transform size = input size): forward and inverse
        kw = dict(dims=c["shape"], axes=sorted(axes), norm=c["norm"] or "backward")
        Dn = _cmat(lean.m.call("dftaxes", inv=False, **kw))
        Di_n = _cmat(lean.m.call("dftaxes", inv=True, **kw))
        ctx.count("dft-nd-definition")
        if not (_close(R, Dn, 1e-9) and _close(Di_n @ Dn, np.eye(Dn.shape[0]), 1e-9)):
            ctx.disagree("linops.DFT.nd", case, _summ(R), _summ(Dn), oracle=oracle, note="N-d DFT definition of the model differs from the real operator")
            return
        if sorted(axes) == list(range(len(c["shape"]))):  # all axes: the definition of C04_dft_nd_inv must agree
            if not _close(_cmat(lean.m.call("dftnd", dims=c["shape"], norm=c["norm"] or "backward", inv=False)), Dn, 1e-12):
                raise common.Infra("model: dftNd and dftAxes differ")
    # the N-d definitions of the model for ANY axes_shape (zero padding and truncation): forward map, inverse as coded
    # (crop / pad of the spectrum), documented inverse (C04_dft_nd_inv_documented)
    nd_mats = None
    if _prod(op.output_shape) <= 16 and _prod(c["shape"]) <= 16 and len(set(axes)) == len(axes):
        ms = list(c["shape"])
        for a, m in zip(axes, ash):
            ms[a] = m
        rr = lean.m.call("dftpad", ns=c["shape"], ms=ms, axes=sorted(axes), norm=c["norm"] or "backward")
        nd_mats = {k: _cmat(rr[k]) for k in ("fwd", "inv_coded", "inv_doc")}
        ctx.count("dft-nd-padded-definition")
        if not _close(R, nd_mats["fwd"], 1e-9):
            ctx.disagree("linops.DFT.nd_padded", case, _summ(R), _summ(nd_mats["fwd"]), oracle=oracle, note="N-d padded DFT of the model (dftFwdPad) differs from the real operator")
            return
        if all(m >= c["shape"][a] for a, m in zip(axes, ash)):  # no truncation: hypothesis FitsPad of C04_dft_nd_inv_documented
            if not _close(nd_mats["inv_doc"], linops_ref.dft_inverse_documented(c), 1e-9):
                raise common.Infra("model: documented N-d inverse differs from the numpy formula")
            if not _close(nd_mats["inv_doc"] @ nd_mats["fwd"], np.eye(R.shape[1]), 1e-9):
                raise common.Infra("model: documented inverse does not undo the padded transform (contradicts C04_dft_nd_inv_documented)")
    # inverse as coded (crop / pad of the spectrum) from the Lean model
    n_out = _prod(op.output_shape)
    Rinv = opgrid.dense(op, fn=None, dtype=np.complex128) if False else None
    cols = []
    for j in range(n_out):
        e = np.zeros(n_out, dtype=np.complex128)
        e[j] = 1
        cols.append(np.asarray(op.inv(e.reshape(op.output_shape))).ravel())
    Rinv = np.stack(cols, 1)
    if tuple(np.asarray(op.inv(np.zeros(op.output_shape, dtype=np.complex128))).shape) != tuple(r["inv_shape"]):
        ctx.disagree("linops.DFT.inv_shape", case, list(Rinv.shape), r["inv_shape"], oracle=oracle)
        return
    Di = np.eye(n_out, dtype=complex)
    cur = list(op.output_shape)
    for a, m in zip(axes, ash):
        n = c["shape"][a]
        W = _cmat(lean.m.call("dft1", n=n, m=m, norm=c["norm"] or "backward", inv=True))
        Di = linops_ref.kron_axis(cur, a, W) @ Di
        cur[a] = n
    ctx.count("dft-inverse-as-coded")
    if nd_mats is not None and not _close(nd_mats["inv_coded"], Di, 1e-9):
        raise common.Infra("model: N-d coded inverse (dftInvCodedNd) differs from the lifted 1-d matrices")
    if not _close(Rinv, Di, 1e-9):
        # property oracle for the inverse: inv(eval(x)) = x (only meaningful when the transform size equals the input size;
        # the zero-padded case is the known finding dft-inv-padded)
        same = all(m == c["shape"][a] for a, m in zip(axes, ash))
        ctx.disagree("linops.DFT.inv_model", dict(case, check="inverse") if same else case, _summ(Rinv), _summ(Di),
                     oracle=_inv_oracle if same else oracle, note="model of DFT.inv (as coded) differs from the real inv")
        return
    # the property: inv undoes eval whenever no axis is truncated
    if all(m >= c["shape"][a] for a, m in zip(axes, ash)):
        ctx.count("dft-inverse-property")
        icase = dict(case, check="inverse")
        if not _close(Rinv @ R, np.eye(R.shape[1]), 1e-9):
            ctx.disagree("linops.DFT.inverse", icase, _summ(Rinv @ R), "identity", oracle=lambda cs: _inv_oracle(cs), known_id=classify("DFT", c, "inverse"),
                         note="DFT.inv does not undo DFT although no axis is truncated")


def _inv_oracle(case):
    """inv(eval(x)) = x on random inputs"""
    import opgrid

    op = opgrid.build("DFT", case["config"])
    rng = np.random.Generator(np.random.PCG64(777))
    x = common.dyadic(rng, tuple(case["config"]["shape"]), bits=3, scale=2.0) + 0j
    back = np.asarray(op.inv(op(x)))
    if back.shape != x.shape or not _close(back, x, 1e-9):
        return {"class": "DFT", "config": case["config"], "x": [str(v) for v in x.ravel().tolist()], "inv_of_eval": [str(v) for v in back.ravel().tolist()]}
    return None


def optics_checks(ctx, lean, oracle, name, c, op, case):
    import linops_ref
    import opgrid

    if c["pad_factor"] == 1:
        # C04_propagator_semigroup on the implementation: z = 0 is the identity, and A(z/2) A(z/2) = A(z)
        n = _prod(c["shape"])
        A0 = opgrid.dense(opgrid.build(name, dict(c, z=0.0)))
        Ah = opgrid.dense(opgrid.build(name, dict(c, z=c["z"] / 2)))
        Az = opgrid.dense(op)
        ctx.count("optics-semigroup")
        if not (_close(A0, np.eye(n), 2e-5) and _close(Ah @ Ah, Az, 1e-4)):
            ctx.disagree(f"linops.{name}.semigroup", case, _summ(Ah @ Ah), _summ(Az), oracle=oracle,
                         note="propagation over z = 0 is not the identity or two half steps differ from one full step")
            return

    sh = [c["pad_factor"] * s for s in c["shape"]]
    dx = linops_ref._dxs(c)
    kp = np.asarray(op.kp, dtype=np.float64)
    ctx.count("optics-frequency-grid")
    if len(sh) == 2:
        r = lean.m.call("kp", n0=sh[0], n1=sh[1], d0=f2b(dx[0]), d1=f2b(dx[1]))
        doc = _mat(r["doc"])
    else:
        r = lean.m.call("freq", n=sh[0], d=f2b(dx[0]))
        if b2fs(r["fftfreq"]) != b2fs(r["signed"]):
            raise common.Infra("model: fftfreq and signedFreq differ")
        doc = 2 * np.pi * np.array(b2fs(r["fftfreq"]))
        ref = np.fft.fftfreq(sh[0], dx[0])
        if not _close(np.array(b2fs(r["fftfreq"])), ref, 1e-12):
            raise common.Infra("model fftfreq differs from numpy.fft.fftfreq")
    if kp.shape != doc.shape or not _close(kp, doc, 1e-9):
        ctx.disagree(f"linops.{name}.freq_grid", case, _summ(kp), _summ(doc), oracle=oracle,
                     note="transverse frequency grid differs from the documented axis assignment")


# --------------------------------------------------------------------------


def generate(ctx):
    """tables of the source (constructor defaults, option sets, constants, exported classes) -> Scico/Generated/LinOpsTables.lean"""
    import linops_translate

    return linops_translate.generate(ctx)


def _corpus():
    d = common.CORPUS_DIR / PROP
    out = []
    if d.exists():
        for f in sorted(d.glob("*.json")):
            j = json.loads(f.read_text())
            out.append((f.name, j))
    return out


def correspond(ctx, model):
    common.setup_scico()
    warnings.simplefilter("ignore")
    import opgrid

    lean = Lean(model, ctx.rng)
    lean.ctx = ctx
    oracle = make_oracle()
    # corpus first
    for fname, j in _corpus():
        if "class" not in j:
            continue
        name, c = j["class"], j["config"]
        try:
            op = opgrid.build(name, c)
        except Exception as e:  # noqa: BLE001
            op = e
        ctx.count("corpus")
        check_config(ctx, lean, oracle, name, c, op)
    ctx.exhaustive = bool(ctx.thorough)
    # constants read from the source by the translator (pinned by the generated obligation constants_eq): the grid must
    # contain volumes with more slices than one slab of XRayTransform3D._project
    import linops_translate

    consts = dict(linops_translate.extract()[2])
    slab = int(consts["XRayTransform3D._project.MAX_SLICE_LEN"])
    if not any(c["shape"][0] > slab for c in opgrid.grid("XRayTransform3D", np.random.Generator(np.random.PCG64(0)))):
        raise common.Infra(f"grid has no XRayTransform3D volume with more than MAX_SLICE_LEN = {slab} slices")
    ctx.extra["source_constants"] = consts
    sizes = {}
    for name in opgrid.CLASSES:
        k = 20 if name in MODELLED else 7  # quick tier: larger sample for the classes inside the Lean model
        for _, c, op in opgrid.iter_configs(ctx.rng, ctx.thorough, classes=[name], on_error="yield", per_class=k):
            sizes[name] = sizes.get(name, 0) + 1
            check_config(ctx, lean, oracle, name, c, op)
    ctx.extra["grid"] = {"classes": len(sizes), "configs_per_class": sizes, "whole_grid": bool(ctx.thorough)}
    malformed(ctx, lean)
    default_precision_stream(ctx)


def default_precision_stream(ctx):
    """the library's DEFAULT mode (no jax_enable_x64; float32 / complex64 data): a worker subprocess builds a sample of the
    grid, evaluates every operator and its adjoint once and compares the evaluation with the documented map at relative
    tolerance 1e-4 — "never fails for a conforming input" in default precision"""
    import subprocess
    import sys

    import opgrid

    k = 6 if ctx.thorough else 2
    items = []
    for name in opgrid.CLASSES:
        g = [c for c in opgrid.grid(name, ctx.rng) if not (classify(name, c) is not None and ctx.is_known(classify(name, c)))]
        sel = ctx.rng.choice(len(g), size=min(k, len(g)), replace=False)
        items += [[name, g[int(i)]] for i in sorted(sel.tolist())]
    p = subprocess.run([sys.executable, str(common.VERIF / "harness" / "linops_f32_worker.py")], input=json.dumps({"repo": str(common.REPO), "items": items, "seed": ctx.seed}),
                       capture_output=True, text=True, env={k_: v for k_, v in os.environ.items() if k_ != "JAX_ENABLE_X64"})
    if p.returncode != 0:
        raise common.Infra("default-precision worker failed: " + p.stderr[-800:])
    for rec in json.loads(p.stdout)["results"]:
        ctx.case({"default_precision": rec["class"], "config": rec["config"]}, "f32:" + rec["class"] + ":" + json.dumps(rec["config"], sort_keys=True))
        ctx.count("default-precision-operator")
        if rec.get("raised") or not rec.get("eval_ok") or not rec.get("adj_ok"):
            ctx.disagree(f"linops.{rec['class']}.default_precision", {"class": rec["class"], "config": rec["config"], "mode": "float32 (jax_enable_x64 off)"},
                         {k_: v for k_, v in rec.items() if k_ not in ("class", "config")}, "evaluates, adjoint evaluates, equals the documented map within 1e-4",
                         oracle=lambda case, rec=rec: dict(rec, mode="float32 (jax_enable_x64 off)"))


def malformed(ctx, lean):
    """boundary / malformed stream: invalid option combinations are rejected by code and model alike"""
    from scico import linop

    bad = [
        ("fd", dict(prepend=0, append=None, circular=True)),
        ("fd", dict(prepend=None, append=1, circular=True)),
    ]
    for _, kw in bad:
        try:
            linop.SingleAxisFiniteDifference((4,), input_dtype=np.float64, **kw)
            impl = "ok"
        except Exception as e:  # noqa: BLE001
            impl = common.err_kind(e)
        try:
            lean.m.call("op1", spec=dict(kind="fd", n=4, **kw), xs=[])
            mdl = "ok"
        except ModelErr as e:
            mdl = e.kind
        ctx.case({"malformed": kw}, None)
        ctx.count("malformed:fd-circular-with-extension")
        if impl != mdl:
            ctx.disagree("linops.fd.reject", {"class": "SingleAxisFiniteDifference", "config": kw}, impl, mdl)
    import jax.numpy as jnp

    def _accepts(f):
        try:
            f()
            return True
        except Exception:  # noqa: BLE001
            return False

    conv_bad = [
        ("circinit", dict(hshape=[3], shape=[4], ndims=None, h_is_dft=True, has_center=True, hdtype="complex128", dtype="float64"),
         lambda: linop.CircularConvolve(jnp.ones(4, dtype=np.complex128), (4,), input_dtype=np.float64, h_is_dft=True, h_center=[0])),
        ("circinit", dict(hshape=[2, 3], shape=[3, 4], ndims=1, h_is_dft=False, has_center=False, hdtype="float64", dtype="float64"),
         lambda: linop.CircularConvolve(jnp.ones((2, 3)), (3, 4), ndims=1, input_dtype=np.float64)),
        ("circinit", dict(hshape=[1, 3], shape=[3, 4], ndims=1, h_is_dft=False, has_center=True, hdtype="float64", dtype="float64"),
         lambda: linop.CircularConvolve(jnp.ones((1, 3)), (3, 4), ndims=1, input_dtype=np.float64, h_center=[1])),
        ("convinit", dict(hndim=1, ndim=2, mode="full", hdtype="float64", dtype="float64"),
         lambda: linop.Convolve(jnp.ones(3), (3, 4), input_dtype=np.float64)),
        ("convinit", dict(hndim=2, ndim=2, mode="circular", hdtype="float64", dtype="float64"),
         lambda: linop.Convolve(jnp.ones((2, 2)), (3, 4), input_dtype=np.float64, mode="circular")),
        ("convinit", dict(hndim=2, ndim=2, mode="same", hdtype="float64", dtype="float64"),
         lambda: linop.ConvolveByX(jnp.ones((2, 2)), (3, 4), input_dtype=np.float64, mode="same")),
    ]
    for opn, kw, build in conv_bad:
        impl = _accepts(build)
        try:
            lean.m.call(opn, **kw)
            mdl = True
        except ModelErr:
            mdl = False
        ctx.case({"malformed": {opn: kw}}, None)
        ctx.count("malformed:conv-constructor")
        if impl != mdl:
            ctx.disagree("linops.conv.reject", {"class": "CircularConvolve" if opn == "circinit" else "Convolve", "config": kw}, impl, mdl)
    from scico.numpy.util import normalize_axes

    for axes in [(-5,), (-3,), (0, -2), (0, 0), (2,), (), (0, -1), (-2, -1), None, (1,)]:
        try:
            impl = [int(a) for a in normalize_axes(axes, (2, 3))]
        except Exception as e:  # noqa: BLE001
            impl = common.err_kind(e)
        try:
            mdl = lean.m.call("normaxes", nd=2, axes=None if axes is None else list(axes))
        except ModelErr as e:
            mdl = e.kind
        ctx.case({"malformed": {"normalize_axes": None if axes is None else list(axes)}}, None)
        ctx.count("malformed:normalize-axes")
        # compared: accepted / rejected, and the normalised axes when accepted (not the kind or text of the error)
        if isinstance(impl, str) != isinstance(mdl, str) or (not isinstance(impl, str) and impl != mdl):
            ctx.disagree("linops.normalize_axes", {"class": "FiniteDifference", "check": "axes", "config": {"shape": [2, 3], "axes": None if axes is None else list(axes), "prepend": None, "append": None, "circular": False, "dtype": "float64"}},
                         impl, mdl, oracle=_axes_oracle)
    for axes, ash in [([0], [4, 4]), ([0, 1], [4]), ([-3], [4]), (None, [4, 4, 4])]:
        try:
            linop.DFT((4, 4), axes=None if axes is None else tuple(axes), axes_shape=tuple(ash))
            impl = "ok"
        except Exception as e:  # noqa: BLE001
            impl = common.err_kind(e)
        try:
            lean.m.call("dftinit", shape=[4, 4], axes=axes, axes_shape=ash)
            mdl = "ok"
        except ModelErr as e:
            mdl = e.kind
        ctx.case({"malformed": {"axes": axes, "axes_shape": ash}}, None)
        ctx.count("malformed:dft-axes-length")
        if (impl == "ok") != (mdl == "ok"):
            ctx.disagree("linops.DFT.reject", {"class": "DFT", "config": {"axes": axes, "axes_shape": ash}}, impl, mdl)


def _axes_oracle(case):
    """an axes argument outside [-ndim, ndim) (or repeated) must be rejected; if it is accepted the operator's declared
    output shape and the array it returns are compared"""
    import opgrid

    c = case["config"]
    nd = len(c["shape"])
    ax = c["axes"]
    bad = ax is not None and (len(ax) == 0 or any(not (-nd <= a < nd) for a in ax) or len({a % nd for a in ax}) != len(ax))
    if not bad:
        return None
    try:
        op = opgrid.build("FiniteDifference", c)
    except Exception:  # noqa: BLE001
        return None
    y = op(np.zeros(c["shape"]))
    return {"class": "FiniteDifference", "config": c, "accepted_invalid_axes": ax, "declared_output_shape": str(op.output_shape),
            "returned_shape": str(getattr(y, "shape", None))}


KNOWN_WITNESSES = {
    "dft-inv-padded": ("DFT", {"shape": [4], "axes": None, "axes_shape": [8], "norm": None}, "inverse"),
    "projgrad-cdiff-single-axis": ("ProjectedGradient", {"shape": [4], "axes": [0], "coord": [{"array": {"shape": [1, 4], "re": [0.0, 0.25, 1.5, 0.625], "im": None}}], "cdiff": True, "dtype": "float64"}, "matrix"),
}


def findings(ctx, model):
    common.setup_scico()
    oracle = make_oracle()
    for slug, (name, c, what) in KNOWN_WITNESSES.items():
        if not ctx.is_known(slug):
            continue
        case = {"class": name, "config": c, "check": what}
        r = _inv_oracle(case) if what == "inverse" else oracle(case)
        ctx.known_finding(slug, r is not None)


def search(ctx, model, why):
    """thorough tier: oracle (real operator vs independent numpy formula on random inputs) on a fresh sample of the grid
    and on randomly drawn configurations beyond the grid (continuous parameters, random index expressions, ...)"""
    common.setup_scico()
    warnings.simplefilter("ignore")
    import jax

    import linops_ref
    import opgrid

    oracle = make_oracle(rng_seed=ctx.seed + 99)
    if why is not None:
        # a generated obligation is broken: first exercise exactly the functions whose table rows differ
        r = targeted_panel(ctx, oracle)
        if r is not None:
            return r
    for name, c, op in opgrid.iter_configs(ctx.rng, False, on_error="yield", per_class=4):
        if classify(name, c) is not None and ctx.is_known(classify(name, c)):
            continue
        r = oracle({"class": name, "config": c})
        ctx.count("search-oracle")
        if r is not None:
            return r
    for k, (name, c) in enumerate(opgrid.random_configs(ctx.rng, 12)):
        if classify(name, c) is not None and ctx.is_known(classify(name, c)):
            continue
        # floor() is a contract: skip geometries in which a projected edge is within 1e-7 of a bin edge
        if name == "XRayTransform2D" and any(float(np.min(np.abs(linops_ref.xray2d_weights(c, a)[2] - np.round(linops_ref.xray2d_weights(c, a)[2])))) < 1e-7 for a in c["angles"]):
            continue
        if name == "XRayTransform3D":
            le = linops_ref.xray3d_left_edges(c)
            d1, d2 = np.abs(le - np.round(le)), np.abs(le + 0.5 - np.round(le + 0.5))
            if np.any((d1 > 0) & (d1 < 1e-6)) or np.any((d2 > 0) & (d2 < 1e-6)):
                continue
        r = oracle({"class": name, "config": c})
        ctx.count("search-random-config")
        if r is not None:
            return r
        if k % 60 == 59:
            jax.clear_caches()
    return None


# helper functions / option keys of the tables -> operator classes of the grid that exercise them
_ROW_CLASSES = {
    "normalize_axes": ["FiniteDifference", "FiniteSum", "HaarTransform"], "linop_over_axes": ["FiniteDifference", "FiniteSum"],
    "_linear_pad": ["Pad"], "linop_from_function": ["Pad", "Sum", "Transpose", "Reshape", "linop_from_function"], "pad": ["Pad"],
    "fd": ["SingleAxisFiniteDifference", "FiniteDifference"], "optics": ["AngularSpectrumPropagator", "FresnelPropagator", "FraunhoferPropagator"],
    "radial_transverse_frequency": ["AngularSpectrumPropagator", "FresnelPropagator"], "Propagator": ["AngularSpectrumPropagator", "FresnelPropagator"],
    "slice_length": ["Slice"], "indexed_shape": ["Slice"], "BiConvolve": ["Convolve", "ConvolveByX"],
}


def _table_rows(path):
    import re

    return set(re.findall(r'^\s*\((".*)\),?\s*$', path.read_text(), re.M))


def _row_strings(row):
    import re

    return [m.replace('\\"', '"') for m in re.findall(r'"((?:[^"\\]|\\.)*)"', row)]


def targeted_panel(ctx, oracle, limit=80):
    """rows of the generated tables that differ from the hand-written ones -> (a) for a changed DEFAULT: operators built
    with that argument OMITTED (so that the source's default acts) against the reference for the pinned default; (b) for
    any other row (option sets, constants, guards, attributes): the grid configurations of the classes that use the
    function.  Returns a failing input or None."""
    import ast as _ast
    import importlib

    import jax

    import opgrid

    gen = _table_rows(common.LEAN_DIR / "Scico" / "Generated" / "LinOpsTables.lean")
    hand = _table_rows(common.LEAN_DIR / "Scico" / "Proofs" / "LinOpsTables.lean")
    diff = [(_row_strings(r), r in hand) for r in sorted(gen ^ hand)]
    diff = [(st, pinned) for st, pinned in diff if st]
    ctx.extra["generated_rows_differing"] = [st for st, _ in diff][:20]
    classes, omit = [], []
    for st, pinned in diff:
        head = st[0].split(".")[0]
        cl = _ROW_CLASSES.get(head, _ROW_CLASSES.get(st[0].split(".")[-1] if "." in st[0] else st[0], [head]))
        for k in cl:
            if k in opgrid.CLASSES and k not in classes:
                classes.append(k)
        if pinned and len(st) == 3 and st[0].endswith("__init__"):  # a pinned default (function, argument, value) that the source no longer has
            try:
                omit.append((head, st[1], _ast.literal_eval(st[2])))
            except Exception:  # noqa: BLE001  (dtype / non-literal defaults are not behaviour of the map)
                pass
    mods = ["scico.linop", "scico.linop.xray", "scico.linop.optics", "scico.linop.abel", "scico.functional._tvnorm"]
    rng = np.random.Generator(np.random.PCG64(ctx.seed + 7))
    n = 0
    for cname, arg, val in omit:
        cls = next((getattr(importlib.import_module(m), cname) for m in mods if hasattr(importlib.import_module(m), cname)), None)
        if cls is None or cname not in opgrid.CLASSES:
            continue
        orig = cls.__init__

        def init(self, *a, _orig=orig, _arg=arg, _val=val, **k):
            if _arg in k and (k[_arg] == _val if not isinstance(k[_arg], (list, tuple, np.ndarray)) else False):
                k.pop(_arg)  # let the default of the source act
            return _orig(self, *a, **k)

        cls.__init__ = init
        try:
            for c in opgrid.grid(cname, rng)[:limit]:
                r = oracle({"class": cname, "config": c})
                ctx.count("search-targeted-default")
                n += 1
                if r is not None:
                    return dict(r, default_omitted=arg, pinned_default=repr(val))
        finally:
            cls.__init__ = orig
    for cname in classes:
        for k, c in enumerate(opgrid.grid(cname, rng)[:limit]):
            if classify(cname, c) is not None and ctx.is_known(classify(cname, c)):
                continue
            r = oracle({"class": cname, "config": c})
            ctx.count("search-targeted-class")
            if r is not None:
                return r
            if k % 60 == 59:
                jax.clear_caches()
    return None


def replay(ctx, model, case):
    common.setup_scico()
    warnings.simplefilter("ignore")
    c = case.get("case", case)
    r = _inv_oracle(c) if c.get("check") == "inverse" else (_axes_oracle(c) if c.get("check") == "axes" else make_oracle()(c))
    print("replay:", "property FAILS on implementation:" if r else "no failure at this input", json.dumps(r)[:600] if r else "")
    if r:
        ctx.violation({"kind": "failing-input", "case": c, "failing": r}, True, "replay")
