"""Operator generators with known dense matrices for C17 (engine Estim)."""

from __future__ import annotations

import numpy as np

import common


def realview_mat(M):
    M = np.asarray(M)
    if np.iscomplexobj(M):
        return np.block([[M.real, -M.imag], [M.imag, M.real]]).astype(np.float64)
    return M.astype(np.float64)


def realview_vec(v):
    v = np.asarray(v).ravel()
    if np.iscomplexobj(v):
        return np.concatenate([v.real, v.imag]).astype(np.float64)
    return v.astype(np.float64)


def _dy(rng, shape, bits=2, scale=3.0):
    return common.dyadic(rng, shape, bits=bits, scale=scale)


OP_KINDS = ["diag-real", "diag-complex", "matrix-real", "matrix-complex", "rank-one", "zero", "scaled-identity",
            "identity", "jacobian", "gapped"]


def gen_operator(rng, kind=None):
    """returns (desc, build) : desc JSON-able {"kind", data...}; use build_operator(desc) to get the scico object"""
    k = kind or OP_KINDS[int(rng.integers(0, len(OP_KINDS)))]
    n = int(rng.integers(1, 5))
    m = int(rng.integers(1, 5))
    if k == "diag-real":
        return {"kind": k, "d": _dy(rng, (n,)).tolist()}
    if k == "diag-complex":
        return {"kind": k, "dre": _dy(rng, (n,)).tolist(), "dim": _dy(rng, (n,)).tolist()}
    if k == "matrix-real":
        return {"kind": k, "A": _dy(rng, (m, n)).tolist()}
    if k == "matrix-complex":
        return {"kind": k, "Are": _dy(rng, (m, n)).tolist(), "Aim": _dy(rng, (m, n)).tolist()}
    if k == "rank-one":
        u = _dy(rng, (m,))
        v = _dy(rng, (n,))
        return {"kind": "matrix-real", "A": np.outer(u, v).tolist(), "flavour": "rank-one"}
    if k == "zero":
        return {"kind": "matrix-real", "A": np.zeros((m, n)).tolist(), "flavour": "zero"}
    if k == "scaled-identity":
        return {"kind": k, "c": float(_dy(rng, ())), "n": n}
    if k == "identity":
        return {"kind": "scaled-identity", "c": 1.0, "n": n, "flavour": "identity"}
    if k == "gapped":
        # well separated largest singular value: diag(4, <=1, ...) times a signed permutation
        d = np.concatenate([[4.0], rng.integers(0, 5, size=n - 1) / 4.0])
        P = np.eye(n)[rng.permutation(n)] * rng.choice([-1.0, 1.0], size=(n, 1))
        return {"kind": "matrix-real", "A": (P @ np.diag(d)).tolist(), "flavour": "gapped"}
    # jacobian of x -> W sin(x) + x*x at u
    return {"kind": "jacobian", "W": _dy(rng, (m, n)).tolist(), "u": _dy(rng, (n,), bits=2, scale=1.0).tolist(),
            "sq": bool(m == n and rng.integers(0, 2))}


def scaled(desc, k):
    """the same operator multiplied by 2^k (exact in binary arithmetic)"""
    f = float(2.0 ** k)
    d = dict(desc)
    for key in ("d", "dre", "dim", "A", "Are", "Aim", "W"):
        if key in d:
            d[key] = (np.asarray(d[key], dtype=np.float64) * f).tolist()
    if "c" in d:
        d["c"] = d["c"] * f
    if d["kind"] == "jacobian" and d.get("sq"):
        d["sq"] = False  # keep the map homogeneous in W
        d["unscaled_sq_dropped"] = True
    d["scale_k"] = int(k)
    if d.get("flavour") == "identity":
        d["flavour"] = "scaled"
    return d


def dense(desc):
    """the dense matrix of the operator described by `desc` (numpy; complex where the operator is)"""
    k = desc["kind"]
    if k == "diag-real":
        return np.diag(np.asarray(desc["d"], dtype=np.float64))
    if k == "diag-complex":
        return np.diag(np.asarray(desc["dre"]) + 1j * np.asarray(desc["dim"]))
    if k == "matrix-real":
        return np.asarray(desc["A"], dtype=np.float64)
    if k == "matrix-complex":
        return np.asarray(desc["Are"]) + 1j * np.asarray(desc["Aim"])
    if k == "scaled-identity":
        return desc["c"] * np.eye(desc["n"])
    if k == "jacobian":
        W = np.asarray(desc["W"], dtype=np.float64)
        u = np.asarray(desc["u"], dtype=np.float64)
        J = W @ np.diag(np.cos(u))
        if desc.get("sq"):
            J = J + 2.0 * np.diag(u)
        return J
    raise common.Infra(f"unknown operator kind {k}")


def build_operator(desc):
    """the real scico object; for kind 'jacobian' returns the non-linear Operator (and the point u via desc)"""
    import scico.numpy as snp
    from scico import linop, operator

    k = desc["kind"]
    if k == "diag-real":
        return linop.Diagonal(snp.array(np.asarray(desc["d"], dtype=np.float64)))
    if k == "diag-complex":
        return linop.Diagonal(snp.array(np.asarray(desc["dre"]) + 1j * np.asarray(desc["dim"])))
    if k == "matrix-real":
        return linop.MatrixOperator(snp.array(np.asarray(desc["A"], dtype=np.float64)))
    if k == "matrix-complex":
        return linop.MatrixOperator(snp.array(np.asarray(desc["Are"]) + 1j * np.asarray(desc["Aim"])))
    if k == "scaled-identity":
        if desc.get("flavour") == "identity":
            return linop.Identity((desc["n"],), input_dtype=np.float64)
        return linop.ScaledIdentity(desc["c"], (desc["n"],), input_dtype=np.float64)
    if k == "jacobian":
        W = snp.array(np.asarray(desc["W"], dtype=np.float64))
        sq = bool(desc.get("sq"))

        def F(x):
            y = W @ snp.sin(x)
            return y + x * x if sq else y

        m, n = W.shape
        return operator.Operator(input_shape=(n,), output_shape=(m,), eval_fn=F, input_dtype=np.float64, output_dtype=np.float64)
    raise common.Infra(f"unknown operator kind {k}")


def linear_of(desc):
    """a LinearOperator for any description (the Jacobian operator for kind 'jacobian')"""
    import scico.numpy as snp
    from scico.linop import jacobian

    op = build_operator(desc)
    if desc["kind"] == "jacobian":
        return jacobian(op, snp.array(np.asarray(desc["u"], dtype=np.float64)))
    return op


def make_key(k):
    import jax

    return None if k is None else jax.random.PRNGKey(int(k))


def start_vector(op, key):
    """the random start `power_iteration` draws (same call, same key)"""
    import scico.random

    v, _ = scico.random.randn(shape=op.input_shape, key=make_key(key), dtype=op.input_dtype)
    return np.asarray(v)
