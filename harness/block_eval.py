"""Helpers of the C13 adapter: symbolic terms of the Block driver <-> real jax values.

A *term* is the JSON form of `Sym` in lean/Drv/Block.lean:
  {"a": name} | {"c": fn, "args": [...], "kw": [[k, term], ...]} | {"b": [...]} | {"cat": [...]}
  | {"as": term} | {"shape": tree}
`Evaluator.ev` gives its real meaning with jax (the per-block computations the model says the
wrappers perform); `run2` implements the two-request protocol (empty table -> learn the calls;
complete table -> the end-to-end model run that is compared with scico).
"""

from __future__ import annotations

import functools
import json
import warnings

import numpy as np

import common
from common import ModelErr


class Raised(Exception):
    def __init__(self, kind, exc):
        super().__init__(kind)
        self.kind = kind
        self.exc = exc


NI = object()  # NotImplemented marker


def A(name):
    return {"a": name}


def tkey(t):
    return json.dumps(t, sort_keys=True, separators=(",", ":"))


def shape_tree(s):
    """python shape (int / nested tuples / lists) -> JSON tree"""
    if isinstance(s, (list, tuple)):
        return [shape_tree(x) for x in s]
    return int(s)


def tree_shape(t):
    if isinstance(t, list):
        return tuple(tree_shape(x) for x in t)
    return int(t)


class Evaluator:
    def __init__(self, atoms, resolve):
        import jax.numpy as jnp

        self.jnp = jnp
        self.atoms = atoms
        self.resolve = resolve
        self.memo = {}

    def ev(self, t):
        """-> ("ok", value) | ("ni", None) | (error kind, None)"""
        k = tkey(t)
        if k not in self.memo:
            try:
                with warnings.catch_warnings():
                    warnings.simplefilter("ignore")
                    v = self._ev(t)
                self.memo[k] = ("ni", None) if v is NotImplemented else ("ok", v)
            except Raised as r:
                self.memo[k] = (r.kind, None)
        return self.memo[k]

    def val(self, t):
        st, v = self.ev(t)
        if st != "ok":
            raise Raised(st, None)
        return v

    def _ev(self, t):
        jnp = self.jnp
        if "a" in t:
            return self.atoms[t["a"]]
        if "shape" in t:
            return tree_shape(t["shape"])
        if "b" in t:
            from scico.numpy import BlockArray

            return BlockArray([self.val(x) for x in t["b"]])
        if "cat" in t:
            vals = [self.val(x) for x in t["cat"]]
            try:
                return jnp.concatenate(vals)
            except Exception as e:  # noqa: BLE001
                raise Raised(common.err_kind(e), e) from e
        if "as" in t:
            v = self.val(t["as"])
            try:
                return jnp.array(v)
            except Exception as e:  # noqa: BLE001
                raise Raised(common.err_kind(e), e) from e
        if "c" in t:
            f = self.resolve(t["c"])
            args = [self.val(x) for x in t["args"]]
            kw = {k: self.val(v) for k, v in t["kw"]}
            try:
                return f(*args, **kw)
            except Exception as e:  # noqa: BLE001
                raise Raised(common.err_kind(e), e) from e
        raise common.Infra(f"bad term {t}")


def is_arr(v):
    import jax.numpy as jnp

    return isinstance(v, jnp.ndarray)


def dt_str(v):
    try:
        return str(v.dtype)
    except Exception:  # noqa: BLE001
        return "-"


def val_json(v, name):
    """real argument -> request value + atoms (BlockArray -> blocks name#i)"""
    from scico.numpy import BlockArray

    if isinstance(v, BlockArray):
        return {"b": [A(f"{name}#{i}") for i in range(len(v))]}, {f"{name}#{i}": v[i] for i in range(len(v))}
    return {"o": A(name)}, {name: v}


def run2(model, op, fields, evaluator):
    """two-request protocol.  -> ("err", kind) | ("ok", res_json)"""
    try:
        r1 = model.call(op, **fields, tab=[])
    except ModelErr as e:
        return ("err", e.kind)
    tab = []
    seen = set()
    for ent in r1["terms"]:
        k = ent["k"]
        if k in seen:
            continue
        seen.add(k)
        st, v = evaluator.ev(ent["t"])
        tab.append({"k": k, "st": st, "arr": bool(st == "ok" and is_arr(v)), "dt": dt_str(v) if st == "ok" else "-"})
        if st == "ok" and not is_arr(v):
            st2, v2 = evaluator.ev({"as": ent["t"]})
            tab.append({"k": ent["ask"], "st": st2, "arr": True, "dt": dt_str(v2) if st2 == "ok" else "-"})
    try:
        r2 = model.call(op, **fields, tab=tab)
    except ModelErr as e:
        return ("err", e.kind)
    miss = [m for m in r2["missing"] if m not in seen and not any(m == e["k"] for e in tab)]
    if miss:
        raise common.Infra(f"model consulted calls outside the table: {miss[:3]}")
    return ("ok", r2["res"])


def same(a, b, exact=True):
    """structural equality of real results (values, shapes, dtypes)"""
    from scico.numpy import BlockArray

    if isinstance(a, BlockArray) or isinstance(b, BlockArray):
        if not (isinstance(a, BlockArray) and isinstance(b, BlockArray)) or len(a) != len(b):
            return False
        return all(same(x, y, exact) for x, y in zip(a.arrays, b.arrays))
    if isinstance(a, (tuple, list)) or isinstance(b, (tuple, list)):
        if not (isinstance(a, (tuple, list)) and isinstance(b, (tuple, list))) or len(a) != len(b):
            return False
        return all(same(x, y, exact) for x, y in zip(a, b))
    if a is None or b is None:
        return a is b
    if hasattr(a, "shape") or hasattr(b, "shape"):
        if not (hasattr(a, "shape") and hasattr(b, "shape")):
            return False
        try:
            aa, bb = np.asarray(a), np.asarray(b)
        except Exception:  # noqa: BLE001  (e.g. PRNG key arrays)
            return type(a) is type(b)
        if aa.shape != bb.shape or aa.dtype != bb.dtype:
            return False
        if aa.dtype == object:
            return True
        if np.array_equal(aa, bb, equal_nan=aa.dtype.kind in "fc"):
            return True
        if not exact and aa.dtype.kind in "fc":
            return bool(np.allclose(aa, bb, rtol=1e-9, atol=1e-12, equal_nan=True))
        return False
    try:
        return bool(a == b)
    except Exception:  # noqa: BLE001
        return type(a) is type(b)


def describe(v):
    from scico.numpy import BlockArray

    if isinstance(v, BlockArray):
        return {"BlockArray": [describe(x) for x in v.arrays]}
    if isinstance(v, (tuple, list)):
        return [describe(x) for x in v]
    if hasattr(v, "shape") and hasattr(v, "dtype"):
        try:
            a = np.asarray(v)
            return {"shape": list(a.shape), "dtype": str(a.dtype), "v": a.ravel()[:6].tolist() if a.dtype.kind in "fiub" else str(a.ravel()[:4])}
        except Exception:  # noqa: BLE001
            return repr(type(v))
    return repr(v)[:80]


def getpath(mod, dotted):
    return functools.reduce(getattr, dotted.split("."), mod)
