"""Translator of C20 (engine Flax): the parts of the scico sources that `Scico.Model.Flax` copies, regenerated into
`lean/Scico/Generated/FlaxTables.lean` on every run.

  sources         normalised source (ast.unparse, docstrings and comments dropped) of every function the model follows line by line:
                  FlaxMap.__call__, load/save_variables, IterateData.__init__/reset/__next__, checkpoint_save/restore,
                  BasicFlaxTrainer.configure_steps / initialize_training_state / train / checkpoint
                  obligation `sources_eq_model`: equals `Scico.Flax.codeSources` (hand-written next to the model definitions)
  constants       values the model uses as numbers: `max_to_keep`, `create`, item names of the checkpoint manager, the factors of the
                  default checkpoint / log periods, the axes squeezed by FlaxMap, the default PRNG seed of IterateData
                  obligation `constants_eq_model`: equal the model's constants (`codeMaxToKeep`, `codeSpcFactor`, `codeLogFactor`,
                  `codeSqueeze2`, `codeSqueeze3`, …)
"""

from __future__ import annotations

import ast
from pathlib import Path

import common
from cache_translate import _s, function_lines, lean_sources

PINNED = [
    ("FlaxMap.__call__", "scico/flax/_flax.py", "FlaxMap.__call__"),
    ("load_variables", "scico/flax/_flax.py", "load_variables"),
    ("save_variables", "scico/flax/_flax.py", "save_variables"),
    ("IterateData.__init__", "scico/flax/train/input_pipeline.py", "IterateData.__init__"),
    ("IterateData.reset", "scico/flax/train/input_pipeline.py", "IterateData.reset"),
    ("IterateData.__next__", "scico/flax/train/input_pipeline.py", "IterateData.__next__"),
    ("create_input_iter", "scico/flax/train/input_pipeline.py", "create_input_iter"),
    ("checkpoint_restore", "scico/flax/train/checkpoints.py", "checkpoint_restore"),
    ("checkpoint_save", "scico/flax/train/checkpoints.py", "checkpoint_save"),
    ("BasicFlaxTrainer.configure_steps", "scico/flax/train/trainer.py", "BasicFlaxTrainer.configure_steps"),
    ("BasicFlaxTrainer.initialize_training_state", "scico/flax/train/trainer.py", "BasicFlaxTrainer.initialize_training_state"),
    ("BasicFlaxTrainer.train", "scico/flax/train/trainer.py", "BasicFlaxTrainer.train"),
    ("BasicFlaxTrainer.checkpoint", "scico/flax/train/trainer.py", "BasicFlaxTrainer.checkpoint"),
]


def _func(repo, rel, qual):
    t = ast.parse((Path(repo) / rel).read_text())
    node = t
    for part in qual.split("."):
        node = next(b for b in ast.walk(node) if isinstance(b, (ast.FunctionDef, ast.ClassDef)) and b.name == part and b is not node)
    return node


def scan_constants(repo):
    repo = Path(repo)
    c = {}
    sv = _func(repo, "scico/flax/train/checkpoints.py", "checkpoint_save")
    for n in ast.walk(sv):
        if isinstance(n, ast.Call) and getattr(n.func, "attr", "") == "CheckpointManagerOptions":
            for kw in n.keywords:
                c["save." + kw.arg] = ast.literal_eval(kw.value)
        if isinstance(n, ast.Call) and getattr(n.func, "attr", "") == "CheckpointManager":
            for kw in n.keywords:
                if kw.arg == "item_names":
                    c["save.item_names"] = list(ast.literal_eval(kw.value))
    rs = _func(repo, "scico/flax/train/checkpoints.py", "checkpoint_restore")
    for n in ast.walk(rs):
        if isinstance(n, ast.Call) and getattr(n.func, "attr", "") == "CheckpointManagerOptions":
            c["restore.options"] = sorted(kw.arg for kw in n.keywords)
    c["restore.ok_no_ckpt_default"] = ast.literal_eval(rs.args.defaults[-1])
    c["restore.raises"] = sorted({getattr(n.exc.func, "id", "?") for n in ast.walk(rs) if isinstance(n, ast.Raise) and isinstance(n.exc, ast.Call)})
    cs = _func(repo, "scico/flax/train/trainer.py", "BasicFlaxTrainer.configure_steps")
    for n in ast.walk(cs):
        tg = n.target if isinstance(n, ast.AnnAssign) else (n.targets[0] if isinstance(n, ast.Assign) else None)
        v = getattr(n, "value", None)
        if isinstance(tg, ast.Attribute) and isinstance(v, ast.BinOp) and isinstance(v.op, ast.Mult) and isinstance(v.right, ast.Constant) \
                and ast.unparse(v.left) == "self.steps_per_epoch":
            c["factor." + tg.attr] = v.right.value
    fm = _func(repo, "scico/flax/_flax.py", "FlaxMap.__call__")
    for n in ast.walk(fm):
        if isinstance(n, ast.If):
            for br in [n]:
                test = ast.unparse(br.test)
                for st in br.body:
                    if isinstance(st, ast.Assign) and ast.unparse(st.targets[0]) == "axsqueeze":
                        c["squeeze[" + test + "]"] = list(ast.literal_eval(st.value))
    it = _func(repo, "scico/flax/train/input_pipeline.py", "IterateData.__init__")
    for n in ast.walk(it):
        if isinstance(n, ast.Call) and getattr(n.func, "attr", "") == "PRNGKey":
            c["iter.default_seed"] = ast.literal_eval(n.args[0])
    tr = _func(repo, "scico/flax/train/trainer.py", "BasicFlaxTrainer.initialize_training_state")
    for n in ast.walk(tr):
        if isinstance(n, ast.Assign) and ast.unparse(n.targets[0]) == "ok_no_ckpt":
            c["trainer.ok_no_ckpt"] = ast.literal_eval(n.value)
    return c


def write(repo=None, out=None):
    repo = Path(repo or common.REPO)
    c = scan_constants(repo)
    out = Path(out or (Path(__file__).resolve().parent.parent / "lean" / "Scico" / "Generated" / "FlaxTables.lean"))
    nat = lambda k: str(int(c.get(k, 10**9)))  # noqa: E731
    nats = lambda k: "[" + ", ".join(str(int(v)) for v in c.get(k, [10**9])) + "]"  # noqa: E731
    strs = lambda k: "[" + ", ".join(_s(v) for v in c.get(k, ["<missing>"])) + "]"  # noqa: E731
    boo = lambda k: "true" if c.get(k) is True else "false"  # noqa: E731
    L = ["/-", "  GENERATED by harness/flax_translate.py from the scico sources (do not edit).", "-/", "import Scico.Model.Flax", "",
         "namespace Scico.Generated.FlaxTables", "open Scico.Flax", "",
         "def sources : List (String × List String) := " + lean_sources(repo, PINNED), "",
         "theorem sources_eq_model : (sources == codeSources) = true := by decide +kernel", "",
         "def maxToKeep : Nat := " + nat("save.max_to_keep"),
         "def createDir : Bool := " + boo("save.create"),
         "def itemNames : List String := " + strs("save.item_names"),
         "def restoreOptions : List String := " + strs("restore.options") if c.get("restore.options") else "def restoreOptions : List String := []",
         "def okNoCkptDefault : Bool := " + boo("restore.ok_no_ckpt_default"),
         "def restoreRaises : List String := " + strs("restore.raises"),
         "def trainerOkNoCkpt : Bool := " + boo("trainer.ok_no_ckpt"),
         "def spcFactor : Nat := " + nat("factor.steps_per_checkpoint"),
         "def logFactor : Nat := " + nat("factor.log_every_steps"),
         "def squeeze2 : List Nat := " + nats("squeeze[xndim == 2]"),
         "def squeeze3 : List Nat := " + nats("squeeze[xndim == 3]"),
         "def iterDefaultSeed : Nat := " + nat("iter.default_seed"), "",
         "theorem constants_eq_model :",
         "    (maxToKeep == codeMaxToKeep && createDir == true && itemNames == [\"state\", \"config\"] && restoreOptions == [] &&",
         "     okNoCkptDefault == false && restoreRaises == [\"FileNotFoundError\"] && trainerOkNoCkpt == true &&",
         "     spcFactor == codeSpcFactor && logFactor == codeLogFactor && squeeze2 == codeSqueeze2 && squeeze3 == codeSqueeze3 &&",
         "     iterDefaultSeed == codeIterDefaultSeed) = true := by decide +kernel", "",
         "end Scico.Generated.FlaxTables", ""]
    text = "\n".join(L)
    if not out.exists() or out.read_text() != text:
        out.write_text(text)
    return c


if __name__ == "__main__":
    import sys

    c = write(sys.argv[1] if len(sys.argv) > 1 else None, sys.argv[2] if len(sys.argv) > 2 else None)
    for k, v in sorted(c.items()):
        print(k, "=", v)
