"""C02 - proximal operators return the minimiser of lam*f(x) + 0.5*||x-v||^2.

Engine `Prox`: Lean model `Scico/Model/Prox.lean` (every closed-form prox as coded), theorems in
`Scico/Props/C02.lean` (sub-gradient certificate => unique minimiser, firm non-expansiveness; one theorem
per functional; exact characterisation of where the L0 hard threshold is optimal).
This adapter ties the model to the real code: every class x parameter grid x real/complex x plain/block
input, dyadic values, a dedicated boundary stream, and the optimality oracle on the implementation.
"""

from __future__ import annotations

import copy
import hashlib
import json
import math
import traceback
import warnings

import numpy as np

import common
import prox_cases as pc
import prox_gen as pg
import prox_translate

PROP = "C02"
CLAIMED = True
ENGINE = "Prox"
DESIGN_REF = "DESIGN.md §5.2"
TECHNIQUE = (
    "Lean 4 proofs in real inner-product spaces (sub-gradient certificate => unique minimiser, firm non-expansiveness; "
    "radial reduction + Cauchy-Schwarz; product spaces for separable/complex/block; direct global-minimiser proofs for the "
    "non-convex functionals; Cardano/trigonometric root of the depressed cubic as coded; nuclear-norm prox on matrices by "
    "Bessel + Cauchy-Schwarz) about an executable model of every closed-form prox; differential correspondence of the "
    "model with the real scico code incl. exact threshold ties, constructor guards, rescaling histories; certificate oracle "
    "on the implementation"
)
LEVEL_TEXT = (
    "Lean theorems: for every functional/loss with a closed-form prox (L1 real/complex, squared L2, L2, L2,1 over any "
    "grouping incl. the index-level grouping of l2_axis on N-d arrays, Huber separable/non-separable, non-negative and L2-ball "
    "indicators, (squared) distance to a convex set given its projector, zero functional, weighted squared-L2 loss with diagonal "
    "operator, generic Loss by translation, nuclear norm ON MATRICES given the SVD contract) the modelled prox carries the "
    "sub-gradient certificate for ALL v, lam>0, parameters and sizes, hence is the unique minimiser, firmly non-expansive and in "
    "the domain; global minimality is proved directly for the non-convex SquaredL2AbsLoss, SquaredL2SquaredAbsLoss (real and "
    "complex; the root of the depressed cubic is PROVED from the code's closed form outside its 1e-7 band) and L1-L2 (every "
    "beta>=0, all four branches and v=0); for L0Norm the theorem characterises exactly where the coded threshold is optimal "
    "and the negation is proved with a witness; the has_prox guards of the losses are decision-logic theorems; for a general linear "
    "operator the documented system characterises the prox and any approximate solution is within its residual norm of it (CG path); "
    "parameter edge cases (radius <= 0, delta < 0, scale < 0) are characterised."
)
LEVEL_NOTE = (
    "Trusted: Lean kernel + Mathlib (axioms propext, Classical.choice, Quot.sound); real-number idealisation of IEEE arithmetic; "
    "the correspondence (differential test, sampled) between model and code; that jnp.linalg.svd returns a thin SVD of its argument "
    "(hypotheses of C02_nuclear / C02_nuclear_complex, checked numerically on the factors of every case; no existence assumption: the norm is the dual of the operator norm); "
    "contracts angle=Complex.arg, exp/cos/sin, x**(1/3) and the polar form of the principal complex power (class HasTrig); "
    "inside the band 0<|p|<=1e-7 _dep_cubic_root is approximate by design (residual proved non-zero, effect O(1e-14) on the objective). "
    "Recorded defect: L0Norm threshold (known l0-threshold).  Found by this engine and repaired upstream: L2-ball projection (b3feb73), L1-L2 at v=0 (cda1690), float32 default weights (c5bbd78), L1-L2 on block arrays (d060cbd)."
)
PROP_MODULES = ["Scico.Props.C02"]
EXTRA_TARGETS = ["Drv.Prox"]
DRIVER = "Prox"
FILES = [
    "scico/solver.py",
    "scico/linop/_diag.py",
    "scico/functional/_tvnorm.py",
    "scico/functional/_proxavg.py",
    "scico/functional/_denoiser.py",
    "scico/functional/_norm.py",
    "scico/functional/_indicator.py",
    "scico/functional/_dist.py",
    "scico/functional/_functional.py",
    "scico/loss.py",
    "scico/numpy/util.py",
]
RULE = (
    "per family (18 classes/configurations, incl. the generic Loss wrapping a functional, and every loss after c*L, L/c, set_scale "
    "sequences, the ORIGINAL loss object re-evaluated after the history): structured cases from scico's constructors (parameter grids "
    "delta, beta, radius, l2_axis incl. tuples/negative axes on 1-4-d arrays, projector (also through the args tuple), scale, W, "
    "A in {None, Identity, Diagonal}; plain 1-4-d / block layouts; real / complex; float64 and float32) with dyadic v, lam, plus a "
    "boundary stream (magnitudes exactly on / one grid step beside each threshold, v=0, ||v||=r, inside / on / outside the set, zero "
    "weights, ties of the arg-max); exhaustive guard stream (W kind x A kind x sign of y for the three specific losses) and "
    "argument-rejection stream (NuclearNorm ndim, L21Norm block/axis, PoissonLoss); attribute-update histories on live objects; CG stream "
    "(MatrixOperator, tolerances, x0, call/set_scale histories); parameter edge stream (NaN-aware); firm non-expansiveness pairs. A case is non-trivial when the prox output is "
    "neither 0 nor v (a threshold is active) or it comes from the boundary / guard / reject stream; distinct by (family, parameters, "
    "layout, v, lam)."
)
ASSUMPTIONS = [
    "IEEE rounding is not modelled: model and code are compared within 1e-9 (float64) / 1e-4 (float32) relative tolerance, exactly in decision on dyadic ties",
    "SVD: jnp.linalg.svd returns a thin SVD of its argument (orthonormal U columns / Vh rows, s >= 0, U diag(s) Vh = v) - hypotheses of C02_nuclear / C02_nuclear_complex, checked numerically on the factors of every nuclear case; neither existence of SVDs of other matrices nor a trace inequality is assumed (nuclear norm specified as the dual of the operator norm)",
    "contracts of the transcendental primitives used by _dep_cubic_root/_cbrt and the complex L1 phase: angle = Complex.arg, cos/sin/exp, x**(1/3) on x >= 0, principal complex power in polar form (class HasTrig; libm at Float)",
    "_dep_cubic_root inside its band 0 < |p| <= 1e-7 replaces w^3 by -q: approximate by design, excluded from C02_cubic_root (residual proved non-zero); model and code agree there too",
    "projectors handed to SetDistance/SquaredSetDistance are metric projections onto closed convex sets (hypothesis IsProjAt of the theorem)",
]

KNOWN_L0 = "l0-threshold"
KNOWN_W32 = "loss-default-weight-float32"
KNOWN_BAND = "cubic-root-absolute-band"


def generate(ctx):
    """translator: tables of the source -> lean/Scico/Generated/ProxTables.lean (flags, defaults, dispatch, bases)"""
    t = prox_translate.generate()
    ctx.extra["generated_tables"] = {"classes": len(t["flags"]), "defaults": len(t["defaults"]), "dispatch_rows": len(t["dispatch"]),
                                     "has_prox_true": [r[1] for r in t["flags"] if r[4] == "True"]}
    return [("Scico.Generated.ProxTables",
             "class list with has_eval/has_prox, default arguments (delta, beta, radius, l2_axis, separable, scale, lam, prox_kwargs tol/maxiter, "
             "cg defaults, band literal of _dep_cubic_root), constructor guards / isinstance dispatch of the losses, Identity<ScaledIdentity<Diagonal")]


def _key(case):
    blob = json.dumps({k: case.get(k) for k in ("fam", "params", "shape", "blocks", "cplx", "dtype", "v", "vim", "lam", "y", "yim", "w", "a", "aim")}, sort_keys=True)
    return hashlib.sha1(blob.encode()).hexdigest()[:16]


def _desc(case):
    return {k: case.get(k) for k in ("fam", "params", "shape", "blocks", "cplx", "dtype", "lam", "stream", "bmode")}


def _public(case):
    return {k: v for k, v in case.items() if not k.startswith("_")}


def l0_predicted_optimal(case):
    """C02_l0_partial: the coded hard threshold is a global minimiser iff for every entry
    (|v_i| >= lam -> |v_i|^2 >= 2 lam) and (|v_i| < lam -> |v_i|^2 <= 2 lam)."""
    v = pc.flat_value(case, "v")
    lam = float(case["lam"])
    a = np.abs(v)
    return bool(np.all(np.where(a >= lam, a**2 >= 2 * lam, a**2 <= 2 * lam)))


def make_oracle(rng_seed, model_p=None):
    def orc(case):
        rng = np.random.Generator(np.random.PCG64(rng_seed))
        with warnings.catch_warnings():
            warnings.simplefilter("ignore")
            return pc.oracle(case, rng, model_p)

    return orc


def check_case(ctx, model, case, run_oracle=False):
    """one correspondence case; returns True if model and implementation agree"""
    fam = case["fam"]
    with warnings.catch_warnings():
        warnings.simplefilter("ignore")
        v = pc.flat_value(case, "v")
        try:
            impl = pc.Impl(case)
            hp = impl.has_prox()
            p_impl = np.asarray(impl.prox_flat(v)) if hp else None
        except common.Infra:
            raise
        except Exception as e:  # noqa: BLE001
            if not _raised_in_scico(e):
                raise
            # the real code rejects a configuration the model covers (the property promises a minimiser there)
            ctx.count(f"impl-raised:{fam}:{type(e).__name__}")
            ctx.case(_desc(case), _key(case))
            ctx.violation({"kind": "failing-input", "op": f"prox.{fam}", "case": _public(case),
                           "failing": {"reason": "the implementation raised on a configuration that advertises an exact prox",
                                       "exception": f"{type(e).__name__}: {str(e)[:300]}"}},
                          True, f"prox.{fam}: implementation raised {type(e).__name__}")
            return False
        if not hp:
            ctx.disagree("prox.has_prox", _public(case), False, True, note="class advertises no prox for a configuration the model covers")
            return False
        p_model, margin = pc.model_eval(model, case, impl)
    cplx = bool(case.get("cplx"))
    n = v.size
    ctx.count(f"fam:{fam}")
    ctx.count("dtype:" + ("c" if cplx else "f") + ("32" if case.get("dtype") == "float32" else "64"))
    ctx.count("layout:" + ("block" if case.get("blocks") is not None else f"{len(case['shape'])}d"))
    ctx.count(f"stream:{case.get('stream', 'corpus')}")
    ctx.count(f"n={n}")
    trivial = bool(np.allclose(p_model, 0) or np.allclose(p_model, v))
    # which kind of output the model produced (branches hit): all zero / unchanged / some entries zeroed / generic
    if np.allclose(p_model, 0):
        kind = "all-zero"
    elif np.allclose(p_model, v):
        kind = "unchanged"
    elif np.any((np.abs(p_model) == 0) & (np.abs(v) > 0)):
        kind = "some-entries-zeroed"
    else:
        kind = "shrunk"
    ctx.count(f"branch:{fam}:{kind}")
    if case.get("bmode"):
        ctx.count(f"boundary:{fam}:{case['bmode']}")
    if case["params"].get("rescale"):
        ctx.count("loss-rescaled:" + "-".join(k for k, _ in case["params"]["rescale"]))
    key = _key(case) if (not trivial or case.get("stream") in ("boundary", "grid")) else None
    ctx.case(_desc(case), key, sample_every=97)
    # decision margin: discard near-ties of the discontinuous maps, keep exact ties
    if margin is not None and 0 < margin < 1e-6:
        ctx.count("discarded:near-tie")
        return True
    if margin is not None and margin == 0:
        ctx.count("exact-tie")
    rtol = 1e-4 if case.get("dtype") == "float32" else 1e-9
    if fam == "nuclear":
        rtol = max(rtol, 1e-8)
    ok = p_impl.shape == p_model.shape and common.allclose(np.real(p_impl), np.real(p_model), k=max(n, 1), rtol=rtol) and (
        not cplx or common.allclose(np.imag(p_impl), np.imag(p_model), k=max(n, 1), rtol=rtol)
    )
    if case.get("_branch"):
        ctx.count(f"model-branch:{fam}:{case['_branch']}")
    if fam == "l21":
        ctx.count("l21:axis=" + json.dumps(case["params"].get("axis", 0)) + f":nd={'block' if case.get('blocks') is not None else len(case['shape'])}")
        if not case.get("_groups_agree", True):
            raise common.Infra("l21: the model's labelling (axisGroup/blockGroup) and the harness's numpy labelling induce different partitions")
    if fam == "nuclear" and "_svd" in case:
        ctx.count("svd-contract-checked")
        if case["_svd"]:
            ctx.disagree("prox.nuclear.svd-contract", _public(case), case["_svd"], "orthonormal U, Vh; s >= 0; U diag(s) Vh = v",
                         oracle=make_oracle(ctx.seed, p_model))
            return False
    if fam == "sql2sqabs":
        cub = case.get("_cubic")
        w = np.asarray(case["w"]) if case.get("w") is not None else np.ones(n)
        apos = (float(case["lam"]) * 4 * case["_scale"] * w) > 0
        rc, rmod = np.asarray(cub["r"]), np.asarray(cub["r_model"])
        for b, ap in zip(cub["branch"], apos):
            ctx.count(f"model-branch:cubic:{b if ap else 'alpha=0'}")
        # the model of `_dep_cubic_root` against the code's root (float64, every entry with alpha > 0)
        if np.any(apos) and not common.allclose(rc[apos], rmod[apos], k=1, rtol=1e-9):
            ctx.count("disagree:cubic-root")
            ctx.disagree("prox.sql2sqabs.cubic_root", _public(case), rc.tolist(), rmod.tolist(), oracle=make_oracle(ctx.seed, p_model),
                         note="loss._dep_cubic_root differs from the model depCubicRoot")
            return False
        # independent check of the relation of C02_cubic_root on the code's root (numpy.roots)
        bad = pc.cubic_relation_ok(cub["p"], cub["q"], cub["r"], apos)
        if bad:
            ctx.count("cubic-relation-violated")
            ctx.disagree("prox.sql2sqabs.root-relation", _public(case), [list(map(float, b[2:])) for b in bad], "r>=0, r^3+pr+q=0, r=0 only if p>=0",
                         oracle=make_oracle(ctx.seed, p_model))
            return False
    if not ok:
        ctx.count(f"disagree:{fam}")
        ctx.disagree(f"prox.{fam}", _public(case), pc._js(p_impl), pc._js(p_model), oracle=make_oracle(ctx.seed, p_model),
                     note=f"margin={margin}")
        return False
    if impl.f_orig is not None and case["params"].get("rescale"):
        # history: `c*L`, `L/c` return copies - the ORIGINAL object must still compute the prox at ITS scale (`scaleOfOriginal`)
        c0 = {k: val for k, val in case.items() if not k.startswith("_")}
        P0 = dict(case["params"])
        P0["scale"] = pc.orig_scale(model, case["params"])
        P0["rescale"] = []
        c0["params"] = P0
        with warnings.catch_warnings():
            warnings.simplefilter("ignore")
            q_impl = np.asarray(impl.prox_flat_orig(v))
            q_model, _ = pc.model_eval(model, c0)
        ctx.count("loss-original-object-rechecked")
        ok0 = q_impl.shape == q_model.shape and common.allclose(np.real(q_impl), np.real(q_model), k=max(n, 1), rtol=rtol) and (
            not cplx or common.allclose(np.imag(q_impl), np.imag(q_model), k=max(n, 1), rtol=rtol))
        if not ok0:
            ctx.count(f"disagree:{fam}:original-object")
            ctx.disagree(f"prox.{fam}.original-after-rescale", _public(c0), pc._js(q_impl), pc._js(q_model),
                         oracle=make_oracle(ctx.seed, q_model),
                         note=f"the loss object the rescalings {case['params']['rescale']} were derived from no longer computes its own prox")
            return False
    if run_oracle:
        run_oracle_case(ctx, case, p_model)
    return True


def _raised_in_scico(e):
    """the exception comes out of the code under test (not out of the harness)"""
    frames = traceback.extract_tb(e.__traceback__)
    return any("/scico/" in (fr.filename or "") for fr in frames)


def run_oracle_case(ctx, case, p_model=None):
    """property oracle on the implementation, with classification of the recorded defects"""
    fam = case["fam"]
    r = make_oracle(ctx.seed + 1, p_model)(case)
    ctx.count("oracle-evaluations")
    if fam == "l0":
        pred = l0_predicted_optimal(case)
        if (r is None) != pred:
            ctx.violation({"kind": "failing-input", "case": _public(case), "failing": r, "predicted_optimal_by_C02_l0_partial": pred},
                          r is not None, "L0Norm.prox optimality differs from the characterisation C02_l0_partial")
            return r
        if r is not None:
            ctx.count("oracle:l0-suboptimal-as-characterised")
            ctx.suppressed += 1
            ctx.known_finding(KNOWN_L0, True)
            if not ctx.is_known(KNOWN_L0):
                ctx.violation({"kind": "failing-input", "case": _public(case), "failing": r}, True, "L0Norm.prox is not the minimiser")
        return None
    if r is not None:
        ctx.violation({"kind": "failing-input", "case": _public(case), "failing": r}, True, f"oracle: {r['reason']}")
    return r


def _families():
    """all families; `VERIF_C02_FAMILIES=l1,l2` restricts a development run (never used by the registered command)"""
    import os

    sel = os.environ.get("VERIF_C02_FAMILIES")
    if not sel:
        return list(pc.FAMILIES)
    return [f for f in pc.FAMILIES if f in sel.split(",")]


def corpus_cases():
    d = common.CORPUS_DIR / PROP
    out = []
    if d.exists():
        for f in sorted(d.glob("*.json")):
            c = json.loads(f.read_text())
            c["_file"] = f.name
            out.append(c)
    return out


def correspond(ctx, model):
    common.setup_scico()
    rng = ctx.rng
    # 1. corpus first
    for c in corpus_cases():
        case = dict(c["case"])
        case["stream"] = "corpus"
        if c.get("skip_stream"):
            continue  # replayed by findings() only
        if c.get("known_id"):
            # witness of a recorded defect: the model follows the (defective) code here; if the code has been
            # repaired upstream the implementation satisfies the property at the witness and differs from the model
            if make_oracle(ctx.seed)(case) is None and c["known_id"] != KNOWN_L0:
                ctx.count(f"known-witness-now-satisfies-property:{c['known_id']}")
                continue
            check_case(ctx, model, case, run_oracle=False)
        else:
            check_case(ctx, model, case, run_oracle=True)
    # 2. per family: structured + boundary
    ns = ctx.n(22, 230)
    nb = ctx.n(14, 110)
    every = ctx.n(6, 10)
    i = 0
    for fam in _families():
        for k in range(ns + nb):
            case = pg.structured(rng, fam) if k < ns else pg.boundary(rng, fam)
            i += 1
            check_case(ctx, model, case, run_oracle=(i % every == 0))
            if fam in pc.CONVEX and i % 3 == 0:
                firm_pair(ctx, rng, case)
            if len(ctx.violations) >= 5:
                return
    # 2b. exhaustive small scope for the coordinate-wise maps: EVERY point of the dyadic grid {-2.5, -2.375, .., 2.5} for every lam / delta
    #     of the parameter lists (all threshold ties of the grid are hit exactly, on both sides)
    for case in grid_cases():
        i += 1
        check_case(ctx, model, case, run_oracle=(i % (3 * every) == 0))
        if len(ctx.violations) >= 5:
            return
    # 2c. attribute-update histories on ONE object: prox, assign a public parameter, prox again (same and new input signature)
    na = ctx.n(8, 60)
    for fam in ATTR_FAMS:
        if fam not in _families():
            continue
        for _ in range(na):
            attr_update_case(ctx, model, rng, fam)
            if len(ctx.violations) >= 5:
                return
    # 2d. SquaredL2Loss.prox with a general linear operator (conjugate gradient): the documented system, C02_sqL2loss_cg_bound
    for _ in range(ctx.n(16, 120)):
        cg_case(ctx, model, rng)
        if len(ctx.violations) >= 5:
            return
    # 2f. default constructor arguments / default lam: objects built WITHOUT arguments against the model at the defaults of the table
    default_cases(ctx, model, rng)
    if len(ctx.violations) >= 5:
        return
    # 2h. scale stream: the same case times 2^k, parameters scaled by the exact homogeneity law of the family; RELATIVE comparison, no absolute floor
    for fam in _families():
        for _ in range(ctx.n(4, 30)):
            scale_case(ctx, model, rng, fam)
            if len(ctx.violations) >= 5:
                return
    # 2g. non-finite ENTRIES (nan, +inf, -inf) through the entry-wise proxes: model at Float (IEEE) against the code, position by position
    #     (theorems C02_nonfinite_* state the same branch logic at the extended scalar XR)
    nonfinite_cases(ctx, model, rng)
    if len(ctx.violations) >= 5:
        return
    # 2e. parameter edge cases (radius <= 0, delta <= 0, scale < 0): the code against the model incl. NaN positions, and the
    #     minimiser property exactly where the Edge theorems assert it
    edge_cases(ctx, model, rng)
    if len(ctx.violations) >= 5:
        return
    # 2i. DEFAULT precision (no jax_enable_x64): a worker subprocess runs a sample of every family at float32 / complex64
    default_precision_stream(ctx, model, rng)
    if len(ctx.violations) >= 5:
        return
    # 3. which constructions advertise a prox / are rejected (exhaustive over the small configuration space)
    guard_cases(ctx, model)
    reject_cases(ctx, model)


ATTR_FAMS = ["l2ball", "hubersep", "hubernonsep", "l1l2", "l21", "setdist", "sqsetdist", "lossgen", "sql2loss", "sql2abs", "sql2sqabs"]


def _other(rng, xs, cur):
    ys = [x for x in xs if x != cur]
    return pg.pick(rng, ys)


def _attr_plan(rng, fam, case):
    """choose the new value of one public parameter; returns (what, P2, setter(obj), scalar history or None) or None"""
    P = case["params"]
    P2 = copy.deepcopy(P)
    if fam == "l2ball":
        P2["radius"] = _other(rng, pg.LAMS + pg.LAMS5, P["radius"])
        return "radius", P2, (lambda f: setattr(f, "radius", float(P2["radius"]))), ("radius", P["radius"], P2["radius"])
    if fam in ("hubersep", "hubernonsep"):
        P2["delta"] = _other(rng, pg.DELTAS, P["delta"])
        return "delta", P2, (lambda f: setattr(f, "delta", float(P2["delta"]))), ("delta", P["delta"], P2["delta"])
    if fam == "l1l2":
        P2["beta"] = _other(rng, pg.BETAS, P["beta"])
        return "beta", P2, (lambda f: setattr(f, "beta", float(P2["beta"]))), ("beta", P["beta"], P2["beta"])
    if fam == "l21":
        if case.get("blocks") is not None:
            return None
        nd = len(case["shape"])
        opts = [None, 0, -1] + ([1, [0, 1], [-1, -2]] if nd >= 2 else []) + ([2, [0, 2], [1, 2]] if nd >= 3 else [])
        P2["axis"] = _other(rng, opts, P.get("axis", 0))
        ax = P2["axis"]
        return "l2_axis", P2, (lambda f: setattr(f, "l2_axis", tuple(ax) if isinstance(ax, list) else ax)), None
    if fam in ("setdist", "sqsetdist"):
        spec = P["proj"]
        if not spec.get("via_args") or spec["kind"] not in ("ball", "point", "box"):
            return None
        s2 = P2["proj"]
        if spec["kind"] == "ball":
            s2["r"] = _other(rng, [0.5, 1.0, 2.5, 4.0], spec["r"])
        elif spec["kind"] == "point":
            s2["c"] = _other(rng, [0.0, 0.5, -1.0, 2.0], spec["c"])
        else:
            s2["lo"] = _other(rng, [-1.0, 0.0, 0.5, -2.5], spec["lo"])
            s2["hi"] = s2["lo"] + pg.pick(rng, [0.0, 1.0, 2.5])
        return "args", P2, (lambda f: setattr(f, "args", pc.proj_args(s2))), None
    if fam == "lossgen" and P["inner"] in ("hubersep", "hubernonsep"):
        P2["delta"] = _other(rng, pg.DELTAS, P["delta"])
        return "f.delta", P2, (lambda L: setattr(L.f, "delta", float(P2["delta"]))), ("delta", P["delta"], P2["delta"])
    if fam == "lossgen" and P["inner"] == "l2ball":
        P2["radius"] = _other(rng, pg.LAMS5, P["radius"])
        return "f.radius", P2, (lambda L: setattr(L.f, "radius", float(P2["radius"]))), ("radius", P["radius"], P2["radius"])
    if fam in ("lossgen", "sql2loss", "sql2abs", "sql2sqabs"):
        c = _other(rng, pg.SCALES, None)
        P2["scale"], P2["rescale"] = c, []
        return "set_scale", P2, (lambda L: L.set_scale(float(c))), ("scale", pg.eff_scale_py(P), c)
    return None


def attr_update_case(ctx, model, rng, fam):
    """history on ONE object: prox at the constructor's parameter, assignment of a public parameter attribute, prox again on an
    input of the SAME signature and on a NEW signature (float32 data); both must be the model's prox at the NEW parameter
    (`paramAfter`), and on the live object the result must lie in the (new) domain and be no worse than the model's point."""
    want_inner = bool(rng.random() < 0.5)
    for _ in range(12):
        case = pg.structured(rng, fam)
        case["dtype"] = "float64"
        plan = _attr_plan(rng, fam, case)
        if plan is not None and fam == "lossgen" and want_inner and not plan[0].startswith("f."):
            plan = None  # half of the generic-Loss histories update a parameter of the WRAPPED functional
        if plan is not None:
            break
    else:
        return
    what, P2, setter, hist = plan
    if hist is not None:
        # the parameter in force after the assignment, decided by the model
        name, p_old, p_new = hist
        pa = common.b2f(model.call("param_after", p0=common.f2b(float(p_old)), assigns=common.fs2b([float(p_new)]))["p"])
        if name in P2:
            P2[name] = pa
    new = {k: v for k, v in case.items() if not k.startswith("_")}
    new["params"] = P2
    new["stream"] = "attr-update"
    v = pc.flat_value(case, "v")
    n = v.size
    cplx = bool(case.get("cplx"))
    ctx.count(f"attr-update:{fam}:{what}")
    ctx.case(dict(_desc(new), attr=what, old=json.dumps(case["params"], sort_keys=True)[:200]), "attr-" + _key(new) + _key(case))
    with warnings.catch_warnings():
        warnings.simplefilter("ignore")
        try:
            impl = pc.Impl(case)
            warm = pg.dy(rng, n) + (1j * pg.dy(rng, n) if cplx else 0)
            impl.prox_flat(warm)  # traces / caches whatever the object caches for this input signature
            impl.prox_flat(v)
            setter(impl.f)
            p_same = np.asarray(impl.prox_flat(v))
            p_new_sig = None
            if impl.f_orig is None:  # functionals: a signature not seen before the update (float32 data)
                c32 = dict(new, dtype="float32")
                p_new_sig = np.asarray(pc.from_scico(impl.f.prox(pc.to_scico(c32, v), impl.lam_arg())))
        except common.Infra:
            raise
        except Exception as e:  # noqa: BLE001
            if not _raised_in_scico(e):
                raise
            ctx.violation({"kind": "failing-input", "op": f"prox.{fam}.attr-update", "case": _public(new), "old_params": case["params"],
                           "failing": {"reason": f"the implementation raised after the assignment of {what}", "exception": f"{type(e).__name__}: {str(e)[:300]}"}},
                          True, f"prox.{fam}: implementation raised after an attribute update")
            return
        p_model, margin = pc.model_eval(model, new)
    if margin is not None and 0 < margin < 1e-6:
        ctx.count("discarded:near-tie")
        return

    def agree(a, b, rtol):
        return a.shape == b.shape and common.allclose(np.real(a), np.real(b), k=max(n, 1), rtol=rtol) and (
            not cplx or common.allclose(np.imag(a), np.imag(b), k=max(n, 1), rtol=rtol))

    def orc(_c, p_bad=p_same):
        # the property on the LIVE object (a fresh object would hide the history): domain and objective against the model's point
        with warnings.catch_warnings():
            warnings.simplefilter("ignore")
            pb = np.asarray(p_bad, dtype=np.complex128 if cplx else np.float64)
            fp = impl.value(pb)
            if not math.isfinite(fp):
                fp = impl.value(pb * (1.0 - 1e-5))
            if not math.isfinite(fp):
                return {"reason": f"after `{what}` was assigned, prox returns a point outside the domain of the functional (f(p) = inf on the same object)",
                        "old_params": case["params"], "new_params": P2, "v": pc._js(v), "lam": case["lam"], "p": pc._js(pb)}
            Fi, Fm = impl.objective(pb, v), impl.objective(np.asarray(p_model), v)
            if Fm < Fi - 1e-7 * (1.0 + abs(Fi) + abs(Fm)):
                return {"reason": f"after `{what}` was assigned, the prox at the new parameter has a lower objective on the same object",
                        "old_params": case["params"], "new_params": P2, "v": pc._js(v), "lam": case["lam"], "p": pc._js(pb),
                        "objective(p)": Fi, "better_x": pc._js(p_model), "objective(x)": Fm}
        return None

    if not agree(p_same, p_model, 1e-9):
        ctx.count(f"disagree:{fam}:attr-update")
        ctx.disagree(f"prox.{fam}.attr-update.same-signature", dict(_public(new), old_params=case["params"], attr=what),
                     pc._js(p_same), pc._js(p_model), oracle=orc, note=f"prox after assigning {what} on the same object (input signature seen before)")
        return
    if p_new_sig is not None and not agree(p_new_sig, p_model, 1e-4):
        ctx.count(f"disagree:{fam}:attr-update")
        ctx.disagree(f"prox.{fam}.attr-update.new-signature", dict(_public(new), old_params=case["params"], attr=what),
                     pc._js(p_new_sig), pc._js(p_model), oracle=lambda c: orc(c, p_new_sig),
                     note=f"prox after assigning {what} on the same object (float32 input: signature not seen before)")


def default_cases(ctx, model, rng):
    """objects constructed with their DEFAULT arguments, `prox(v)` called WITHOUT `lam`: compared with the model at the defaults recorded in
    `Scico.ProxTables.expectedDefaults` (tied to the source by the generated obligation `defaults_ok`)"""
    import ast as _ast

    import scico.numpy as snp
    from scico import functional as F
    from scico import loss

    D = pc.defaults(model)
    lit = lambda c, p_: _ast.literal_eval(D[(c, p_)])  # noqa: E731
    sep = lit("HuberNorm.__init__", "separable")
    plans = [
        ("hubersep" if sep else "hubernonsep", {"delta": float(lit("HuberNorm.__init__", "delta"))}, lambda y: F.HuberNorm(), "HuberNorm.prox"),
        ("l1l2", {"beta": float(lit("L1MinusL2Norm.__init__", "beta"))}, lambda y: F.L1MinusL2Norm(), "L1MinusL2Norm.prox"),
        ("l2ball", {"radius": float(lit("L2BallIndicator.__init__", "radius"))}, lambda y: F.L2BallIndicator(), "L2BallIndicator.prox"),
        ("l21", {"axis": lit("L21Norm.__init__", "l2_axis")}, lambda y: F.L21Norm(), "L21Norm.prox"),
        ("l1", {}, lambda y: F.L1Norm(), "L1Norm.prox"), ("l0", {}, lambda y: F.L0Norm(), "L0Norm.prox"),
        ("l2", {}, lambda y: F.L2Norm(), "L2Norm.prox"), ("sql2", {}, lambda y: F.SquaredL2Norm(), "SquaredL2Norm.prox"),
        ("sql2loss", {"scale": float(lit("SquaredL2Loss.__init__", "scale")), "A": "none", "rescale": []}, lambda y: loss.SquaredL2Loss(y=y), "SquaredL2Loss.prox"),
        ("sql2abs", {"scale": float(lit("SquaredL2AbsLoss.__init__", "scale")), "A": "none", "rescale": []}, lambda y: loss.SquaredL2AbsLoss(y=y), "SquaredL2AbsLoss.prox"),
        ("sql2sqabs", {"scale": float(lit("SquaredL2SquaredAbsLoss.__init__", "scale")), "A": "none", "rescale": []}, lambda y: loss.SquaredL2SquaredAbsLoss(y=y), "SquaredL2SquaredAbsLoss.prox"),
        ("lossgen", {"scale": float(lit("Loss.__init__", "scale")), "A": "none", "rescale": [], "inner": "l1"}, lambda y: loss.Loss(y=y, f=F.L1Norm()), "Loss.prox"),
    ]
    for _ in range(ctx.n(2, 8)):
        for fam, P, build, proxname in plans:
            shape = [2, 3] if fam == "l21" else list(pg.pick(rng, [(1,), (3,), (5,), (2, 2)]))
            n = int(np.prod(shape))
            case = {"fam": fam, "params": P, "shape": shape, "blocks": None, "cplx": False, "dtype": "float64", "lam": float(lit(proxname, "lam")),
                    "v": pg.dy(rng, n).tolist(), "stream": "defaults", "w": None}
            if fam in ("sql2loss", "lossgen"):
                case["y"] = pg.dy(rng, n).tolist()
            elif fam in ("sql2abs", "sql2sqabs"):
                case["y"] = np.abs(pg.dy(rng, n)).tolist()
            v = pc.flat_value(case, "v")
            with warnings.catch_warnings():
                warnings.simplefilter("ignore")
                y = pc.to_scico(case, np.asarray(case["y"])) if "y" in case else None
                obj = build(y)
                p_impl = np.asarray(pc.from_scico(obj.prox(pc.to_scico(case, v))), dtype=np.float64)  # default lam
                p_model, margin = pc.model_eval(model, dict(case))
            ctx.count(f"defaults:{fam}")
            ctx.case(_desc(case), "dflt-" + _key(case))
            if margin is not None and 0 < margin < 1e-6:
                continue
            if p_impl.shape != np.asarray(p_model).shape or not common.allclose(p_impl, np.real(p_model), k=max(n, 1), rtol=1e-9):
                ctx.disagree(f"prox.{fam}.defaults", _public(case), pc._js(p_impl), pc._js(p_model), oracle=None,
                             note="object built with its default arguments / prox with the default lam differs from the model at the recorded defaults")


def default_precision_stream(ctx, model, rng):
    """the library's DEFAULT mode (jax_enable_x64 off: float32 / complex64 throughout, Python scalars weakly typed).  A worker subprocess
    (`prox_nox64_worker.py`) builds every family - structured and boundary cases (exact float32 ties: all values are dyadic with few bits), plain /
    N-d / block layouts, real and complex - and calls `prox` once: nothing may raise, the returned dtype must be the input dtype, the value must
    equal the model's (computed here) at the float32 relative tolerance, the objective must not be worse than at the model's point; every
    disagreement goes through the property oracle inside the worker (default precision)."""
    import os
    import subprocess
    import sys

    items = []
    ns, nb = ctx.n(3, 14), ctx.n(2, 8)
    for fam in _families():
        for k in range(ns + nb):
            case = pg.structured(rng, fam) if k < ns else pg.boundary(rng, fam)
            case["dtype"] = "float32"
            case["stream"] = "default-precision"
            with warnings.catch_warnings():
                warnings.simplefilter("ignore")
                pm, margin = pc.model_eval(model, case)
            pub = _public(case)
            items.append({"case": pub, "model": {"re": np.real(pm).tolist(), "im": np.imag(pm).tolist() if np.iscomplexobj(pm) else []}, "margin": margin})
    if not items:
        return
    env = {k_: v for k_, v in os.environ.items() if k_ != "JAX_ENABLE_X64"}
    p = subprocess.run([sys.executable, str(common.VERIF / "harness" / "prox_nox64_worker.py")],
                       input=json.dumps({"repo": str(common.REPO), "items": items, "seed": ctx.seed}), capture_output=True, text=True, env=env)
    if p.returncode != 0:
        raise common.Infra("default-precision worker failed: " + p.stderr[-1500:])
    for it, rec in zip(items, json.loads(p.stdout)["results"]):
        case = it["case"]
        fam = case["fam"]
        ctx.count(f"default-precision:{fam}:{'c64' if case.get('cplx') else 'f32'}:{'block' if case.get('blocks') is not None else 'plain'}")
        ctx.case(dict(_desc(case), mode="no-x64"), "nox64-" + _key(case))
        mode = "float32/complex64, jax_enable_x64 off"
        if rec.get("raised"):
            if rec.get("raised_in_scico", True):
                ctx.violation({"kind": "failing-input", "op": f"prox.{fam}.default_precision", "case": case, "mode": mode,
                               "failing": {"reason": "the implementation raised in default precision", "exception": rec["raised"], "where": rec.get("where")}},
                              True, f"prox.{fam}: raised in default precision")
                continue
            raise common.Infra(f"default-precision worker: harness exception {rec['raised']} at {rec.get('where')}")
        if rec.get("near_tie"):
            ctx.count("discarded:near-tie")
            continue
        bad = []
        if not rec.get("dtype_ok"):
            bad.append("returned dtype " + ",".join(rec.get("dtypes", [])))
        if not rec.get("finite"):
            bad.append("non-finite result")
        if not rec.get("value_ok"):
            bad.append("value differs from the model beyond 1e-4 relative")
        if rec.get("objective_ok") is False:
            bad.append(f"objective {rec.get('objective')} worse than at the model's point")
        if bad:
            ctx.count(f"disagree:{fam}:default-precision")
            ctx.disagree(f"prox.{fam}.default_precision", dict(case, mode=mode), {k_: rec.get(k_) for k_ in ("dtypes", "value_ok", "objective", "finite")}, "; ".join(bad),
                         oracle=lambda _c, rec=rec, bad=bad: rec.get("failing") or ({"reason": bad[0], "mode": "jax_enable_x64 off", "dtypes": rec.get("dtypes")}
                                                                                    if not rec.get("dtype_ok") or not rec.get("finite") else None),
                         note="default precision (no x64): " + "; ".join(bad))


def _scaled(case, c):
    """the case with input `c·v` (c = 2^k > 0, exact in binary floating point) and the parameters scaled so that the prox is EXACTLY `c` times the
    prox of the original case (homogeneity law of the family); returns the scaled case or None"""
    fam = case["fam"]
    new = copy.deepcopy({k: v for k, v in case.items() if not k.startswith("_")})
    P = new["params"]
    mul = lambda xs: (np.asarray(xs, dtype=np.float64) * c).tolist()  # noqa: E731
    new["v"] = mul(case["v"])
    if "vim" in case:
        new["vim"] = mul(case["vim"])
    lam = float(case["lam"])

    def inner_law(name):
        # returns the factor of lam; scales the parameters of the functional in place
        if name in ("l0", "l1", "l2", "l21", "l1l2", "nuclear"):
            return c  # f(c x) = c f(x) (the coded l0 threshold scales the same way): prox_{c lam f}(c v) = c prox_{lam f}(v)
        if name in ("hubersep", "hubernonsep"):
            P["delta"] = float(P["delta"]) * c  # prox_{lam H_{c delta}}(c v) = c prox_{lam H_delta}(v)
            return 1.0
        if name == "l2ball":
            P["radius"] = float(P["radius"]) * c
            return 1.0
        return 1.0  # sql2, nonneg, zero: prox(c v) = c prox(v)

    if fam in ("setdist", "sqsetdist"):
        sp = P["proj"]
        for key in ("r", "c", "lo", "hi", "b"):
            if key in sp:
                sp[key] = float(sp[key]) * c
        f = c if fam == "setdist" else 1.0
    elif fam == "lossgen":
        new["y"] = mul(case["y"])
        f = inner_law(P["inner"])
    elif fam in ("sql2loss", "sql2abs"):
        new["y"] = mul(case["y"])
        if "yim" in case:
            new["yim"] = mul(case["yim"])
        f = 1.0
    elif fam == "sql2sqabs":
        new["y"] = (np.asarray(case["y"], dtype=np.float64) * c * c).tolist()  # (y - |x|^2)^2 is 4-homogeneous jointly: lam' = lam / c^2
        f = 1.0 / (c * c)
    else:
        f = inner_law(fam)
    new["lam"] = lam * f
    new["stream"] = "scale"
    return new


def _rel_agree(a, b, rtol, n, c):
    """scale-equivariant comparison: the standard tolerance `rtol * n * (1 + max)` of the unscaled case, multiplied by the scale factor `c` -
    no floor that is independent of the scale: max |a-b| <= rtol * n * (c + max(|a|, |b|))"""
    a, b = np.asarray(a), np.asarray(b)
    if a.shape != b.shape or not (np.all(np.isfinite(a)) and np.all(np.isfinite(b))):
        return False
    top = max(float(np.max(np.abs(a), initial=0.0)), float(np.max(np.abs(b), initial=0.0)))
    return float(np.max(np.abs(a - b), initial=0.0)) <= rtol * max(n, 1) * (c + top)


def scale_case(ctx, model, rng, fam):
    """scale equivariance: `prox` at `(2^k v, parameters scaled by the homogeneity law)` must be `2^k` times `prox` at the original case - checked on the
    implementation against itself AND against the model at the scaled case, relatively (no absolute floor), float64 with k in [-60, 60], float32 with a
    range that keeps squares (fourth powers for the squared-modulus loss) representable.  Catches absolute thresholds hidden in helpers
    (`no_nan_divide` must test for EXACT zero)."""
    case = pg.structured(rng, fam) if rng.random() < 0.7 else pg.boundary(rng, fam)
    f32 = case.get("dtype") == "float32"
    kmax = (12 if fam == "sql2sqabs" else 28) if f32 else (40 if fam == "sql2sqabs" else 60)
    k = int(rng.integers(-kmax, kmax + 1))
    c = 2.0**k
    sc = _scaled(case, c)
    v, vs = pc.flat_value(case, "v"), pc.flat_value(sc, "v")
    n = v.size
    with warnings.catch_warnings():
        warnings.simplefilter("ignore")
        try:
            p0 = np.asarray(pc.Impl(case).prox_flat(v))
            ps = np.asarray(pc.Impl(sc).prox_flat(vs))
        except common.Infra:
            raise
        except Exception as e:  # noqa: BLE001
            if not _raised_in_scico(e):
                raise
            ctx.violation({"kind": "failing-input", "op": f"prox.{fam}.scale", "case": _public(sc),
                           "failing": {"reason": "the implementation raised on a scaled input", "exception": f"{type(e).__name__}: {str(e)[:300]}"}}, True,
                          f"prox.{fam}: implementation raised on a scaled input")
            return
        pm, margin = pc.model_eval(model, sc)
    ctx.count(f"scale:{fam}:{'f32' if f32 else 'f64'}:k{'<-20' if k < -20 else ('>20' if k > 20 else '~0')}")
    ctx.case(dict(_desc(sc), k=k), "scale-" + _key(sc))
    if margin is not None and 0 < margin < 1e-6 * c:
        ctx.count("discarded:near-tie")
        return
    rtol = 1e-4 if f32 else 1e-9
    if fam == "nuclear":
        rtol = max(rtol, 1e-8)

    def orc(_c):
        # the property at the scaled input: objective of the returned point against the model's point and against c * (prox of the original case)
        with warnings.catch_warnings():
            warnings.simplefilter("ignore")
            impl = pc.Impl(sc)
            Fi = impl.objective(np.asarray(ps, dtype=np.complex128 if sc.get("cplx") else np.float64), vs)
            for tag, z in (("model", np.asarray(pm)), ("c*prox(original)", c * p0.astype(np.complex128 if sc.get("cplx") else np.float64))):
                fz = impl.value(z)
                if not math.isfinite(fz):
                    continue
                Fz = impl.objective(z, vs)
                if Fz < Fi - 1e-7 * (abs(Fi) + c * c):
                    return {"reason": f"scaled input (2^{k}): the point '{tag}' has a lower objective than the returned one", "v": pc._js(vs), "lam": sc["lam"],
                            "params": sc["params"], "p": pc._js(ps), "objective(p)": Fi, "better_x": pc._js(z), "objective(x)": Fz}
        return None

    if not _rel_agree(ps, pm, rtol, n, c):
        ctx.count(f"disagree:{fam}:scale")
        ctx.disagree(f"prox.{fam}.scale.model", dict(_public(sc), k=k), pc._js(ps), pc._js(pm), oracle=orc,
                     note=f"input and parameters scaled by 2^{k}: code and model differ relatively")
        return
    if not _rel_agree(ps, c * p0, 10 * rtol, n, c):
        ctx.count(f"disagree:{fam}:scale")
        # recorded finding: the absolute band |p| <= 1e-7 of `_dep_cubic_root` (model and code agree there - checked above -, the band itself is not
        # scale-equivariant); classified only when an entry of THIS case is in the band and only for the equivariance comparison
        kid = None
        if fam == "sql2sqabs":
            # exactly this finding: every entry that breaks equivariance is one whose SCALED |p| is inside the band (alpha > 0) while the
            # unscaled one is outside; any other entry that differs keeps the disagreement unclassified
            with warnings.catch_warnings():
                warnings.simplefilter("ignore")
                c0 = dict(case)
                pc.model_eval(model, c0)
            bs, b0 = sc.get("_cubic", {}).get("branch") or [], c0.get("_cubic", {}).get("branch") or []
            wv = np.asarray(sc["w"]) if sc.get("w") is not None else np.ones(n)
            apos = (float(sc["lam"]) * 4 * sc["_scale"] * wv) > 0
            cross = np.array([bool(a) and x == "band" and y != "band" for a, x, y in zip(apos, bs, b0)]) if len(bs) == n and len(b0) == n else np.zeros(n, bool)
            top = max(float(np.max(np.abs(ps), initial=0.0)), float(np.max(np.abs(c * p0), initial=0.0)))
            bad = np.abs(np.asarray(ps) - c * np.asarray(p0)) > 10 * rtol * max(n, 1) * (c + top)
            if np.any(bad) and np.all(cross[bad]):
                kid = KNOWN_BAND
                ctx.count("scale:sql2sqabs:band-crossing-entries-classified")
        ctx.disagree(f"prox.{fam}.scale.equivariance", dict(_public(sc), k=k), pc._js(ps), pc._js(c * p0), oracle=orc, known_id=kid,
                     note=f"prox(2^{k} v, scaled parameters) is not 2^{k} prox(v): an absolute threshold in the implementation")


def _ieee_agree(a, b, rtol=1e-9):
    """NaN in the same positions, infinities equal with their sign, finite entries within tolerance"""
    a, b = np.asarray(a, dtype=np.float64), np.asarray(b, dtype=np.float64)
    if a.shape != b.shape or not np.array_equal(np.isnan(a), np.isnan(b)):
        return False
    ia, ib = np.isinf(a), np.isinf(b)
    if not np.array_equal(ia, ib) or not np.array_equal(np.sign(a[ia]), np.sign(b[ib])):
        return False
    ok = np.isfinite(a)
    return bool(np.all(np.abs(a[ok] - b[ok]) <= rtol * (1.0 + np.maximum(np.abs(a[ok]), np.abs(b[ok])))))


def nonfinite_cases(ctx, model, rng):
    """`L0Norm`, `L1Norm`, `NonNegativeIndicator`, separable `HuberNorm`, `SquaredL2Norm`, `ZeroFunctional` on vectors that contain NaN and
    ±inf entries (every pattern of one special entry among finite ones, and random mixtures): what the code returns entry by entry must be
    what the model returns at `Float` — `L0Norm` through the NaN-faithful `l0Prox1X` (a NaN entry becomes 0)."""
    from scico import functional as F
    import scico.numpy as snp

    specials = [float("nan"), float("inf"), float("-inf")]
    fams = [("l0", lambda P: F.L0Norm(), "l0x"), ("l1", lambda P: F.L1Norm(), "l1"), ("nonneg", lambda P: F.NonNegativeIndicator(), "nonneg"),
            ("hubersep", lambda P: F.HuberNorm(delta=float(P["delta"]), separable=True), "hubersep"), ("sql2", lambda P: F.SquaredL2Norm(), "sql2"),
            ("zero", lambda P: F.ZeroFunctional(), "zero")]
    for fam, build, op in fams:
        vs = []
        for sp in specials:  # one special entry, at the first / a middle / the last position
            for pos in (0, 2, 4):
                v = pg.dy(rng, 5)
                v[pos] = sp
                vs.append(v)
        for _ in range(ctx.n(3, 20)):
            v = pg.dy(rng, 6)
            for k in range(6):
                if rng.random() < 0.4:
                    v[k] = specials[int(rng.integers(0, 3))]
            vs.append(v)
        for v in vs:
            P = {"delta": pg.pick(rng, pg.DELTAS)} if fam == "hubersep" else {}
            lam = pg.pick(rng, pg.LAMS)
            with warnings.catch_warnings():
                warnings.simplefilter("ignore")
                p_impl = np.asarray(build(P).prox(snp.array(v), lam), dtype=np.float64)
                kw = {"v": common.fs2b(v)}
                if op not in ("nonneg", "zero"):
                    kw["lam"] = common.f2b(lam)
                if fam == "hubersep":
                    kw["delta"] = common.f2b(P["delta"])
                p_model = np.asarray(common.b2fs(model.call(op, **kw)["out"]), dtype=np.float64)
            kinds = "".join(sorted({"n" if np.isnan(t) else ("p" if t > 0 else "m") for t in v if not np.isfinite(t)}))
            ctx.count(f"nonfinite:{fam}:{kinds}")
            desc = {"fam": fam, "params": P, "shape": [int(v.size)], "lam": lam, "stream": "nonfinite", "v": [repr(float(t)) for t in v]}
            ctx.case({k: desc[k] for k in ("fam", "params", "shape", "lam", "stream")}, "nf-" + hashlib.sha1(json.dumps(desc, sort_keys=True).encode()).hexdigest()[:16])
            if not _ieee_agree(p_impl, p_model):
                ctx.disagree(f"prox.{fam}.nonfinite", desc, [repr(float(t)) for t in p_impl], [repr(float(t)) for t in p_model],
                             note="entries nan / +-inf: the code and the model at Float differ")


def _nan_agree(a, b, rtol=1e-9):
    a, b = np.asarray(a, dtype=np.float64), np.asarray(b, dtype=np.float64)
    if a.shape != b.shape or not np.array_equal(np.isnan(a), np.isnan(b)):
        return False
    ok = ~np.isnan(a)
    return bool(np.all(np.abs(a[ok] - b[ok]) <= rtol * (1.0 + np.maximum(np.abs(a[ok]), np.abs(b[ok]))) * max(a.size, 1)))


def edge_cases(ctx, model, rng):
    """constructor parameters outside the documented range: `L2BallIndicator(radius <= 0)`, `HuberNorm(delta <= 0)`,
    `SquaredL2Loss(scale < 0)` with a diagonal operator.  Model and code must agree entry by entry INCLUDING where NaN appears
    (`0/0` at `v = 0`); where C02_l2ball_zero_radius / C02_huber_nonsep_negative_delta / C02_sqL2loss_diag_anyscale assert a
    minimiser the objective is compared with competitors on the implementation; C02_l2ball_negative_radius: norm = -radius."""
    reps = ctx.n(3, 12)
    for _ in range(reps):
        for fam, pname, vals in (("l2ball", "radius", [0.0, -1.0, -0.5]), ("hubernonsep", "delta", [0.0, -0.5, -1.5]),
                                 ("hubersep", "delta", [0.0, -0.5, -1.5])):
            for val in vals:
                for vzero in (False, True):
                    shape = list(pg.pick(rng, [(1,), (3,), (2, 2)]))
                    n = int(np.prod(shape))
                    v = np.zeros(n) if vzero else pg.dy(rng, n, zeros=0.0)
                    if not vzero and not np.any(v):
                        v[0] = 1.0
                    if fam == "hubersep" and not vzero and rng.random() < 0.5:
                        v[int(rng.integers(0, n))] = 0.0  # a single zero entry: NaN in that entry only
                    case = {"fam": fam, "params": {pname: val}, "shape": shape, "blocks": None, "cplx": False, "dtype": "float64",
                            "lam": pg.pick(rng, pg.LAMS), "v": v.tolist(), "stream": "edge"}
                    with warnings.catch_warnings():
                        warnings.simplefilter("ignore")
                        impl = pc.Impl(case)
                        p_impl = np.asarray(impl.prox_flat(v), dtype=np.float64)
                        p_model, _ = pc.model_eval(model, dict(case))
                    ctx.count(f"edge:{fam}:{pname}={val}:{'v=0' if vzero else 'v!=0'}:{'nan' if np.any(np.isnan(p_impl)) else 'finite'}")
                    ctx.case(_desc(case), "edge-" + _key(case))
                    if not _nan_agree(p_impl, p_model):
                        ctx.disagree(f"prox.{fam}.edge", _public(case), [None if np.isnan(t) else float(t) for t in p_impl],
                                     [None if np.isnan(t) else float(t) for t in np.asarray(p_model, dtype=np.float64)],
                                     note=f"{pname}={val} (outside the documented range): code and model differ")
                        continue
                    if vzero or np.any(np.isnan(p_impl)):
                        continue
                    lam = float(case["lam"])
                    if fam == "l2ball" and val < 0 and abs(np.linalg.norm(p_impl) + val) > 1e-9:
                        raise common.Infra("C02_l2ball_negative_radius contradicted numerically")
                    if fam == "l2ball" and val == 0.0 and np.any(p_impl != 0):
                        ctx.violation({"kind": "failing-input", "case": _public(case), "failing": {"reason": "radius 0: prox is not 0", "p": p_impl.tolist()}},
                                      True, "prox.l2ball: radius 0")
                    if fam == "hubernonsep" and val < 0:
                        # C02_huber_nonsep_negative_delta: global minimiser (non-convex: objective against competitors)
                        with warnings.catch_warnings():
                            warnings.simplefilter("ignore")
                            Fp = impl.objective(p_impl, v)
                            for k in range(24):
                                z = p_impl + [1e-2, 1e-1, 1.0, 3.0][k % 4] * rng.standard_normal(n) if k % 6 else np.zeros(n)
                                Fz = impl.objective(z, v)
                                if Fz < Fp - 1e-9 * (1 + abs(Fp)):
                                    ctx.violation({"kind": "failing-input", "case": _public(case),
                                                   "failing": {"reason": "HuberNorm(delta<0, non-separable): a competitor has a lower objective",
                                                               "p": p_impl.tolist(), "objective(p)": Fp, "better_x": z.tolist(), "objective(x)": Fz}},
                                                  True, "prox.hubernonsep: delta < 0")
                                    break
        # SquaredL2Loss, diagonal A, negative scale
        n = int(rng.integers(1, 5))
        a, w = pg.dy(rng, n, 2.0, zeros=0.2), np.abs(pg.dy(rng, n, 3.0, zeros=0.2))
        sc = -pg.pick(rng, [0.125, 0.5, 1.0, 2.0])
        lam = pg.pick(rng, pg.LAMS)
        case = {"fam": "sql2loss", "params": {"scale": sc, "A": "diagonal", "rescale": []}, "shape": [n], "blocks": None, "cplx": False,
                "dtype": "float64", "lam": lam, "v": pg.dy(rng, n).tolist(), "y": pg.dy(rng, n).tolist(), "w": w.tolist(), "a": a.tolist(),
                "stream": "edge"}
        den = 2 * sc * lam * a * w * a + 1
        if np.any(den == 0):
            continue
        v = pc.flat_value(case, "v")
        with warnings.catch_warnings():
            warnings.simplefilter("ignore")
            impl = pc.Impl(case)
            p_impl = np.asarray(impl.prox_flat(v), dtype=np.float64)
            p_model, _ = pc.model_eval(model, dict(case))
        ctx.count("edge:sql2loss:scale<0:" + ("all-denominators-positive" if np.all(den > 0) else "a-negative-denominator"))
        ctx.case(_desc(case), "edge-" + _key(case))
        if not _nan_agree(p_impl, p_model):
            ctx.disagree("prox.sql2loss.edge", _public(case), p_impl.tolist(), np.asarray(p_model).tolist(), note="scale < 0: code and model differ")
            continue
        if np.all(den > 0):
            # C02_sqL2loss_diag_anyscale: still the global minimiser
            with warnings.catch_warnings():
                warnings.simplefilter("ignore")
                Fp = impl.objective(p_impl, v)
                for k in range(16):
                    z = p_impl + [1e-2, 1e-1, 1.0, 5.0][k % 4] * rng.standard_normal(n)
                    Fz = impl.objective(z, v)
                    if Fz < Fp - 1e-9 * (1 + abs(Fp)):
                        ctx.violation({"kind": "failing-input", "case": _public(case),
                                       "failing": {"reason": "SquaredL2Loss(scale<0, positive denominators): a competitor has a lower objective",
                                                   "p": p_impl.tolist(), "objective(p)": Fp, "better_x": z.tolist(), "objective(x)": Fz}},
                                      True, "prox.sql2loss: negative scale")
                        break


def firm_pair(ctx, rng, case):
    """C02_prox_firm on the implementation: a second input `w` of the same layout (half of the time a small perturbation of `v`,
    where a branch switch between the two points is likely), `‖p - q‖² ≤ ⟨p - q, v - w⟩`"""
    c1 = {k: val for k, val in case.items() if not k.startswith("_")}
    c1["dtype"] = "float64"
    m = pc.case_size(c1)
    c2 = dict(c1)
    near = bool(rng.random() < 0.5)
    v = np.asarray(c1["v"], dtype=np.float64)
    c2["v"] = (v + pg.dy(rng, m, 0.25, zeros=0.5) if near else pg.dy(rng, m)).tolist()
    if c1.get("cplx"):
        vi = np.asarray(c1["vim"], dtype=np.float64)
        c2["vim"] = (vi + pg.dy(rng, m, 0.25, zeros=0.5) if near else pg.dy(rng, m)).tolist()
    if c1["fam"] == "nonneg":
        pass
    with warnings.catch_warnings():
        warnings.simplefilter("ignore")
        r = pc.firm_oracle(c1, c2)
    ctx.count("firm-pairs:" + ("near" if near else "far"))
    if r is not None:
        ctx.violation({"kind": "failing-input", "op": f"prox.{c1['fam']}.firm", "case": _public(c1), "second_input": _public(c2), "failing": r},
                      True, f"prox.{c1['fam']}: firm non-expansiveness fails on the implementation")


def cg_case(ctx, model, rng):
    """`SquaredL2Loss(y, A=MatrixOperator, W, scale).prox(v, lam)` (cg on `(I + 2 lam scale AᴴWA) x = v + 2 lam scale AᴴW y`), real and complex:
    the residual of the DOCUMENTED system at the returned point, computed by the model (`sqL2LossSysResidual`; complex data through the
    realification `[[Ar, -Ai], [Ai, Ar]]`, whose real adjoint is the realification of `Aᴴ`), must be at the level of the cg tolerance, and the
    conclusion of C02_sqL2loss_cg_bound / C02_sqL2loss_cg_general (`‖x - p‖ ≤ ‖residual(x)‖`, p = exact solution) must hold."""
    import scico.numpy as snp
    from scico import linop, loss

    m, n = int(rng.integers(1, 6)), int(rng.integers(1, 6))
    cplx = bool(rng.random() < 0.3)

    def dyc(shape, scale):
        k = int(np.prod(shape))
        z = common.dyadic(rng, (k,), bits=5, scale=scale)
        if cplx:
            z = z + 1j * common.dyadic(rng, (k,), bits=5, scale=scale)
        return z.reshape(shape)

    A = dyc((m, n), 2.0)
    if rng.random() < 0.2:
        A[:, int(rng.integers(0, n))] = 0.0  # rank-deficient: the system stays well posed (matrix ⪰ I)
    y, v = dyc((m,), 4.0), dyc((n,), 4.0)
    w = np.abs(pg.dy(rng, m, 3.0, zeros=0.25)) if rng.random() < 0.6 else None
    lam = pg.pick(rng, pg.LAMS)
    P = {"scale": pg.pick(rng, pg.SCALES), "rescale": pg.rescale_ops(rng)}
    kw = pg.pick(rng, [None, None, {"tol": 1e-9}, {"tol": 1e-7, "maxiter": 50}, {"maxiter": 3}])
    x0 = dyc((n,), 4.0) if rng.random() < 0.3 else None
    desc = {"fam": "sql2loss-cg", "m": m, "n": n, "cplx": cplx, "A": pc._js(A), "y": pc._js(y), "v": pc._js(v), "w": None if w is None else w.tolist(),
            "lam": lam, "params": P, "prox_kwargs": kw, "x0": None if x0 is None else pc._js(x0)}
    with warnings.catch_warnings():
        warnings.simplefilter("ignore")
        try:
            L = loss.SquaredL2Loss(y=snp.array(y), A=linop.MatrixOperator(snp.array(A)), scale=float(P["scale"]),
                                   W=None if w is None else linop.Diagonal(snp.array(w)), prox_kwargs=kw)
            L = pc.apply_rescale(L, P["rescale"])
            hist = []
            if rng.random() < 0.6:
                # history on the SAME object: an earlier prox with another lam / input, optionally a set_scale in between -
                # nothing that depends on lam or scale (system operator, right-hand side) may survive from the earlier call
                lam0 = pg.pick(rng, [t for t in pg.LAMS if t != lam])
                L.prox(snp.array(dyc((n,), 4.0)), lam0)
                hist.append("prox@other-lam")
                if rng.random() < 0.5:
                    c_new = pg.pick(rng, pg.SCALES)
                    L.set_scale(float(c_new))
                    P = {"scale": c_new, "rescale": []}
                    hist.append("set_scale")
            desc["history"] = hist
            desc["params_in_force"] = P
            x = np.asarray(L.prox(snp.array(v), lam, **({"x0": snp.array(x0)} if x0 is not None else {})))
            x = x.astype(np.complex128 if cplx else np.float64)
        except Exception as e:  # noqa: BLE001
            if not _raised_in_scico(e):
                raise
            ctx.violation({"kind": "failing-input", "op": "prox.sql2loss.cg", "case": desc,
                           "failing": {"reason": "SquaredL2Loss.prox raised for a linear operator", "exception": f"{type(e).__name__}: {str(e)[:300]}"}},
                          True, "prox.sql2loss.cg: implementation raised")
            return
        Fx = lam * float(L(snp.array(x))) + 0.5 * float(np.sum(np.abs(x - v) ** 2))
    sc = pc.eff_scale(model, P)
    ww = np.ones(m) if w is None else w
    st = (lambda z: np.concatenate([np.real(z), np.imag(z)])) if cplx else (lambda z: np.real(z))
    AR = np.block([[A.real, -A.imag], [A.imag, A.real]]) if cplx else np.real(A)
    wR = np.concatenate([ww, ww]) if cplx else ww
    mR, nR = AR.shape
    r_model = np.asarray(common.b2fs(model.call("sql2loss_sys", m=mR, n=nR, a=common.fs2b(AR.ravel()), w=common.fs2b(wR), y=common.fs2b(st(y)),
                                                v=common.fs2b(st(v)), x=common.fs2b(st(x)), lam=common.f2b(lam), scale=common.f2b(sc))["out"]))
    c = 2.0 * sc * lam
    Msys = np.eye(n) + c * A.conj().T @ (ww[:, None] * A)
    b = v + c * A.conj().T @ (ww * y)
    p = np.linalg.solve(Msys, b)
    r_np = st(Msys @ x - b)
    dfl = pc.defaults(model)
    tol = float((kw or {}).get("tol", float(dfl[("SquaredL2Loss.default_prox_kwargs", "tol")])))
    capped = (kw or {}).get("maxiter", int(dfl[("SquaredL2Loss.default_prox_kwargs", "maxiter")])) < nR  # cg may stop before convergence
    ctx.count("cg:" + ("complex:" if cplx else "real:") + ("capped-maxiter" if capped else f"tol={tol:g}") + (":x0" if x0 is not None else "")
              + (":W" if w is not None else "") + "".join(":" + h for h in hist))
    ctx.case({k: desc[k] for k in ("fam", "m", "n", "cplx", "lam", "params", "prox_kwargs")}, "cg-" + hashlib.sha1(json.dumps(desc, sort_keys=True).encode()).hexdigest()[:16])

    def orc(_c):
        with warnings.catch_warnings():
            warnings.simplefilter("ignore")
            Fp = lam * float(L(snp.array(p))) + 0.5 * float(np.sum(np.abs(p - v) ** 2))
        if Fp < Fx - 1e-7 * (1.0 + abs(Fx)):
            return {"reason": "the solution of the documented system has a lower objective than the point returned by prox (cg path)",
                    "v": pc._js(v), "lam": lam, "p": pc._js(x), "objective(p)": Fx, "better_x": pc._js(p), "objective(x)": Fp}
        return None

    if not common.allclose(r_model, r_np, k=max(mR * nR, 1), rtol=1e-9):
        ctx.disagree("prox.sql2loss.cg.system", desc, r_np.tolist(), r_model.tolist(), oracle=orc,
                     note="model residual of the documented system differs from the numpy evaluation (harness/model bug or scale history)")
        return
    rn, en, bn = float(np.linalg.norm(r_model)), float(np.linalg.norm(x - p)), float(np.linalg.norm(b))
    # conclusion of the theorem on the real output (numerical sanity of the harness's exact solve: floor 1e-9, never a verdict on scico)
    if en > rn * (1 + 1e-6) + 1e-9 * (1 + bn + float(np.linalg.norm(p))):
        raise common.Infra(f"cg bound violated numerically: |x-p|={en} > |res|={rn}")
    if not capped and rn > 100.0 * tol * bn + 1e-12 * (1 + bn):
        ctx.count("disagree:sql2loss-cg")
        ctx.disagree("prox.sql2loss.cg.residual", dict(desc, x=pc._js(x)), {"residual_norm": rn, "rhs_norm": bn, "tol": tol},
                     "residual of the documented system <= 100*tol*|rhs|", oracle=orc,
                     note="the point returned by the cg path does not solve (I + 2 lam scale A^H W A) x = v + 2 lam scale A^H W y")


def grid_cases():
    grid = (np.arange(-20, 21) / 8.0).tolist()
    base = {"shape": [len(grid)], "blocks": None, "cplx": False, "dtype": "float64", "v": grid, "stream": "grid"}
    for lam in pg.LAMS:
        for fam in ("l0", "l1", "sql2", "nonneg"):
            yield dict(base, fam=fam, params={}, lam=lam)
        for d in pg.DELTAS:
            yield dict(base, fam="hubersep", params={"delta": d}, lam=lam)
        for sc in (0.5, 1.0):
            # phase-retrieval losses: data y sweeps the grid too (|y|), unit and zero weights alternate
            y = [abs(t) for t in reversed(grid)]
            w = [float(k % 3 != 0) * (1.0 + (k % 2)) for k in range(len(grid))]
            for fam in ("sql2abs", "sql2sqabs"):
                yield dict(base, fam=fam, params={"scale": sc, "A": "none", "rescale": []}, lam=lam, y=y, w=w)


GUARD_W = ["none", "diag_nonneg", "diag_negative", "not_diagonal"]
GUARD_A = ["none", "identity", "diagonal", "other_linop", "nonlinear"]


def _guard_observe(cls, wk, ak, ynonneg):
    """build the real loss for one configuration; returns (observed kind, object or None)"""
    import scico.numpy as snp
    from scico import linop, loss, operator

    y = snp.array(np.array([0.5, 1.0] if ynonneg else [-0.5, 1.0]))
    W = {"none": None, "diag_nonneg": linop.Diagonal(snp.array(np.array([1.5, 0.0]))),
         "diag_negative": linop.Diagonal(snp.array(np.array([1.0, -0.25]))), "not_diagonal": np.array([1.0, 1.0])}[wk]
    A = {"none": None, "identity": linop.Identity((2,), input_dtype=np.float64),
         "diagonal": linop.Diagonal(snp.array(np.array([2.0, -1.0]))),
         "other_linop": linop.MatrixOperator(snp.array(np.array([[1.0, 2.0], [0.0, 1.0]]))),
         "nonlinear": operator.Abs((2,), input_dtype=np.float64)}[ak]
    C = {"sql2loss": loss.SquaredL2Loss, "sql2abs": loss.SquaredL2AbsLoss, "sql2sqabs": loss.SquaredL2SquaredAbsLoss}[cls]
    try:
        L = C(y=y, A=A, scale=0.5, W=W)
    except ValueError:
        return "value", None
    except TypeError:
        return "type", None
    if not L.has_prox:
        try:
            L.prox(snp.array(np.array([0.5, -2.0])), 1.0)
        except NotImplementedError:
            return "no_prox", L
        return "no_prox-but-prox-returns", L
    return "has_prox", L


def guard_cases(ctx, model):
    """`has_prox` / rejection logic of SquaredL2Loss, SquaredL2AbsLoss, SquaredL2SquaredAbsLoss against the model
    (`sqL2LossGuard`, `absLossGuard`; theorems C02_guard_abs, C02_guard_sqL2): every (W kind, A kind, sign of y)."""
    for cls in ("sql2loss", "sql2abs", "sql2sqabs"):
        for wk in GUARD_W:
            for ak in GUARD_A:
                for yn in (1, 0):
                    with warnings.catch_warnings():
                        warnings.simplefilter("ignore")
                        obs, L = _guard_observe(cls, wk, ak, bool(yn))
                    g = model.call("guard", cls=cls, w=wk, a=ak, ynonneg=yn)["guard"]
                    exp = "has_prox" if g.startswith("has_prox") else g
                    desc = {"fam": "guard", "cls": cls, "W": wk, "A": ak, "y_nonneg": bool(yn)}
                    ctx.count(f"guard:{cls}:{g}")
                    ctx.case(desc, f"guard-{cls}-{wk}-{ak}-{yn}")
                    if obs == exp:
                        continue
                    ctx.count(f"disagree:guard:{cls}")
                    orc = None
                    if obs == "has_prox" and ak in ("none", "identity") and wk in ("none", "diag_nonneg"):
                        # a prox is advertised where the model says there is none (e.g. negative data): evaluate the property there
                        c = {"fam": cls, "params": {"scale": 0.5, "A": ak, "rescale": []}, "shape": [2], "blocks": None, "cplx": False,
                             "dtype": "float64", "lam": 1.0, "v": [0.125, -2.0], "y": [0.5, 1.0] if yn else [-0.5, 1.0],
                             "w": None if wk == "none" else [1.5, 0.0]}
                        orc = lambda _c, c=c: make_oracle(ctx.seed)(c)  # noqa: E731
                        desc = dict(desc, prox_case=c)
                    ctx.disagree(f"prox.guard.{cls}", desc, obs, g, oracle=orc,
                                 note="has_prox / constructor rejection differs from the model")


def reject_cases(ctx, model):
    """argument checks of NuclearNorm (2-d only) and L21Norm (block input needs l2_axis=None) against the model
    (`nuclearAccepts`, `l21Accepts`), and PoissonLoss (advertises no prox)"""
    import scico.numpy as snp
    from scico import functional as F
    from scico import loss

    def observe(fn):
        with warnings.catch_warnings():
            warnings.simplefilter("ignore")
            try:
                fn()
            except ValueError:
                return "value"
            except NotImplementedError:
                return "notimpl"
        return "ok"

    def expect(**kw):
        try:
            model.call("accepts", **kw)
        except common.ModelErr as e:
            return e.kind
        return "ok"

    for shape in [(3,), (2, 3), (1, 1), (2, 1, 3), (1, 2, 2, 1)]:
        x = snp.array(np.arange(1.0, 1.0 + int(np.prod(shape))).reshape(shape))
        for what, fn in (("prox", lambda x=x: F.NuclearNorm().prox(x, 0.5)), ("call", lambda x=x: F.NuclearNorm()(x))):
            obs, exp = observe(fn), expect(kind="nuclear", ndim=len(shape))
            ctx.count(f"reject:nuclear:{what}:ndim={len(shape)}:{exp}")
            ctx.case({"fam": "reject", "cls": "nuclear", "what": what, "shape": list(shape)}, f"reject-nuclear-{what}-{shape}")
            if obs != exp:
                ctx.disagree("prox.reject.nuclear", {"shape": list(shape), "what": what}, obs, exp)
    xb = snp.blockarray([np.array([1.0, -2.0]), np.array([[0.5, 3.0]])])
    xa = snp.array(np.array([[1.0, -2.0], [0.5, 3.0]]))
    for block, x in ((True, xb), (False, xa)):
        for ax in (None, 0, 1, (0, 1)):
            if block is False and ax is None:
                pass
            for what, fn in (("prox", lambda x=x, ax=ax: F.L21Norm(l2_axis=ax).prox(x, 0.5)), ("call", lambda x=x, ax=ax: F.L21Norm(l2_axis=ax)(x))):
                obs, exp = observe(fn), expect(kind="l21", block=block, axis_none=ax is None)
                ctx.count(f"reject:l21:{what}:block={block}:axis={ax}:{exp}")
                ctx.case({"fam": "reject", "cls": "l21", "what": what, "block": block, "axis": str(ax)}, f"reject-l21-{what}-{block}-{ax}")
                if obs != exp:
                    ctx.disagree("prox.reject.l21", {"block": block, "axis": str(ax), "what": what}, obs, exp)
    # PoissonLoss has no closed-form prox: the flag must be off and prox must refuse
    L = loss.PoissonLoss(y=snp.array(np.array([1.0, 2.0])))
    obs = observe(lambda: L.prox(snp.array(np.array([1.0, 2.0])), 1.0))
    ctx.count(f"reject:poisson:has_prox={bool(L.has_prox)}:{obs}")
    ctx.case({"fam": "reject", "cls": "poisson"}, "reject-poisson")
    if L.has_prox or obs != "notimpl":
        ctx.disagree("prox.reject.poisson", {"has_prox": bool(L.has_prox)}, obs, "notimpl")


def findings(ctx, model):
    """replay the witnesses of known_findings.txt on the real code"""
    common.setup_scico()
    from scico import functional as F
    import scico.numpy as snp

    # l0-threshold : v = 1.2, lam = 1 -> returns 1.2 (objective 1.0) but x = 0 has objective 0.72
    f = F.L0Norm()
    v = snp.array([1.2])
    p = np.asarray(f.prox(v, 1.0))
    Fp = 1.0 * float(f(snp.array(p))) + 0.5 * float(np.sum((p - 1.2) ** 2))
    F0 = 0.5 * 1.2**2
    ctx.known_finding(KNOWN_L0, bool(p[0] == 1.2 and Fp > F0 + 1e-9), f"prox={p.tolist()} objective={Fp} vs {F0} at 0")
    # model side of the same witness: the model reproduces the code
    r = model.call("l0", v=common.fs2b([1.2]), lam=common.f2b(1.0))
    if common.b2fs(r["out"]) != [float(p[0])]:
        ctx.disagree("prox.l0.witness", {"v": [1.2], "lam": 1.0}, p.tolist(), common.b2fs(r["out"]))
    _w32_witness(ctx, model)
    _band_witness(ctx, model)


def _band_witness(ctx, model):
    """cubic-root-absolute-band: y = 2^-52, v = 0, scale = 0.5, lam = 2^52 returns 0; 2^-26 sqrt(0.5) has a lower objective"""
    c = json.loads((common.CORPUS_DIR / PROP / "cubic_root_absolute_band.json").read_text())["case"]
    with warnings.catch_warnings():
        warnings.simplefilter("ignore")
        impl = pc.Impl(c)
        v = pc.flat_value(c, "v")
        p = np.asarray(impl.prox_flat(v), dtype=np.float64)
        z = np.array([2.0**-26 * math.sqrt(0.5)])
        Fp, Fz = impl.objective(p, v), impl.objective(z, v)
    still = bool(Fz < Fp * (1 - 1e-3))
    ctx.known_finding(KNOWN_BAND, still, f"prox={p.tolist()} objective={Fp:.3e} vs {Fz:.3e} at {z.tolist()}")
    if still and not ctx.is_known(KNOWN_BAND):
        ctx.violation({"kind": "failing-input", "case": c, "failing": {"p": p.tolist(), "objective(p)": Fp, "better_x": z.tolist(), "objective(x)": Fz}},
                      True, "SquaredL2SquaredAbsLoss.prox: absolute band of the cubic root")


def _w32_witness(ctx, model):
    """loss-default-weight-float32: the prox of a float64 problem is computed with a float32 alpha when W is None"""
    c = json.loads((common.CORPUS_DIR / PROP / "loss_default_w_float32.json").read_text())["case"]
    with warnings.catch_warnings():
        warnings.simplefilter("ignore")
        p_impl = np.asarray(pc.Impl(c).prox_flat(pc.flat_value(c, "v")))
        p_model, _ = pc.model_eval(model, dict(c))
    err = float(np.max(np.abs(p_impl - p_model) / np.abs(p_model)))
    # still the float32 artefact iff the error is far above float64 rounding but at float32 level
    ctx.known_finding(KNOWN_W32, bool(1e-9 < err < 1e-6), f"max relative error {err:.2e}")
    if err >= 1e-6:
        ctx.disagree("prox.sql2abs.witness", c, pc._js(p_impl), pc._js(p_model), oracle=make_oracle(ctx.seed, p_model))


CLASS_FAMS = {
    "L0Norm": ["l0"], "L1Norm": ["l1"], "SquaredL2Norm": ["sql2"], "L2Norm": ["l2"], "L21Norm": ["l21"], "L1MinusL2Norm": ["l1l2"],
    "HuberNorm": ["hubersep", "hubernonsep"], "NuclearNorm": ["nuclear"], "NonNegativeIndicator": ["nonneg"], "L2BallIndicator": ["l2ball"],
    "SetDistance": ["setdist"], "SquaredSetDistance": ["sqsetdist"], "ZeroFunctional": ["zero"], "Loss": ["lossgen"], "SquaredL2Loss": ["sql2loss"],
    "SquaredL2AbsLoss": ["sql2abs"], "SquaredL2SquaredAbsLoss": ["sql2sqabs"], "_dep_cubic_root": ["sql2sqabs"], "_check_root": ["sql2sqabs"],
    "_cbrt": ["sql2sqabs"], "no_nan_divide": ["l21", "sql2sqabs"], "solver": ["sql2loss"], "PoissonLoss": [], "Diagonal": ["sql2loss"], "ScaledIdentity": ["sql2loss"], "Identity": ["sql2loss", "sql2abs", "sql2sqabs", "lossgen"],
}
LOSS_CLASSES = {"Loss", "SquaredL2Loss", "SquaredL2AbsLoss", "SquaredL2SquaredAbsLoss", "PoissonLoss", "solver", "Diagonal", "ScaledIdentity", "Identity"}


def table_diff(model):
    """rows of the tables extracted from the source that differ from the expected tables of `Scico.ProxTables` (served by the driver):
    returns (list of human-readable differing rows, set of affected class / helper names)"""
    exp = model.call("defaults")
    t = prox_translate.extract()
    rows, names = [], set()
    anch = ("_norm.py", "_indicator.py", "_dist.py", "loss.py")
    eflags = [tuple(r) for r in exp["flags"]]
    gflags = [tuple(r) for r in t["flags"] if r[0] in anch or r[1] == "ZeroFunctional"]
    for r in set(eflags) ^ set(gflags):
        rows.append({"table": "flags", "row": list(r), "side": "expected" if r in eflags else "source"})
        names.add(r[1])
    covered = set(exp["covered"]) | {"TVNorm", "BM3D", "BM4D", "DnCNN"}
    for r in t["flags"]:
        if r[4] == "True" and r[1] not in covered:
            rows.append({"table": "flags", "row": list(r), "side": "source: advertises a prox, neither modelled nor excluded"})
            names.add(r[1])
    edef = [tuple(r) for r in exp["defaults"]]
    rel = set(exp["relevant"])
    gdef = [tuple(r) for r in t["defaults"] if r[0] in rel]
    for r in set(edef) ^ set(gdef):
        rows.append({"table": "defaults", "row": list(r), "side": "expected" if r in edef else "source"})
        names.add(r[0].split(".")[0])
    edis = {(r[0], r[1]): list(r[2]) for r in exp["dispatch"]}
    gdis = {(r[0], r[1]): list(r[2]) for r in t["dispatch"]}
    for k in set(edis) | set(gdis):
        if edis.get(k) != gdis.get(k):
            rows.append({"table": "dispatch", "row": list(k), "expected": edis.get(k), "source": gdis.get(k)})
            names.add(k[0])
    eh, gh = [tuple(r) for r in exp.get("helpers", [])], [tuple(r) for r in t.get("helpers", [])]
    for r in set(eh) ^ set(gh):
        rows.append({"table": "helpers", "row": list(r), "side": "expected" if r in eh else "source"})
        names.add(r[0])
    eb, gb = [tuple(r) for r in exp["bases"]], [tuple(r) for r in t["bases"]]
    for r in set(eb) ^ set(gb):
        rows.append({"table": "bases", "row": list(r), "side": "expected" if r in eb else "source"})
        names.add(r[0])
    return rows, names


def targeted_panel(ctx, model, why):
    """after a broken generated obligation: exercise exactly the classes whose table rows differ - every family of those classes with the
    optimality oracle on EVERY case (structured and boundary), their attribute-update histories, and for the losses the guard, reject, default and
    CG streams - so that a behaviour-changing edit is reported WITH a failing input; a behaviour-preserving one ends with no input."""
    rows, names = table_diff(model)
    ctx.extra["table_diff"] = rows
    fams = sorted({f for nme in names for f in CLASS_FAMS.get(nme, [])})
    sub = common.Ctx(PROP, ctx.tier, ctx.seed + 1000)
    sub.known = ctx.known
    rng = sub.rng
    print(f"targeted panel after {why.get('module')}: differing rows {len(rows)}, classes {sorted(names)}, families {fams}", flush=True)
    for fam in fams:
        for k in range(60):
            case = pg.structured(rng, fam) if k % 2 == 0 else pg.boundary(rng, fam)
            check_case(sub, model, case, run_oracle=True)
            if any(fi for _, fi in sub.violations):
                break
        if fam in ATTR_FAMS and not any(fi for _, fi in sub.violations):
            for _ in range(12):
                attr_update_case(sub, model, rng, fam)
        if not any(fi for _, fi in sub.violations):
            for _ in range(40):
                scale_case(sub, model, rng, fam)
                if any(fi for _, fi in sub.violations):
                    break
    if not any(fi for _, fi in sub.violations):
        default_cases(sub, model, rng)
    if names & LOSS_CLASSES and not any(fi for _, fi in sub.violations):
        guard_cases(sub, model)
        reject_cases(sub, model)
        for _ in range(60):
            cg_case(sub, model, rng)
            if any(fi for _, fi in sub.violations):
                break
    for path, found in sub.violations:
        if found:
            rep = json.loads((common.VERIF / path).read_text())
            return {"table_diff": rows, "panel": fams, "replay": path, "case": rep.get("case"), "failing": rep.get("failing"), "op": rep.get("op")}
    return None


def search(ctx, model, why):
    """failing-input search on the implementation (thorough tier, or when something broke):
    the optimality oracle on fresh cases of every family, and firm non-expansiveness on pairs.
    After a broken generated obligation of `Scico.Generated.ProxTables`: the targeted panel on the classes whose rows differ."""
    common.setup_scico()
    if why is not None and "ProxTables" in str(why.get("module", "")):
        return targeted_panel(ctx, model, why)
    rng = ctx.rng
    n = ctx.n(8, 40)
    for fam in _families():
        for k in range(n):
            case = pg.structured(rng, fam) if k % 2 == 0 else pg.boundary(rng, fam)
            case["dtype"] = "float64"
            with warnings.catch_warnings():
                warnings.simplefilter("ignore")
                try:
                    p_model, _ = pc.model_eval(model, case)
                except common.ModelErr:
                    p_model = None
            before = len(ctx.violations)
            run_oracle_case(ctx, case, p_model)
            ctx.count("search:cases")
            if len(ctx.violations) > before:
                return None  # already reported with its replay
            if fam in pc.CONVEX and k % 4 == 0:
                c2 = dict(case)
                m = pc.case_size(case)
                c2["v"] = pg.dy(rng, m).tolist()
                if case.get("cplx"):
                    c2["vim"] = pg.dy(rng, m).tolist()
                with warnings.catch_warnings():
                    warnings.simplefilter("ignore")
                    r = pc.firm_oracle(case, c2)
                ctx.count("search:firm-pairs")
                if r is not None:
                    return {"case": _public(case), "second_input": _public(c2), **r}
    return None


def replay(ctx, model, rep):
    common.setup_scico()
    case = rep.get("case", rep)
    if "fam" not in case:
        raise common.Infra("replay file has no prox case")
    case = dict(case)
    with warnings.catch_warnings():
        warnings.simplefilter("ignore")
        p_model, margin = pc.model_eval(model, case)
        impl = pc.Impl(case)
        p_impl = impl.prox_flat(pc.flat_value(case, "v"))
    print("replay: impl prox =", pc._js(p_impl))
    print("replay: model prox =", pc._js(p_model), "margin", margin)
    r = make_oracle(ctx.seed, p_model)(case)
    print("replay:", "property FAILS on implementation:" if r else "no failure at this input", json.dumps(r, default=str)[:1500] if r else "")
    if r:
        ctx.violation({"kind": "failing-input", "case": _public(case), "failing": r}, True, "replay")
