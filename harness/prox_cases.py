"""Case machinery of the Prox engine (C02): one JSON-able *case* describes a functional/loss of scico,
its constructor parameters, the input layout (plain / N-d / block, real / complex, dtype), the point `v`
and `lam`.  From a case this module

  * builds the real scico object and evaluates `prox` and `__call__` on the implementation (`Impl`),
  * evaluates the Lean model of the same prox through the driver (`model_eval`),
  * evaluates the property oracle on the implementation (`oracle`): optimality of the returned point
    against analytic competitors and random points, and the sub-gradient inequality for convex `f`.

All values are flattened in C order (blocks concatenated), complex values as separate re/im lists.
"""

from __future__ import annotations

import itertools
import math

import numpy as np

import common
from common import b2f, b2fs, f2b, fs2b

CONVEX = {
    "l1", "sql2", "l2", "l21", "hubersep", "hubernonsep", "nonneg", "l2ball", "setdist", "sqsetdist", "zero",
    "sql2loss", "nuclear", "lossgen",
}
NONCONVEX = {"l0", "l1l2", "sql2abs", "sql2sqabs"}
FAMILIES = sorted(CONVEX | NONCONVEX)
# domain of the functional is a proper subset (f = +inf outside)
INDICATOR = {"nonneg", "l2ball"}
# complex input supported by the functional's definition (NonNegativeIndicator raises for complex;
# NuclearNorm/L21 work for complex data too; SquaredL2Loss with complex diagonal A)
COMPLEX_OK = set(FAMILIES) - {"nonneg", "lossgen"}
# block input: every family except NuclearNorm (needs a 2-D array); L1MinusL2Norm accepts block arrays since d060cbd
BLOCK_OK = set(FAMILIES) - {"nuclear"}


# ---------------------------------------------------------------------------------------------
# layout helpers


def case_shapes(case):
    """list of block shapes (one entry for a plain array)"""
    if case.get("blocks") is not None:
        return [tuple(s) for s in case["blocks"]]
    return [tuple(case["shape"])]


def case_size(case):
    return sum(int(np.prod(s)) for s in case_shapes(case))


def np_dtype(case):
    d = case.get("dtype", "float64")
    if case.get("cplx"):
        return np.complex64 if d == "float32" else np.complex128
    return np.float32 if d == "float32" else np.float64


def real_dtype(case):
    return np.float32 if case.get("dtype", "float64") == "float32" else np.float64


def flat_value(case, key="v"):
    """complex or real flat numpy vector stored in the case under key / key+'im'"""
    re = np.asarray(case[key], dtype=np.float64)
    if case.get("cplx") and (key + "im") in case:
        return re + 1j * np.asarray(case[key + "im"], dtype=np.float64)
    return re


def to_scico(case, flat, dtype=None):
    """flat numpy vector -> scico array / BlockArray of the case's layout"""
    import scico.numpy as snp

    dt = dtype or np_dtype(case)
    shapes = case_shapes(case)
    parts, o = [], 0
    for s in shapes:
        k = int(np.prod(s))
        parts.append(np.asarray(flat[o : o + k]).reshape(s).astype(dt))
        o += k
    if case.get("blocks") is not None:
        return snp.blockarray(parts)
    return snp.array(parts[0])


def from_scico(x):
    """scico array / BlockArray -> flat numpy vector"""
    import scico.numpy as snp

    if isinstance(x, snp.BlockArray):
        return np.concatenate([np.asarray(b).ravel() for b in x])
    return np.asarray(x).ravel()


def l21_groups(case):
    """group label of every flat entry for L21Norm(l2_axis): index over the non-reduced axes;
    block input with l2_axis=None: the block number"""
    ax = case["params"].get("axis", 0)
    if case.get("blocks") is not None:
        g = []
        for b, s in enumerate(case_shapes(case)):
            g += [b] * int(np.prod(s))
        return g
    shape = tuple(case["shape"])
    if ax is None:
        return [0] * int(np.prod(shape))
    axes = (ax,) if isinstance(ax, int) else tuple(ax)
    axes = tuple(a % len(shape) for a in axes)
    keep = [d for d in range(len(shape)) if d not in axes]
    idx = np.indices(shape).reshape(len(shape), -1)
    lab = np.zeros(idx.shape[1], dtype=np.int64)
    for d in keep:
        lab = lab * shape[d] + idx[d]
    return [int(t) for t in lab]


def same_partition(a, b):
    """two labellings induce the same partition of the index set"""
    if len(a) != len(b):
        return False
    m1, m2 = {}, {}
    for x, y in zip(a, b):
        if m1.setdefault(x, y) != y or m2.setdefault(y, x) != x:
            return False
    return True


# ---------------------------------------------------------------------------------------------
# projections used by the (squared) set distance


def proj_numpy(spec, x):
    kind = spec["kind"]
    if kind == "box":
        return np.clip(x, spec["lo"], spec["hi"])
    if kind == "nonneg":
        return np.maximum(x, 0.0)
    if kind == "ball":
        nx = np.linalg.norm(x)
        return x if nx <= spec["r"] else x * (spec["r"] / nx)
    if kind == "point":
        return np.full_like(x, spec["c"])
    if kind == "hyperplane":  # { x : sum x = b }
        return x - (np.sum(x) - spec["b"]) / x.size
    raise common.Infra(f"unknown projection {kind}")


def proj_scico(spec):
    import scico.numpy as snp
    from scico.numpy.linalg import norm

    kind = spec["kind"]
    if kind == "box":
        return lambda x: snp.clip(x, spec["lo"], spec["hi"])
    if kind == "nonneg":
        return lambda x: snp.maximum(x, 0.0)
    if kind == "ball":
        return lambda x: x * (spec["r"] / snp.maximum(norm(x), spec["r"]))
    if kind == "point":
        return lambda x: 0 * x + spec["c"]
    if kind == "hyperplane":
        return lambda x: x - (snp.sum(x) - spec["b"]) / x.size
    raise common.Infra(f"unknown projection {kind}")


def proj_args(spec):
    return {"ball": lambda: (spec["r"],), "point": lambda: (spec["c"],), "box": lambda: (spec["lo"], spec["hi"])}[spec["kind"]]()


def proj_scico_args(kind):
    """the same projections with their parameters as extra positional arguments"""
    import scico.numpy as snp
    from scico.numpy.linalg import norm

    if kind == "ball":
        return lambda x, r: x * (r / snp.maximum(norm(x), r))
    if kind == "point":
        return lambda x, c: 0 * x + c
    if kind == "box":
        return lambda x, lo, hi: snp.clip(x, lo, hi)
    raise common.Infra(f"no args form for projection {kind}")


# ---------------------------------------------------------------------------------------------
# implementation side


def make_functional(fam, P):
    """the scico functional of a family (not the losses)"""
    from scico import functional as F

    if fam == "l0":
        return F.L0Norm()
    if fam == "l1":
        return F.L1Norm()
    if fam == "sql2":
        return F.SquaredL2Norm()
    if fam == "l2":
        return F.L2Norm()
    if fam == "l21":
        ax = P.get("axis", 0)
        return F.L21Norm(l2_axis=tuple(ax) if isinstance(ax, list) else ax)
    if fam == "hubersep":
        return F.HuberNorm(delta=float(P["delta"]), separable=True)
    if fam == "hubernonsep":
        return F.HuberNorm(delta=float(P["delta"]), separable=False)
    if fam == "l1l2":
        return F.L1MinusL2Norm(beta=float(P["beta"]))
    if fam == "nuclear":
        return F.NuclearNorm()
    if fam == "nonneg":
        return F.NonNegativeIndicator()
    if fam == "l2ball":
        return F.L2BallIndicator(radius=float(P["radius"]))
    if fam in ("setdist", "sqsetdist"):
        C = F.SetDistance if fam == "setdist" else F.SquaredSetDistance
        spec = P["proj"]
        if spec.get("via_args") and spec["kind"] in ("ball", "point", "box"):
            # the parameters of the set travel through the `args` tuple of the constructor (`proj(*((v,) + self.args))`)
            return C(proj_scico_args(spec["kind"]), args=proj_args(spec))
        return C(proj_scico(spec))
    if fam == "zero":
        return F.ZeroFunctional()
    raise common.Infra(f"unknown family {fam}")


def apply_rescale(L, ops):
    """the rescalings of a loss object: c*L / L*c (`mul`), L/c (`div`), L.set_scale(c) (`set`)"""
    for k, (kind, c) in enumerate(ops or []):
        c = float(c)
        if kind == "mul":
            L = (c * L) if k % 2 == 0 else (L * c)
        elif kind == "div":
            L = L / c
        elif kind == "set":
            L.set_scale(c)
        else:
            raise common.Infra(f"unknown rescale op {kind}")
    return L


_DEFAULTS = {}


def defaults(model):
    """{(callable, parameter): default text} served by the driver from `Scico.ProxTables.expectedDefaults` (the generated obligations
    `Scico.Generated.ProxTables.defaults_ok` tie this table to the source on every run)"""
    if not _DEFAULTS:
        for c, p_, d in model.call("defaults")["defaults"]:
            _DEFAULTS[(c, p_)] = d
    return _DEFAULTS


def cubic_eps(model):
    """the band literal of `loss._dep_cubic_root` (from the table, not copied into the harness)"""
    import os

    if os.environ.get("VERIF_C02_CUBIC_EPS") is not None:  # development only: evaluate a proposed patch of the band test
        return float(os.environ["VERIF_C02_CUBIC_EPS"])
    return float(defaults(model)[("_dep_cubic_root", "band LtE")])


def eff_scale(model, P):
    """scale attribute after the rescalings, computed by the model (`scaleAfter`)"""
    ops = [[k, f2b(c)] for k, c in (P.get("rescale") or [])]
    return b2f(model.call("scale_after", scale0=f2b(P["scale"]), ops=ops)["scale"])


def orig_scale(model, P):
    """scale attribute of the ORIGINAL object after the same history, computed by the model (`scaleOfOriginal`)"""
    ops = [[k, f2b(c)] for k, c in (P.get("rescale") or [])]
    return b2f(model.call("scale_after", scale0=f2b(P["scale"]), ops=ops)["orig"])


class Impl:
    """the real scico object of a case, with flat-vector interfaces"""

    def __init__(self, case):
        from scico import functional as F
        from scico import linop, loss

        self.case = case
        fam, P = case["fam"], case["params"]
        rd, dt = real_dtype(case), np_dtype(case)
        self.lam = float(case["lam"])
        self.f_orig = None
        if fam not in ("sql2loss", "sql2abs", "sql2sqabs", "lossgen"):
            f = make_functional(fam, P)
        elif fam in ("sql2loss", "sql2abs", "sql2sqabs"):
            y = flat_value(case, "y") if fam == "sql2loss" else np.asarray(case["y"], dtype=np.float64)
            ydt = dt if fam == "sql2loss" else rd
            ys = to_scico(case, y, ydt)
            W = None
            if case.get("w") is not None:
                W = linop.Diagonal(to_scico(case, np.asarray(case["w"], dtype=np.float64), rd))
            A = None
            amode = P.get("A", "none")
            if amode == "identity" or (amode == "none" and case.get("cplx") and fam != "sql2loss"):
                # phase-retrieval losses with complex x need an explicit complex Identity
                if case.get("blocks") is not None:
                    A = linop.Identity(tuple(case_shapes(case)), input_dtype=dt)
                else:
                    A = linop.Identity(tuple(case["shape"]), input_dtype=dt)
            elif amode == "diagonal":
                A = linop.Diagonal(to_scico(case, flat_value(case, "a"), dt))
            kw = {"y": ys, "A": A, "scale": float(P["scale"]), "W": W}
            cls = {"sql2loss": loss.SquaredL2Loss, "sql2abs": loss.SquaredL2AbsLoss, "sql2sqabs": loss.SquaredL2SquaredAbsLoss}[fam]
            self.f_orig = cls(**kw)
            f = apply_rescale(self.f_orig, P.get("rescale"))
        elif fam == "lossgen":
            # generic Loss(y, A=None|Identity, f=<functional>, scale): prox by translation
            ys = to_scico(case, np.asarray(case["y"], dtype=np.float64), rd)
            A = None
            if P.get("A") == "identity":
                shp = tuple(case_shapes(case)) if case.get("blocks") is not None else tuple(case["shape"])
                A = linop.Identity(shp, input_dtype=dt)
            inner = make_functional(P["inner"], P)
            self.f_orig = loss.Loss(y=ys, A=A, f=inner, scale=float(P["scale"]))
            f = apply_rescale(self.f_orig, P.get("rescale"))
        self.f = f

    def has_prox(self):
        return bool(self.f.has_prox)

    def lam_arg(self):
        # lam is a python float: weakly typed, does not promote float32 data
        return self.lam

    def prox_flat(self, vflat):
        x = self.f.prox(to_scico(self.case, vflat), self.lam_arg())
        return from_scico(x)

    def prox_flat_orig(self, vflat):
        """prox of the ORIGINAL loss object (the one the rescalings `c*L`, `L/c` were derived from)"""
        return from_scico(self.f_orig.prox(to_scico(self.case, vflat), self.lam_arg()))

    def value(self, xflat):
        """f(x) on the implementation (float; inf for indicators outside their set)"""
        return float(self.f(to_scico(self.case, xflat)))

    def objective(self, xflat, vflat):
        fx = self.value(xflat)
        d = np.asarray(xflat) - np.asarray(vflat)
        return self.lam * fx + 0.5 * float(np.real(np.vdot(d, d)))


# ---------------------------------------------------------------------------------------------
# model side


def _cx(model_reply):
    return np.asarray(b2fs(model_reply["re"])) + 1j * np.asarray(b2fs(model_reply["im"]))


def _split(z):
    z = np.asarray(z)
    return fs2b(np.real(z)), fs2b(np.imag(z))


def model_eval(model, case, impl=None):
    """returns (flat prox value of the Lean model, decision margin or None).

    For complex data the norm-based functionals (l2, l21, hubernonsep, l2ball, set distances, zero, sql2) are
    evaluated on the vector of real and imaginary parts (the modulus structure is the same); the coordinate-wise
    ones use the complex scalar models."""
    fam, P = case["fam"], case["params"]
    lam = f2b(case["lam"])
    v = flat_value(case, "v")
    cplx = bool(case.get("cplx"))
    n = v.size

    def stacked(z):  # complex -> real vector (re..., im...)
        return np.concatenate([np.real(z), np.imag(z)]) if cplx else np.real(z)

    def unstack(x):
        x = np.asarray(x)
        return x[:n] + 1j * x[n:] if cplx else x

    margin = None
    if fam == "l0":
        if cplx:
            re, im = _split(v)
            r = model.call("l0c", vre=re, vim=im, lam=lam)
            return _cx(r), b2f(r["margin"])
        r = model.call("l0", v=fs2b(v), lam=lam)
        return np.asarray(b2fs(r["out"])), b2f(r["margin"])
    if fam == "l1":
        if cplx:
            re, im = _split(v)
            return _cx(model.call("l1c", vre=re, vim=im, lam=lam)), None
        return np.asarray(b2fs(model.call("l1", v=fs2b(v), lam=lam)["out"])), None
    if fam == "hubersep":
        d = f2b(P["delta"])
        if cplx:
            re, im = _split(v)
            return _cx(model.call("hubersepc", vre=re, vim=im, lam=lam, delta=d)), None
        return np.asarray(b2fs(model.call("hubersep", v=fs2b(v), lam=lam, delta=d)["out"])), None
    if fam in ("sql2", "l2", "hubernonsep", "zero", "l2ball"):
        extra = {}
        if fam == "hubernonsep":
            extra["delta"] = f2b(P["delta"])
        if fam == "l2ball":
            extra["radius"] = f2b(P["radius"])
        if fam not in ("zero", "l2ball"):
            extra["lam"] = lam
        r = model.call(fam, v=fs2b(stacked(v)), **extra)
        return unstack(b2fs(r["out"])), None
    if fam == "l21":
        # the MODEL computes the groups from the layout (`axisGroup shape (normAxes nd l2_axis)` / `blockGroup sizes`);
        # `l21_groups` (numpy) is an independent computation, compared with the model's labelling up to renaming
        kw = {"twice": bool(cplx)}
        if case.get("blocks") is not None:
            kw["blocks"] = [int(np.prod(sh)) for sh in case_shapes(case)]
        else:
            kw["shape"] = [int(t) for t in case["shape"]]
            ax = P.get("axis", 0)
            if ax is None:
                kw["axes_none"] = True
            else:
                kw["axes"] = [int(ax)] if isinstance(ax, int) else [int(a) for a in ax]
        r = model.call("l21", v=fs2b(stacked(v)), lam=lam, **kw)
        g = l21_groups(case)
        case["_groups_agree"] = same_partition(list(r["groups"]), (g + g) if cplx else g)
        return unstack(b2fs(r["out"])), None
    if fam == "nonneg":
        return np.asarray(b2fs(model.call("nonneg", v=fs2b(v))["out"])), None
    if fam == "l1l2":
        if cplx:
            re, im = _split(v)
            r = model.call("l1l2c", vre=re, vim=im, lam=lam, beta=f2b(P["beta"]))
            return _cx(r), b2f(r["margin"])
        r = model.call("l1l2", v=fs2b(v), lam=lam, beta=f2b(P["beta"]))
        case["_branch"] = r.get("branch")
        return np.asarray(b2fs(r["out"])), b2f(r["margin"])
    if fam in ("setdist", "sqsetdist"):
        y = proj_value(case, v)
        r = model.call(fam, v=fs2b(stacked(v)), y=fs2b(stacked(y)), lam=lam)
        return unstack(b2fs(r["out"])), None
    if fam == "nuclear":
        M = v.reshape(tuple(case["shape"]))
        import scico.numpy as snp

        if cplx:
            # complex matrices: complex factors of the code's own SVD, product formed by the model (C02_nuclear_complex)
            Mj = snp.array(M.astype(np_dtype(case)))
            U, s, Vh = (np.asarray(t) for t in snp.linalg.svd(Mj, full_matrices=False))
            U, Vh, s = U.astype(np.complex128), Vh.astype(np.complex128), np.asarray(s, dtype=np.float64)
            m_, n_ = M.shape
            k_ = s.size
            r = model.call("nuclear_fullc", m=m_, n=n_, k=k_, ure=fs2b(U.real.ravel()), uim=fs2b(U.imag.ravel()), s=fs2b(s),
                           vhre=fs2b(Vh.real.ravel()), vhim=fs2b(Vh.imag.ravel()), lam=lam)
            usv = (np.asarray(b2fs(r["usvre"])) + 1j * np.asarray(b2fs(r["usvim"]))).reshape(m_, n_)
            case["_svd"] = svd_contract(M, U, s, Vh, usv, 1e-4 if case.get("dtype") == "float32" else 1e-10)
            return _cx(r), None
        # real matrices: the factors returned by the code's own SVD call (`snp.linalg.svd(v, full_matrices=False)`) are handed
        # to the model, which forms `U diag(max(0, s - lam)) Vh` itself; the hypotheses of C02_nuclear (the SVD contract) are
        # checked numerically on these factors by `svd_contract`
        Mj = snp.array(M.astype(real_dtype(case)))
        U, s, Vh = (np.asarray(t, dtype=np.float64) for t in snp.linalg.svd(Mj, full_matrices=False))
        m_, n_ = M.shape
        k_ = s.size
        r = model.call("nuclear_full", m=m_, n=n_, k=k_, u=fs2b(U.ravel()), s=fs2b(s), vh=fs2b(Vh.ravel()), lam=lam)
        case["_svd"] = svd_contract(M, U, s, Vh, np.asarray(b2fs(r["usv"])).reshape(m_, n_),
                                    1e-4 if case.get("dtype") == "float32" else 1e-10)
        return np.asarray(b2fs(r["out"])), None
    if fam == "lossgen":
        es = eff_scale(model, P)
        case["_scale"] = es
        extra = {}
        if "delta" in P:
            extra["delta"] = f2b(P["delta"])
        if "radius" in P:
            extra["radius"] = f2b(P["radius"])
        if "beta" in P:
            extra["beta"] = f2b(P["beta"])
        r = model.call("lossgen", inner=P["inner"], v=fs2b(v), y=fs2b(np.asarray(case["y"], dtype=np.float64)), lam=lam,
                       scale=f2b(es), **extra)
        return np.asarray(b2fs(r["out"])), None
    if fam == "sql2loss":
        sc = f2b(eff_scale(model, P))
        w = np.asarray(case["w"], dtype=np.float64) if case.get("w") is not None else np.ones(n)
        a = flat_value(case, "a") if P.get("A") == "diagonal" else np.ones(n)
        y = flat_value(case, "y")
        if cplx:
            vre, vim = _split(v)
            yre, yim = _split(y)
            are, aim = _split(a)
            return _cx(model.call("sql2lossc", vre=vre, vim=vim, yre=yre, yim=yim, are=are, aim=aim, w=fs2b(w), lam=lam, scale=sc)), None
        return np.asarray(b2fs(model.call("sql2loss", v=fs2b(v), y=fs2b(y), a=fs2b(np.real(a)), w=fs2b(w), lam=lam, scale=sc)["out"])), None
    if fam == "sql2abs":
        sc = f2b(eff_scale(model, P))
        w = np.asarray(case["w"], dtype=np.float64) if case.get("w") is not None else np.ones(n)
        y = np.asarray(case["y"], dtype=np.float64)
        if cplx:
            vre, vim = _split(v)
            return _cx(model.call("sql2absc", vre=vre, vim=vim, y=fs2b(y), w=fs2b(w), lam=lam, scale=sc)), None
        return np.asarray(b2fs(model.call("sql2abs", v=fs2b(v), y=fs2b(y), w=fs2b(w), lam=lam, scale=sc)["out"])), None
    if fam == "sql2sqabs":
        case["_scale"] = eff_scale(model, P)
        sc = f2b(case["_scale"])
        w = np.asarray(case["w"], dtype=np.float64) if case.get("w") is not None else np.ones(n)
        y = np.asarray(case["y"], dtype=np.float64)
        absv = np.abs(v)
        # coefficients handed to `_dep_cubic_root` (model), the root by the MODEL of `_dep_cubic_root` and by the code
        pq = model.call("cubic_pq", absv=fs2b(absv), y=fs2b(y), w=fs2b(w), lam=lam, scale=sc)
        p, q = np.asarray(b2fs(pq["p"])), np.asarray(b2fs(pq["q"]))
        eps = f2b(cubic_eps(model))
        rm = model.call("cubic_root", p=fs2b(p), q=fs2b(q), eps=eps)
        case["_cubic"] = {"p": p.tolist(), "q": q.tolist(), "r": cubic_root_impl(p, q).tolist(), "r_model": b2fs(rm["r"]),
                          "branch": list(rm["branch"])}
        # the prox with the root computed by the model (C02_sqL2SqAbs_closed)
        if cplx:
            vre, vim = _split(v)
            return _cx(model.call("sql2sqabs_fullc", vre=vre, vim=vim, y=fs2b(y), w=fs2b(w), lam=lam, scale=sc, eps=eps)), None
        return np.asarray(b2fs(model.call("sql2sqabs_full", v=fs2b(v), y=fs2b(y), w=fs2b(w), lam=lam, scale=sc, eps=eps)["out"])), None
    raise common.Infra(f"no model for family {fam}")


def proj_value(case, v):
    """y = proj(v) computed by the SAME callable that is handed to scico (so the model sees what the code sees)"""
    import scico.numpy as snp

    y = proj_scico(case["params"]["proj"])(to_scico(case, v))
    return from_scico(y)


def svd_contract(M, U, s, Vh, usv_model, tol):
    """hypotheses of C02_nuclear on the factors the code's SVD returned: orthonormal columns of U / rows of Vh, s >= 0,
    U diag(s) Vh = M (the product formed by the MODEL).  Returns the list of violated items."""
    bad = []
    k = s.size
    if np.max(np.abs(U.conj().T @ U - np.eye(k)), initial=0.0) > tol * 10:
        bad.append("columns of U not orthonormal")
    if np.max(np.abs(Vh @ Vh.conj().T - np.eye(k)), initial=0.0) > tol * 10:
        bad.append("rows of Vh not orthonormal")
    if np.any(s < 0):
        bad.append("negative singular value")
    if np.max(np.abs(usv_model - M), initial=0.0) > tol * 10 * (1 + np.max(np.abs(M), initial=0.0)):
        bad.append("U diag(s) Vh != v")
    return bad


def cubic_root_impl(p, q):
    """the implementation's `_dep_cubic_root` (the theorem takes the root as a relation; the relation is
    checked by `cubic_relation_ok`)"""
    import warnings

    import scico.numpy as snp
    from scico import loss

    with warnings.catch_warnings():
        warnings.simplefilter("ignore")
        return np.asarray(loss._dep_cubic_root(snp.array(p), snp.array(q)), dtype=np.float64)


def cubic_relation_ok(p, q, r, alpha_pos):
    """hypothesis `CubicRootOK` of C02_sqL2SqAbs on the root returned by the code: r >= 0, r^3 + p r + q = 0, and r = 0
    only when p >= 0 (i.e. alpha*y <= 1).  For q <= 0 these conditions determine r uniquely (the positive root if q < 0;
    sqrt(-p) resp. 0 if q = 0), so the check is |r - r_expected| <= 1e-6 (1 + r_expected) with r_expected from numpy.roots.
    Entries with alpha = 0 are not constrained (the prox returns v there)."""
    bad = []
    for i, (pi, qi, ri, ap) in enumerate(zip(p, q, r, alpha_pos)):
        if not ap:
            continue
        if qi == 0:
            expect = math.sqrt(-pi) if pi < 0 else 0.0
        else:
            rts = np.roots([1.0, 0.0, pi, qi])
            pos = [float(np.real(t)) for t in rts if abs(np.imag(t)) <= 1e-7 * (1 + abs(t)) and np.real(t) > 0]
            if not pos:
                bad.append((i, "no-positive-root", pi, qi, ri, float("nan")))
                continue
            expect = min(pos, key=lambda t: abs(t - ri))
            if len(pos) > 1 and max(pos) - min(pos) > 1e-5 * (1 + max(pos)):
                bad.append((i, "several-positive-roots", pi, qi, ri, float("nan")))
                continue
        if not (abs(ri - expect) <= 1e-6 * (1.0 + abs(expect))):
            bad.append((i, "root", pi, qi, ri, expect))
    return bad


# ---------------------------------------------------------------------------------------------
# oracle on the implementation


def _tol(*xs):
    return 1e-9 * (1.0 + max(abs(float(x)) for x in xs))


def competitors(case, impl, v, p, rng, model_p=None, nrand=24):
    """analytic competitors and random points (flat vectors, same dtype class as v)"""
    fam = case["fam"]
    cplx = bool(case.get("cplx"))
    n = v.size
    out = [("zero", np.zeros_like(v)), ("v", v.copy())]
    if model_p is not None:
        out.append(("model", np.asarray(model_p)))
    if fam in ("setdist", "sqsetdist"):
        out.append(("proj", proj_value(case, v)))
    if fam == "l2ball":
        r = float(case["params"]["radius"])
        nv = np.linalg.norm(v)
        out.append(("proj", v if nv <= r else v * (r / nv)))
    if fam == "nonneg":
        out.append(("proj", np.maximum(np.real(v), 0.0)))
    # threshold neighbours: each coordinate of p replaced by 0 / by v_i ; p scaled
    for i in range(min(n, 8)):
        a = p.copy()
        a[i] = 0
        out.append((f"kill{i}", a))
        b = p.copy()
        b[i] = v[i]
        out.append((f"keep{i}", b))
        c = np.zeros_like(v)
        c[i] = v[i]
        out.append((f"only{i}", c))
    for s in (0.5, 0.9, 0.99, 1.01, 1.1, 2.0):
        out.append((f"scale{s}", p * s))
    if fam == "l1l2":
        beta = float(case["params"]["beta"])
        lam = float(case["lam"])
        for i in range(min(n, 8)):
            e = np.zeros_like(v)
            sg = 1.0 if np.real(v[i]) >= 0 else -1.0
            e[i] = sg * max(abs(v[i]) + (beta - 1.0) * lam, 0.0)
            out.append((f"onesparse{i}", e))
            e2 = np.zeros_like(v)
            e2[i] = (beta - 1.0) * lam
            out.append((f"onesparse-b{i}", e2))
    if fam in ("sql2abs", "sql2sqabs"):
        # radial 1-D scan along the phase of v (and along +1 where v = 0)
        ph = np.where(np.abs(v) > 0, v / np.where(np.abs(v) > 0, np.abs(v), 1), 1.0)
        y = np.asarray(case["y"], dtype=np.float64)
        for t in (np.sqrt(np.maximum(y, 0)), y, np.abs(v), 0.5 * (np.abs(v) + y), 0.5 * (np.abs(v) + np.sqrt(np.maximum(y, 0)))):
            out.append(("radial", ph * t))
            out.append(("radial-", -ph * t))
    for k in range(nrand):
        sc = [1e-3, 1e-2, 1e-1, 1.0][k % 4]
        d = rng.standard_normal(n) + (1j * rng.standard_normal(n) if cplx else 0)
        out.append((f"near{sc}", p + sc * d))
    for k in range(8):
        d = 3.0 * (rng.standard_normal(n) + (1j * rng.standard_normal(n) if cplx else 0))
        out.append(("rand", d))
    if fam == "nonneg":
        out = [(t, np.real(z)) for t, z in out]
    return out


def oracle(case, rng, model_p=None):
    """Evaluate C02 on the implementation at this case.  Returns a dict (failing input) or None.

    * the returned point must lie in the domain (finite f),
    * no competitor may have a lower objective lam f(x) + 0.5||x-v||^2,
    * convex f: the sub-gradient inequality f(z) >= f(p) + Re<(v-p)/lam, z-p> for every competitor z in the domain.
    For the L0 norm the exact per-coordinate enumeration {0, v_i} decides optimality."""
    impl = Impl(case)
    fam = case["fam"]
    lam = float(case["lam"])
    v = flat_value(case, "v").astype(np.complex128 if case.get("cplx") else np.float64)
    p = np.asarray(impl.prox_flat(v))
    p = p.astype(np.complex128 if case.get("cplx") else np.float64)
    loose = 1e4 if case.get("dtype") == "float32" else 1.0
    if not np.all(np.isfinite(p)):
        return {"reason": "prox returned a non-finite value", "p": _js(p), "v": _js(v), "lam": lam}
    fp = impl.value(p)
    shrink = 1.0 - (1e-5 if case.get("dtype") == "float32" else 1e-12)
    if not math.isfinite(fp) and fam == "l2ball":
        # the projection lands on the sphere up to rounding: accept a point that is in the set after a 1e-12 relative shrink
        fp = impl.value(p * shrink)
    if not math.isfinite(fp) and fam == "lossgen" and case["params"].get("inner") == "l2ball":
        yv = np.asarray(case["y"], dtype=np.float64)
        fp = impl.value(yv + (p - yv) * shrink)
    if not math.isfinite(fp):
        return {"reason": "prox value outside the domain of f (f(p) not finite)", "p": _js(p), "f(p)": fp, "v": _js(v), "lam": lam}
    Fp = impl.objective(p, v)
    if fam == "l0":
        # exact enumeration (separable): best per coordinate is min(lam, 0.5|v_i|^2)
        best = float(np.sum(np.minimum(lam, 0.5 * np.abs(v) ** 2)))
        if Fp > best + loose * _tol(Fp, best):
            x = np.where(0.5 * np.abs(v) ** 2 >= lam, v, 0)
            return {"reason": "L0: exact enumeration finds a lower objective", "v": _js(v), "lam": lam, "p": _js(p),
                    "objective(p)": Fp, "better_x": _js(x), "objective(x)": best}
    for tag, z in competitors(case, impl, v, p, rng, model_p):
        fz = impl.value(z)
        if not math.isfinite(fz):
            continue
        Fz = impl.objective(z, v)
        if Fz < Fp - loose * _tol(Fp, Fz):
            return {"reason": f"competitor '{tag}' has a lower objective", "v": _js(v), "lam": lam, "p": _js(p),
                    "objective(p)": Fp, "better_x": _js(z), "objective(x)": Fz, "params": case["params"]}
        if fam in CONVEX:
            g = float(np.real(np.vdot((v - p) / lam, z - p)))
            if fz < fp + g - loose * _tol(fz, fp, g):
                return {"reason": f"sub-gradient inequality fails at z='{tag}'", "v": _js(v), "lam": lam, "p": _js(p),
                        "z": _js(z), "f(z)": fz, "f(p)": fp, "Re<(v-p)/lam,z-p>": g, "params": case["params"]}
    return None


def firm_oracle(case, case2):
    """firm non-expansiveness of the implementation between two inputs of the same functional (convex only)"""
    impl = Impl(case)
    v, w = flat_value(case, "v"), flat_value(case2, "v")
    p, q = np.asarray(impl.prox_flat(v)), np.asarray(impl.prox_flat(w))
    lhs = float(np.real(np.vdot(p - q, p - q)))
    rhs = float(np.real(np.vdot(p - q, v - w)))
    if lhs > rhs + _tol(lhs, rhs):
        return {"reason": "firm non-expansiveness fails", "v": _js(v), "w": _js(w), "p": _js(p), "q": _js(q), "|p-q|^2": lhs, "<p-q,v-w>": rhs}
    return None


def _js(x):
    x = np.asarray(x)
    if np.iscomplexobj(x):
        return {"re": np.real(x).tolist(), "im": np.imag(x).tolist()}
    return x.tolist()
