"""Translator of the LinSolve engine (C14, C10; DESIGN §6.3): data of the scico source that the hand-written model copies
-> lean/Scico/Generated/LinSolveTables.lean.

Read with `ast` only (nothing is imported or executed) from `$SCICO_REPO`:

* scico/solver.py : default argument values of `cg`, `lstsq`, `bisect`, `golden`; of `MatrixATADSolver.__init__`;
  the Woodbury branch `self.woodbury = bool(<and of comparisons / snp.all(<comparison>)>)` of `MatrixATADSolver.__init__`
  together with the binding `N, M = A.shape`;
* scico/flax/inverse.py : default argument values of `cg_solver`;
* scico/optimize/_admmaux.py : default arguments of every sub-problem solver's `__init__`; the literal dicts
  `default_cg_kwargs` / `default_solve_kwargs`; and, for every `internal_init`, the guarded `raise` statements in source order:
  for each `if <test>: raise <Exc>(…)` the enclosing conditions (source text), the test — for `not isinstance(X, T)` as
  (X, class names of T), otherwise as source text — and the exception class.

The generated module holds the data as a `Scico.LinSolve.SolverTables` value and ONE obligation
`src = Scico.LinSolve.solverTables` (the model's hand-written copy) closed by `decide`.
"""

from __future__ import annotations

import ast

import common

OUT = common.LEAN_DIR / "Scico" / "Generated" / "LinSolveTables.lean"

FUNCS = [("scico/solver.py", "cg"), ("scico/solver.py", "lstsq"), ("scico/solver.py", "bisect"), ("scico/solver.py", "golden"),
         ("scico/flax/inverse.py", "cg_solver")]
INITS = [("scico/solver.py", "MatrixATADSolver"), ("scico/optimize/_admmaux.py", "GenericSubproblemSolver"),
         ("scico/optimize/_admmaux.py", "LinearSubproblemSolver"), ("scico/optimize/_admmaux.py", "MatrixSubproblemSolver"),
         ("scico/optimize/_admmaux.py", "CircularConvolveSolver"), ("scico/optimize/_admmaux.py", "FBlockCircularConvolveSolver"),
         ("scico/optimize/_admmaux.py", "G0BlockCircularConvolveSolver")]
KWDICTS = [("LinearSubproblemSolver", "default_cg_kwargs"), ("MatrixSubproblemSolver", "default_solve_kwargs")]
CHECKED = ["LinearSubproblemSolver", "MatrixSubproblemSolver", "CircularConvolveSolver", "FBlockCircularConvolveSolver",
           "G0BlockCircularConvolveSolver"]


class Untranslatable(common.Infra):
    pass


def _tree(rel):
    return ast.parse((common.REPO / rel).read_text())


def _defaults(fn):
    """[(argument, source text of its default)] for positional and keyword-only arguments that have one"""
    a = fn.args
    pos = a.posonlyargs + a.args
    out = [(p.arg, ast.unparse(d)) for p, d in zip(pos[len(pos) - len(a.defaults):], a.defaults)]
    out += [(p.arg, ast.unparse(d)) for p, d in zip(a.kwonlyargs, a.kw_defaults) if d is not None]
    return out


def _func(tree, name):
    for n in tree.body:
        if isinstance(n, ast.FunctionDef) and n.name == name:
            return n
    raise Untranslatable(f"function {name} not found")


def _cls(tree, name):
    for n in tree.body:
        if isinstance(n, ast.ClassDef) and n.name == name:
            return n
    raise Untranslatable(f"class {name} not found")


def _meth(cls, name):
    for n in cls.body:
        if isinstance(n, ast.FunctionDef) and n.name == name:
            return n
    return None


def _dict_literal(fn, var, where):
    for n in ast.walk(fn):
        if isinstance(n, ast.Assign) and len(n.targets) == 1 and isinstance(n.targets[0], ast.Name) and n.targets[0].id == var:
            if not isinstance(n.value, ast.Dict) or not all(isinstance(k, ast.Constant) and isinstance(k.value, str) for k in n.value.keys):
                raise Untranslatable(f"{where}: {var} is not a dict literal with string keys")
            return [(k.value, ast.unparse(v)) for k, v in zip(n.value.keys, n.value.values)]
    raise Untranslatable(f"{where}: no assignment to {var}")


def _names(t):
    if isinstance(t, ast.Name):
        return [t.id]
    if isinstance(t, ast.Tuple) and all(isinstance(e, ast.Name) for e in t.elts):
        return [e.id for e in t.elts]
    return None


def _checks(fn):
    """guarded raises of a method, in source order: (enclosing conditions, subject, classes, test text, exception)"""
    out = []

    def exc_of(r):
        e = r.exc
        if isinstance(e, ast.Call):
            e = e.func
        return ast.unparse(e) if e is not None else "?"

    def walk(stmts, guards):
        for st in stmts:
            if isinstance(st, ast.If):
                test = st.test
                raises = [b for b in st.body if isinstance(b, ast.Raise)]
                for r in raises:
                    subj, classes = "", []
                    if (isinstance(test, ast.UnaryOp) and isinstance(test.op, ast.Not) and isinstance(test.operand, ast.Call)
                            and isinstance(test.operand.func, ast.Name) and test.operand.func.id == "isinstance" and len(test.operand.args) == 2):
                        nm = _names(test.operand.args[1])
                        if nm is not None:
                            subj, classes = ast.unparse(test.operand.args[0]), nm
                    out.append((" and ".join(guards), subj, classes, "" if subj else ast.unparse(test), exc_of(r)))
                walk([b for b in st.body if not isinstance(b, ast.Raise)], guards + [ast.unparse(test)])
                walk(st.orelse, guards + ["not (" + ast.unparse(test) + ")"])
            elif isinstance(st, (ast.For, ast.While, ast.With)):
                walk(st.body, guards + ([("for " + ast.unparse(st.target) + " in " + ast.unparse(st.iter))] if isinstance(st, ast.For) else []))

    walk(fn.body, [])
    return out


def _woodbury(init):
    """`self.woodbury = bool(a and b and …)`: atoms (kind, lhs, op, rhs); kind "cmp" or "all" (`snp.all(<cmp>)`)"""
    ops = {ast.Lt: "<", ast.LtE: "<=", ast.Gt: ">", ast.GtE: ">=", ast.Eq: "==", ast.NotEq: "!="}
    bind = None
    cond = None
    for n in ast.walk(init):
        if isinstance(n, ast.Assign) and len(n.targets) == 1:
            t = n.targets[0]
            if isinstance(t, ast.Tuple) and ast.unparse(t) in ("(N, M)", "N, M"):
                bind = ("N, M", ast.unparse(n.value))
            if isinstance(t, ast.Attribute) and ast.unparse(t) == "self.woodbury":
                cond = n.value
    if cond is None or bind is None:
        raise Untranslatable("MatrixATADSolver.__init__: assignment to self.woodbury / N, M not found")
    if isinstance(cond, ast.Call) and isinstance(cond.func, ast.Name) and cond.func.id == "bool" and len(cond.args) == 1:
        cond = cond.args[0]
    parts = cond.values if isinstance(cond, ast.BoolOp) and isinstance(cond.op, ast.And) else [cond]

    def cmp(e):
        if isinstance(e, ast.Compare) and len(e.ops) == 1 and type(e.ops[0]) in ops:
            return (ast.unparse(e.left), ops[type(e.ops[0])], ast.unparse(e.comparators[0]))
        return None

    atoms = []
    for p in parts:
        c = cmp(p)
        if c:
            atoms.append(("cmp",) + c)
            continue
        if isinstance(p, ast.Call) and ast.unparse(p.func) == "snp.all" and len(p.args) == 1 and cmp(p.args[0]):
            atoms.append(("all",) + cmp(p.args[0]))
            continue
        raise Untranslatable(f"Woodbury branch: unsupported conjunct {ast.unparse(p)}")
    return bind, atoms


def extract():
    trees = {}

    def tree(rel):
        if rel not in trees:
            trees[rel] = _tree(rel)
        return trees[rel]

    defaults = [(name, _defaults(_func(tree(rel), name))) for rel, name in FUNCS]
    for rel, cname in INITS:
        init = _meth(_cls(tree(rel), cname), "__init__")
        if init is None:
            raise Untranslatable(f"{cname}.__init__ not found")
        defaults.append((cname + ".__init__", _defaults(init)))
    aux = tree("scico/optimize/_admmaux.py")
    kw = [(cname, var, _dict_literal(_meth(_cls(aux, cname), "__init__"), var, cname)) for cname, var in KWDICTS]
    checks = []
    for cname in CHECKED:
        ii = _meth(_cls(aux, cname), "internal_init")
        if ii is None:
            raise Untranslatable(f"{cname}.internal_init not found")
        checks.append((cname, _checks(ii)))
    bind, atoms = _woodbury(_meth(_cls(tree("scico/solver.py"), "MatrixATADSolver"), "__init__"))
    return {"defaults": defaults, "kwdicts": kw, "checks": checks, "woodbury_bind": bind, "woodbury": atoms}


def _s(x):
    return '"' + x.replace("\\", "\\\\").replace('"', '\\"') + '"'


def _pairs(l):
    return "[" + ", ".join(f"({_s(a)}, {_s(b)})" for a, b in l) + "]"


def render(t):
    L = []
    L.append("/- GENERATED by harness/linsolve_translate.py from scico/solver.py, scico/flax/inverse.py, scico/optimize/_admmaux.py —")
    L.append("   rewritten on every run, do not edit. -/")
    L.append("import Scico.Model.LinSolve")
    L.append("")
    L.append("namespace Scico.Generated.LinSolveTables")
    L.append("open Scico.LinSolve")
    L.append("")
    L.append("def src : SolverTables :=")
    L.append("  { defaults := [")
    L.append(",\n".join(f"      ({_s(n)}, {_pairs(d)})" for n, d in t["defaults"]))
    L.append("    ],")
    L.append("    kwDicts := [")
    L.append(",\n".join(f"      ({_s(c)}, {_s(v)}, {_pairs(d)})" for c, v, d in t["kwdicts"]))
    L.append("    ],")
    L.append("    checks := [")
    rows = []
    for c, cs in t["checks"]:
        items = ",\n          ".join(
            "{ guard := %s, subject := %s, classes := [%s], test := %s, err := %s }" % (_s(g), _s(sj), ", ".join(_s(k) for k in cl), _s(tx), _s(e))
            for g, sj, cl, tx, e in cs)
        rows.append(f"      ({_s(c)}, [\n          {items}])")
    L.append(",\n".join(rows))
    L.append("    ],")
    L.append(f"    woodburyBind := ({_s(t['woodbury_bind'][0])}, {_s(t['woodbury_bind'][1])}),")
    L.append("    woodbury := [" + ", ".join("{ kind := %s, lhs := %s, op := %s, rhs := %s }" % tuple(_s(x) for x in a) for a in t["woodbury"]) + "] }")
    L.append("")
    L.append("/-- the data read from the source are the data of the model (`Scico.LinSolve.solverTables`), from which the default arguments")
    L.append("    used by the adapters, the acceptance rules of the `internal_init`s (`initResult`) and the Woodbury branch rule")
    L.append("    (`woodburyEval`, theorem `C14_woodbury_rule_of_source`) are derived -/")
    L.append("theorem tables_ok : src = solverTables := by decide +kernel")
    L.append("")
    L.append("end Scico.Generated.LinSolveTables")
    return "\n".join(L) + "\n"


def generate():
    t = extract()
    text = render(t)
    if not OUT.exists() or OUT.read_text() != text:
        OUT.write_text(text)
    return t


if __name__ == "__main__":
    import json

    print(json.dumps(extract(), indent=1))


def diff_rows(model_tables):
    """rows of the source tables that differ from the model's (`driver op tables`): [("defaults", fn) | ("kwdicts", cls) |
    ("checks", cls) | ("woodbury", "")] - used by the adapters' search() to aim the failing-input search at the function whose row changed"""
    t = extract()
    out = []
    md = {e[0]: [tuple(p) for p in e[1]] for e in model_tables["defaults"]}
    for n, d in t["defaults"]:
        if md.get(n) != [tuple(p) for p in d]:
            out.append(("defaults", n))
    mk = {e[0]: [tuple(p) for p in e[2]] for e in model_tables["kwdicts"]}
    for c, _, d in t["kwdicts"]:
        if mk.get(c) != [tuple(p) for p in d]:
            out.append(("kwdicts", c))
    mc = {e[0]: [(c[0], c[1], tuple(c[2]), c[3], c[4]) for c in e[1]] for e in model_tables["checks"]}
    for c, cs in t["checks"]:
        if mc.get(c) != [(g, sj, tuple(cl), tx, e) for g, sj, cl, tx, e in cs]:
            out.append(("checks", c))
    if [tuple(a) for a in model_tables["woodbury"]] != [tuple(a) for a in t["woodbury"]] or tuple(model_tables["woodbury_bind"]) != tuple(t["woodbury_bind"]):
        out.append(("woodbury", ""))
    return out
