"""C19 - results do not depend on execution mode or call history; randomness is explicit.

Two ties:
  (A) state machines of the Lean model `Scico.Model.Cache` against the real objects:
      TVNorm operator cache (which calls rebuild, which (shape,dtype) the cached operators were built for,
      value = value of a fresh object), rescaled-loss object graph (scales, whose __call__ each gradient
      differentiates), helper-object back-references of optimisers, argument handling of scico.random;
  (B) a MULTI-MODE differential runner (no Lean model involved - the reference is the fresh eager value):
      every catalogued call is evaluated eagerly, under jax.jit, with the constructor option jit=True/False,
      under jax.disable_jit(), on a fresh object and on an object that was first used with other
      shapes / dtypes / parameters, and twice in a row; all must agree to rounding.  Mutation / aliasing
      probes compare deep snapshots of objects (and of constructor default arguments) before and after
      they are used inside other objects.
Equality of XLA-compiled and eager execution is covered ONLY by (B) (partial).
"""

from __future__ import annotations

import inspect
import os
import json
import warnings

import numpy as np

import common
from common import ModelErr

PROP = "C19"
CLAIMED = True
ENGINE = "Cache"
DESIGN_REF = "DESIGN.md §5.12"
TECHNIQUE = (
    "Lean 4 proof over state machines of the stateful pieces (cache / object graph / back-references / rng argument "
    "handling, all histories) + multi-mode, multi-history differential execution of the real code"
)
LEVEL_TEXT = (
    "Lean theorems: TVNorm's cached operators make results history independent iff they are a function of the cache key "
    "(and the (shape,dtype) keying of the code is); Loss.__mul__/__truediv__/set_scale never alias (scales follow each "
    "object's own derivation, every gradient is the gradient of its own object, any op sequence); a helper object's "
    "back-reference points to the most recent optimiser it was given to (own state iff not shared); scico.random results "
    "and returned keys are functions of (shape, dtype, key|seed), both -> error, default seed 0, nested -> blocks, key "
    "threading; constructor option dictionaries (literal defaults are immune to every history, the by-reference default is "
    "characterised); the jit slots of LinearOperator (what is wrapped, how often, which adjoint) for all histories.  Mode "
    "independence (eager / jax.jit / constructor jit / disable_jit) is checked differentially only - in process and against a "
    "new interpreter; module-level state of scico is audited before/after."
)
LEVEL_NOTE = (
    "partial: that XLA-compiled and eager execution agree is a property of the JAX runtime which no model of scico "
    "exhibits; it is covered only by the multi-mode differential tie on the catalogued objects (sampled in the quick tier, "
    "complete catalogue in the thorough tier).  jit closures capturing attribute values at trace time (mutating an "
    "operator/loss attribute after the first jitted call) are outside the property as modelled."
)
PROP_MODULES = ["Scico.Props.C19"]
EXTRA_TARGETS = ["Drv.Cache"]
DRIVER = "Cache"
FILES = [
    "scico/operator/_operator.py",
    "scico/linop/_linop.py",
    "scico/functional/_tvnorm.py",
    "scico/loss.py",
    "scico/optimize/_admmaux.py",
    "scico/optimize/_pgm.py",
    "scico/random.py",
    "scico/function.py",
]
RULE = (
    "tv: random call/prox histories over 4 shapes x 3 dtypes x {Anisotropic,Isotropic} x circular x prebuilt, distinct by "
    "the history; non-trivial when a key repeats after a different one. loss: random new/mul/rmul/div/set_scale "
    "sequences over 4 loss classes, non-trivial when >=1 rescale. attach: helper-id sequences (shared and unshared) for "
    "ADMM sub-problem solvers and PGM step-size objects. rng: every wrapped jax.random function with signature "
    "(key, shape, dtype, ...) x 9 argument forms x plain/nested shapes. modes: one case per (catalogue entry, call, "
    "mode|history|fresh-process); non-trivial = every case whose mode differs from fresh-eager. opts: op sequences (caller dict / "
    "construct / in-place write) on the four option dictionaries. jit: 3 construction variants x jit option x op sequences."
)
ASSUMPTIONS = [
    "jax.random.PRNGKey/split and the wrapped jax.random functions are deterministic functions of their arguments (contract of C19_rng_args; exercised)",
    "a cached operator reports the (shape, dtype) it was built for (op.shape[1], op.input_dtype) - hypothesis hG/hP of C19_tv_cache; checked on every history step",
    "jax.jit / jax.disable_jit do not change values beyond rounding (NOT modelled; hypothesis hJ of C19_jit_value; multi-mode differential tie only)",
    "two interpreters on this machine compute the same values to rounding (fresh-process reference; tolerance = the entry's rtol)",
]

warnings.simplefilter("ignore")

DT_CODE = {"float32": 0, "float64": 1, "complex64": 2, "complex128": 3}


# ==============================================================================================
# (A1) TVNorm cache


TV_AXES = [None, (0,), (1,)]  # configuration values of `axes` used by the attribute-change histories (code = index)


def _cfg_code(dtype_code, circ, axes):
    """the model's descriptor packs the configuration the operators are built from into one number:
    dtype + 10*circular + 100*axes-code (cache key of the code: shape, dtype, circular, axes)"""
    ax = None if axes is None else tuple(axes)
    return int(dtype_code) + 10 * int(bool(circ)) + 100 * TV_AXES.index(ax)


def _tv_make(cls_name, circ, pre, axes=None):
    from scico import functional as F

    cls = getattr(F, cls_name)
    ax = None if axes is None else tuple(axes)
    if pre is None:
        return cls(circular=circ, axes=ax)
    return cls(circular=circ, axes=ax, input_shape=tuple(pre[0]), input_dtype=np.dtype(pre[1]))


def _tv_input(shape, dt, salt):
    import cache_catalog as cc

    return cc._arr(np.random.default_rng(1000 + salt), tuple(shape), np.dtype(dt))


def _opkey(op, built_cfg):
    return {"shape": [int(s) for s in op.input_shape], "dtype": _cfg_code(DT_CODE[np.dtype(op.input_dtype).name], built_cfg[0], built_cfg[1])}


def _tv_run_impl(cls_name, circ, pre, ops):
    """ops: {"k": "call"|"prox", shape, dt} or {"k": "set", "circ": bool, "axes": list|None} (assign tv.circular / tv.axes).
    returns per call step: rebuilt flag, descriptor of cached ops, value, and the value of a fresh object built with the CURRENT
    configuration, and the configuration at that step"""
    import cache_catalog as cc

    tv = _tv_make(cls_name, circ, pre)
    cfg0 = (circ, None)
    out = []
    for k, o in enumerate(ops):
        if o["k"] == "set":
            tv.circular = o["circ"]
            tv.axes = None if o["axes"] is None else tuple(o["axes"])
            continue
        x = _tv_input(o["shape"], o["dt"], k)
        before = (tv.G, tv.WP)
        cfg_before = cc.snapshot((tv.circular, tv.axes, type(tv.norm).__name__))
        cur = (tv.circular, tv.axes)
        rec = {"cfg": [bool(cur[0]), None if cur[1] is None else list(cur[1])]}
        try:
            val = tv(x) if o["k"] == "call" else tv.prox(x, 0.5)
            rec["val"] = cc.canon(val)
        except Exception as e:  # noqa: BLE001
            rec["err"] = common.err_kind(e) + ":" + type(e).__name__
        rec["cfg_changed"] = cc.snapshot((tv.circular, tv.axes, type(tv.norm).__name__)) != cfg_before
        rec["rebuilt"] = (tv.G is not before[0]) if o["k"] == "call" else (tv.WP is not before[1])
        # the configuration the cached operators were built from (`_G_key` / `_WP_key`; trees without these attributes never rebuild
        # on a configuration change: the operators then still carry the constructor's configuration)
        rec["G"] = None if tv.G is None else _opkey(tv.G, getattr(tv, "_G_key", cfg0))
        rec["P"] = None if tv.WP is None else _opkey(tv.WP, getattr(tv, "_WP_key", cfg0))
        fresh = _tv_make(cls_name, cur[0], None, cur[1])
        try:
            fv = fresh(x) if o["k"] == "call" else fresh.prox(x, 0.5)
            rec["fresh"] = cc.canon(fv)
        except Exception as e:  # noqa: BLE001
            rec["fresh_err"] = common.err_kind(e) + ":" + type(e).__name__
        out.append(rec)
    return out


def _oracle_tv(case):
    import cache_catalog as cc

    res = _tv_run_impl(case["cls"], case["circ"], case["pre"], case["ops"])
    calls = [o for o in case["ops"] if o["k"] != "set"]
    for k, r in enumerate(res):
        rt = 2e-4 if calls[k]["dt"] in ("float32", "complex64") else 1e-9
        if r.get("cfg_changed"):
            return {"case": case, "step": k, "what": "the call changed the configuration attributes (circular/axes/norm) of the TV norm object"}
        if ("err" in r) != ("fresh_err" in r):
            return {"case": case, "step": k, "used_object": r.get("err", "ok"), "fresh_object": r.get("fresh_err", "ok"),
                    "what": "call after this history behaves differently from a fresh object"}
        if "val" in r and not cc.same(r["val"], r["fresh"], rt):
            return {"case": case, "step": k, "configuration_now": r["cfg"], "what": "value after this history differs from a fresh object built with the current configuration",
                    "used": [v.tolist() for v in r["val"]], "fresh": [v.tolist() for v in r["fresh"]]}
    return None


def _corr_tv(ctx, model):
    shapes = [(4,), (5,), (4, 6), (6, 4)]
    dts = ["float32", "float64", "complex64"]
    # boundary histories: the number of differenced axes changes between calls (everything derived from the rank - slice,
    # K, padding - must be rebuilt together), for both boundary conditions and both norms
    for cls_name, circ in (("AnisotropicTVNorm", False), ("IsotropicTVNorm", True), ("IsotropicTVNorm", False)) if not ctx.thorough else \
            [(c, b) for c in ("AnisotropicTVNorm", "IsotropicTVNorm") for b in (True, False)]:
        ops = [{"k": "prox", "shape": [4], "dt": "float64"}, {"k": "prox", "shape": [4, 6], "dt": "float64"}, {"k": "call", "shape": [4, 6], "dt": "float64"},
               {"k": "prox", "shape": [4], "dt": "float64"}, {"k": "prox", "shape": [6, 4], "dt": "float32"}]
        _tv_case(ctx, model, {"kind": "tv", "cls": cls_name, "circ": circ, "pre": None, "ops": ops})
    # the configuration attributes assigned between calls (cache key of the code: shape, dtype, circular, axes): a call after the
    # assignment must use operators built for the NEW configuration = what a fresh object built with it computes
    for cls_name in ("AnisotropicTVNorm", "IsotropicTVNorm") if ctx.thorough else (["AnisotropicTVNorm", "IsotropicTVNorm"][int(ctx.rng.integers(0, 2))],):
        for circ0 in (True, False):
            c46 = {"shape": [4, 6], "dt": "float64"}
            ops = [{"k": "prox", **c46}, {"k": "call", **c46}, {"k": "set", "circ": not circ0, "axes": None}, {"k": "prox", **c46}, {"k": "call", **c46},
                   {"k": "set", "circ": not circ0, "axes": [1]}, {"k": "call", **c46}, {"k": "prox", **c46}, {"k": "prox", "shape": [6, 4], "dt": "float32"},
                   {"k": "set", "circ": circ0, "axes": [0]}, {"k": "prox", "shape": [6, 4], "dt": "float32"}, {"k": "call", **c46},
                   {"k": "set", "circ": circ0, "axes": None}, {"k": "call", **c46}, {"k": "prox", **c46}]
            _tv_case(ctx, model, {"kind": "tv", "cls": cls_name, "circ": circ0, "pre": None if circ0 else [[4, 6], "float64"], "ops": ops})
    nh = ctx.n(6, 30)
    for h in range(nh):
        cls_name = ["AnisotropicTVNorm", "IsotropicTVNorm"][int(ctx.rng.integers(0, 2))]
        circ = bool(ctx.rng.integers(0, 2))
        pool = [(shapes[int(ctx.rng.integers(0, 4))], dts[int(ctx.rng.integers(0, 3))]) for _ in range(3)]
        pre = None
        if ctx.rng.random() < 0.4:
            pre = [list(pool[0][0]), pool[0][1]]
        ops = []
        for _ in range(int(ctx.rng.integers(2, 8))):
            s, d = pool[int(ctx.rng.integers(0, len(pool)))]
            if ops and ctx.rng.random() < 0.35:  # same array kind again: a cache hit when the kind of call repeats too
                s, d = tuple(ops[-1]["shape"]), ops[-1]["dt"]
            if ctx.rng.random() < 0.3:  # same shape, other dtype: the stream the shape-only keying fails on
                d = dts[int(ctx.rng.integers(0, 3))]
            ops.append({"k": "call" if ctx.rng.random() < 0.5 else "prox", "shape": list(s), "dt": d})
        _tv_case(ctx, model, {"kind": "tv", "cls": cls_name, "circ": circ, "pre": pre, "ops": ops})


def _tv_case(ctx, model, case):
    import cache_catalog as cc

    ops, pre = case["ops"], case["pre"]
    impl = _tv_run_impl(case["cls"], case["circ"], pre, ops)
    # the model's descriptor of a call = (shape, dtype + configuration in force at that call): key (shape, dtype, circular, axes)
    cur, mops = (case["circ"], None), []
    for o in ops:
        if o["k"] == "set":
            cur = (o["circ"], o["axes"])
            ctx.count("tv:set-config")
        else:
            mops.append({"k": o["k"], "shape": o["shape"], "dtype": _cfg_code(DT_CODE[o["dt"]], cur[0], cur[1])})
    m = model.call("tv", pre=None if pre is None else {"shape": pre[0], "dtype": _cfg_code(DT_CODE[pre[1]], case["circ"], None)}, ops=mops)
    ops = [o for o in ops if o["k"] != "set"]
    keys = [(tuple(o["shape"]), o["dt"], o["k"]) for o in ops]
    nt = ("tv", json.dumps(case, sort_keys=True)) if len(set(keys)) < len(keys) or len(set(k[:2] for k in keys)) > 1 else None
    ctx.case(case, nt, sample_every=37)
    ctx.count(f"tv:{case['cls']}")
    for k, (o, a, b) in enumerate(zip(ops, impl, m)):
        ctx.count("tv:rebuilt" if b["rebuilt"] else "tv:cache-hit")
        ctx.count(f"tv:dtype:{o['dt']}")
        ai = {"rebuilt": a["rebuilt"], "G": a["G"], "P": a["P"]}
        bi = {"rebuilt": b["rebuilt"], "G": b["G"], "P": b["P"]}
        rt = 2e-4 if o["dt"] in ("float32", "complex64") else 1e-9
        bad_state = ai != bi or a.get("cfg_changed", False)
        bad_val = ("err" in a) != ("fresh_err" in a) or ("val" in a and not cc.same(a["val"], a["fresh"], rt))
        if bad_state or bad_val:
            ctx.disagree("cache.tv." + ("state" if bad_state else "value"), {**case, "at": k}, {**ai, "err": a.get("err")}, bi, oracle=_oracle_tv)
            return


# ==============================================================================================
# (A2) rescaled losses


def _loss_factory(kind, rng):
    import jax.numpy as jnp
    import cache_catalog as cc
    from scico import linop, loss

    n = 4
    y = cc._arr(rng, (n,), np.float64)
    x = cc._arr(rng, (n,), np.float64)
    if kind == "SquaredL2Loss(I)":
        return (lambda s: loss.SquaredL2Loss(y=y, scale=s)), x
    if kind == "SquaredL2Loss(Diag)":
        d = cc._arr(rng, (n,), np.float64) + 3.0
        return (lambda s: loss.SquaredL2Loss(y=y, A=linop.Diagonal(d), scale=s)), x
    if kind == "SquaredL2Loss(Matrix)":
        M = cc._arr(rng, (n, n), np.float64) + 3.0 * jnp.eye(n)
        return (lambda s: loss.SquaredL2Loss(y=y, A=linop.MatrixOperator(M), scale=s, prox_kwargs={"maxiter": 300, "tol": 1e-13})), x
    if kind == "PoissonLoss":
        yp = jnp.abs(y) + 1.0
        return (lambda s: loss.PoissonLoss(y=yp, scale=s)), jnp.abs(x) + 0.5
    if kind == "SquaredL2AbsLoss":
        return (lambda s: loss.SquaredL2AbsLoss(y=jnp.abs(y) + 0.25, scale=s)), x
    raise common.Infra(kind)


def _loss_run_impl(kind, ops, seed):
    import cache_catalog as cc

    mk, x = _loss_factory(kind, np.random.default_rng(seed))
    objs = []
    snaps_ok = True
    for o in ops:
        if o["k"] == "new":
            objs.append(mk(o["s"]))
        elif o["k"] in ("mul", "rmul", "div"):
            src = objs[o["i"]]
            before = cc.snapshot(src)
            new = src * o["c"] if o["k"] == "mul" else (o["c"] * src if o["k"] == "rmul" else src / o["c"])
            if cc.snapshot(src) != before:
                snaps_ok = False
            objs.append(new)
        else:
            objs[o["i"]].set_scale(o["s"])
        # interleaved use (part of the history): every object that exists is evaluated after every operation, so that
        # anything computed lazily on first use exists BEFORE later copies / set_scale calls
        for ob in objs:
            for use in (lambda: ob(x), lambda: ob.grad(x), lambda: ob.prox(x, 0.25) if (ob.has_prox and float(ob.scale) > 0) else None,
                        lambda: ob.hessian(x) if hasattr(ob, "hessian") else None):
                try:
                    use()  # eval / grad / prox / hessian BEFORE the next rescale (history calls are not the subject)
                except Exception:  # noqa: BLE001
                    pass
    base = mk(1.0)
    b = float(base(x))
    g = np.asarray(base.grad(x))
    # proximal maps (where the class has one and the scale is positive): each object against a NEW loss of the same scale.
    # Evaluated twice, first for the most recently created objects: state shared between an object and its copies
    # (anything cached on first use and carried along by the shallow copy) shows as a difference.
    prox_bad = None
    if base.has_prox:
        for j in list(reversed(range(len(objs)))) + list(range(len(objs))):
            o = objs[j]
            if not (float(o.scale) > 0):
                continue
            got = np.asarray(o.prox(x, 0.5))
            want = np.asarray(mk(float(o.scale)).prox(x, 0.5))
            if not common.allclose(got, want, rtol=1e-7):
                prox_bad = {"object": j, "scale": float(o.scale), "prox": got.tolist(), "fresh_prox": want.tolist()}
                break
    return {"scales": [float(o.scale) for o in objs], "vals": [float(o(x)) for o in objs], "grads": [np.asarray(o.grad(x)) for o in objs],
            "base": b, "gbase": g, "orig_unchanged": snaps_ok, "x": x, "objs": objs, "mk": mk, "prox_bad": prox_bad}


def _oracle_loss(case):
    r = _loss_run_impl(case["cls"], case["ops"], case["seed"])
    # property: every object's value and gradient are those of a fresh loss with the same scale
    for j, o in enumerate(r["objs"]):
        fresh = r["mk"](float(o.scale))
        if not common.close(float(o(r["x"])), float(fresh(r["x"])), 8) or not common.allclose(np.asarray(o.grad(r["x"])), np.asarray(fresh.grad(r["x"]))):
            return {"case": case, "object": j, "scale": float(o.scale), "grad": np.asarray(o.grad(r["x"])).tolist(),
                    "fresh_grad": np.asarray(fresh.grad(r["x"])).tolist(), "what": "rescaled loss differs from a fresh loss with the same scale"}
    if r["prox_bad"] is not None:
        return {"case": case, **r["prox_bad"], "what": "proximal map of a rescaled loss differs from a fresh loss with the same scale"}
    if not r["orig_unchanged"]:
        return {"case": case, "what": "rescaling mutated the original loss"}
    return None


def _gen_loss_ops(rng):
    ops = [{"k": "new", "s": float(common.dyadic(rng, (), bits=2, scale=2.0)) or 0.5}]
    n = 1
    for _ in range(int(rng.integers(1, 7))):
        r = rng.random()
        i = int(rng.integers(0, n))
        c = float([0.5, 2.0, 3.0, 0.25, -1.0, 4.0][int(rng.integers(0, 6))])
        if r < 0.15:
            ops.append({"k": "new", "s": c})
            n += 1
        elif r < 0.75:
            ops.append({"k": ["mul", "rmul", "div"][int(rng.integers(0, 3))], "i": i, "c": c})
            n += 1
        else:
            ops.append({"k": "set", "i": i, "s": c})
    return ops


def _loss_case(ctx, model, case):
    ops = case["ops"]
    r = _loss_run_impl(case["cls"], ops, case["seed"])
    mops = []
    for o in ops:
        if o["k"] == "new":
            mops.append({"k": "new", "s": common.f2b(o["s"])})
        elif o["k"] in ("mul", "rmul"):
            mops.append({"k": "mul", "i": o["i"], "c": common.f2b(o["c"])})
        elif o["k"] == "div":
            mops.append({"k": "div", "i": o["i"], "c": common.f2b(o["c"])})
        else:
            mops.append({"k": "set", "i": o["i"], "s": common.f2b(o["s"])})
    m = model.call("loss", ops=mops)
    ms = common.b2fs(m["scales"])
    if common.b2fs(m["spec"]) != ms:
        raise common.Infra("model heap and specScales differ")
    ctx.case(case, ("loss", json.dumps(case, sort_keys=True)) if any(o["k"] in ("mul", "rmul", "div") for o in ops) else None)
    ctx.count(f"loss:{case['cls']}")
    for o in ops:
        ctx.count(f"loss:op:{o['k']}")
    if r["scales"] != ms:
        ctx.disagree("cache.loss.scale", case, r["scales"], ms, oracle=_oracle_loss)
        return
    for j in range(len(ms)):
        if not common.close(r["vals"][j], ms[j] * r["base"], 8):
            ctx.disagree("cache.loss.value", {**case, "object": j}, r["vals"][j], ms[j] * r["base"], oracle=_oracle_loss)
            return
        want = ms[m["gradOf"][j]] * r["gbase"]
        if not common.allclose(r["grads"][j], want):
            ctx.disagree("cache.loss.grad", {**case, "object": j}, r["grads"][j].tolist(), want.tolist(), oracle=_oracle_loss)
            return
    if r["prox_bad"] is not None:
        ctx.disagree("cache.loss.prox", {**case, "object": r["prox_bad"]["object"]}, r["prox_bad"]["prox"], r["prox_bad"]["fresh_prox"], oracle=_oracle_loss)
        return
    if not r["orig_unchanged"]:
        ctx.disagree("cache.loss.mutation", case, "original changed by rescaling", "unchanged", oracle=_oracle_loss)


def _corr_loss(ctx, model):
    kinds = ["SquaredL2Loss(I)", "SquaredL2Loss(Diag)", "PoissonLoss", "SquaredL2AbsLoss", "SquaredL2Loss(Matrix)"]
    for i in range(ctx.n(20, 75)):
        _loss_case(ctx, model, {"kind": "loss", "cls": kinds[i % 5], "ops": _gen_loss_ops(ctx.rng), "seed": int(ctx.rng.integers(0, 10**6))})


# ==============================================================================================
# (A3) helper-object attachment


def _attach_impl(family, helpers):
    import jax.numpy as jnp
    from scico import functional as F
    from scico import linop, loss, optimize
    from scico.optimize import admm as admmaux
    from scico.optimize import pgm as pgmaux

    n = 4
    pool = {}
    opts = []
    for a, hid in enumerate(helpers):
        y = jnp.arange(n, dtype=np.float64) + a
        f = loss.SquaredL2Loss(y=y, A=linop.Diagonal(jnp.ones((n,)) * (a + 1.0)))
        g = 0.1 * F.L1Norm()
        x0 = jnp.zeros((n,))
        if family == "admm":
            if hid not in pool:
                pool[hid] = admmaux.LinearSubproblemSolver(cg_kwargs={"tol": 1e-12})
            opts.append(optimize.ADMM(f=f, g_list=[g], C_list=[linop.Identity((n,), input_dtype=np.float64)], rho_list=[1.0 + a], x0=x0, subproblem_solver=pool[hid]))
        else:
            if hid not in pool:
                pool[hid] = [pgmaux.BBStepSize, pgmaux.LineSearchStepSize, pgmaux.PGMStepSize][hid % 3]()
            opts.append(optimize.PGM(f=f, g=g, L0=10.0 * (a + 1), x0=x0, step_size=pool[hid]))
    reads = []
    for a, o in enumerate(opts):
        h = o.subproblem_solver if family == "admm" else o.step_size
        back = h.admm if family == "admm" else h.pgm
        reads.append(next((b for b, ob in enumerate(opts) if ob is back), None))
    return opts, reads


def _attach_case(ctx, model, family, helpers):
    import jax.numpy as jnp

    case = {"kind": "attach", "family": family, "helpers": helpers}
    opts, reads = _attach_impl(family, helpers)
    m = model.call("attach", helpers=helpers)
    shared = len(set(helpers)) < len(helpers)
    ctx.case(case, ("attach", family, tuple(helpers)))
    ctx.count("attach:shared" if shared else "attach:unshared")
    if reads != m:
        ctx.disagree("cache.attach.backref", case, reads, m)
        return
    # own state => a step equals the step of an optimiser built alone (fresh helper)
    for a in range(len(helpers)):
        if m[a] != a:
            continue
        solo, _ = _attach_impl(family, [helpers[a] + 100 * (i != a) + 1000 for i in range(len(helpers))])
        try:
            opts[a].step()
            solo[a].step()
        except Exception as e:  # noqa: BLE001
            err = repr(e)[:200]
            ctx.disagree("cache.attach.step-raised", {**case, "optimiser": a}, err, "no exception",
                         oracle=lambda c: {"case": c, "raised": err, "what": "step of an optimiser with an attached helper raised"})
            return
        if not common.allclose(np.asarray(opts[a].x), np.asarray(solo[a].x), rtol=1e-8):
            ctx.disagree("cache.attach.step", {**case, "optimiser": a}, np.asarray(opts[a].x).tolist(), np.asarray(solo[a].x).tolist(),
                         oracle=lambda c: {"case": c, "what": "step of an optimiser with an unshared helper differs from the same optimiser built alone"})
            return


def _corr_attach(ctx, model):
    seqs = [[0], [0, 1], [0, 0], [0, 1, 0], [2, 2, 2], [0, 1, 2]]
    for _ in range(ctx.n(2, 12)):
        seqs.append([int(v) for v in ctx.rng.integers(0, 3, size=int(ctx.rng.integers(2, 5)))])
    for fam in ("admm", "pgm"):
        for s in seqs:
            _attach_case(ctx, model, fam, s)


# ==============================================================================================
# (A4) random generators


def _rng_funcs():
    import jax
    import scico.random as sr

    out = []
    for n in sr.wrappable_func_names:
        ps = list(inspect.signature(getattr(jax.random, n)).parameters.items())
        names = [k for k, _ in ps]
        if names[:3] == ["key", "shape", "dtype"] and all(v.default is not inspect._empty for _, v in ps[3:]):
            out.append((n, len(ps)))
    return out


FORMS = ["none", "kw_key", "kw_seed", "kw_both", "pos_key", "pos_seed", "pos_key_kw_seed", "pos_none_kw_key", "pos_both"]


def _rng_case(ctx, model, fname, nparams, form, shape, dt):
    import jax
    import scico.random as sr
    from scico.numpy import BlockArray

    import cache_catalog as cc

    f = getattr(sr, fname)
    jf = getattr(jax.random, fname)
    khandle = int(ctx.rng.integers(1, 10**6))
    key = jax.random.PRNGKey(khandle)
    seed = int(ctx.rng.integers(0, 1000))
    # positional layout of the jax function: (key, shape, dtype, extra...) -> scico: (shape, dtype, extra..., key, seed)
    extra = []
    for nm, p in list(inspect.signature(jf).parameters.items())[3:]:
        extra.append(p.default)
    args, kwargs, fields = [shape], {}, {"pos_key": None, "pos_seed": None, "kw_key": None, "kw_seed": None}
    if form.startswith("pos"):
        args = [shape, dt] + extra
        if form == "pos_key":
            args += [key]; fields["pos_key"] = khandle
        elif form == "pos_seed":
            args += [None, seed]; fields["pos_seed"] = seed
        elif form == "pos_key_kw_seed":
            args += [key]; kwargs["seed"] = seed; fields["pos_key"] = khandle; fields["kw_seed"] = seed
        elif form == "pos_none_kw_key":
            args += [None]; kwargs["key"] = key; fields["kw_key"] = khandle
        elif form == "pos_both":
            args += [key, seed]; fields["pos_key"] = khandle; fields["pos_seed"] = seed
    else:
        kwargs["dtype"] = dt
        if form in ("kw_key", "kw_both"):
            kwargs["key"] = key; fields["kw_key"] = khandle
        if form in ("kw_seed", "kw_both"):
            kwargs["seed"] = seed; fields["kw_seed"] = seed
    case = {"kind": "rng", "fn": fname, "form": form, "shape": repr(shape), "dtype": np.dtype(dt).name, "key": khandle, "seed": seed}
    try:
        res, rkey = f(*args, **kwargs)
        impl = "ok"
    except Exception as e:  # noqa: BLE001
        res = rkey = None
        impl = common.err_kind(e)
    try:
        m = model.call("rng", num_params=nparams, nargs=len(args), **fields)
        mk = "ok"
    except ModelErr as e:
        m, mk = None, e.kind
    nested = isinstance(shape[0], tuple) if len(shape) else False
    ctx.case(case, ("rng", fname, form, nested, np.dtype(dt).name))
    ctx.count(f"rng:form:{form}")
    ctx.count("rng:nested" if nested else "rng:plain")
    if impl != mk:
        ctx.disagree("cache.rng.accept", case, impl, mk, oracle=lambda c: {"case": c, "what": "key/seed argument handling differs from the documented interface", "impl": impl})
        return
    if m is None:
        ctx.count("rng:rejected-both")
        return
    k_eff = jax.random.PRNGKey(m["val"]) if m["src"] == "seed" else key
    if m["src"] == "key" and m["val"] != khandle:
        raise common.Infra("rng: model used an unknown key handle")
    want_key = jax.random.split(k_eff, 2)[0]
    if nested:
        want = [np.asarray(jf(k_eff, s, dt)) for s in shape]
        ok = isinstance(res, BlockArray) and len(res) == len(want) and all(np.array_equal(np.asarray(a), b) and np.asarray(a).dtype == b.dtype for a, b in zip(res, want))
    else:
        w = np.asarray(jf(k_eff, shape, dt))
        ok = (not isinstance(res, BlockArray)) and np.asarray(res).dtype == w.dtype and np.array_equal(np.asarray(res), w)
    if not ok or not np.array_equal(np.asarray(rkey), np.asarray(want_key)):
        ctx.disagree("cache.rng.value", case, "result/returned key differ from direct jax.random with the effective key", m,
                     oracle=lambda c: {"case": c, "what": "generator is not the documented function of (shape, dtype, key|seed)"})
        return
    # purity: a second identical call, after an unrelated call, returns the same result and key
    f((2,), seed=999)
    res2, rkey2 = f(*args, **kwargs)
    if not cc.same(cc.canon(res), cc.canon(res2), 0.0) or not np.array_equal(np.asarray(rkey), np.asarray(rkey2)):
        ctx.disagree("cache.rng.purity", case, "second identical call differs", "identical",
                     oracle=lambda c: {"case": c, "what": "two identical calls of the generator return different values"})


def _corr_rng(ctx, model):
    funcs = _rng_funcs()
    ctx.extra["rng_functions"] = [n for n, _ in funcs] + ["randn(alias of normal)"]
    shapes = [(3,), (2, 2), ((2,), (1, 3)), ((2,), (2,))]
    for n, npar in funcs:
        forms = FORMS if (ctx.thorough or n in ("normal", "uniform")) else [FORMS[int(i)] for i in ctx.rng.choice(len(FORMS), size=3, replace=False)]
        for form in forms:
            shape = shapes[int(ctx.rng.integers(0, len(shapes)))]
            dt = np.float32 if n not in ("bits", "rademacher") else (np.uint32 if n == "bits" else np.int32)
            if n not in ("bits", "rademacher") and ctx.rng.random() < 0.4:
                dt = np.float64
            _rng_case(ctx, model, n, npar, form, shape, dt)
    # randn alias + chain of keys (C19_rng_chain)
    import jax
    import scico.random as sr

    key = jax.random.PRNGKey(int(ctx.rng.integers(0, 10**6)))
    k = key
    for i in range(4):
        x, k2 = sr.randn((3,), key=k)
        w = jax.random.normal(k, (3,), np.float32)
        ctx.case({"kind": "rng.chain", "i": i}, ("rng.chain", i))
        if not np.array_equal(np.asarray(x), np.asarray(w)) or not np.array_equal(np.asarray(k2), np.asarray(jax.random.split(k, 2)[0])):
            ctx.disagree("cache.rng.chain", {"kind": "rng.chain", "i": i}, "differs", "draw with adv^i(key)")
            break
        k = k2



# ==============================================================================================
# (A5) caches filled inside a jax.jit trace (TVNorm deferred prox operators, LinearOperator lazy adjoint)


def _ctx_impl(kind, circ, ops):
    import jax

    import cache_catalog as cc
    from scico import functional as F
    from scico import linop

    if kind == "tv":
        obj = F.AnisotropicTVNorm(circular=circ)
        call = lambda a: obj.prox(a, 0.5)  # noqa: E731
        fresh = lambda a: F.AnisotropicTVNorm(circular=circ).prox(a, 0.5)  # noqa: E731
    else:
        mk = lambda: linop.LinearOperator(input_shape=(4,), eval_fn=lambda a: 2.0 * a[::-1] + a, input_dtype=np.float64)  # noqa: E731
        obj = mk()
        call = lambda a: obj.adj(a)  # noqa: E731
        fresh = lambda a: mk().adj(a)  # noqa: E731
    out = []
    for k, o in enumerate(ops):
        x = _tv_input(o["shape"], o["dt"], k)
        try:
            # a new function object per jitted call: every jitted call is a new trace (jax.jit would otherwise
            # reuse the compiled executable and not run the Python code at all)
            v = jax.jit(lambda a: call(a))(x) if o["jit"] else call(x)
            ok = cc.same(cc.canon(v), cc.canon(fresh(x)), 2e-4 if o["dt"] == "float32" else 1e-9)
            out.append("ok" if ok else "wrong-value")
        except Exception as e:  # noqa: BLE001
            out.append("leak" if type(e).__name__ == "UnexpectedTracerError" else "err:" + type(e).__name__)
    return out


def _ctx_case(ctx, model, case):
    ops = case["ops"]
    impl = _ctx_impl(case["obj"], case.get("circ", True), ops)
    mops = []
    t = 0
    for o in ops:
        mops.append({"c": t if o["jit"] else -1, "shape": o["shape"], "dtype": DT_CODE[o["dt"]]})
        if o["jit"]:
            t += 1
    want = model.call("ctx", concrete=True, ops=mops)      # documented / repaired behaviour
    asis = model.call("ctx", concrete=False, ops=mops)     # code of the pinned tree (known findings)
    ctx.case(case, ("ctx", json.dumps(case, sort_keys=True)) if any(o["jit"] for o in ops) and not all(o["jit"] for o in ops) else None)
    ctx.count(f"ctx:{case['obj']}")
    for r in asis:
        ctx.count(f"ctx:as-is-model:{r}")
    if impl != want:
        slug = "tvnorm-jit-tracer-leak" if case["obj"] == "tv" else "linop-lazy-adjoint-tracer-leak"

        def oracle(c, impl=impl):
            k = next((i for i, r in enumerate(impl) if r != "ok"), None)
            return None if k is None else {"case": c, "step": k, "result": impl[k],
                                           "what": "call on an object that was used before (inside/outside jax.jit) fails or differs; a fresh object works"}

        ctx.disagree("cache.ctx", case, impl, want, oracle=oracle, known_id=slug if impl == asis else None)


def _corr_ctx(ctx, model):
    shapes = [[4, 6], [6, 4], [5]]
    for _ in range(ctx.n(4, 16)):
        pool = [(shapes[int(ctx.rng.integers(0, 3))], ["float32", "float64"][int(ctx.rng.integers(0, 2))]) for _ in range(2)]
        ops = []
        for _ in range(int(ctx.rng.integers(2, 5))):
            s, d = pool[int(ctx.rng.integers(0, 2))]
            ops.append({"jit": bool(ctx.rng.integers(0, 2)), "shape": s, "dt": d})
        _ctx_case(ctx, model, {"kind": "ctx", "obj": "tv", "circ": bool(ctx.rng.integers(0, 2)), "ops": ops})
    for _ in range(ctx.n(3, 10)):
        ops = [{"jit": bool(ctx.rng.integers(0, 2)), "shape": [4], "dt": "float64"} for _ in range(int(ctx.rng.integers(2, 5)))]
        _ctx_case(ctx, model, {"kind": "ctx", "obj": "linop", "ops": ops})

# ==============================================================================================
# (B) multi-mode / multi-history differential runner


def _eval_call(entry, call, mode):
    """evaluate one catalogued call in one mode; returns ('ok', canon) or ('err', kind)"""
    import jax

    import cache_catalog as cc

    cname, getf, args = call
    try:
        if mode == "eager":
            r = getf(entry.build(None))(*args)
        elif mode == "jit":
            r = jax.jit(getf(entry.build(None)))(*args)
        elif mode == "nojit":
            with jax.disable_jit():
                r = getf(entry.build(None))(*args)
        elif mode == "ctor_jit":
            r = getf(entry.build(True))(*args)
        elif mode == "ctor_nojit":
            r = getf(entry.build(False))(*args)
        elif mode == "ctor_jit+jit":
            r = jax.jit(getf(entry.build(True)))(*args)
        elif mode == "ctor_jit+nojit":
            with jax.disable_jit():
                r = getf(entry.build(True))(*args)
        elif mode == "repeat":
            o = entry.build(None)
            f = getf(o)
            f(*args)
            r = f(*args)
        elif mode == "history":
            o = entry.build(None)
            entry.hist(o)
            r = getf(o)(*args)
        elif mode == "history+jit":
            o = entry.build(True if entry.has_jit else None)
            entry.hist(o)
            r = jax.jit(getf(o))(*args)
        elif mode == "sibling-history":
            # the history stream on ANOTHER object of the same kind, then the probe on a new object: only state
            # outside the objects (module / class level) can make this differ
            entry.hist(entry.build(None))
            r = getf(entry.build(None))(*args)
        elif mode == "jit-then-eager":
            o = entry.build(None)
            f = getf(o)
            jax.jit(f)(*args)
            r = f(*args)
        else:
            raise common.Infra(mode)
        return ("ok", cc.canon(r))
    except common.Infra:
        raise
    except Exception as e:  # noqa: BLE001
        return ("err", common.err_kind(e) + ":" + type(e).__name__)


# known findings of the multi-mode runner: (slug, entry predicate, calls, modes, exception type)
KNOWN_MODES = [
    ("tvnorm-jit-tracer-leak", lambda n: "TVNorm(" in n and "prebuilt" not in n, {"prox"}, {"jit-then-eager"}, "UnexpectedTracerError"),
    ("linop-lazy-adjoint-tracer-leak", lambda n: n.startswith("LinearOperator(eval_fn)/"), {"adj", "gram"}, {"jit-then-eager"}, "UnexpectedTracerError"),
    ("setdistance-prox-jit", lambda n: n.startswith("SetDistance/"), {"prox"}, {"jit", "jit-then-eager", "history+jit"}, "TracerBoolConversionError"),
    ("proxavg-eval-jit", lambda n: n.startswith("ProximalAverage/"), {"eval"}, {"jit", "jit-then-eager", "history+jit"}, "TracerBoolConversionError"),
    ("sql2sqabs-prox-jit", lambda n: n.startswith("SquaredL2SquaredAbsLoss/"), {"prox"}, {"jit", "jit-then-eager", "history+jit"}, "TracerBoolConversionError"),
    ("sql2loss-cg-prox-jit", lambda n: n.startswith("SquaredL2Loss(Matrix)/"), {"prox"}, {"jit", "jit-then-eager", "history+jit"}, "TracerBoolConversionError"),
]


def _known_mode(entry_name, call, mode, base, got):
    if base[0] != "ok" or got[0] != "err":
        return None
    for slug, pred, calls, modes, exc in KNOWN_MODES:
        if pred(entry_name) and call in calls and mode in modes and got[1].endswith(":" + exc):
            return slug
    return None


def _modes_for(entry):
    if entry.kind == "optimiser":
        return ["nojit", "repeat"]
    ms = ["jit", "nojit", "repeat", "jit-then-eager"]
    if entry.has_jit:
        ms += ["ctor_jit", "ctor_nojit", "ctor_jit+jit", "ctor_jit+nojit"]
    if entry.hist is not None:
        ms += ["history", "history+jit", "sibling-history"]
    return ms


def _modes_entry(ctx, entry, bases=None):
    import cache_catalog as cc

    # all fresh-eager values of the entry first (before any history stream of this entry runs in this process: the
    # fresh-process reference runs the history stream FIRST, so a first-call-wins state outside the objects shows)
    base_of = {call[0]: _eval_call(entry, call, "eager") for call in entry.calls}
    for call in entry.calls:
        base = base_of[call[0]]
        if bases is not None:
            bases[(entry.name, call[0])] = (entry, base)
        ctx.count(f"modes:kind:{entry.kind}")
        if base[0] == "err":
            # the baseline itself raises: all other modes must raise as well (mode independence of rejection)
            ctx.count("modes:baseline-raises")
        for mode in _modes_for(entry):
            got = _eval_call(entry, call, mode)
            case = {"kind": "modes", "entry": entry.name, "call": call[0], "mode": mode}
            ctx.case(case, ("modes", entry.name, call[0], mode), sample_every=131)
            ctx.count(f"modes:mode:{mode}")
            ctx.count(f"modes:dtype:{entry.dtype}")
            if base[0] != got[0]:
                agree = False
            elif base[0] == "err":
                agree = True  # both raise (kinds may legitimately differ between tracer and concrete errors)
            else:
                agree = cc.same(base[1], got[1], entry.rtol)
            if not agree:
                def oracle(c, base=base, got=got):
                    return {"entry": c["entry"], "call": c["call"], "mode": c["mode"],
                            "fresh_eager": base[1] if base[0] == "err" else [np.asarray(v).tolist() for v in base[1]],
                            "this_mode": got[1] if got[0] == "err" else [np.asarray(v).tolist() for v in got[1]],
                            "what": "value (or acceptance) depends on the execution mode / call history"}

                ctx.disagree("cache.modes", case, got[1] if got[0] == "err" else "value differs", base[1] if base[0] == "err" else "fresh eager value",
                             oracle=oracle, known_id=_known_mode(entry.name, call[0], mode, base, got))


def _catalog(ctx):
    import cache_fresh

    # arguments are drawn from a generator derived from VERIF_SEED only (not from the shared stream), so that the
    # fresh-process reference rebuilds bit-identical entries
    return cache_fresh.build_catalog(ctx.seed, ctx.thorough)


def _corr_modes(ctx):
    ents = _catalog(ctx)
    ctx.extra["catalog_size"] = len(ents)
    if not ctx.thorough:
        # seeded sample; always included: the entries the known findings live on, XRay (jit of adj), 3 TV norms,
        # 3 optimisers
        always = [e for e in ents if e.name in ("SetDistance/float64", "ProximalAverage/float64", "SquaredL2SquaredAbsLoss/float64",
                                                "SquaredL2Loss(Matrix)/float64", "LinearOperator(eval_fn)/float64", "XRayTransform3D/float32")]
        heavy = [e for e in ents if ("TVNorm" in e.name or e.kind == "optimiser" or "XRayTransform2D" in e.name)]
        rest = [e for e in ents if e not in always and e not in heavy]
        pick_h = [heavy[int(i)] for i in sorted(ctx.rng.choice(len(heavy), size=min(len(heavy), 3), replace=False))]
        pick_r = [rest[int(i)] for i in sorted(ctx.rng.choice(len(rest), size=min(len(rest), 12), replace=False))]
        ents = always + pick_h + pick_r
    ctx.extra["catalog_run"] = sorted(e.name for e in ents)
    # fresh-process reference (started now, collected after the in-process modes): the entries in REVERSED order, each
    # with its history stream on a throw-away object before the probe
    import cache_fresh

    reqs = [[e.name, c[0]] for e in reversed(ents) for c in e.calls]
    nproc = 2 if ctx.thorough else 1
    handles = [cache_fresh.spawn_async(ctx.seed, ctx.thorough, reqs[i::nproc]) for i in range(nproc)]
    bases = {}
    try:
        for e in ents:
            _modes_entry(ctx, e, bases)
    except BaseException:
        for h in handles:
            h.kill()
        raise
    fresh = []
    for h in handles:
        fresh += cache_fresh.collect(h)
    _fresh_compare(ctx, bases, fresh)


def _fresh_compare(ctx, bases, fresh):
    """value in THIS process (fresh object, eager - after everything the check has done before) against the value in a
    new interpreter whose first calls were the entry's history stream"""
    import cache_catalog as cc
    import cache_fresh

    ctx.extra["fresh_process_calls"] = len(fresh)
    for r in fresh:
        key = (r["entry"], r["call"])
        if r.get("missing") or key not in bases:
            raise common.Infra(f"fresh-process reference does not know {key}")
        entry, base = bases[key]
        case = {"kind": "modes", "entry": r["entry"], "call": r["call"], "mode": "fresh-process"}
        ctx.case(case, ("modes", r["entry"], r["call"], "fresh-process"))
        ctx.count("modes:mode:fresh-process")
        got = ("err", r["err"]) if "err" in r else ("ok", cache_fresh.decode(r["ok"]))
        if base[0] != got[0]:
            agree = False
        elif base[0] == "err":
            agree = True
        else:
            agree = cc.same(base[1], got[1], entry.rtol)
        if not agree:
            def oracle(c, base=base, got=got):
                return {"entry": c["entry"], "call": c["call"],
                        "this_process": base[1] if base[0] == "err" else [np.asarray(v).tolist() for v in base[1]],
                        "new_interpreter_after_other_parameters": got[1] if got[0] == "err" else [np.asarray(v).tolist() for v in got[1]],
                        "what": "the value of a call on a NEW object depends on what was called before in the process (state outside the object)"}

            ctx.disagree("cache.modes.fresh-process", case, got[1] if got[0] == "err" else "value differs", base[1] if base[0] == "err" else "value in this process",
                         oracle=oracle)


# ---------------------------------------------------------------------------------------------
# mutation / aliasing probes


def _corr_mutation(ctx):
    import jax.numpy as jnp

    import cache_catalog as cc
    from scico import functional as F
    from scico import linop, loss, optimize
    from scico.optimize import admm as admmaux
    from scico.optimize import pgm as pgmaux

    classes = [admmaux.GenericSubproblemSolver, admmaux.LinearSubproblemSolver, optimize.ADMM, optimize.PGM, optimize.AcceleratedPGM,
               optimize.LinearizedADMM, optimize.PDHG, optimize.ProximalADMM, loss.SquaredL2Loss, loss.Loss, F.TVNorm,
               linop.LinearOperator, linop.FiniteDifference, pgmaux.BBStepSize, pgmaux.LineSearchStepSize]
    d0 = cc.defaults_snapshot(classes)
    rng = ctx.rng
    n = 5
    y = cc._arr(rng, (n,))
    d = cc._arr(rng, (n,)) + 3.0
    x = cc._arr(rng, (n,))
    M = cc._arr(rng, (3, n))

    def probe(name, objs, use):
        before = [cc.snapshot(o) for o in objs]
        try:
            use()
            err = None
        except Exception as e:  # noqa: BLE001
            err = repr(e)[:200]
        after = [cc.snapshot(o) for o in objs]
        case = {"kind": "mutation", "probe": name}
        ctx.case(case, ("mutation", name))
        ctx.count("mutation:probe")
        changed = [i for i, (a, b) in enumerate(zip(before, after)) if a != b]
        if err is not None:
            # the catalogue of uses is valid scico usage: an exception here is the code under test failing
            ctx.disagree("cache.mutation.raised", case, err, "no exception",
                         oracle=lambda c: {"probe": c["probe"], "raised": err, "what": "using objects inside other objects raised"})
            return
        if changed:
            ctx.disagree("cache.mutation", case, f"objects {changed} changed", "unchanged",
                         oracle=lambda c: {"probe": c["probe"], "changed_objects": changed, "what": "using an object inside another mutated it"})

    A = linop.Diagonal(d)
    B = linop.MatrixOperator(M)
    f = loss.SquaredL2Loss(y=y, A=A)
    probe("loss*c,c*loss,loss/c + use of the copies", [f, A], lambda: [(2.0 * f)(x), (f * 3.0).grad(x), (f / 2.0).prox(x, 0.5), (2.0 * f).set_scale(7.0)])
    probe("compose/add/scale/transpose operators", [A, B], lambda: [(B @ A)(x), (A + A)(x), (2.0 * B).adj(B(x)), B.T(B(x)), B.H, A.gram_op(x), B.gram_op(x)])
    probe("stack operators", [A, B], lambda: [linop.VerticalStack((A, B))(x), linop.DiagonalStack((A, B))])
    g = 0.5 * F.L1Norm()
    h = F.L21Norm()
    C = linop.FiniteDifference((n,), input_dtype=np.float64, circular=True)
    probe("scaled / separable functionals", [g, h], lambda: [(2.0 * g)(x), F.SeparableFunctional([g, F.SquaredL2Norm()]), (2.0 * g).prox(x, 1.0)])
    tv = F.AnisotropicTVNorm(circular=True, input_shape=(n,), input_dtype=np.float64)
    sol = admmaux.LinearSubproblemSolver()

    def run_admm():
        o = optimize.ADMM(f=f, g_list=[g], C_list=[C], rho_list=[1.0], x0=x, subproblem_solver=admmaux.LinearSubproblemSolver())
        o.step(); o.step()
        o2 = optimize.ADMM(f=f, g_list=[g], C_list=[C], rho_list=[1.0], x0=x)  # default GenericSubproblemSolver
        o2.step()

    probe("attach f,g,C to ADMM and step (incl. default sub-problem solver)", [f, g, C, A], run_admm)

    def run_pgm():
        o = optimize.AcceleratedPGM(f=f, g=g, L0=30.0, x0=x, step_size=pgmaux.BBStepSize())
        o.step(); o.step()
        o = optimize.PGM(f=f, g=tv, L0=30.0, x0=x)
        o.step()
        optimize.PDHG(f=F.SquaredL2Norm(), g=g, C=C, tau=0.1, sigma=0.1, x0=x).step()
        optimize.LinearizedADMM(f=F.SquaredL2Norm(), g=g, C=C, mu=0.1, nu=0.05, x0=x).step()

    probe("attach f,g,C to PGM/APGM/PDHG/LADMM and step", [f, g, C, A], run_pgm)
    x_before = np.asarray(x).copy()
    probe("input arrays are not modified", [x, y], lambda: [f(x), f.grad(x), g.prox(x, 1.0), C(x), tv.prox(x, 0.3)])
    if not np.array_equal(np.asarray(x), x_before):
        raise common.Infra("input array changed")
    d1 = cc.defaults_snapshot(classes)
    case = {"kind": "mutation", "probe": "constructor default arguments"}
    ctx.case(case, ("mutation", "defaults"))
    if d0 != d1:
        diff = [k for k in d0 if d0[k] != d1[k]]
        ctx.disagree("cache.mutation.defaults", case, f"defaults of {diff} changed", "unchanged",
                     oracle=lambda c: {"classes": diff, "what": "a shared default argument was mutated by use"})
    # two GenericSubproblemSolver objects built with the default share one dict object: mutation through one
    # would reach the other; the code never mutates it - recorded as an observation, not a failure
    a, b = admmaux.GenericSubproblemSolver(), admmaux.GenericSubproblemSolver()
    ctx.extra["observation_shared_default_minimize_kwargs"] = bool(a.minimize_kwargs is b.minimize_kwargs)


# ==============================================================================================


def _corr_option_leak(ctx):
    """constructor options must not leak into objects constructed later with defaults (run FIRST, before any other
    part of the check constructs such objects with options)"""
    import jax.numpy as jnp

    import cache_catalog as cc
    from scico import loss
    from scico.optimize import admm as admmaux

    y = jnp.arange(4.0)
    probes = [
        ("LinearSubproblemSolver.cg_kwargs", lambda **k: admmaux.LinearSubproblemSolver(**k), "cg_kwargs", {"cg_kwargs": {"tol": 1e-9, "maxiter": 7}}),
        ("GenericSubproblemSolver.minimize_kwargs", lambda **k: admmaux.GenericSubproblemSolver(**k), "minimize_kwargs", {"minimize_kwargs": {"options": {"maxiter": 3}}}),
        ("SquaredL2Loss.prox_kwargs", lambda **k: loss.SquaredL2Loss(y=y, **k), "prox_kwargs", {"prox_kwargs": {"maxiter": 5, "tol": 1e-9}}),
    ]
    for name, mk, attr, opts in probes:
        d0 = cc.snapshot(getattr(mk(), attr))
        with_opts = mk(**opts)
        after = mk()
        d1 = cc.snapshot(getattr(after, attr))
        case = {"kind": "option-leak", "probe": name}
        ctx.case(case, ("option-leak", name))
        ctx.count("mutation:option-leak-probe")
        if d0 != d1 or getattr(with_opts, attr) is getattr(after, attr):
            ctx.disagree("cache.mutation.option-leak", case, "defaults of a later object changed / dict shared", "unchanged",
                         oracle=lambda c: {"probe": c["probe"], "options": repr(opts), "what": "options given to one constructor call changed the defaults seen by a later default-constructed object"})


# ==============================================================================================
# (A6) constructor options and shared defaults (model: OptWorld; theorems C19_defaults_fresh / _shared_partial / _leak)


def _opt_classes():
    import jax.numpy as jnp
    from scico import loss
    from scico.optimize import admm as admmaux

    y = jnp.arange(4.0)
    # (name, pattern, attribute, literal defaults, constructor(options dict | None), default-argument object | None)
    return [
        ("LinearSubproblemSolver.cg_kwargs", "copyUpdate", "cg_kwargs", {"tol": 1e-4, "maxiter": 100},
         lambda kw: admmaux.LinearSubproblemSolver() if kw is None else admmaux.LinearSubproblemSolver(cg_kwargs=kw), None),
        ("MatrixSubproblemSolver.solve_kwargs", "copyUpdate", "solve_kwargs", {"cho_factor": False},
         lambda kw: admmaux.MatrixSubproblemSolver() if kw is None else admmaux.MatrixSubproblemSolver(solve_kwargs=kw), None),
        ("SquaredL2Loss.prox_kwargs", "copyUpdate", "prox_kwargs", {"maxiter": 100, "tol": 1e-5},
         lambda kw: loss.SquaredL2Loss(y=y) if kw is None else loss.SquaredL2Loss(y=y, prox_kwargs=kw), None),
        ("GenericSubproblemSolver.minimize_kwargs", "byRef", "minimize_kwargs", {"options": {"maxiter": 100}},
         lambda kw: admmaux.GenericSubproblemSolver() if kw is None else admmaux.GenericSubproblemSolver(minimize_kwargs=kw),
         admmaux.GenericSubproblemSolver.__init__.__defaults__[0]),
    ]


def _opt_case(ctx, model, spec, ops):
    """ops: ("dict", {k: int}) | ("ctor", id|None) | ("mut", id, key, int).  Values of the literal defaults are
    encoded by their position in a table (the model's values are integers)."""
    import copy

    name, pattern, attr, lit, mk, default_obj = spec
    table = []

    def enc(v):
        if isinstance(v, int) and not isinstance(v, bool) and v >= 1000:
            return v  # values written by this test
        for i, t in enumerate(table):
            if type(t) is type(v) and t == v:
                return i
        table.append(copy.deepcopy(v))
        return len(table) - 1

    def encd(d):
        return [[k, enc(v)] for k, v in d.items()]

    lit_enc = encd(lit)
    saved = copy.deepcopy(default_obj) if default_obj is not None else None
    dicts = [default_obj if default_obj is not None else dict(lit)]
    objs = []
    mops = []
    case = {"kind": "opts", "cls": name, "pattern": pattern, "ops": [list(o) for o in ops]}
    try:
        steps = []
        for o in ops:
            if o[0] == "dict":
                d = dict(o[1])
                dicts.append(d)
                mops.append({"k": "dict", "d": encd(d)})
            elif o[0] == "ctor":
                arg = None if o[1] is None or o[1] >= len(dicts) else dicts[o[1]]
                ob = mk(arg)
                objs.append(ob)
                held = getattr(ob, attr)
                if not any(held is d for d in dicts):
                    dicts.append(held)
                mops.append({"k": "ctor", "arg": None if arg is None else o[1]})
            else:
                if o[1] < len(dicts):
                    dicts[o[1]][o[2]] = o[3]
                mops.append({"k": "mut", "id": o[1], "key": o[2], "val": o[3]})
            steps.append({"insts": [next(i for i, d in enumerate(dicts) if d is getattr(ob, attr)) for ob in objs],
                          "dicts": [encd(d) for d in dicts]})
        m = model.call("opts", pattern=pattern, lit=lit_enc, ops=mops)
        ctx.case(case, ("opts", name, json.dumps(case["ops"], sort_keys=True)))
        ctx.count(f"opts:{pattern}")
        for k, (a, b) in enumerate(zip(steps, m)):
            bd = [sorted(map(tuple, d)) for d in b["dicts"]]
            ad = [sorted(map(tuple, d)) for d in a["dicts"]]
            if a["insts"] != b["insts"] or ad != bd:
                def oracle(c, k=k, a=a):
                    # the property: an object constructed without options after this history sees the literal defaults
                    # unless the history itself wrote into the options of a default-constructed object
                    wrote = any(o[0] == "mut" and o[1] == 0 for o in ops)
                    mine = {next(iter(lit)): 1001}
                    before = dict(mine)
                    held = getattr(mk(mine), attr)
                    if mine != before or (held is mine and pattern == "copyUpdate"):
                        return {"case": c, "options_passed": repr(before), "options_afterwards": repr(mine), "object_keeps_the_callers_dict": held is mine,
                                "what": "the constructor modified the caller's options dictionary / keeps it by reference (a later change of either is seen by the other)"}
                    fresh = getattr(mk(None), attr)
                    if not wrote and encd(fresh) != lit_enc:
                        return {"case": c, "step": k, "later_default_constructed_object_sees": repr(fresh), "literal_defaults": repr(lit),
                                "what": "options / in-place state of earlier objects leak into an object constructed with defaults"}
                    return None

                ctx.disagree("cache.opts", {**case, "at": k}, a, b, oracle=oracle)
                return
    finally:
        if default_obj is not None:
            default_obj.clear()
            default_obj.update(saved)


def _corr_opts(ctx, model):
    specs = _opt_classes()
    ctx.extra["option_patterns"] = {s[0]: s[1] for s in specs}
    for spec in specs:
        keys = list(spec[3].keys())
        fixed = [
            [("ctor", None), ("dict", {keys[0]: 1001}), ("ctor", 1), ("ctor", None)],
            [("ctor", None), ("mut", 0, keys[0], 1002), ("ctor", None)],
        ]
        for ops in fixed:
            _opt_case(ctx, model, spec, ops)
        for _ in range(ctx.n(2, 10)):
            ops, nd = [], 1
            for _ in range(int(ctx.rng.integers(3, 8))):
                r = ctx.rng.random()
                if r < 0.25:
                    ops.append(("dict", {keys[int(ctx.rng.integers(0, len(keys)))]: 1000 + int(ctx.rng.integers(1, 50))} if ctx.rng.random() < 0.8 else {"extra": 1003}))
                    nd += 1
                elif r < 0.65:
                    ops.append(("ctor", None if ctx.rng.random() < 0.5 else int(ctx.rng.integers(0, nd + 1))))
                    nd += 1  # upper bound of the number of dictionary objects
                else:
                    ops.append(("mut", int(ctx.rng.integers(0, nd)), keys[int(ctx.rng.integers(0, len(keys)))] if ctx.rng.random() < 0.7 else "other", 1000 + int(ctx.rng.integers(50, 99))))
            _opt_case(ctx, model, spec, ops)


# ==============================================================================================
# (A7) the jit option of linear operators: which callable each private slot holds and how deeply it is wrapped
#      (model: LinOpState; theorems C19_jit_slots / C19_jit_value)


def _jit_depth(f):
    d = 0
    while type(f).__name__ == "PjitFunction" and hasattr(f, "__wrapped__"):
        f = f.__wrapped__
        d += 1
    return d, f


def _eqv(got, want, rtol=1e-12):
    """shape-safe comparison (a wrong shape is a wrong value, never a harness exception)"""
    g, w = np.asarray(got), np.asarray(want)
    return g.shape == w.shape and bool(np.allclose(g, w, rtol=rtol))


def _jit_case(ctx, model, variant, jit_opt, ops):
    import jax.numpy as jnp
    from scico import linop

    M = np.array([[1.0, 2.0, 0.0, -1.0], [0.5, 0.0, 3.0, 1.0], [2.0, -1.0, 1.0, 0.0]])
    Mj = jnp.asarray(M)
    adj_fn = lambda y: Mj.T @ y  # noqa: E731

    class ClassAdj(linop.LinearOperator):
        def _eval(self, x):
            return Mj @ x

        def _adj(self, y):  # type: ignore
            return Mj.T @ y

    kw = {} if jit_opt is None else {"jit": jit_opt}
    if variant == "adjFn":
        A = linop.LinearOperator(input_shape=(4,), output_shape=(3,), eval_fn=lambda x: Mj @ x, adj_fn=adj_fn, input_dtype=np.float64, **kw)
    elif variant == "ownAdj":
        A = linop.MatrixOperator(Mj)  # defines adj / gram / gram_op itself; jit() is the inherited one
    elif variant == "classAdj":
        A = ClassAdj(input_shape=(4,), output_shape=(3,), input_dtype=np.float64, output_dtype=np.float64, **kw)
    else:
        A = linop.LinearOperator(input_shape=(4,), output_shape=(3,), eval_fn=lambda x: Mj @ x, input_dtype=np.float64, **kw)

    def state():
        ad = None
        if A._adj is not None:
            d, base = _jit_depth(A._adj)
            if base is adj_fn:
                src = "given"
            elif getattr(base, "__func__", None) is ClassAdj._adj:
                src = "classMethod"
            elif "_set_adjoint" in getattr(base, "__qualname__", ""):
                src = "derived"
            else:
                src = "other:" + getattr(base, "__qualname__", type(base).__name__)
            ad = [src, d]
        return {"eval": _jit_depth(A._eval)[0], "adj": ad, "gram": None if A._gram is None else _jit_depth(A._gram)[0]}

    x = jnp.asarray([1.0, -2.0, 0.5, 3.0])
    y = jnp.asarray([2.0, 1.0, -1.0])
    states, vals_ok = [state()], True
    for o in ops:
        try:
            if o == "jit":
                A.jit()
            elif o == "call":
                vals_ok &= _eqv(A(x), M @ np.asarray(x))
            elif o == "adj":
                vals_ok &= _eqv(A.adj(y), M.T @ np.asarray(y))
            elif o == "gram":
                vals_ok &= _eqv(A.gram(x), M.T @ (M @ np.asarray(x)))
            else:
                A.gram_op  # noqa: B018
        except Exception:  # noqa: BLE001  (a valid call that raises is a wrong value)
            vals_ok = False
        states.append(state())
    m = model.call("jit", variant="plain" if variant == "ownAdj" else variant, jit=bool(jit_opt), ops=ops, own=(variant == "ownAdj"))
    case = {"kind": "jit", "variant": variant, "jit": jit_opt, "ops": ops}
    ctx.case(case, ("jit", variant, jit_opt, tuple(ops)), sample_every=41)
    ctx.count(f"jit:{variant}")
    if states != m:
        k = next(i for i, (a, b) in enumerate(zip(states, m)) if a != b)
        ctx.disagree("cache.jit.slots", {**case, "at": k}, states[k], m[k])
        return
    if not vals_ok:
        ctx.disagree("cache.jit.value", case, "a value differs from the dense matrix (or the call raised)", "M x / M^T y / M^T M x",
                     oracle=lambda c: {"case": c, "what": "operator value after this history of jit() / call / adj / gram differs from the dense matrix"})


def _corr_jit(ctx, model):
    names = ["jit", "call", "adj", "gram", "gramOp"]
    for variant in ("adjFn", "classAdj", "plain"):
        for jit_opt in (None, False, True):
            fixed = [[], ["gramOp", "adj", "jit", "call", "jit"], ["gram"], ["jit", "adj", "gram", "call"]]
            seqs = fixed if jit_opt is not False else fixed[:1]
            for _ in range(ctx.n(1, 5)):
                seqs = seqs + [[names[int(i)] for i in ctx.rng.integers(0, 5, size=int(ctx.rng.integers(1, 7)))]]
            for ops in seqs:
                _jit_case(ctx, model, variant, jit_opt, ops)
    for ops in [[], ["adj", "gram", "gramOp", "call"], ["adj", "jit", "gram", "jit", "call"], ["gramOp", "jit", "adj"]] + \
            [[names[int(i)] for i in ctx.rng.integers(0, 5, size=int(ctx.rng.integers(1, 7)))] for _ in range(ctx.n(2, 8))]:
        _jit_case(ctx, model, "ownAdj", None, ops)


# ==============================================================================================
# (A8) histories that cross object boundaries (round 2, second pass):
#      (a) argument objects are not mutated by being used, (b) public parameters updated on a used object,
#      (c) one helper object attached successively to two optimisers with different data


def _problem(k, n=5):
    """two different small problems (k = 0, 1): data, operator, scale, weights, regulariser all differ"""
    import jax.numpy as jnp
    from scico import functional as F
    from scico import linop, loss

    y = jnp.asarray(np.array([1.0, -0.5, 2.0, 0.25, -1.5]) * (1 + k) + k)
    d = jnp.asarray(np.array([1.0, 2.0, 0.5, 1.5, 0.75]) * (1.0 + 0.5 * k))
    W = linop.Diagonal(jnp.asarray(np.array([1.0, 0.5, 2.0, 1.0, 0.25]) + k))
    return {"y": y, "d": d, "W": W, "scale": 0.5 + 0.75 * k, "g": (0.1 + 1.9 * k) * F.L1Norm(), "rho": 1.0 + 2.0 * k,
            "x0": jnp.asarray(np.array([0.3, -0.2, 0.1, 0.4, 0.0]) * (1 + k)), "L0": 4.0 + 3.0 * k}


def _mk_admm(k, helper, **kw):
    import jax.numpy as jnp
    from scico import linop, loss, optimize

    P = _problem(k)
    Cm = linop.MatrixOperator(jnp.asarray(np.eye(5) + 0.25 * np.eye(5, k=1) * (1 + k)))
    f = loss.SquaredL2Loss(y=P["y"], A=linop.Diagonal(P["d"]), scale=P["scale"], W=P["W"])
    return optimize.ADMM(f=f, g_list=[P["g"]], C_list=[Cm], rho_list=[P["rho"]], x0=P["x0"], subproblem_solver=helper, **kw)


def _mk_admm_cc(k, helper, **kw):
    import jax.numpy as jnp
    from scico import linop, loss, optimize

    P = _problem(k)
    h = jnp.asarray(np.array([1.0, 0.5 + k, 0.25]))
    A = linop.CircularConvolve(h, (5,), input_dtype=np.float64)
    C = linop.FiniteDifference((5,), input_dtype=np.float64, circular=True)
    f = loss.SquaredL2Loss(y=P["y"], A=A, scale=P["scale"])
    return optimize.ADMM(f=f, g_list=[P["g"]], C_list=[C], rho_list=[P["rho"]], x0=P["x0"], subproblem_solver=helper, **kw)


def _mk_pgm(k, helper, acc, **kw):
    from scico import linop, loss, optimize

    P = _problem(k)
    f = loss.SquaredL2Loss(y=P["y"], A=linop.Diagonal(P["d"]), scale=P["scale"])
    cls = optimize.AcceleratedPGM if acc else optimize.PGM
    return cls(f=f, g=P["g"], L0=P["L0"], x0=P["x0"], step_size=helper, **kw)


def _state_of(o):
    out = [np.asarray(o.x)]
    for nm in ("z_list", "u_list"):
        if hasattr(o, nm):
            out += [np.asarray(v) for v in getattr(o, nm)]
    if hasattr(o, "L"):
        out.append(np.asarray(float(o.L)))
    return out


def _reuse_run(name, nsteps):
    """helper object used with problem 0 (stepped), then attached to problem 1; returns (reused, fresh) states"""
    from scico.optimize import admm as admmaux
    from scico.optimize import pgm as pgmaux

    fam, cls_name, *rest = name.split(":")
    if fam == "admm":
        mk_h = {"Linear": lambda: admmaux.LinearSubproblemSolver(cg_kwargs={"tol": 1e-13, "maxiter": 200}),
                "Matrix": lambda: admmaux.MatrixSubproblemSolver(), "Generic": lambda: admmaux.GenericSubproblemSolver(),
                "CircularConvolve": lambda: admmaux.CircularConvolveSolver()}[cls_name]
        mk = _mk_admm_cc if cls_name == "CircularConvolve" else _mk_admm
    else:
        mk_h = getattr(pgmaux, cls_name)
        acc = rest[0] == "acc"
        mk = lambda k, h: _mk_pgm(k, h, acc)  # noqa: E731
    h = mk_h()
    o1 = mk(0, h)
    for _ in range(2):
        o1.step()
    o2 = mk(1, h)
    o3 = mk(1, mk_h())
    for _ in range(nsteps):
        o2.step()
        o3.step()
    return _state_of(o2), _state_of(o3)


KNOWN_REUSE = "pgm-stepsize-reuse-stale-state"
KNOWN_HUBER = "hubernorm-nonsep-stale-delta"


def _reuse_case(ctx, name, nsteps):
    case = {"kind": "reuse", "helper": name, "steps": nsteps}
    try:
        a, b = _reuse_run(name, nsteps)
        err = None
    except Exception as e:  # noqa: BLE001
        err = repr(e)[:200]
    ctx.case(case, ("reuse", name, nsteps))
    ctx.count("reuse:" + name.split(":")[0])
    rt = 1e-4 if "Generic" in name else 1e-7
    bad = err is not None or len(a) != len(b) or any(not common.allclose(x, y, rtol=rt) for x, y in zip(a, b))
    if bad:
        def oracle(c):
            if err is not None:
                return {"case": c, "raised": err, "what": "an optimiser built with a helper object that was used with another optimiser before raises"}
            return {"case": c, "with_reused_helper": [v.tolist() for v in a], "with_fresh_helper": [v.tolist() for v in b],
                    "what": "a sub-problem solver / step-size object that was attached to (and used by) another optimiser before gives a different "
                            "iterate than a fresh helper object: state of the first problem survives re-attachment"}

        stale_pgm = name.startswith("pgm:") and name.split(":")[1] in ("BBStepSize", "AdaptiveBBStepSize", "RobustLineSearchStepSize", "LineSearchStepSize")
        ctx.disagree("cache.reuse", case, "differs from fresh helper" if err is None else err, "same iterates as with a fresh helper", oracle=oracle,
                     known_id=KNOWN_REUSE if (stale_pgm and err is None) else None)


def _corr_reuse(ctx):
    names = ["admm:Linear", "admm:Matrix", "admm:Generic", "admm:CircularConvolve"]
    for c in ("PGMStepSize", "BBStepSize", "AdaptiveBBStepSize", "LineSearchStepSize", "RobustLineSearchStepSize"):
        names += [f"pgm:{c}:plain", f"pgm:{c}:acc"]
    for nm in names:
        for nsteps in ((1, 2) if ctx.thorough else (1,)):
            _reuse_case(ctx, nm, nsteps)


def _live_pair_builders():
    """optimisers built from DEFAULTS only (no helper object, no options passed): name -> make(k) for problem k"""
    import jax.numpy as jnp
    from scico import functional as F
    from scico import linop, loss, optimize

    C = lambda: linop.FiniteDifference((5,), input_dtype=np.float64, circular=True)  # noqa: E731

    def fdiag(P):
        return loss.SquaredL2Loss(y=P["y"], A=linop.Diagonal(P["d"]), scale=P["scale"])

    def fid(P):
        return loss.SquaredL2Loss(y=P["y"], scale=P["scale"])

    return {
        "PGM": lambda k, P: optimize.PGM(f=fdiag(P), g=P["g"], L0=P["L0"], x0=P["x0"]),
        "AcceleratedPGM": lambda k, P: optimize.AcceleratedPGM(f=fdiag(P), g=P["g"], L0=P["L0"], x0=P["x0"]),
        "ADMM": lambda k, P: optimize.ADMM(f=fdiag(P), g_list=[P["g"]], C_list=[C()], rho_list=[P["rho"]], x0=P["x0"]),
        "LinearizedADMM": lambda k, P: optimize.LinearizedADMM(f=fid(P), g=P["g"], C=C(), mu=0.1 / (1 + k), nu=0.02 / (1 + k), x0=P["x0"]),
        "PDHG": lambda k, P: optimize.PDHG(f=fid(P), g=P["g"], C=C(), tau=0.2 / (1 + k), sigma=0.2 / (1 + k), x0=P["x0"]),
        "ProximalADMM": lambda k, P: optimize.ProximalADMM(f=fid(P), g=P["g"], A=C(), rho=1.0 + k, mu=4.5 * (1 + k), nu=1.5 * (1 + k), x0=P["x0"]),
    }


def _corr_live_pair(ctx):
    """two LIVE optimisers built from defaults with different data and parameters, stepped alternately, against each one
    built and stepped alone: nothing that a default-constructed optimiser holds may be shared with another one"""
    for name, mk in _live_pair_builders().items():
        case = {"kind": "live-pair", "optimiser": name, "schedule": "A=mk(0); B=mk(1); A.step; B.step; A.step; B.step"}
        err = None
        try:
            A, B = mk(0, _problem(0)), mk(1, _problem(1))
            for _ in range(2):
                A.step()
                B.step()
            got = [_state_of(A), _state_of(B)]
            want = []
            for k in (0, 1):
                S = mk(k, _problem(k))
                S.step()
                S.step()
                want.append(_state_of(S))
        except Exception as e:  # noqa: BLE001
            err = repr(e)[:200]
        ctx.case(case, ("live-pair", name))
        ctx.count("live-pair:" + name)
        rt = 1e-4 if name == "ADMM" else 1e-9
        bad = err is not None or any(len(a) != len(b) or any(not common.allclose(x, y, rtol=rt) for x, y in zip(a, b)) for a, b in zip(got, want))
        if bad:
            def oracle(c):
                if err is not None:
                    return {"case": c, "raised": err}
                return {"case": c, "interleaved": [[v.tolist() for v in st] for st in got], "each_alone": [[v.tolist() for v in st] for st in want],
                        "what": "two optimisers built from defaults influence each other: stepped alternately they differ from the same optimisers run alone"}

            ctx.disagree("cache.live-pair", case, err or "interleaved differs from isolated", "same iterates", oracle=oracle)


def _corr_args(ctx):
    """(a) every object handed to a constructor / method is deep-snapshotted before and compared after; a SECOND optimiser built
    from the very same argument objects must behave like the first"""
    import jax.numpy as jnp

    import cache_catalog as cc
    from scico import functional as F
    from scico import linop, loss, optimize
    from scico.optimize import admm as admmaux
    from scico.optimize import pgm as pgmaux

    P = _problem(0)
    f = loss.SquaredL2Loss(y=P["y"], A=linop.Diagonal(P["d"]), scale=P["scale"])
    fI = loss.SquaredL2Loss(y=P["y"])
    C = linop.FiniteDifference((5,), input_dtype=np.float64, circular=True)
    g = P["g"]

    def itopts():
        return {"fields": {"Iter": "%d", "Val": "%8.3e"}, "itstat_func": lambda o: (o.itnum, float(np.sum(np.asarray(o.x)))), "display": False}

    def builders():
        cgk = {"tol": 1e-9, "maxiter": 50}
        slv = {"cho_factor": False}
        gl, Cl, rl = [g], [C], [1.5]
        Cm = [linop.MatrixOperator(jnp.asarray(np.eye(5) + 0.25 * np.eye(5, k=1)))]
        return [
            ("PGM", {"itstat_options": itopts(), "x0": P["x0"], "f": f, "g": g},
             lambda a: optimize.PGM(f=a["f"], g=a["g"], L0=8.0, x0=a["x0"], step_size=pgmaux.BBStepSize(), maxiter=2, itstat_options=a["itstat_options"])),
            ("AcceleratedPGM", {"itstat_options": itopts(), "x0": P["x0"], "f": f, "g": g},
             lambda a: optimize.AcceleratedPGM(f=a["f"], g=a["g"], L0=8.0, x0=a["x0"], maxiter=2, itstat_options=a["itstat_options"])),
            ("ADMM(Linear)", {"itstat_options": itopts(), "x0": P["x0"], "f": f, "g_list": gl, "C_list": Cl, "rho_list": rl, "cg_kwargs": cgk},
             lambda a: optimize.ADMM(f=a["f"], g_list=a["g_list"], C_list=a["C_list"], rho_list=a["rho_list"], x0=a["x0"], maxiter=2,
                                     subproblem_solver=admmaux.LinearSubproblemSolver(cg_kwargs=a["cg_kwargs"]), itstat_options=a["itstat_options"])),
            ("ADMM(Matrix)", {"itstat_options": itopts(), "x0": P["x0"], "f": f, "g_list": [g], "C_list": Cm, "rho_list": [1.5], "solve_kwargs": slv},
             lambda a: optimize.ADMM(f=a["f"], g_list=a["g_list"], C_list=a["C_list"], rho_list=a["rho_list"], x0=a["x0"], maxiter=2,
                                     subproblem_solver=admmaux.MatrixSubproblemSolver(solve_kwargs=a["solve_kwargs"]), itstat_options=a["itstat_options"])),
            ("LinearizedADMM", {"itstat_options": itopts(), "x0": P["x0"], "f": fI, "g": g, "C": C},
             lambda a: optimize.LinearizedADMM(f=a["f"], g=a["g"], C=a["C"], mu=0.1, nu=0.02, x0=a["x0"], maxiter=2, itstat_options=a["itstat_options"])),
            ("PDHG", {"itstat_options": itopts(), "x0": P["x0"], "f": fI, "g": g, "C": C},
             lambda a: optimize.PDHG(f=a["f"], g=a["g"], C=a["C"], tau=0.2, sigma=0.2, x0=a["x0"], maxiter=2, itstat_options=a["itstat_options"])),
            ("ProximalADMM", {"itstat_options": itopts(), "x0": P["x0"], "f": fI, "g": g, "A": C},
             lambda a: optimize.ProximalADMM(f=a["f"], g=a["g"], A=a["A"], rho=1.0, mu=4.5, nu=1.5, x0=a["x0"], maxiter=2, itstat_options=a["itstat_options"])),
        ]

    for name, args, mk in builders():
        case = {"kind": "args", "optimiser": name, "arguments": sorted(args)}
        before = {k: cc.snapshot(v) for k, v in args.items()}
        res, err = [], None
        try:
            for _ in range(2):  # the second optimiser is built from the very same argument objects
                o = mk(args)
                x = o.solve()
                hist = o.itstat_object.history(transpose=True)
                res.append((np.asarray(x), [list(map(float, col)) for col in hist], list(type(hist)._fields)))
        except Exception as e:  # noqa: BLE001
            err = repr(e)[:200]
        after = {k: cc.snapshot(v) for k, v in args.items()}
        changed = sorted(k for k in args if before[k] != after[k])
        ctx.case(case, ("args", name))
        ctx.count("args:probe")
        differs = err is None and (not common.allclose(res[0][0], res[1][0], rtol=1e-9) or res[0][1:] != res[1][1:])
        if changed or err is not None or differs:
            def oracle(c, changed=changed, err=err, differs=differs):
                return {"case": c, "arguments_changed_by_use": changed, "second_optimiser_from_same_arguments": err or ("differs from the first" if differs else "same"),
                        "what": "objects passed to a constructor / solve() were mutated by being used (or a second optimiser built from them behaves differently)"}

            ctx.disagree("cache.args", case, {"changed": changed, "error": err, "second_differs": differs}, "arguments unchanged, second optimiser identical", oracle=oracle)


def _corr_attr(ctx):
    """(b) public parameters updated on an object that has already been used (same input signature again) against a fresh
    object built with the new parameter; eager and under jax.jit (a new trace per call)"""
    import jax
    import jax.numpy as jnp

    import cache_catalog as cc
    from scico import functional as F
    from scico import linop, loss

    y = jnp.asarray(np.array([[1.0, -0.5, 2.0], [0.25, -1.5, 0.75]]))
    specs = [
        ("L2BallIndicator.radius", lambda p: F.L2BallIndicator(radius=p), "radius", [1.0, 2.5, 0.5], False),
        ("HuberNorm(sep).delta", lambda p: F.HuberNorm(delta=p, separable=True), "delta", [0.5, 1.5, 0.25], True),
        ("HuberNorm(nonsep).delta", lambda p: F.HuberNorm(delta=p, separable=False), "delta", [0.5, 1.5, 0.25], True),
        ("L1MinusL2Norm.beta", lambda p: F.L1MinusL2Norm(beta=p), "beta", [0.5, 0.9, 0.25], False),
        ("ScaledFunctional.scale", lambda p: p * F.L1Norm(), "scale", [0.5, 2.0, 1.25], False),
        ("L21Norm.l2_axis", lambda p: F.L21Norm(l2_axis=p), "l2_axis", [0, 1, 0], False),
        ("SquaredL2Loss.scale", lambda p: loss.SquaredL2Loss(y=y, scale=p), "scale", [0.5, 2.0, 0.125], True),
        ("SquaredL2Loss(Diag).scale", lambda p: loss.SquaredL2Loss(y=y, A=linop.Diagonal(y + 3.0), scale=p), "scale", [0.5, 2.0, 0.125], True),
        ("PoissonLoss.scale", lambda p: loss.PoissonLoss(y=jnp.abs(y) + 1.0, scale=p), "scale", [0.5, 2.0, 0.125], True),
    ]
    for name, mk, attr, params, smooth in specs:
        for dt in (np.float64, np.float32):
            for mode in ("eager", "jit"):
                if not ctx.thorough and mode == "jit" and dt is np.float32:
                    continue  # quick tier: three of the four (dtype, mode) combinations
                v = jnp.abs(cc._arr(ctx.rng, (2, 3), dt)) + 0.5 if "Poisson" in name else cc._arr(ctx.rng, (2, 3), dt)
                lam = jnp.asarray(0.75, dtype=dt)

                def calls(o, v=v, lam=lam, smooth=smooth):
                    fs = []
                    if o.has_eval:
                        fs.append(("eval", lambda a, o=o: o(a)))
                    if o.has_prox:
                        fs.append(("prox", lambda a, o=o: o.prox(a, lam)))
                    if smooth:
                        fs.append(("grad", lambda a, o=o: o.grad(a)))
                    out = {}
                    for nm, fn in fs:
                        try:
                            r = jax.jit(lambda a, fn=fn: fn(a))(v) if mode == "jit" else fn(v)
                            out[nm] = ("ok", cc.canon(r))
                        except Exception as e:  # noqa: BLE001
                            out[nm] = ("err", type(e).__name__)
                    return out

                obj = mk(params[0])
                calls(obj)  # first use with the first parameter value
                case = {"kind": "attr", "attribute": name, "values": params, "dtype": np.dtype(dt).name, "mode": mode, "x": np.asarray(v).tolist()}
                ctx.case(case, ("attr", name, np.dtype(dt).name, mode))
                ctx.count(f"attr:{mode}")
                for p in params[1:]:
                    setattr(obj, attr, p)
                    got, want = calls(obj), calls(mk(p))
                    badk = [k for k in want if got[k][0] != want[k][0] or (want[k][0] == "ok" and not cc.same(got[k][1], want[k][1], cc._rtol(dt)))]
                    if badk:
                        def oracle(c, p=p, badk=badk, got=got, want=want):
                            k = badk[0]
                            return {"case": c, "after_setting": p, "call": k,
                                    "used_object": got[k][1] if got[k][0] == "err" else [np.asarray(a).tolist() for a in got[k][1]],
                                    "fresh_object_with_that_parameter": want[k][1] if want[k][0] == "err" else [np.asarray(a).tolist() for a in want[k][1]],
                                    "what": "after updating a public parameter of an object that was used before, a call on an input signature seen "
                                            "earlier differs from a fresh object built with the new parameter"}

                        known = KNOWN_HUBER if (name == "HuberNorm(nonsep).delta" and set(badk) <= {"eval", "grad"}) else None
                        ctx.disagree("cache.attr-update", {**case, "after": p}, "stale", "fresh object with the new parameter", oracle=oracle, known_id=known)
                        break


# ==============================================================================================
# (A9) attributes read at trace time (generated table Scico.Generated.CacheAttrs; model TracedObj; theorems
#      C19_call_time_params / C19_trace_time_stale)

KNOWN_XSTEP = "pgm-xstep-stale-loss-scale"


def generate(ctx):
    import cache_attrs

    sites, params, mutators = cache_attrs.write()
    ctx.extra["trace_sites"] = len(sites)
    ctx.extra["trace_sites_cached"] = sum(1 for s in sites if s[3] in ("perObjectJit", "storedBranch", "staticJit"))
    import cache_translate

    shared, options, chains = cache_translate.write()
    ctx.extra["shared_state_inventory"] = [list(x) for x in shared]
    ctx.extra["option_patterns_from_source"] = {c + "." + a: p for c, a, p, _ in options}
    return [("Scico.Generated.CacheAttrs", "attributes read at trace time: no functional/loss parameter, no attribute with a setter; inventory as audited"),
            ("Scico.Generated.CacheTables", "shared defaults / class-level / module-level mutable state of the whole package = audited list; option "
             "dictionaries (pattern, literal defaults) = model table; second-level attribute chains in cached traces = audited list; "
             "normalised source of the 14 functions the model follows = pinned source")]


def _trace_cases():
    """(name, class in the generated table, attribute -> list of values, make(values dict), call(obj, sig), setter(obj, attr, value),
    signatures, as-is trace-time attributes when they differ from the documented behaviour | None)"""
    import jax.numpy as jnp
    from scico import functional as F
    from scico import linop, loss, optimize

    x23 = jnp.asarray(np.array([[1.5, -2.0, 0.25], [3.0, 0.5, -1.0]]))
    x4 = jnp.asarray(np.array([2.0, -1.0, 0.5, 4.0]))
    xs = [x23, x4]
    hs = [jnp.asarray(np.array([1.0, 2.0, -1.0])), jnp.asarray(np.array([0.5, 0.0, 3.0])), jnp.asarray(np.array([-2.0, 1.0, 1.0]))]
    x6 = jnp.asarray(np.array([1.0, -2.0, 0.5, 3.0, 0.0, 1.5]))
    y = jnp.asarray(np.array([1.0, -0.5, 2.0, 0.25]))
    d = jnp.asarray(np.array([1.0, 2.0, 0.5, 1.5]))
    out = []
    for jit in (True, False):
        out.append((f"Convolve(jit={jit}).h", "Convolve", {"h": hs}, lambda v, jit=jit: linop.Convolve(v["h"], (6,), input_dtype=np.float64, mode="full", jit=jit),
                    lambda o, sig: o(x6), setattr, 1, jit, None))
        out.append((f"SingleAxisFiniteDifference(jit={jit}).circular", "SingleAxisFiniteDifference", {"circular": [True, False, True]},
                    lambda v, jit=jit: linop.SingleAxisFiniteDifference((6,), input_dtype=np.float64, axis=0, circular=v["circular"], jit=jit),
                    lambda o, sig: o(x6), setattr, 1, jit, None))
    out.append(("L2BallIndicator.radius", "L2BallIndicator", {"radius": [1.0, 2.5, 0.5]}, lambda v: F.L2BallIndicator(radius=v["radius"]),
                lambda o, sig: o.prox(xs[sig], 0.5), setattr, 2, True, None))
    out.append(("HuberNorm(nonsep).delta", "HuberNorm", {"delta": [0.5, 1.5, 0.25]}, lambda v: F.HuberNorm(delta=v["delta"], separable=False),
                lambda o, sig: (o(xs[sig]), o.prox(xs[sig], 0.5)), setattr, 2, True, None))
    out.append(("L1MinusL2Norm.beta", "L1MinusL2Norm", {"beta": [0.5, 0.9, 0.25]}, lambda v: F.L1MinusL2Norm(beta=v["beta"]),
                lambda o, sig: (o(xs[sig]), o.prox(xs[sig], 0.5)), setattr, 2, True, None))

    def mk_pgm(v):
        f = loss.SquaredL2Loss(y=y, A=linop.Diagonal(d), scale=v["scale"])
        return optimize.PGM(f=f, g=0.1 * F.L1Norm(), L0=8.0, x0=jnp.zeros(4))

    vs = [jnp.asarray(np.array([0.3, -0.2, 0.1, 0.4])), jnp.asarray(np.array([[0.3, -0.2, 0.1, 0.4]]))]
    # the documented mutator of a loss: f.set_scale; the call is the optimiser's proximal-gradient update at a fixed point
    out.append(("PGM.x_step / f.set_scale", "PGM", {"scale": [0.5, 2.0, 0.125]}, mk_pgm, lambda o, sig: o.x_step(vs[0], 8.0),
                lambda o, a, val: o.f.set_scale(val), 1, True, ["scale"]))
    return out


def _corr_trace_time(ctx, model):
    import cache_attrs
    import cache_catalog as cc

    sites, params, _ = cache_attrs.scan()
    cached = {}
    for f, c, n, k, r in sites:
        if k in ("perObjectJit", "storedBranch", "staticJit"):
            cached.setdefault(c, set()).update(r)
    for name, cls, values, mk, call, setter, nsig, jit_on, asis in _trace_cases():
        names = sorted(values)
        traced = sorted(a for a in names if jit_on and a in cached.get(cls, set()))
        for _ in range(ctx.n(2, 6)):
            ops = [{"k": "call", "sig": 0}]
            for _ in range(int(ctx.rng.integers(2, 6))):
                if ctx.rng.random() < 0.5:
                    a = names[int(ctx.rng.integers(0, len(names)))]
                    ops.append({"k": "set", "a": a, "v": int(ctx.rng.integers(0, len(values[a])))})
                else:
                    ops.append({"k": "call", "sig": int(ctx.rng.integers(0, nsig))})
            obj = mk({a: values[a][0] for a in names})
            for o in ops:
                if o["k"] == "set":
                    setter(obj, o["a"], values[o["a"]][o["v"]])
                else:
                    call(obj, o["sig"])
            case = {"kind": "trace", "object": name, "trace_time_attributes": traced, "ops": ops}
            ctx.case(case, ("trace", name, json.dumps(ops)))
            ctx.count("trace:" + ("trace-time" if traced else "call-time"))
            for sig in range(nsig):
                got = cc.canon(call(obj, sig))

                def want_for(tr):
                    eff = model.call("trace", traced=tr, names=names, init=0, probe=sig, ops=ops)
                    return eff, cc.canon(call(mk({a: values[a][i] for a, i in zip(names, eff)}), sig))

                eff, want = want_for(traced)
                if cc.same(got, want, 1e-9):
                    continue
                known = None
                if asis is not None and cc.same(got, want_for(asis)[1], 1e-9):
                    known = KNOWN_XSTEP

                def oracle(c, sig=sig, got=got):
                    cur = {a: next((o["v"] for o in reversed(ops) if o["k"] == "set" and o["a"] == a), 0) for a in names}
                    fresh = cc.canon(call(mk({a: values[a][cur[a]] for a in names}), sig))
                    if not cc.same(got, fresh, 1e-9):
                        return {"case": c, "signature": sig, "current_parameters": {a: repr(values[a][cur[a]]) for a in names},
                                "used_object": [np.asarray(v).tolist() for v in got], "fresh_object_with_current_parameters": [np.asarray(v).tolist() for v in fresh],
                                "what": "after this history of calls and parameter updates the object computes with a parameter value it no longer has"}
                    return None

                ctx.disagree("cache.trace-time", {**case, "probe": sig}, "differs from the model's effective parameters", eff,
                             oracle=oracle if not traced else None, known_id=known)
                break


# ==============================================================================================
# (A10) exhaustive small scopes: EVERY history up to a length bound over a small alphabet, for the state machines whose
#       real counterpart is cheap to drive (the theorems hold for all lengths; this makes the tie complete up to the bound)


def _corr_exhaustive(ctx, model):
    import itertools

    scope = {}
    # constructor options: all op sequences over 7 operations
    L = ctx.n(3, 4)
    n_opts = 0
    for spec in _opt_classes():
        key = list(spec[3].keys())[0]
        alphabet = [("dict", {key: 1001}), ("ctor", None), ("ctor", 1), ("ctor", 0), ("mut", 0, key, 1002), ("mut", 1, key, 1003), ("mut", 2, "other", 1004)]
        for ln in range(1, L + 1):
            for ops in itertools.product(alphabet, repeat=ln):
                _opt_case(ctx, model, spec, list(ops))
                n_opts += 1
    scope["opts"] = {"alphabet": 7, "max_length": L, "classes": 4, "histories": n_opts}
    # loss heap: new(2) followed by every sequence over {*3 on 0, /4 on 0, set 0, *0.5 on last, new}
    Lh = ctx.n(3, 4)
    n_loss = 0
    for cls in ("SquaredL2Loss(Diag)",) + (("PoissonLoss", "SquaredL2Loss(Matrix)") if ctx.thorough else ()):
        for ln in range(1, Lh + 1):
            alphabet = [{"k": "mul", "i": 0, "c": 3.0}, {"k": "div", "i": 0, "c": 4.0}, {"k": "set", "i": 0, "s": 0.25}, {"k": "rmul", "i": -1, "c": 0.5}, {"k": "new", "s": 1.5}]
            # quick tier: the full alphabet up to length 2, the three operations on the first object up to length 3
            for ops in itertools.product(alphabet if (ctx.thorough or ln <= 2) else alphabet[:3], repeat=ln):
                seq, n = [{"k": "new", "s": 2.0}], 1
                for o in ops:
                    o = dict(o)
                    if o.get("i") == -1:
                        o["i"] = n - 1
                    seq.append(o)
                    if o["k"] != "set":
                        n += 1
                _loss_case(ctx, model, {"kind": "loss", "cls": cls, "ops": seq, "seed": 7})
                n_loss += 1
    scope["loss"] = {"alphabet": 5, "max_length": Lh, "histories": n_loss, "uses_between_operations": ["eval", "grad", "prox", "hessian"],
                     "note": "quick: full alphabet to length 2, operations on the first object to length 3"}
    if ctx.thorough:
        # jit slots: every op sequence up to length 3, all variants and option values
        n_jit = 0
        names = ["jit", "call", "adj", "gram", "gramOp"]
        for variant in ("adjFn", "classAdj", "plain", "ownAdj"):
            for jit_opt in ((None, True) if variant != "ownAdj" else (None,)):
                for ln in range(1, 4):
                    for ops in itertools.product(names, repeat=ln):
                        _jit_case(ctx, model, variant, jit_opt, list(ops))
                        n_jit += 1
        scope["jit"] = {"alphabet": 5, "max_length": 3, "histories": n_jit}
        # TV cache: every history up to length 3 over {call, prox} x {(4,) float32, (4,) float64} (same shape, two dtypes)
        n_tv = 0
        alphabet = [{"k": k, "shape": [4], "dt": d} for k in ("call", "prox") for d in ("float32", "float64")]
        for pre in (None, [[4], "float32"]):
            for ln in range(1, 4):
                for ops in itertools.product(alphabet, repeat=ln):
                    _tv_case(ctx, model, {"kind": "tv", "cls": "AnisotropicTVNorm", "circ": True, "pre": pre, "ops": [dict(o) for o in ops]})
                    n_tv += 1
        scope["tv"] = {"alphabet": 4, "max_length": 3, "histories": n_tv}
    ctx.extra["exhaustive_scopes"] = scope


def _run_corpus(ctx, model):
    d = common.CORPUS_DIR / PROP
    if not d.exists():
        return
    for f in sorted(d.glob("*.json")):
        c = json.loads(f.read_text())
        c = c.get("case", c)
        ctx.count("corpus")
        c = {k: v for k, v in c.items() if k != "note"}
        if c["kind"] == "tv":
            _tv_case(ctx, model, c)
        elif c["kind"] == "loss":
            _loss_case(ctx, model, c)
        elif c["kind"] == "attach":
            _attach_case(ctx, model, c["family"], c["helpers"])
        elif c["kind"] == "ctx":
            _ctx_case(ctx, model, c)


# ==============================================================================================
# (C) default-precision worker: the multi-mode / history comparison repeated in a process WITHOUT jax_enable_x64


def _nox64_start(ctx):
    import subprocess
    import sys

    import cache_fresh

    single = cache_fresh.build_catalog_single(ctx.seed)
    always = [e for e in single if "XRayTransform" in e.name]                      # the classes that donate buffers
    tvs = [e for e in single if "TVNorm" in e.name]                                # the class that caches operators
    rest = [e for e in single if e not in always and e not in tvs]
    pick = lambda pool, k: [pool[int(i)] for i in sorted(ctx.rng.choice(len(pool), size=min(len(pool), k), replace=False))]  # noqa: E731
    ents = (always + tvs + rest) if ctx.thorough else (always + pick(tvs, 3) + pick(rest, 12))
    env = dict(os.environ)
    env.pop("JAX_ENABLE_X64", None)
    env["PYTHONDONTWRITEBYTECODE"] = "1"
    p = subprocess.Popen([sys.executable, str(common.VERIF / "harness" / "cache_nox64_worker.py")], stdin=subprocess.PIPE, stdout=subprocess.PIPE,
                         stderr=subprocess.PIPE, text=True, env=env)
    p.stdin.write(json.dumps({"repo": str(common.REPO), "seed": ctx.seed, "thorough": ctx.thorough, "entries": [e.name for e in ents]}))
    p.stdin.close()
    p.stdin = None
    return p, {e.name: e for e in ents}


def _nox64_collect(ctx, handle):
    import cache_catalog as cc
    import cache_fresh

    p, ents = handle
    out, err = p.communicate(timeout=1500)
    line = next((ln for ln in reversed(out.splitlines()) if ln.startswith("{\"results\"")), None)
    if p.returncode != 0 or line is None:
        raise common.Infra("default-precision worker failed: " + err[-600:])
    res = json.loads(line)["results"]
    ctx.extra["nox64_calls"] = len(res)
    for r in res:
        case = {"kind": "nox64", "entry": r["entry"], "call": r["call"]}
        ctx.case(case, ("nox64", r["entry"], r["call"]))
        ctx.count("nox64:" + ("default-dtype" if r["entry"].endswith("/default") else r["entry"].rsplit("/", 1)[-1]))
        e = ents.get(r["entry"])
        x64 = c19_eval(e, r["call"]) if e is not None else None
        problems = []
        if "base_err" in r and (x64 is None or x64[0] == "ok"):
            problems.append({"what": "the call raises in default precision (no x64)" + ("" if x64 is None else " but not with x64"), "raised": r["base_err"]})
        if r.get("is64"):
            problems.append({"what": "a float32 / complex64 computation returned a 64-bit array in default precision"})
        def same_values(a, b):
            # values only: which dtype a float32 computation RETURNS with x64 enabled is the subject of C12, not of this comparison
            return len(a) == len(b) and all(np.shape(u) == np.shape(v) and common.allclose(np.real(u), np.real(v), rtol=2e-4)
                                            and common.allclose(np.imag(u), np.imag(v), rtol=2e-4) for u, v in zip(a, b))

        if "base" in r and x64 is not None and x64[0] == "ok" and not same_values(x64[1], cache_fresh.decode(r["base"])):
            problems.append({"what": "value in default precision differs from the value of the same float32 computation with x64 enabled",
                             "default_precision": [v.tolist() for v in cache_fresh.decode(r["base"])], "with_x64": [np.asarray(v).tolist() for v in x64[1]]})
        for b in r["bad"]:
            slug = _known_mode(r["entry"], r["call"], b["mode"], ("ok", None), ("err", b["got"])) if (b["base"] == "ok" and isinstance(b["got"], str)) else None
            if slug is not None and ctx.is_known(slug):
                ctx.suppressed += 1
                ctx.known_finding(slug, True)   # the recorded finding, met in default precision as well
                continue
            problems.append({"what": "in default precision the result depends on the execution mode / call history", "mode": b["mode"],
                             "fresh_eager": b["base"] if b["base"] != "value" else [v.tolist() for v in cache_fresh.decode(r["base"])],
                             "this_mode": b["got"] if isinstance(b["got"], str) else [v.tolist() for v in cache_fresh.decode(b["got"])]})
        if problems:
            ctx.disagree("cache.nox64", case, problems[0].get("mode", problems[0]["what"]), "same as fresh eager / as with x64",
                         oracle=lambda c, problems=problems: {"entry": c["entry"], "call": c["call"], **problems[0], "further": len(problems) - 1})


def c19_eval(entry, call_name):
    call = next((c for c in entry.calls if c[0] == call_name), None)
    return None if call is None else _eval_call(entry, call, "eager")


def _import_all():
    """everything the check touches is imported BEFORE the first picture of the module-level state"""
    import scico.function  # noqa: F401
    import scico.functional  # noqa: F401
    import scico.linop  # noqa: F401
    import scico.linop.xray  # noqa: F401
    import scico.loss  # noqa: F401
    import scico.operator  # noqa: F401
    import scico.optimize  # noqa: F401
    import scico.optimize.admm  # noqa: F401
    import scico.optimize.pgm  # noqa: F401
    import scico.random  # noqa: F401
    import scico.solver  # noqa: F401


def _global_state_check(ctx, before):
    import cache_fresh

    after = cache_fresh.module_state()
    changed = cache_fresh.state_diff(before, after)
    case = {"kind": "global-state", "locations_watched": len(before)}
    ctx.case(case, ("global-state",))
    ctx.count("mutation:global-state-locations", len(before))
    ctx.extra["global_state_locations"] = len(before)
    if changed:
        ctx.disagree("cache.global-state", {**case, "changed": changed}, f"module-level state changed: {changed}", "unchanged",
                     oracle=lambda c: {"changed": c["changed"], "what": "using scico objects left state behind at module / class / function level "
                                       "(results can then depend on what was called before in the process)"})


def correspond(ctx, model):
    common.setup_scico()
    import cache_fresh

    _import_all()
    nox64 = _nox64_start(ctx)   # runs while the state-machine streams below are evaluated
    state0 = cache_fresh.module_state()
    import time

    secs = {}

    def timed(name, fn, *a):
        t0 = time.time()
        fn(*a)
        secs[name] = round(time.time() - t0, 1)

    timed("option-leak", _corr_option_leak, ctx)
    timed("corpus", _run_corpus, ctx, model)
    timed("tv", _corr_tv, ctx, model)
    timed("loss", _corr_loss, ctx, model)
    timed("attach", _corr_attach, ctx, model)
    timed("rng", _corr_rng, ctx, model)
    timed("ctx", _corr_ctx, ctx, model)
    timed("opts", _corr_opts, ctx, model)
    timed("jit", _corr_jit, ctx, model)
    timed("args", _corr_args, ctx)
    timed("attr", _corr_attr, ctx)
    timed("reuse", _corr_reuse, ctx)
    timed("live-pair", _corr_live_pair, ctx)
    timed("trace", _corr_trace_time, ctx, model)
    timed("exhaustive", _corr_exhaustive, ctx, model)
    timed("mutation", _corr_mutation, ctx)
    timed("nox64-collect", _nox64_collect, ctx, nox64)
    timed("modes", _corr_modes, ctx)
    _global_state_check(ctx, state0)
    ctx.extra["stream_seconds"] = secs


def findings(ctx, model):
    """replay the witnesses of known_findings.txt directly on the real code"""
    import jax
    import jax.numpy as jnp
    from scico import functional as F
    from scico import linop, loss

    def raises(f, exc):
        try:
            f()
            return False
        except Exception as e:  # noqa: BLE001
            return type(e).__name__ == exc

    x = jnp.asarray(np.arange(1.0, 5.0))

    def w_tv():
        tv = F.AnisotropicTVNorm(circular=True)
        v = jnp.ones((4, 6))
        jax.jit(lambda a: tv.prox(a, 0.5))(v)
        tv.prox(v, 0.5)

    def w_linop():
        A = linop.LinearOperator(input_shape=(4,), eval_fn=lambda a: 2.0 * a[::-1], input_dtype=np.float64)
        jax.jit(lambda a: A.adj(a))(x)
        A.adj(x)

    wit = {
        "tvnorm-jit-tracer-leak": (w_tv, "UnexpectedTracerError"),
        "linop-lazy-adjoint-tracer-leak": (w_linop, "UnexpectedTracerError"),
        "setdistance-prox-jit": (lambda: jax.jit(F.SetDistance(lambda a: jnp.maximum(a, 0)).prox)(x - 2.5, 0.5), "TracerBoolConversionError"),
        "proxavg-eval-jit": (lambda: jax.jit(F.ProximalAverage([F.L1Norm(), F.SquaredL2Norm()]).__call__)(x), "TracerBoolConversionError"),
        "sql2sqabs-prox-jit": (lambda: jax.jit(loss.SquaredL2SquaredAbsLoss(y=x).prox)(x, 0.5), "TracerBoolConversionError"),
        "sql2loss-cg-prox-jit": (lambda: jax.jit(loss.SquaredL2Loss(y=x, A=linop.MatrixOperator(2.0 * jnp.eye(4))).prox)(x, 0.5), "TracerBoolConversionError"),
    }
    for slug, (f, exc) in wit.items():
        if ctx.is_known(slug):
            ctx.known_finding(slug, raises(f, exc))
    if ctx.is_known(KNOWN_XSTEP):
        from scico import optimize

        yy = jnp.asarray(np.array([1.0, -0.5, 2.0, 0.25]))
        mkp = lambda sc: optimize.PGM(f=loss.SquaredL2Loss(y=yy, scale=sc), g=0.1 * F.L1Norm(), L0=8.0, x0=jnp.zeros(4))  # noqa: E731
        pg = mkp(0.5)
        vv = jnp.asarray(np.array([0.3, -0.2, 0.1, 0.4]))
        pg.x_step(vv, 8.0)
        pg.f.set_scale(2.0)
        ctx.known_finding(KNOWN_XSTEP, not common.allclose(np.asarray(pg.x_step(vv, 8.0)), np.asarray(mkp(2.0).x_step(vv, 8.0)), rtol=1e-9),
                          "PGM: x_step(v, L); f.set_scale(2.0); x_step(v, L) still uses scale 0.5")
    if ctx.is_known(KNOWN_HUBER):
        xh = jnp.asarray(np.array([[1.0, -0.5, 2.0], [0.25, -1.5, 0.75]]))
        hb = F.HuberNorm(delta=0.5, separable=False)
        hb(xh)
        hb.delta = 1.5
        ctx.known_finding(KNOWN_HUBER, not common.close(float(hb(xh)), float(F.HuberNorm(delta=1.5, separable=False)(xh)), 8),
                          "HuberNorm(delta=0.5, separable=False): h(x); h.delta = 1.5; h(x) = 1.3002 (old delta), fresh HuberNorm(1.5)(x) = 3.1507")
    if ctx.is_known(KNOWN_REUSE):
        a, b = _reuse_run("pgm:BBStepSize:plain", 1)
        ctx.known_finding(KNOWN_REUSE, any(not common.allclose(x, y, rtol=1e-9) for x, y in zip(a, b)),
                          "BBStepSize used with one PGM, then given to a second PGM: first step differs from a fresh BBStepSize")


def _targeted(ctx, changed):
    """panels that exercise exactly the functions whose pinned source changed; each evaluates the PROPERTY on the implementation"""
    import jax
    import jax.numpy as jnp

    ctx.extra["search_targets"] = changed
    if any(c.startswith("TVNorm") for c in changed):
        for cls_name in ("AnisotropicTVNorm", "IsotropicTVNorm"):
            for circ in (True, False):
                for ops in ([("prox", [4], "float64"), ("prox", [4, 6], "float64"), ("call", [4, 6], "float64"), ("prox", [4], "float64")],
                            [("call", [4], "float32"), ("call", [4], "float64"), ("prox", [4], "float32"), ("prox", [4], "float64"), ("call", [4], "float32")],
                            [("prox", [4, 6], "float32"), ("prox", [6, 4], "float32"), ("prox", [4, 6], "float32")]):
                    ctx.count("search:targeted:tv")
                    r = _oracle_tv({"kind": "tv", "cls": cls_name, "circ": circ, "pre": None, "ops": [{"k": k, "shape": sh, "dt": dt} for k, sh, dt in ops]})
                    if r is not None:
                        return r
    if any(c.startswith(("Loss.", "Functional.")) for c in changed):
        seqs = [[{"k": "new", "s": 2.0}, {"k": "mul", "i": 0, "c": 3.0}], [{"k": "new", "s": 2.0}, {"k": "div", "i": 0, "c": 4.0}],
                [{"k": "new", "s": 2.0}, {"k": "rmul", "i": 0, "c": 0.5}, {"k": "set", "i": 1, "s": 5.0}],
                [{"k": "new", "s": 2.0}, {"k": "mul", "i": 0, "c": 3.0}, {"k": "set", "i": 0, "s": 0.25}, {"k": "div", "i": 1, "c": 2.0}]]
        for cls in ("SquaredL2Loss(Diag)", "SquaredL2Loss(Matrix)", "PoissonLoss"):
            for seq in seqs:
                ctx.count("search:targeted:loss")
                r = _oracle_loss({"kind": "loss", "cls": cls, "ops": seq, "seed": 11})
                if r is not None:
                    return r
    if any(c.endswith("internal_init") for c in changed):
        for nm in ("admm:Linear", "admm:Matrix", "pgm:PGMStepSize:plain", "pgm:BBStepSize:plain", "pgm:LineSearchStepSize:acc"):
            ctx.count("search:targeted:helper")
            try:
                a, b = _reuse_run(nm, 1)
            except Exception as e:  # noqa: BLE001
                return {"helper": nm, "raised": repr(e)[:200], "what": "an optimiser built with a previously used helper object raises"}
            if any(not common.allclose(x, y, rtol=1e-7) for x, y in zip(a, b)):
                return {"helper": nm, "with_reused_helper": [v.tolist() for v in a], "with_fresh_helper": [v.tolist() for v in b],
                        "what": "a helper object attached to a second optimiser does not behave like a fresh one"}
    if "_add_seed.fun_alt" in changed:
        import scico.random as sr

        key = jax.random.PRNGKey(12345)
        for fn in ("normal", "uniform"):
            jf = getattr(jax.random, fn)
            for form, args, kw, k_eff in (("kw_key", [(3,)], {"key": key}, key), ("kw_seed", [(3,)], {"seed": 7}, jax.random.PRNGKey(7)),
                                          ("none", [(3,)], {}, jax.random.PRNGKey(0)), ("pos_key", [(3,), np.float32, key], {}, key)):
                ctx.count("search:targeted:rng")
                try:
                    res, rk = getattr(sr, fn)(*args, **kw)
                    res2, _ = getattr(sr, fn)(*args, **kw)
                except Exception as e:  # noqa: BLE001
                    return {"function": fn, "form": form, "raised": repr(e)[:200]}
                if not np.array_equal(np.asarray(res), np.asarray(jf(k_eff, (3,), np.float32))) or not np.array_equal(np.asarray(rk), np.asarray(jax.random.split(k_eff, 2)[0])) \
                        or not np.array_equal(np.asarray(res), np.asarray(res2)):
                    return {"function": fn, "form": form, "what": "result / returned key is not the documented function of (shape, dtype, key | seed), or two identical calls differ"}
        try:
            sr.normal((3,), key=key, seed=1)
            return {"what": "key and seed given together are accepted"}
        except ValueError:
            pass
    if any(c.startswith(("LinearOperator.", "Operator.jit", "MatrixOperator.")) for c in changed):
        from scico import linop

        M = np.array([[1.0, 2.0, 0.0, -1.0], [0.5, 0.0, 3.0, 1.0], [2.0, -1.0, 1.0, 0.0]])
        Mj = jnp.asarray(M)
        x, y = jnp.asarray([1.0, -2.0, 0.5, 3.0]), jnp.asarray([2.0, 1.0, -1.0])
        mks = {"plain": lambda: linop.LinearOperator(input_shape=(4,), output_shape=(3,), eval_fn=lambda v: Mj @ v, input_dtype=np.float64),
               "adjFn": lambda: linop.LinearOperator(input_shape=(4,), output_shape=(3,), eval_fn=lambda v: Mj @ v, adj_fn=lambda w: Mj.T @ w, input_dtype=np.float64),
               "matrix": lambda: linop.MatrixOperator(Mj)}
        for vname, mk in mks.items():
            for ops in (["call", "adj", "gram"], ["jit", "call", "adj", "gram"], ["gram", "jit", "adj", "jit", "call"], ["adj", "jit", "gram"]):
                ctx.count("search:targeted:linop")
                A = mk()
                for o in ops:
                    try:
                        if o == "jit":
                            A.jit()
                            continue
                        got, want = {"call": (lambda: A(x), M @ np.asarray(x)), "adj": (lambda: A.adj(y), M.T @ np.asarray(y)),
                                     "gram": (lambda: A.gram(x), M.T @ (M @ np.asarray(x)))}[o]
                        g = np.asarray(got())
                    except Exception as e:  # noqa: BLE001
                        return {"operator": vname, "history": ops, "at": o, "raised": repr(e)[:200]}
                    if not _eqv(g, want):
                        return {"operator": vname, "history": ops, "at": o, "value": g.tolist(), "dense_matrix_value": want.tolist(),
                                "what": "value of the operator after this jit / call history differs from the dense matrix"}
    return None


def search(ctx, model, why):
    """failing-input search on the implementation only; after a broken generated obligation the functions whose pinned source changed
    are exercised first (targeted panels), then TV / loss histories at random"""
    common.setup_scico()
    if why and "CacheTables" in str(why.get("module", "")):
        import cache_translate

        changed = cache_translate.changed_rows(common.REPO, cache_translate.PINNED, common.VERIF / "lean" / "Scico" / "Model" / "Cache.lean")
        r = _targeted(ctx, changed)
        if r is not None:
            return r
    dts = ["float32", "float64", "complex64"]
    for _ in range(ctx.n(4, 25)):
        shape = [[4], [4, 6], [5]][int(ctx.rng.integers(0, 3))]
        ops = [{"k": "call" if ctx.rng.random() < 0.5 else "prox", "shape": shape, "dt": dts[int(ctx.rng.integers(0, 3))]} for _ in range(5)]
        c = {"kind": "tv", "cls": ["AnisotropicTVNorm", "IsotropicTVNorm"][int(ctx.rng.integers(0, 2))], "circ": bool(ctx.rng.integers(0, 2)), "pre": None, "ops": ops}
        ctx.count("search:tv")
        r = _oracle_tv(c)
        if r is not None:
            return r
    for _ in range(ctx.n(4, 25)):
        c = {"kind": "loss", "cls": ["SquaredL2Loss(Diag)", "SquaredL2Loss(Matrix)"][int(ctx.rng.integers(0, 2))], "ops": _gen_loss_ops(ctx.rng), "seed": int(ctx.rng.integers(0, 10**6))}
        ctx.count("search:loss")
        r = _oracle_loss(c)
        if r is not None:
            return r
    return None


def replay(ctx, model, case):
    common.setup_scico()
    c = case.get("case", case)
    r = None
    if c.get("kind") == "tv":
        r = _oracle_tv({k: v for k, v in c.items() if k != "at"})
    elif c.get("kind") == "loss":
        r = _oracle_loss({k: v for k, v in c.items() if k != "object"})
    print("replay:", "property FAILS on implementation:" if r else "no failure at this input", r)
    if r:
        ctx.violation({"kind": "failing-input", "case": c, "failing": r}, True, "replay")
