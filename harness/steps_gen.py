"""Steps engine (C11 / C03): recipes -> real scico optimiser objects + parameters of the Lean model.

A *recipe* is a plain JSON-able dict (dyadic numbers only) from which both sides are built
deterministically, so that every case can be stored in a replay / the corpus and rebuilt.

Conventions of the model side (see lean/Drv/Steps.lean):
  * every variable travels as a flat real vector: arrays ravel in C order, block arrays are the
    concatenation of their blocks, complex arrays interleave (re, im);
  * an operator is its dense matrix on flattened variables, computed here with numpy formulas that do
    not call scico; complex matrices become their real 2m x 2n representation (adjoint = transpose);
  * functionals are described by a small tagged dict (k = zero | group | sql2 | nonneg | sqloss).
"""

from __future__ import annotations

import numpy as np

import common
from common import Infra, f2b, fs2b

# --------------------------------------------------------------------------------------------
# shapes and values


def is_block(sh):
    return len(sh) > 0 and isinstance(sh[0], (list, tuple))


def tup(sh):
    return tuple(tuple(s) for s in sh) if is_block(sh) else tuple(sh)


def size_of(sh):
    if is_block(sh):
        return sum(int(np.prod(s)) for s in sh)
    return int(np.prod(sh)) if len(sh) else 1


def np_flat(v):
    """scico Array / BlockArray / numpy -> 1-D numpy array (C order, blocks concatenated)"""
    if hasattr(v, "arrays") or type(v).__name__ == "BlockArray":
        return np.concatenate([np.asarray(b).ravel() for b in v])
    return np.asarray(v).ravel()


def realify(a, cplx):
    a = np.asarray(a)
    if not cplx:
        return np.asarray(a.real if np.iscomplexobj(a) else a, dtype=np.float64)
    a = a.astype(np.complex128)
    out = np.empty(2 * a.size, dtype=np.float64)
    out[0::2] = a.real
    out[1::2] = a.imag
    return out


def flat(v, cplx):
    """scico value -> list of python floats in the model's representation"""
    return realify(np_flat(v), cplx).tolist()


def unflat(vec, sh, cplx):
    """model representation -> scico value of shape `sh`"""
    import scico.numpy as snp

    a = np.asarray(vec, dtype=np.float64)
    if cplx:
        a = a[0::2] + 1j * a[1::2]
    if is_block(sh):
        out, o = [], 0
        for s in sh:
            n = int(np.prod(s))
            out.append(np.asarray(a[o : o + n]).reshape(tuple(s)))
            o += n
        return snp.blockarray(out)
    return snp.array(a.reshape(tuple(sh)))


def realify_mat(M, cplx):
    M = np.asarray(M)
    if not cplx:
        return np.asarray(M.real if np.iscomplexobj(M) else M, dtype=np.float64)
    m, n = M.shape
    R = np.zeros((2 * m, 2 * n))
    R[0::2, 0::2] = M.real
    R[0::2, 1::2] = -M.imag
    R[1::2, 0::2] = M.imag
    R[1::2, 1::2] = M.real
    return R


def jmat(M):
    M = np.asarray(M, dtype=np.float64)
    return {"r": int(M.shape[0]), "c": int(M.shape[1]), "d": [fs2b(r) for r in M]}


def dy(rng, shape, bits=3, scale=2.0):
    return common.dyadic(rng, shape, bits=bits, scale=scale)


def rand_value(rng, sh, cplx, bits=3, scale=2.0):
    """random dyadic value of (block) shape `sh` as a flat list in the model representation"""
    n = size_of(sh)
    return dy(rng, (2 * n if cplx else n,), bits, scale).tolist()


SINGLE = False  # set by harness/steps_f32_worker.py (process without jax_enable_x64): declared dtypes float32 / complex64


def dtype_of(cplx):
    if SINGLE:
        return np.complex64 if cplx else np.float32
    return np.complex128 if cplx else np.float64


# --------------------------------------------------------------------------------------------
# operators: recipe -> (dense matrix on flattened variables, output shape), scico object


def _fd_1axis(x, ax, circular, append):
    if circular:
        return np.roll(x, -1, axis=ax) - x
    d = np.diff(x, axis=ax)
    if append is None:
        return d
    if append == 0:  # zeros appended to the difference array
        pad = [(0, 0)] * x.ndim
        pad[ax] = (0, 1)
        return np.pad(d, pad)
    if append == 1:  # -1 times the final value appended
        last = np.take(x, [-1], axis=ax)
        return np.concatenate([d, -last], axis=ax)
    raise Infra("fd append")


def op_dense(rec, in_shape):
    """dense (complex or real) matrix of the operator on flattened input, and its output shape"""
    t = rec["t"]
    n = size_of(in_shape)
    if t == "id":
        return np.eye(n), tup(in_shape)
    if t == "sid":
        return rec["s"] * np.eye(n), tup(in_shape)
    if t == "diag":
        d = np.asarray(rec["d"], dtype=np.float64) + (1j * np.asarray(rec["di"]) if rec.get("di") is not None else 0)
        return np.diag(d), tup(in_shape)
    if t == "mat":
        M = np.asarray(rec["M"], dtype=np.float64)
        if rec.get("Mi") is not None:
            M = M + 1j * np.asarray(rec["Mi"], dtype=np.float64)
        if M.shape[1] != n or is_block(in_shape) or len(in_shape) != 1:
            raise Infra("mat operator on wrong shape")
        return M, (M.shape[0],)
    if t == "fd":
        sh = tuple(in_shape)
        axes = rec.get("axes")
        axes = list(range(len(sh))) if axes is None else [axes]
        cols, oshapes = [], []
        for ax in axes:
            rows = []
            for j in range(n):
                e = np.zeros(n)
                e[j] = 1.0
                y = _fd_1axis(e.reshape(sh), ax, rec.get("circular", False), rec.get("append"))
                rows.append(y.ravel())
                osh = y.shape
            cols.append(np.array(rows).T)
            oshapes.append(osh)
        M = np.concatenate(cols, axis=0)
        # VerticalStack collapses equal output shapes into one array with a leading axis
        if all(o == oshapes[0] for o in oshapes):
            return M, (len(axes),) + tuple(oshapes[0])
        return M, tuple(oshapes)
    if t == "sumconv":
        # A = Sum(axis 0) o CircularConvolve(h, ndims=1) on inputs of shape (K, n): block row [circ(h_1) ... circ(h_K)]
        h = np.asarray(rec["h"], dtype=np.float64)
        K, nn = tuple(in_shape)
        M = np.zeros((nn, K * nn))
        for k in range(K):
            hk = np.zeros(nn)
            hk[: h.shape[1]] = h[k]
            for i in range(nn):
                for j in range(nn):
                    M[i, k * nn + j] = hk[(i - j) % nn]
        return M, (nn,)
    if t == "vstack":
        Ms, shs = [], []
        for r in rec["ops"]:
            M, o = op_dense(r, in_shape)
            Ms.append(M)
            shs.append(o)
        M = np.concatenate(Ms, axis=0)
        if all(o == shs[0] for o in shs) and not is_block(shs[0]):
            return M, (len(shs),) + tuple(shs[0])
        return M, tuple(shs)
    raise Infra(f"unknown operator recipe {t}")


def op_scico(rec, in_shape, cplx):
    import scico.numpy as snp
    from scico import linop

    dt = dtype_of(cplx)
    t = rec["t"]
    sh = tup(in_shape)
    if t == "id":
        return linop.Identity(sh, input_dtype=dt)
    if t == "sid":
        return linop.ScaledIdentity(rec["s"], sh, input_dtype=dt)
    if t == "diag":
        d = np.asarray(rec["d"], dtype=np.float64)
        if cplx:
            d = d + 1j * (np.asarray(rec["di"]) if rec.get("di") is not None else 0.0)
        return linop.Diagonal(snp.array(d.astype(dt).reshape(sh)), input_dtype=dt)
    if t == "mat":
        M = np.asarray(rec["M"], dtype=np.float64)
        if cplx:
            M = M + 1j * (np.asarray(rec["Mi"], dtype=np.float64) if rec.get("Mi") is not None else 0.0)
        return linop.MatrixOperator(snp.array(M.astype(dt)))
    if t == "fd":
        return linop.FiniteDifference(sh, input_dtype=dt, axes=rec.get("axes"), append=rec.get("append"),
                                      circular=rec.get("circular", False))
    if t == "sumconv":
        h = snp.array(np.asarray(rec["h"], dtype=np.float64).astype(dt))
        return linop.Sum(input_shape=sh, axis=0, input_dtype=dt) @ linop.CircularConvolve(h=h, input_shape=sh, input_dtype=dt, ndims=1)
    if t == "vstack":
        return linop.VerticalStack(tuple(op_scico(r, in_shape, cplx) for r in rec["ops"]))
    raise Infra(f"unknown operator recipe {t}")


def op_model(rec, in_shape, cplx):
    M, osh = op_dense(rec, in_shape)
    return {"M": jmat(realify_mat(M, cplx))}, osh


# --------------------------------------------------------------------------------------------
# functionals


def fn_scico(rec, sh, cplx):
    import scico.numpy as snp
    from scico import functional, linop, loss

    k = rec["k"]
    w = rec.get("w", 1.0)
    if k == "zero":
        return functional.ZeroFunctional()
    if k == "l1":
        return w * functional.L1Norm()
    if k == "l2":
        return w * functional.L2Norm()
    if k == "sql2":
        return w * functional.SquaredL2Norm()
    if k == "nonneg":
        return functional.NonNegativeIndicator()
    if k == "l21":
        return w * functional.L21Norm(l2_axis=0)
    if k == "dwell":
        return double_well(rec["a"], rec["b"], np.asarray(rec["c"], dtype=np.float64))
    if k == "sqloss":
        y = unflat(rec["y"], rec["yshape"], cplx)
        A = None if rec.get("A") is None else op_scico(rec["A"], sh, cplx)
        W = None
        if rec.get("W") is not None:
            W = linop.Diagonal(unflat(rec["W"], rec["yshape"], False), input_dtype=dtype_of(cplx))
        rs = rec.get("resc")
        if rs is None:
            return loss.SquaredL2Loss(y=y, A=A, scale=rec["s"], W=W, prox_kwargs={"maxiter": 400, "tol": 1e-15})
        # the same loss (scale s) reached through the arithmetic of Loss objects: c * L, L * c, L / c rescale `scale`
        op, c = rs[0], float(rs[1])
        s0 = rec["s"] * c if op == "/" else rec["s"] / c
        base = loss.SquaredL2Loss(y=y, A=A, scale=s0, W=W, prox_kwargs={"maxiter": 400, "tol": 1e-15})
        out = base / c if op == "/" else (c * base if op == "l*" else base * c)
        return out  # the rescaling is what is under test: the model uses rec["s"]
    raise Infra(f"unknown functional recipe {k}")


def double_well(a, b, c):
    """smooth NON-convex functional f(x) = sum (a/4) x^4 - (b/2) x^2 + c x  (negative curvature for |x_i| < sqrt(b/(3a)));
    the gradient is the library's autograd of __call__"""
    import scico.numpy as snp
    from scico import functional

    cc = snp.array(c)

    class DoubleWell(functional.Functional):
        has_eval = True
        has_prox = False

        def __call__(self, x):
            return snp.sum(a / 4.0 * x**4 - b / 2.0 * x**2 + cc * x)

    return DoubleWell()


def fn_model(rec, sh, cplx):
    k = rec["k"]
    if k == "dwell":
        return {"k": "dwell", "a": f2b(rec["a"]), "b": f2b(rec["b"]), "c": fs2b(rec["c"])}
    n = size_of(sh)
    w = float(rec.get("w", 1.0))
    c = 2 if cplx else 1
    if k == "zero":
        return {"k": "zero"}
    if k == "l1":
        return {"k": "group", "w": f2b(w), "groups": [list(range(c * i, c * i + c)) for i in range(n)]}
    if k == "l2":
        return {"k": "group", "w": f2b(w), "groups": [list(range(c * n))]}
    if k == "sql2":
        return {"k": "sql2", "w": f2b(w)}
    if k == "nonneg":
        if cplx:
            raise Infra("nonneg on complex data")
        return {"k": "nonneg"}
    if k == "l21":
        if is_block(sh):
            raise Infra("l21 on block")
        inner = int(np.prod(sh[1:]))
        groups = []
        for j in range(inner):
            g = []
            for a in range(sh[0]):
                g += list(range(c * (a * inner + j), c * (a * inner + j) + c))
            groups.append(g)
        return {"k": "group", "w": f2b(w), "groups": groups}
    if k == "sqloss":
        if rec.get("A") is None:
            M = np.eye(n)
        else:
            M, osh = op_dense(rec["A"], sh)
            if tup(osh) != tup(rec["yshape"]):
                raise Infra(f"sqloss: operator output {osh} vs y {rec['yshape']}")
        W = None
        if rec.get("W") is not None:
            W = fs2b(np.repeat(np.asarray(rec["W"], dtype=np.float64), c))
        return {"k": "sqloss", "s": f2b(rec["s"]), "y": fs2b(rec["y"]), "W": W, "A": jmat(realify_mat(M, cplx))}
    raise Infra(f"unknown functional recipe {k}")


# --------------------------------------------------------------------------------------------
# non-linear maps (real data only)


def _cm(rec, k):
    """complex (or real) numpy array of a recipe entry k with optional imaginary part k+'i'"""
    a = np.asarray(rec[k], dtype=np.float64)
    if rec.get(k + "i") is not None:
        a = a + 1j * np.asarray(rec[k + "i"], dtype=np.float64)
    return a


def nl_operator(rec, n, cplx=False):
    """C(x) = M x + q*(P x)^2  as a scico Operator (holomorphic, so complex data is allowed)"""
    import scico.numpy as snp
    from scico.operator import Operator

    dt = dtype_of(cplx)
    M = snp.array(_cm(rec, "M").astype(dt))
    P = snp.array(_cm(rec, "P").astype(dt))
    q = snp.array(_cm(rec, "q").astype(dt))
    return Operator(input_shape=(n,), output_shape=(M.shape[0],), eval_fn=lambda x: M @ x + q * (P @ x) ** 2,
                    input_dtype=dt, output_dtype=dt)


def nl_function(rec):
    """H(x, z) = A x + B z + q*(P x)*(Q z) - c  as a scico Function"""
    import scico.numpy as snp
    from scico.function import Function

    A, B, P, Q = (snp.array(np.asarray(rec[k], dtype=np.float64)) for k in ("A", "B", "P", "Q"))
    q = snp.array(np.asarray(rec["q"], dtype=np.float64))
    c = snp.array(np.asarray(rec["c"], dtype=np.float64))
    return Function(((A.shape[1],), (B.shape[1],)), output_shape=(A.shape[0],),
                    eval_fn=lambda x, z: A @ x + B @ z + q * (P @ x) * (Q @ z) - c,
                    input_dtypes=dtype_of(False), output_dtype=dtype_of(False))


# --------------------------------------------------------------------------------------------
# step-size hook used to observe how PGM / AcceleratedPGM call the policy object


def make_policy(rec):
    """real policy object: the library's base class, or a spy deriving from one of the library's
    policy classes (so that the isinstance tests of AcceleratedPGM.step see the real class) whose
    update() is the affine rule L' = a L + b |v|^2 + c and which records Z = zc v + zd x."""
    import scico.numpy as snp
    from scico.optimize import pgm as sop

    kind = rec["kind"]
    if kind == "base" and rec.get("real", True):
        return None  # step_size=None: the constructor's own default object (the documented default path)
    if kind == "bb" and rec.get("real", False):
        return sop.BBStepSize()
    if kind == "adaptiveBB" and rec.get("real", False):
        return sop.AdaptiveBBStepSize(kappa=rec["kappa"])
    if kind == "lineSearch" and rec.get("real", False):
        return sop.LineSearchStepSize(gamma_u=rec.get("gamma_u", 1.2))
    if kind == "robust" and rec.get("real", False):
        return sop.RobustLineSearchStepSize(gamma_d=rec.get("gamma_d", 0.9), gamma_u=rec.get("gamma_u", 2.0))
    base = {"base": sop.PGMStepSize, "bb": sop.BBStepSize, "adaptiveBB": sop.AdaptiveBBStepSize,
            "lineSearch": sop.LineSearchStepSize, "robust": sop.RobustLineSearchStepSize}[kind]
    a, b, c, zc, zd = rec["a"], rec["b"], rec["c"], rec["zc"], rec["zd"]

    class Spy(base):  # type: ignore
        def __init__(self):
            if base is not sop.PGMStepSize:
                base.__init__(self)
            self.Z = None
            self.calls = []

        def update(self, v):
            L = a * self.pgm.L + b * snp.sum(snp.abs(v) ** 2) + c
            self.Z = zc * v + zd * self.pgm.x
            self.calls.append(v)
            return L

    return Spy()


def policy_model(rec):
    if rec["kind"] == "base" and rec.get("real", True):
        a, b, c, zc, zd = 1.0, 0.0, 0.0, 0.0, 0.0
    else:
        a, b, c, zc, zd = rec["a"], rec["b"], rec["c"], rec["zc"], rec["zd"]
    return {"kind": rec["kind"], "a": f2b(a), "b": f2b(b), "c": f2b(c), "zc": f2b(zc), "zd": f2b(zd)}


# --------------------------------------------------------------------------------------------
# building a problem


class Built:
    """real optimiser + model parameters for one recipe"""

    def __init__(self, recipe):
        self.recipe = recipe
        self.alg = recipe["alg"]
        self.cplx = bool(recipe.get("cplx", False))
        self.xshape = tup(recipe["xshape"])
        self.p = None  # model parameters (JSON)
        self.solver = None
        self.zshapes = None  # ADMM: list; others: single shape
        self.ushape = None
        self.policy = None
        self.model_alg = self.alg
        getattr(self, "_build_" + self.alg)()

    # ----- helpers
    def _start(self, key, sh):
        v = self.recipe.get(key)
        return None if v is None else unflat(v, sh, self.cplx)

    # ----- ADMM
    def _build_admm(self):
        from scico.optimize import ADMM
        from scico.optimize.admm import GenericSubproblemSolver, LinearSubproblemSolver, MatrixSubproblemSolver

        r, cx, xs = self.recipe, self.cplx, self.xshape
        Cs = [op_scico(c, xs, cx) for c in r["C"]]
        Cm, zsh = [], []
        for c in r["C"]:
            m, o = op_model(c, xs, cx)
            Cm.append(m)
            zsh.append(o)
        self.zshapes = zsh
        gs = [fn_scico(g, o, cx) for g, o in zip(r["g"], zsh)]
        gm = [fn_model(g, o, cx) for g, o in zip(r["g"], zsh)]
        f = None if r.get("f") is None else fn_scico(r["f"], xs, cx)
        fm = None if r.get("f") is None else fn_model(r["f"], xs, cx)
        kind = r.get("solver", "linear")
        if kind == "linear":
            sub = LinearSubproblemSolver(cg_kwargs={"tol": 1e-15, "maxiter": 400})
        elif kind == "linear-jax":
            sub = LinearSubproblemSolver(cg_kwargs={"tol": 1e-15, "maxiter": 400}, cg_function="jax")
        elif kind == "matrix":
            sub = MatrixSubproblemSolver()
        elif kind == "circ":
            from scico.optimize.admm import CircularConvolveSolver

            sub = CircularConvolveSolver(ndims=len(xs))
        elif kind == "generic":
            sub = GenericSubproblemSolver(minimize_kwargs={"options": {"maxiter": 500, "gtol": 1e-12}})
        elif kind == "fblock":
            from scico.optimize.admm import FBlockCircularConvolveSolver

            sub = FBlockCircularConvolveSolver(ndims=1)
        elif kind == "g0block":
            from scico.optimize.admm import G0BlockCircularConvolveSolver

            sub = G0BlockCircularConvolveSolver(ndims=1)
        else:
            raise Infra("solver kind")
        if r.get("reuse") is not None:
            # helper-reuse history: the SAME sub-problem solver object is first attached to another ADMM problem (same
            # operators, different data / scale of the loss) and used for one x-update, then attached to this one
            import copy

            rr = copy.deepcopy(r)
            ru = r["reuse"]
            if kind == "g0block":
                rr["g"][0]["y"] = ru["y"]
                rr["g"][0]["s"] = ru["s"]
            elif rr.get("f") is not None:
                rr["f"]["y"] = ru["y"]
                rr["f"]["s"] = ru["s"]
            g0 = [fn_scico(g, o, cx) for g, o in zip(rr["g"], zsh)]
            f0 = None if rr.get("f") is None else fn_scico(rr["f"], xs, cx)
            first = ADMM(f=f0, g_list=g0, C_list=Cs, rho_list=list(r["rho"]), alpha=r["alpha"], x0=self._start("x0", xs),
                         subproblem_solver=sub, maxiter=1)
            first.step()
            self.first = first
        self.solver = ADMM(f=f, g_list=gs, C_list=Cs, rho_list=list(r["rho"]), alpha=r["alpha"],
                           x0=self._start("x0", xs), subproblem_solver=sub, maxiter=1)
        n = size_of(xs) * (2 if cx else 1)
        self.p = {"f": fm, "g": gm, "C": Cm, "rho": fs2b(r["rho"]), "alpha": f2b(r["alpha"]), "n": n}
        if r.get("xweights") is not None:
            # x-step of G0BlockCircularConvolveSolver as its docstring states it: weight rho_1 * omega (= 2 omega * rho_1/2) on
            # the first term (known finding C10 g0-scale: this is the standard ADMM x-step only for omega = 1/2)
            self.p["xw"] = fs2b(r["xweights"])

    # ----- LinearizedADMM
    def _build_ladmm(self):
        from scico.optimize import LinearizedADMM

        r, cx, xs = self.recipe, self.cplx, self.xshape
        C = op_scico(r["C"], xs, cx)
        Cm, zsh = op_model(r["C"], xs, cx)
        self.zshapes = zsh
        self.solver = LinearizedADMM(f=fn_scico(r["f"], xs, cx), g=fn_scico(r["g"], zsh, cx), C=C, mu=r["mu"],
                                     nu=r["nu"], x0=self._start("x0", xs), maxiter=1)
        self.p = {"f": fn_model(r["f"], xs, cx), "g": fn_model(r["g"], zsh, cx), "C": Cm, "mu": f2b(r["mu"]),
                  "nu": f2b(r["nu"])}

    # ----- ProximalADMM
    def _build_padmm(self):
        from scico.optimize import ProximalADMM

        r, cx, xs = self.recipe, self.cplx, self.xshape
        A = op_scico(r["A"], xs, cx)
        Am, ush = op_model(r["A"], xs, cx)
        self.ushape = ush
        if r.get("B") is None:
            B, Bm, zsh = None, None, ush
        else:
            zsh = tup(r["zshape"])
            B = op_scico(r["B"], zsh, cx)
            Bm, bo = op_model(r["B"], zsh, cx)
            if tup(bo) != tup(ush):
                raise Infra("padmm: B output shape")
        self.zshapes = zsh
        c = r.get("c")
        if c is None:
            cs, cm = None, None
        elif isinstance(c, (int, float)):
            cs = float(c)
            cm = fs2b(np.full(size_of(ush) * (2 if cx else 1), 0.0))
            v = np.zeros(size_of(ush) * (2 if cx else 1))
            v[0 :: (2 if cx else 1)] = float(c)
            cm = fs2b(v)
        else:
            cs, cm = unflat(c, ush, cx), fs2b(c)
        self.solver = ProximalADMM(f=fn_scico(r["f"], xs, cx), g=fn_scico(r["g"], zsh, cx), A=A, B=B, c=cs,
                                   rho=r["rho"], mu=r["mu"], nu=r["nu"], x0=self._start("x0", xs),
                                   z0=self._start("z0", zsh), u0=self._start("u0", ush),
                                   fast_dual_residual=r["fast"], maxiter=1)
        self.p = {"f": fn_model(r["f"], xs, cx), "g": fn_model(r["g"], zsh, cx), "A": Am, "B": Bm, "c": cm,
                  "rho": f2b(r["rho"]), "mu": f2b(r["mu"]), "nu": f2b(r["nu"]), "fast": bool(r["fast"])}

    # ----- NonLinearPADMM (real data)
    def _build_nlpadmm(self):
        from scico.optimize import NonLinearPADMM

        r, xs = self.recipe, self.xshape
        H = nl_function(r["H"])
        zsh = (len(r["H"]["B"][0]),)
        ush = (len(r["H"]["A"]),)
        self.zshapes, self.ushape = zsh, ush
        self.solver = NonLinearPADMM(f=fn_scico(r["f"], xs, False), g=fn_scico(r["g"], zsh, False), H=H,
                                     rho=r["rho"], mu=r["mu"], nu=r["nu"], x0=self._start("x0", xs),
                                     z0=self._start("z0", zsh), u0=self._start("u0", ush),
                                     fast_dual_residual=r["fast"], maxiter=1)
        h = r["H"]
        self.p = {"f": fn_model(r["f"], xs, False), "g": fn_model(r["g"], zsh, False),
                  "A": jmat(h["A"]), "B": jmat(h["B"]), "P": jmat(h["P"]), "Q": jmat(h["Q"]), "q": fs2b(h["q"]),
                  "c": fs2b(h["c"]), "rho": f2b(r["rho"]), "mu": f2b(r["mu"]), "nu": f2b(r["nu"]),
                  "fast": bool(r["fast"])}

    # ----- PDHG
    def _build_pdhg(self):
        from scico.optimize import PDHG

        r, cx, xs = self.recipe, self.cplx, self.xshape
        if r.get("nl") is not None:
            nl = r["nl"]
            C = nl_operator(nl, size_of(xs), cx)
            zsh = (len(nl["M"]),)
            Cm = {"M": jmat(realify_mat(_cm(nl, "M"), cx)), "q": fs2b(realify(_cm(nl, "q"), cx)),
                  "P": jmat(realify_mat(_cm(nl, "P"), cx)), "cplx": cx}
            linear = False
        else:
            C = op_scico(r["C"], xs, cx)
            Cm, zsh = op_model(r["C"], xs, cx)
            linear = True
        self.zshapes = zsh
        self.solver = PDHG(f=fn_scico(r["f"], xs, cx), g=fn_scico(r["g"], zsh, cx), C=C, tau=r["tau"],
                           sigma=r["sigma"], alpha=r["alpha"], x0=self._start("x0", xs), z0=self._start("z0", zsh),
                           maxiter=1)
        self.p = {"f": fn_model(r["f"], xs, cx), "g": fn_model(r["g"], zsh, cx), "C": Cm, "linear": linear,
                  "tau": f2b(r["tau"]), "sigma": f2b(r["sigma"]), "alpha": f2b(r["alpha"])}

    # ----- PGM / AcceleratedPGM
    def _build_pgm(self, cls=None):
        from scico.optimize import PGM

        cls = cls or PGM
        r, cx, xs = self.recipe, self.cplx, self.xshape
        self.policy = make_policy(r["pol"])
        if r.get("reuse") is not None and self.policy is not None:
            # helper-reuse history: the step-size object is first attached to another solver (different data, L0) and used
            import copy

            rr = copy.deepcopy(r)
            rr["f"]["y"] = r["reuse"]["y"]
            first = cls(f=fn_scico(rr["f"], xs, cx), g=fn_scico(r["g"], xs, cx), L0=r["reuse"]["L0"],
                        x0=unflat(r["x0"], xs, cx), step_size=self.policy, maxiter=1)
            first.step()
            first.step()
            self.first = first
        self.solver = cls(f=fn_scico(r["f"], xs, cx), g=fn_scico(r["g"], xs, cx), L0=r["L0"],
                          x0=unflat(r["x0"], xs, cx), step_size=self.policy, maxiter=1)
        if self.policy is None:
            self.policy = self.solver.step_size
        if r.get("decoy_L0") is not None:
            # history: a SECOND solver of the same class with another L0 and the default step-size object is constructed
            # after this one and stays alive while this one is stepped (solvers must not share step-size state)
            self.decoy = cls(f=fn_scico(r["f"], xs, cx), g=fn_scico(r["g"], xs, cx), L0=r["decoy_L0"],
                             x0=unflat(r["x0"], xs, cx), maxiter=1)
        if r["pol"].get("real", False) is True and r["pol"]["kind"] in ("lineSearch", "robust"):
            # the library's line searches (property C16) have no counterpart in this engine's model: real side only (C03)
            self.p = None
        elif real_bb(r):
            # the model runs its own transcription of BBStepSize / AdaptiveBBStepSize; their memory is part of the state
            self.p = {"f": fn_model(r["f"], xs, cx), "g": fn_model(r["g"], xs, cx), "kappa": f2b(r["pol"].get("kappa", 0.5))}
            self.model_alg = r["alg"] + ("-bb" if r["pol"]["kind"] == "bb" else "-abb")
        else:
            self.p = {"f": fn_model(r["f"], xs, cx), "g": fn_model(r["g"], xs, cx), "pol": policy_model(r["pol"])}

    def _build_apgm(self):
        from scico.optimize import AcceleratedPGM

        self._build_pgm(AcceleratedPGM)

    # ----- state ------------------------------------------------------------------------------
    def read(self):
        """public state of the real optimiser in the model's representation (python floats)"""
        s, cx, a = self.solver, self.cplx, self.alg
        F = lambda v: flat(v, cx)  # noqa: E731
        if a == "admm":
            return {"x": F(s.x), "z": [F(z) for z in s.z_list], "zold": [F(z) for z in s.z_list_old],
                    "u": [F(u) for u in s.u_list]}
        if a == "ladmm":
            return {"x": F(s.x), "z": F(s.z), "zold": F(s.z_old), "u": F(s.u)}
        if a in ("padmm", "nlpadmm"):
            return {"x": F(s.x), "z": F(s.z), "zold": F(s.z_old), "u": F(s.u), "uold": F(s.u_old)}
        if a == "pdhg":
            return {"x": F(s.x), "xold": F(s.x_old), "z": F(s.z), "zold": F(s.z_old)}
        mem = [0.0] if getattr(self.policy, "Z", None) is None else F(self.policy.Z)
        if real_bb(self.recipe):
            pl = self.policy
            mem = {"xp": None if pl.xprev is None else F(pl.xprev), "gp": None if pl.gradprev is None else F(pl.gradprev),
                   "l1": None if getattr(pl, "Lbb1prev", None) is None else float(pl.Lbb1prev),
                   "l2": None if getattr(pl, "Lbb2prev", None) is None else float(pl.Lbb2prev)}
        if a == "pgm":
            return {"x": F(s.x), "L": float(s.L), "fpr": float(s.fixed_point_residual), "mem": mem}
        if a == "apgm":
            return {"x": F(s.x), "v": F(s.v), "t": float(s.t), "L": float(s.L), "fpr": float(s.fixed_point_residual),
                    "mem": mem}
        raise Infra("alg")

    def write(self, st):
        """set the public state of the real optimiser from the model representation"""
        s, cx, a = self.solver, self.cplx, self.alg
        U = lambda v, sh: unflat(v, sh, cx)  # noqa: E731
        s.x = U(st["x"], self.xshape)
        if a == "admm":
            s.z_list = [U(z, sh) for z, sh in zip(st["z"], self.zshapes)]
            s.z_list_old = [U(z, sh) for z, sh in zip(st["zold"], self.zshapes)]
            s.u_list = [U(u, sh) for u, sh in zip(st["u"], self.zshapes)]
        elif a == "ladmm":
            s.z, s.z_old, s.u = U(st["z"], self.zshapes), U(st["zold"], self.zshapes), U(st["u"], self.zshapes)
        elif a in ("padmm", "nlpadmm"):
            s.z, s.z_old = U(st["z"], self.zshapes), U(st["zold"], self.zshapes)
            s.u, s.u_old = U(st["u"], self.ushape), U(st["uold"], self.ushape)
        elif a == "pdhg":
            s.x_old = U(st["xold"], self.xshape)
            s.z, s.z_old = U(st["z"], self.zshapes), U(st["zold"], self.zshapes)
        elif a in ("pgm", "apgm"):
            s.L = st["L"]
            s.fixed_point_residual = st["fpr"]
            if a == "apgm":
                s.v = U(st["v"], self.xshape)
                s.t = st["t"]
            if real_bb(self.recipe) and isinstance(st.get("mem"), dict):
                m, pl = st["mem"], self.policy
                pl.xprev = None if m["xp"] is None else U(m["xp"], self.xshape)
                pl.gradprev = None if m["gp"] is None else U(m["gp"], self.xshape)
                if hasattr(pl, "Lbb1prev"):
                    pl.Lbb1prev, pl.Lbb2prev = m["l1"], m["l2"]
        else:
            raise Infra("alg")


def real_bb(recipe):
    """PGM / AcceleratedPGM recipe that uses the library's own BBStepSize / AdaptiveBBStepSize"""
    pol = recipe.get("pol") or {}
    return pol.get("kind") in ("bb", "adaptiveBB") and pol.get("real", False) is True and "a" not in pol


def state_json(st):
    """python-float state -> wire format (bit patterns)"""
    out = {}
    for k, v in st.items():
        if isinstance(v, dict):  # memory of the real BB policies
            out[k] = {kk: (None if vv is None else (f2b(vv) if isinstance(vv, float) else fs2b(vv))) for kk, vv in v.items()}
        elif isinstance(v, float):
            out[k] = f2b(v)
        elif len(v) > 0 and isinstance(v[0], list):
            out[k] = [fs2b(b) for b in v]
        else:
            out[k] = fs2b(v)
    return out


def state_from_wire(st):
    out = {}
    for k, v in st.items():
        if isinstance(v, dict):
            out[k] = {kk: (None if vv is None else (common.b2f(vv) if isinstance(vv, int) else common.b2fs(vv))) for kk, vv in v.items()}
        elif isinstance(v, int):
            out[k] = common.b2f(v)
        elif len(v) > 0 and isinstance(v[0], list):
            out[k] = [common.b2fs(b) for b in v]
        else:
            out[k] = common.b2fs(v)
    return out


def _bc(m, ref):
    """broadcast a model scalar zero to the implementation's length"""
    if len(m) == 1 and len(ref) != 1:
        return list(m) * len(ref)
    return m


def state_scale(st):
    """largest magnitude of any finite entry of a state"""
    m = 0.0
    for v in st.values():
        if isinstance(v, dict):
            v = [x for vv in v.values() if vv is not None for x in (vv if isinstance(vv, list) else [vv])]
        if isinstance(v, float):
            vals = [v]
        elif len(v) > 0 and isinstance(v[0], list):
            vals = [x for b in v for x in b]
        else:
            vals = v
        for x in vals:
            if np.isfinite(x):
                m = max(m, abs(x))
    return m


def _vec_close(x, y, rtol, scale):
    x = np.asarray(x, dtype=np.float64).ravel()
    y = np.asarray(y, dtype=np.float64).ravel()
    if x.shape != y.shape:
        return False
    for a, b in zip(x.tolist(), y.tolist()):
        if np.isnan(a) or np.isnan(b):
            if not (np.isnan(a) and np.isnan(b)):
                return False
        elif np.isinf(a) or np.isinf(b):
            if a != b:
                return False
        elif abs(a - b) > rtol * max(1, x.size) * (1.0 + scale):
            return False
    return True


def states_close(a, b, rtol=1e-9, skip=()):
    """field-wise comparison; returns the name of the first differing field or None.  The absolute tolerance
    is rtol * n * (1 + S) with S the largest magnitude in the two states (entries of a state are computed from
    each other, so cancellation errors scale with S, not with the individual entry)."""
    scale = max(state_scale({k: v for k, v in a.items() if k not in skip}),
                state_scale({k: v for k, v in b.items() if k not in skip and k in a}))
    for k in a:
        if k in skip:
            continue
        va, vb = a[k], b.get(k)
        if vb is None:
            return k
        if isinstance(va, dict):
            if not isinstance(vb, dict):
                return k
            for kk, x in va.items():
                y = vb.get(kk)
                if (x is None) != (y is None):
                    return k + "." + kk
                if x is not None and not _vec_close(x if isinstance(x, list) else [x], y if isinstance(y, list) else [y],
                                                    rtol * (1 if isinstance(x, list) else 8), scale):
                    return k + "." + kk
            continue
        if isinstance(va, float):
            if not _vec_close([va], [vb], rtol * 8, scale):
                return k
        elif len(va) > 0 and isinstance(va[0], list):
            if len(va) != len(vb):
                return k
            for x, y in zip(va, vb):
                if not _vec_close(x, _bc(y, x), rtol, scale):
                    return k
        else:
            if not _vec_close(va, _bc(vb, va), rtol, scale):
                return k
    return None


# --------------------------------------------------------------------------------------------
# random recipes


def _pick(rng, xs):
    return xs[int(rng.integers(0, len(xs)))]


def gen_mat(rng, m, n, cplx, bits=2, scale=1.5):
    r = {"t": "mat", "M": dy(rng, (m, n), bits, scale).tolist()}
    if cplx:
        r["Mi"] = dy(rng, (m, n), bits, scale).tolist()
    return r


def gen_op(rng, xshape, cplx, allow_stack=True, kinds=None):
    """random linear operator recipe on inputs of shape xshape"""
    if is_block(xshape):
        return _pick(rng, [{"t": "id"}, {"t": "sid", "s": _pick(rng, [0.5, 2.0, -1.0])}])
    if len(xshape) == 2:
        return _pick(rng, [{"t": "id"}, {"t": "fd", "axes": None, "circular": True},
                           {"t": "fd", "axes": int(rng.integers(0, 2)), "circular": bool(rng.integers(0, 2))}])
    n = xshape[0]
    kinds = kinds or ["id", "mat", "fd", "sid", "diag"] + (["vstack"] if allow_stack else [])
    k = _pick(rng, kinds)
    if k == "id":
        return {"t": "id"}
    if k == "sid":
        return {"t": "sid", "s": _pick(rng, [0.5, 2.0, -1.0, 1.5])}
    if k == "diag":
        r = {"t": "diag", "d": dy(rng, (n,), 2, 2.0).tolist()}
        if cplx:
            r["di"] = dy(rng, (n,), 2, 2.0).tolist()
        return r
    if k == "mat":
        return gen_mat(rng, int(rng.integers(1, 5)), n, cplx)
    if k == "fd":
        mode = _pick(rng, ["plain", "circ", "app0"])
        if n < 2:
            mode = "circ"
        return {"t": "fd", "axes": 0, "circular": mode == "circ", "append": 0 if mode == "app0" else None}
    return {"t": "vstack", "ops": [gen_op(rng, xshape, cplx, False, ["id", "mat", "fd"]) for _ in range(2)]}


def gen_fn(rng, sh, cplx, kinds=None):
    kinds = list(kinds or ["l1", "sql2", "nonneg", "l2", "zero", "l21"])
    if cplx and "nonneg" in kinds:
        kinds.remove("nonneg")
    if "l21" in kinds and (is_block(sh) or len(sh) < 2):
        kinds.remove("l21")
    if "l2" in kinds and is_block(sh):
        kinds.remove("l2")
    k = _pick(rng, kinds)
    r = {"k": k}
    if k in ("l1", "l2", "sql2", "l21"):
        r["w"] = _pick(rng, [0.25, 0.5, 1.0, 2.0, 0.125])
    return r


def gen_loss(rng, xshape, cplx, A="any"):
    """weighted squared-l2 loss on x"""
    if A == "id" or is_block(xshape) or len(xshape) != 1:
        Arec, ysh = None, xshape
        if not is_block(xshape) and len(xshape) == 1 and rng.integers(0, 3) == 0:
            Arec = {"t": "diag", "d": (dy(rng, xshape, 2, 2.0)).tolist()}
            if cplx:
                Arec["di"] = dy(rng, xshape, 2, 2.0).tolist()
    else:
        Arec = gen_op(rng, xshape, cplx, False, ["mat", "id", "diag"])
        _, ysh = op_dense(Arec, xshape)
        if Arec["t"] == "id":
            Arec = None
    r = {"k": "sqloss", "s": _pick(rng, [0.5, 0.5, 1.0, 2.0, 0.25]), "A": Arec, "yshape": [list(s) for s in ysh] if is_block(ysh) else list(ysh),
         "y": rand_value(rng, ysh, cplx)}
    if rng.integers(0, 3) == 0:
        r["W"] = (np.abs(dy(rng, (size_of(ysh),), 2, 2.0)) + (0.0 if rng.integers(0, 3) == 0 else 0.25)).tolist()
    if rng.integers(0, 3) == 0:
        r["resc"] = _pick(rng, [["/", 2.0], ["/", 3.0], ["/", 0.5], ["l*", 2.0], ["r*", 4.0], ["l*", 0.5]])
    return r


def gen_xshape(rng, allow_block=True, allow_2d=True):
    c = rng.integers(0, 10)
    if c < 6 or (not allow_block and not allow_2d):
        return [int(rng.integers(2, 6))]
    if c < 8 and allow_2d:
        return [int(rng.integers(2, 4)), int(rng.integers(2, 4))]
    if allow_block:
        return [[int(rng.integers(1, 4))], [int(rng.integers(1, 4))]]
    return [int(rng.integers(2, 6))]


def gen_recipe(rng, alg, edge=False):
    cplx = bool(rng.integers(0, 10) < 3) and alg != "nlpadmm"
    gen = globals()["_gen_" + alg]
    return gen(rng, cplx, edge)


def _maybe(rng, v, p_none=0.3):
    return None if rng.random() < p_none else v


def _gen_admm(rng, cplx, edge):
    xs = gen_xshape(rng)
    N = int(rng.integers(1, 4))
    solver = _pick(rng, ["linear", "matrix", "matrix", "linear-jax", "circ", "generic"])
    if is_block(xs) or (len(xs) == 2 and solver != "circ"):
        solver = "linear"
    if solver == "generic":
        return _gen_admm_generic(rng, xs, cplx, edge)
    if rng.integers(0, 8) == 0:
        return _gen_admm_block(rng, _pick(rng, ["fblock", "g0block"]), edge)
    Cs = []
    # MatrixSubproblemSolver: all-MatrixOperator, all-diagonal (Identity / ScaledIdentity / Diagonal) and - legal since
    # 35adc7f - MIXED diagonal / matrix constraint lists (f=None and a Diagonal f.A work since de41369)
    mkinds = _pick(rng, [["mat"], ["id", "diag", "sid"], ["mat", "diag", "id", "sid"], ["mat", "diag", "id", "sid"]])
    for i in range(N):
        if solver == "matrix":
            Cs.append(gen_op(rng, xs, cplx, False, mkinds))
            if mkinds[0] == "mat" and len(mkinds) > 1 and i == 1 and N >= 2:
                # force a genuine mixture: constraint 0 and 1 of different kinds
                k0 = "mat" if Cs[0]["t"] == "mat" else "dg"
                want = ["diag", "id", "sid"] if k0 == "mat" else ["mat"]
                Cs[1] = gen_op(rng, xs, cplx, False, want)
        elif solver == "circ":
            # CircularConvolveSolver: shift-invariant constraints only
            Cs.append(_pick(rng, [{"t": "id"}, {"t": "sid", "s": _pick(rng, [0.5, 2.0, -1.0])},
                                  {"t": "fd", "axes": 0 if len(xs) == 1 else None, "circular": True, "append": None}]))
        else:
            Cs.append(gen_op(rng, xs, cplx))
    # make the x-update well posed: an identity-like constraint or a loss with identity forward operator
    if solver == "matrix":
        c = rng.integers(0, 4)
        if c == 0:
            f = None
        else:
            if c == 1:
                Arec = {"t": "diag", "d": (np.abs(dy(rng, (xs[0],), 2, 2.0)) + 0.25).tolist()}
                if cplx:
                    Arec["di"] = dy(rng, (xs[0],), 2, 2.0).tolist()
                m = xs[0]
            else:
                m = int(rng.integers(1, 5))
                Arec = gen_mat(rng, m, xs[0], cplx)
            f = {"k": "sqloss", "s": _pick(rng, [0.5, 1.0, 2.0]), "A": Arec, "yshape": [m], "y": rand_value(rng, (m,), cplx)}
            if rng.integers(0, 3) == 0:
                f["W"] = (np.abs(dy(rng, (m,), 2, 2.0)) + 0.25).tolist()
            if rng.integers(0, 3) == 0:
                f["resc"] = _pick(rng, [["/", 2.0], ["/", 3.0], ["l*", 2.0], ["r*", 0.5]])
    elif solver == "circ":
        f = _maybe(rng, {"k": "sqloss", "s": _pick(rng, [0.5, 1.0, 2.0, 0.25]), "A": None, "yshape": list(xs),
                         "y": rand_value(rng, xs, cplx)}, 0.3)
    else:
        f = _maybe(rng, gen_loss(rng, xs, cplx, A="id"), 0.35)
    wellposed = (f is not None and (f.get("A") is None or (f["A"]["t"] == "diag" and all(abs(d) == 1.0 for d in f["A"]["d"]))) and (f.get("W") is None or min(f["W"]) > 0))
    if solver == "matrix" and mkinds == ["mat"]:
        if not wellposed:
            eye = {"t": "mat", "M": np.eye(xs[0]).tolist()}
            if cplx:
                eye["Mi"] = np.zeros((xs[0], xs[0])).tolist()
            Cs[int(rng.integers(0, N))] = eye
    elif not wellposed and not any(c["t"] in ("id", "sid") for c in Cs):
        Cs[int(rng.integers(0, N))] = {"t": "id"}
    gs = []
    for c in Cs:
        _, osh = op_dense(c, xs)
        gs.append(gen_fn(rng, osh, cplx))
    alpha = _pick(rng, [1.0, 1.0, 1.5, 1.75, 0.5, 1.0 + 2.0**-52, 1.25])
    if edge:
        alpha = _pick(rng, [1.0, 2.0, 0.0, 1.0 - 2.0**-53, 1.0 + 2.0**-52])
    r = {"alg": "admm", "cplx": cplx, "xshape": xs, "C": Cs, "g": gs, "f": f,
         "rho": [_pick(rng, [0.5, 1.0, 2.0, 0.25, 4.0]) for _ in range(N)], "alpha": alpha, "solver": solver,
         "x0": _maybe(rng, rand_value(rng, xs, cplx), 0.2)}
    if f is not None and rng.integers(0, 3) == 0:
        # helper-reuse history: the sub-problem solver object has served another problem (other data / scale) before
        r["reuse"] = {"y": rand_value(rng, tup(f["yshape"]), cplx), "s": _pick(rng, [0.5, 1.0, 2.0, 0.25])}
    return r


def _gen_admm_block(rng, kind, edge):
    """ADMM with the DFT-domain block solvers: FBlockCircularConvolveSolver (f = omega ||A x - y||^2, A = Sum o CircularConvolve)
    and G0BlockCircularConvolveSolver (f = 0, g_1 = omega ||. - y||^2, C_1 = A); x has shape (K, n), the other C_i are identities"""
    K, n = int(rng.integers(2, 4)), int(rng.integers(3, 6))
    xs = [K, n]
    A = {"t": "sumconv", "h": dy(rng, (K, int(rng.integers(2, 4))), 2, 1.5).tolist()}
    om = _pick(rng, [0.5, 0.5, 1.0, 2.0])
    rho1 = _pick(rng, [0.4, 1.0, 2.5, 0.5])
    loss = {"k": "sqloss", "s": om, "A": None, "yshape": [n], "y": rand_value(rng, [n], False)}
    Nid = int(rng.integers(1, 3))
    ids = [_pick(rng, [{"t": "id"}, {"t": "id"}, {"t": "sid", "s": _pick(rng, [0.5, 2.0, -1.0])}]) for _ in range(Nid)]
    ids[0] = {"t": "id"}
    gid = [gen_fn(rng, xs, False, ["l1", "sql2", "nonneg", "zero", "l21"]) for _ in ids]
    alpha = _pick(rng, [1.0, 1.0, 1.5, 0.5]) if not edge else _pick(rng, [1.0, 2.0, 0.0])
    r = {"alg": "admm", "cplx": False, "xshape": xs, "alpha": alpha, "solver": kind, "x0": _maybe(rng, rand_value(rng, xs, False), 0.3)}
    if kind == "fblock":
        r.update({"f": dict(loss, A=A), "C": ids, "g": gid, "rho": [rho1] + [_pick(rng, [0.5, 1.0, 2.0]) for _ in ids[1:]]})
    else:
        r.update({"f": None, "C": [A] + ids, "g": [loss] + gid, "rho": [rho1] + [_pick(rng, [0.5, 1.0, 2.0]) for _ in ids],
                  "xweights": [2.0 * om] + [1.0] * len(ids)})
    if rng.integers(0, 2):
        r["reuse"] = {"y": rand_value(rng, [n], False), "s": _pick(rng, [0.5, 1.0, 2.0])}
    return r


def _gen_admm_generic(rng, xs, cplx, edge):
    """ADMM with the default GenericSubproblemSolver (numerical minimisation of the x-sub-problem), including the empty
    constraint list N = 0, where step() is just the minimisation of f"""
    N = int(rng.integers(0, 3))
    Cs = [gen_op(rng, xs, cplx, False, ["id", "mat", "fd", "sid", "diag"]) for _ in range(N)]
    f = {"k": "sqloss", "s": _pick(rng, [0.5, 1.0, 2.0]), "A": None, "yshape": list(xs), "y": rand_value(rng, xs, cplx)}
    gs = [gen_fn(rng, op_dense(c, xs)[1], cplx) for c in Cs]
    alpha = _pick(rng, [1.0, 1.5, 0.5]) if not edge else _pick(rng, [1.0, 2.0, 0.0])
    return {"alg": "admm", "cplx": cplx, "xshape": xs, "C": Cs, "g": gs, "f": f,
            "rho": [_pick(rng, [0.5, 1.0, 2.0]) for _ in range(N)], "alpha": alpha, "solver": "generic",
            "x0": rand_value(rng, xs, cplx)}


def _opnorm2(rec, sh):
    M, _ = op_dense(rec, sh)
    return float(np.linalg.norm(M, 2) ** 2)


def _gen_ladmm(rng, cplx, edge):
    xs = gen_xshape(rng)
    C = gen_op(rng, xs, cplx)
    _, zsh = op_dense(C, xs)
    f = gen_loss(rng, xs, cplx) if rng.integers(0, 4) else gen_fn(rng, xs, cplx, ["l1", "sql2", "nonneg", "zero"])
    nu = _pick(rng, [1.0, 2.0, 0.5, 4.0])
    c2 = max(_opnorm2(C, xs), 1e-3)
    mu = _pick(rng, [0.5, 0.9, 0.25]) * nu / c2
    if edge:
        mu = _pick(rng, [nu / c2, 2.0 * nu / c2, nu])
    mu = float(np.round(mu * 256) / 256) or 1.0 / 256
    return {"alg": "ladmm", "cplx": cplx, "xshape": xs, "C": C, "f": f, "g": gen_fn(rng, zsh, cplx), "mu": mu, "nu": nu,
            "x0": _maybe(rng, rand_value(rng, xs, cplx), 0.2)}


def _gen_padmm(rng, cplx, edge):
    xs = gen_xshape(rng, allow_2d=False)
    A = gen_op(rng, xs, cplx, allow_stack=False)
    _, ush = op_dense(A, xs)
    r = {"alg": "padmm", "cplx": cplx, "xshape": xs, "A": A}
    if rng.integers(0, 2) or is_block(ush) or len(ush) != 1:
        r["B"], zsh = None, ush
    else:
        zn = int(rng.integers(1, 5))
        zsh = (zn,)
        r["B"] = _pick(rng, [gen_mat(rng, ush[0], zn, cplx), gen_mat(rng, ush[0], zn, cplx)])
        if rng.integers(0, 3) == 0:
            zsh = ush
            r["B"] = _pick(rng, [{"t": "sid", "s": -1.0}, {"t": "sid", "s": 2.0}, {"t": "id"}])
        r["zshape"] = list(zsh)
    cc = rng.integers(0, 4)
    r["c"] = None if cc == 0 else (_pick(rng, [0.5, -1.0, 0.0]) if cc == 1 and not cplx and not is_block(ush) else rand_value(rng, ush, cplx))
    a2 = max(_opnorm2(A, xs), 1e-3)
    b2 = 1.0 if r["B"] is None else max(_opnorm2(r["B"], zsh), 1e-3)
    fac = _pick(rng, [1.01, 1.5, 2.0]) if not edge else _pick(rng, [1.0, 0.5])
    q = lambda v: float(np.ceil(v * 64) / 64) if not edge else float(v)  # noqa: E731
    r.update({"f": gen_loss(rng, xs, cplx, "id") if rng.integers(0, 3) else gen_fn(rng, xs, cplx, ["l1", "sql2", "nonneg", "zero"]),
              "g": gen_fn(rng, zsh, cplx), "rho": _pick(rng, [0.5, 1.0, 2.0, 0.25]), "mu": q(fac * a2), "nu": q(fac * b2),
              "fast": bool(rng.integers(0, 2)), "x0": _maybe(rng, rand_value(rng, xs, cplx)),
              "z0": _maybe(rng, rand_value(rng, zsh, cplx)), "u0": _maybe(rng, rand_value(rng, ush, cplx))})
    return r


def _gen_nlpadmm(rng, cplx, edge):
    n, m, p = int(rng.integers(2, 5)), int(rng.integers(2, 5)), int(rng.integers(2, 5))
    lin = rng.integers(0, 4) == 0
    H = {"A": dy(rng, (p, n), 2, 1.5).tolist(), "B": dy(rng, (p, m), 2, 1.5).tolist(),
         "P": dy(rng, (p, n), 2, 1.0).tolist(), "Q": dy(rng, (p, m), 2, 1.0).tolist(),
         "q": (np.zeros(p) if lin else dy(rng, (p,), 2, 1.0)).tolist(), "c": dy(rng, (p,), 2, 1.0).tolist()}
    xs = [n]
    return {"alg": "nlpadmm", "cplx": False, "xshape": xs, "H": H,
            "f": gen_loss(rng, xs, False, "id") if rng.integers(0, 3) else gen_fn(rng, xs, False, ["l1", "sql2", "nonneg"]),
            "g": gen_fn(rng, (m,), False), "rho": _pick(rng, [0.5, 1.0, 2.0]), "mu": _pick(rng, [4.0, 8.0, 16.0, 2.0]),
            "nu": _pick(rng, [4.0, 8.0, 16.0, 2.0]), "fast": bool(rng.integers(0, 2)),
            "x0": _maybe(rng, rand_value(rng, xs, False, 2, 1.0)), "z0": _maybe(rng, rand_value(rng, (m,), False, 2, 1.0)),
            "u0": _maybe(rng, rand_value(rng, (p,), False, 2, 1.0))}


def _gen_pdhg(rng, cplx, edge):
    nl = rng.integers(0, 3) == 0
    if nl:
        cplx = bool(rng.integers(0, 2))  # the conjugation of the Jacobian product matters only for complex data
        n, m = int(rng.integers(2, 5)), int(rng.integers(2, 5))
        xs = [n]
        rec = {"M": dy(rng, (m, n), 2, 1.5).tolist(), "P": dy(rng, (m, n), 2, 1.0).tolist(), "q": dy(rng, (m,), 2, 1.0).tolist()}
        if cplx:
            rec.update({"Mi": dy(rng, (m, n), 2, 1.5).tolist(), "Pi": dy(rng, (m, n), 2, 1.0).tolist(),
                        "qi": dy(rng, (m,), 2, 1.0).tolist()})
        zsh = (m,)
        c2 = max(float(np.linalg.norm(_cm(rec, "M"), 2) ** 2), 0.25) * 4
        C = None
    else:
        xs = gen_xshape(rng)
        C = gen_op(rng, xs, cplx)
        _, zsh = op_dense(C, xs)
        c2 = max(_opnorm2(C, xs), 1e-3)
        rec = None
    tau = _pick(rng, [0.5, 0.25, 1.0])
    sigma = _pick(rng, [0.9, 0.5, 0.99]) / (tau * c2)
    if edge:
        sigma = _pick(rng, [1.0, 2.0]) / (tau * c2)
    sigma = float(np.floor(sigma * 256) / 256) or 1.0 / 256
    alpha = _pick(rng, [1.0, 1.0, 0.0, 0.5, 0.75]) if not edge else _pick(rng, [0.0, 1.0, 1.5])
    return {"alg": "pdhg", "cplx": cplx, "xshape": xs, "C": C, "nl": rec,
            "f": gen_loss(rng, xs, cplx, "id") if rng.integers(0, 3) else gen_fn(rng, xs, cplx, ["l1", "sql2", "nonneg", "zero"]),
            "g": gen_fn(rng, zsh, cplx), "tau": tau, "sigma": sigma, "alpha": alpha,
            "x0": _maybe(rng, rand_value(rng, xs, cplx)), "z0": _maybe(rng, rand_value(rng, zsh, cplx))}


def _gen_policy(rng, accel):
    c = rng.integers(0, 10)
    if c < 4:
        return {"kind": "base", "real": True}
    kinds = ["base", "bb", "adaptiveBB", "lineSearch"] + (["robust"] if accel else [])
    return {"kind": _pick(rng, kinds), "real": False, "a": _pick(rng, [1.0, 0.5, 0.0]), "b": _pick(rng, [0.0625, 0.125, 0.25]),
            "c": _pick(rng, [0.5, 1.0, 2.0]), "zc": _pick(rng, [1.0, 0.5, 0.75]), "zd": _pick(rng, [0.0, 0.25, 0.5])}


def _gen_pgm_bb(rng, alg):
    """PGM / AcceleratedPGM with the library's own BBStepSize / AdaptiveBBStepSize; half of the cases on a smooth NON-convex
    double well started in its concave region, where dx.dg <= 0 and the BB value is rejected (history: the memory must still be
    refreshed, so that later differences are between consecutive iterates)"""
    n = int(rng.integers(2, 5))
    kind = _pick(rng, ["bb", "bb", "adaptiveBB"])
    pol = {"kind": kind, "real": True}
    if kind == "adaptiveBB":
        pol["kappa"] = _pick(rng, [0.5, 0.25, 0.75])
    if rng.integers(0, 2):
        f = {"k": "dwell", "a": _pick(rng, [1.0, 2.0]), "b": _pick(rng, [1.0, 2.0]), "c": dy(rng, (n,), 3, 0.25).tolist()}
        x0 = dy(rng, (n,), 3, 0.5).tolist()
        L0 = _pick(rng, [4.0, 8.0, 2.0])
        cplx = False
    else:
        cplx = bool(rng.integers(0, 3) == 0)
        f = gen_loss(rng, [n], cplx)
        L = 2.0 * f["s"] * (1.0 if f["A"] is None else max(_opnorm2(f["A"], [n]), 1e-3)) * (1.0 if f.get("W") is None else max(max(f["W"]), 1e-3))
        L0 = max(float(np.ceil(L * 64) / 64), 1.0 / 64)
        x0 = rand_value(rng, [n], cplx)
    return {"alg": alg, "cplx": cplx, "xshape": [n], "f": f, "g": gen_fn(rng, [n], cplx, ["l1", "sql2", "zero"] + ([] if cplx else ["nonneg"])),
            "L0": L0, "x0": x0, "pol": pol}


def _gen_pgm(rng, cplx, edge, alg="pgm"):
    if rng.integers(0, 3) == 0:
        return _gen_pgm_bb(rng, alg)
    xs = gen_xshape(rng, allow_2d=False)
    f = gen_loss(rng, xs, cplx)
    L = 2.0 * f["s"] * (1.0 if f["A"] is None else max(_opnorm2(f["A"], xs), 1e-3)) * (1.0 if f.get("W") is None else max(max(f["W"]), 1e-3))
    fac = _pick(rng, [1.0, 1.5, 2.0]) if not edge else _pick(rng, [1.0, 0.5, 0.75])
    L0 = float(np.ceil(fac * L * 64) / 64) if not edge else float(fac * L)
    r = {"alg": alg, "cplx": cplx, "xshape": xs, "f": f, "g": gen_fn(rng, xs, cplx, ["l1", "sql2", "nonneg", "l2", "zero"]),
         "L0": max(L0, 1.0 / 64), "x0": rand_value(rng, xs, cplx), "pol": _gen_policy(rng, alg == "apgm")}
    if r["pol"]["kind"] == "base" and r["pol"].get("real", True) and rng.integers(0, 2):
        r["decoy_L0"] = r["L0"] * _pick(rng, [2.0, 0.5, 4.0])
    elif not (r["pol"]["kind"] == "base" and r["pol"].get("real", True)) and rng.integers(0, 3) == 0:
        r["reuse"] = {"y": rand_value(rng, tup(f["yshape"]), cplx), "L0": r["L0"] * _pick(rng, [2.0, 0.5])}
    return r


def _gen_apgm(rng, cplx, edge):
    return _gen_pgm(rng, cplx, edge, "apgm")


def gen_exact(rng, alg):
    """EXACT-ARITHMETIC stream: small-integer / dyadic data and power-of-two parameters chosen so that every operation of
    the first steps (matrix products, soft thresholds, clipping, scalings) is exact in binary64 on both sides - the states
    are then compared bit for bit (no tolerance).  Classes: ladmm, padmm, pdhg (linear C), pgm (base step size), admm
    (LinearSubproblemSolver / MatrixSubproblemSolver on identity-like constraints); 1-d, 2-d and block variables."""
    n = int(rng.integers(2, 5))
    xs = [n]
    dy3 = lambda sh: (rng.integers(-8, 9, size=sh) / 4.0).tolist()  # noqa: E731
    p2 = lambda ks: float(2.0 ** int(_pick(rng, ks)))  # noqa: E731
    fn = lambda: _pick(rng, [{"k": "l1", "w": _pick(rng, [0.5, 1.0, 2.0, 0.25])}, {"k": "nonneg"}, {"k": "zero"}])  # noqa: E731
    shaped = int(rng.integers(0, 3)) if alg in ("ladmm", "pdhg", "admm") else 0
    if shaped == 1:
        xs = [int(rng.integers(2, 4)), int(rng.integers(2, 4))]  # 2-d variable
    elif shaped == 2:
        xs = [[int(rng.integers(1, 4))], [int(rng.integers(1, 4))]]  # block variable
    if shaped and alg in ("ladmm", "pdhg"):
        # 2-d / block variables: identity-like and (2-d) circular finite-difference operators - integer matrices on the flat vector
        ops = [{"t": "id"}, {"t": "sid", "s": _pick(rng, [2.0, -1.0, 0.5])}]
        if shaped == 1:
            ops += [{"t": "fd", "axes": int(rng.integers(0, 2)), "circular": True, "append": None}, {"t": "fd", "axes": None, "circular": True}]
        C = _pick(rng, ops)
        _, zsh = op_dense(C, xs)
        nx = size_of(xs)
        if alg == "ladmm":
            return {"alg": "ladmm", "cplx": False, "xshape": xs, "C": C, "f": fn(), "g": fn(), "mu": p2([-3, -2, -4]), "nu": p2([0, 1, -1]),
                    "x0": dy3((nx,)), "exact": True}
        return {"alg": "pdhg", "cplx": False, "xshape": xs, "C": C, "nl": None, "f": fn(), "g": fn(), "tau": p2([-2, -3, -1]),
                "sigma": p2([-2, -3, -1]), "alpha": _pick(rng, [1.0, 0.0, 0.5]), "x0": dy3((nx,)), "z0": dy3((size_of(zsh),)),
                "exact": True}
    if alg == "admm":
        # x-step (2s I + sum_i rho_i s_i^2 I) x = rhs with a POWER-OF-TWO total T: the library's conjugate-gradient solver reaches
        # the exact solution in one iteration (alpha = num / (T num) = 1/T, residual exactly 0) and the Cholesky solve of
        # MatrixSubproblemSolver is exact for T a power of four; every constraint is the identity or a power-of-two multiple
        for _ in range(50):
            T = p2([-1, 0, 1, 2])
            withf = bool(rng.integers(0, 2))
            N = int(rng.integers(1, 4))
            k = N + (1 if withf else 0)
            parts = {1: [T], 2: [T / 2, T / 2], 3: [T / 2, T / 4, T / 4], 4: [T / 4] * 4}[k]
            parts = [parts[i] for i in rng.permutation(k)]
            if withf and parts[0] not in (0.5, 1.0, 2.0):
                continue
            break
        else:
            raise Infra("exact ADMM recipe")
        f = None
        if withf:
            f = {"k": "sqloss", "s": parts[0] / 2.0, "A": None, "yshape": [list(s_) for s_ in xs] if is_block(xs) else list(xs),
                 "y": dy3((size_of(xs),))}
            parts = parts[1:]
        Cs, rho = [], []
        for c in parts:
            sc = _pick(rng, [1.0, 1.0, 2.0, 0.5, -1.0])
            Cs.append({"t": "id"} if sc == 1.0 else {"t": "sid", "s": sc})
            rho.append(c / (sc * sc))
        solver = "matrix" if (shaped == 0 and T in (0.25, 1.0, 4.0) and rng.integers(0, 2)) else "linear"
        return {"alg": "admm", "cplx": False, "xshape": xs, "C": Cs, "g": [fn() for _ in Cs], "f": f, "rho": rho,
                "alpha": _pick(rng, [1.0, 1.0, 0.5, 1.5]), "solver": solver, "x0": dy3((size_of(xs),)), "exact": True}
    imat = lambda m_, n_: {"t": "mat", "M": rng.integers(-2, 3, size=(m_, n_)).astype(float).tolist()}  # noqa: E731
    op = lambda: _pick(rng, [imat(int(rng.integers(1, 4)), n), {"t": "id"}, {"t": "fd", "axes": 0, "circular": True, "append": None},  # noqa: E731
                             {"t": "sid", "s": _pick(rng, [2.0, -1.0, 0.5])}])
    fn = lambda: _pick(rng, [{"k": "l1", "w": _pick(rng, [0.5, 1.0, 2.0, 0.25])}, {"k": "nonneg"}, {"k": "zero"}])  # noqa: E731
    dy3 = lambda sh: (rng.integers(-8, 9, size=sh) / 4.0).tolist()  # noqa: E731
    p2 = lambda ks: float(2.0 ** int(_pick(rng, ks)))  # noqa: E731
    if alg == "ladmm":
        C = op()
        return {"alg": "ladmm", "cplx": False, "xshape": xs, "C": C, "f": fn(), "g": fn(), "mu": p2([-3, -2, -4]), "nu": p2([0, 1, -1]),
                "x0": dy3((n,)), "exact": True}
    if alg == "padmm":
        A = op()
        _, ush = op_dense(A, xs)
        r = {"alg": "padmm", "cplx": False, "xshape": xs, "A": A, "B": None, "c": None, "exact": True}
        zsh = ush
        if len(ush) == 1 and rng.integers(0, 2):
            zn = int(rng.integers(1, 4))
            r["B"], r["zshape"], zsh = imat(ush[0], zn), [zn], (zn,)
            r["c"] = dy3((ush[0],))
        r.update({"f": fn(), "g": fn(), "rho": p2([0, 1, -1]), "mu": p2([2, 3, 4]), "nu": p2([2, 3, 4]), "fast": True,
                  "x0": dy3((n,)), "z0": dy3((size_of(zsh),)), "u0": dy3((size_of(ush),))})
        return r
    if alg == "pdhg":
        C = op()
        _, zsh = op_dense(C, xs)
        # conj_prox(v, s) = v - s prox(v/s, 1/s): exact for these functionals and power-of-two s
        return {"alg": "pdhg", "cplx": False, "xshape": xs, "C": C, "nl": None, "f": fn(), "g": fn(), "tau": p2([-2, -3, -1]),
                "sigma": p2([-2, -3, -1]), "alpha": _pick(rng, [1.0, 0.0, 0.5]), "x0": dy3((n,)), "z0": dy3((size_of(zsh),)),
                "exact": True}
    if alg == "pgm":
        A = _pick(rng, [imat(int(rng.integers(1, 4)), n), None])
        m = n if A is None else len(A["M"])
        f = {"k": "sqloss", "s": _pick(rng, [0.5, 1.0]), "A": A, "yshape": [m], "y": dy3((m,))}
        if rng.integers(0, 2):
            f["resc"] = _pick(rng, [["/", 2.0], ["l*", 2.0], ["r*", 0.5], ["/", 0.25]])
        return {"alg": "pgm", "cplx": False, "xshape": xs, "f": f, "g": fn(), "L0": p2([3, 4, 5]), "x0": dy3((n,)),
                "pol": {"kind": "base", "real": True}, "exact": True}
    raise Infra("exact stream: " + alg)


def raised_in_library(e):
    """does the traceback of exception `e` pass through the library under test (as opposed to the harness itself)?"""
    import traceback

    repo = str(common.REPO)
    return any(fr.filename.startswith(repo) for fr in traceback.extract_tb(e.__traceback__))


def run_f32_worker(cases):
    """run harness/steps_f32_worker.py (a process WITHOUT jax_enable_x64) on [{"recipe", "pre"}]; returns its result records"""
    import json
    import os
    import subprocess
    import sys

    env = {k: v for k, v in os.environ.items() if k != "JAX_ENABLE_X64"}
    p = subprocess.run([sys.executable, str(common.VERIF / "harness" / "steps_f32_worker.py")],
                       input=json.dumps({"repo": str(common.REPO), "cases": cases}), capture_output=True, text=True, env=env)
    if p.returncode != 0:
        raise Infra("default-precision worker failed: " + p.stderr[-800:])
    return json.loads(p.stdout)["results"]


EXACT_ALGS = ["admm", "ladmm", "padmm", "pdhg", "pgm"]
ALGS = ["admm", "ladmm", "padmm", "nlpadmm", "pdhg", "pgm", "apgm"]


def describe(recipe):
    """short key identifying the configuration class of a recipe (for distinct / histogram counting)"""
    a = recipe["alg"]
    xs = recipe["xshape"]
    shape = "block" if is_block(xs) else f"{len(xs)}d"
    parts = [a, "c128" if recipe.get("cplx") else "f64", shape]
    if recipe.get("reuse") is not None:
        parts.append("helper-reused")
    if a == "admm":
        parts += ["N%d" % len(recipe["C"]), recipe["solver"], "f=" + ("none" if recipe["f"] is None else "loss"),
                  "ops=" + "+".join(sorted({c["t"] for c in recipe["C"]})), "g=" + "+".join(sorted({g["k"] for g in recipe["g"]})),
                  "alpha=%g" % recipe["alpha"]]
    elif a in ("ladmm",):
        parts += ["C=" + recipe["C"]["t"], "f=" + recipe["f"]["k"], "g=" + recipe["g"]["k"]]
    elif a == "padmm":
        parts += ["A=" + recipe["A"]["t"], "B=" + ("none" if recipe["B"] is None else recipe["B"]["t"]),
                  "c=" + ("none" if recipe["c"] is None else ("scalar" if isinstance(recipe["c"], float) else "array")),
                  "f=" + recipe["f"]["k"], "g=" + recipe["g"]["k"], "fast=%s" % recipe["fast"]]
    elif a == "nlpadmm":
        parts += ["lin" if not any(recipe["H"]["q"]) else "nonlin", "f=" + recipe["f"]["k"], "g=" + recipe["g"]["k"],
                  "fast=%s" % recipe["fast"]]
    elif a == "pdhg":
        parts += ["C=" + ("nonlinear" if recipe["nl"] is not None else recipe["C"]["t"]), "f=" + recipe["f"]["k"],
                  "g=" + recipe["g"]["k"], "alpha=%g" % recipe["alpha"]]
    else:
        if recipe.get("decoy_L0") is not None:
            parts.append("second-solver-alive")
        parts += [("f=double-well" if recipe["f"]["k"] == "dwell" else "A=" + ("id" if recipe["f"]["A"] is None else recipe["f"]["A"]["t"])),
                  "g=" + recipe["g"]["k"],
                  "pol=" + recipe["pol"]["kind"] + ("-real" if real_bb(recipe) else ("" if recipe["pol"].get("real", True) else "-spy"))]
    return " ".join(parts)
