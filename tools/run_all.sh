#!/bin/bash
# run_all.sh <tier> <seed> [props...] : run the registered checks one after the other on the current /repo tree
cd "$(dirname "$0")/.." || exit 2
tier=${1:-quick}; seed=${2:-0}; shift 2
props=${@:-C01 C02 C03 C04 C05 C06 C07 C08 C09 C10 C11 C12 C13 C14 C15 C16 C17 C18 C19 C20}
for p in $props; do
  t0=$(date +%s)
  out=$(VERIF_SEED=$seed ./check $p $tier 2>&1); rc=$?
  echo "$p rc=$rc $(( $(date +%s) - t0 ))s $(echo "$out" | grep -c '^VIOLATION') violations | $(echo "$out" | tail -1 | cut -c1-160)"
  [ $rc -ne 0 ] && echo "$out" | grep -E "^VIOLATION|INFRA" | head -5
done
