"""Regenerates MANIFEST.json from the adapters' metadata (harness/cNN.py):
CLAIMED (bool), LEVEL_TEXT, LEVEL_NOTE, TECHNIQUE, DESIGN_REF, ENGINE.  Properties without a claimed adapter
are listed under not_applicable with the reason in NOT_CLAIMED below."""
import ast, json, sys
from pathlib import Path

V = Path(__file__).resolve().parent.parent
props = [json.loads(l)["id"] for l in (V / "properties.jsonl").read_text().splitlines() if l.strip()]
NOT_CLAIMED = {}
nc = V / "tools" / "not_claimed.json"
if nc.exists():
    NOT_CLAIMED = json.loads(nc.read_text())


def meta(p):
    f = V / "harness" / f"{p.lower()}.py"
    if not f.exists():
        return None
    d = {}
    for node in ast.parse(f.read_text()).body:
        if isinstance(node, ast.Assign) and len(node.targets) == 1 and isinstance(node.targets[0], ast.Name):
            try:
                d[node.targets[0].id] = ast.literal_eval(node.value)
            except Exception:
                pass
    return d


checks, na, engines = [], [], {}
for p in props:
    m = meta(p)
    if not m or not m.get("CLAIMED"):
        na.append({"property_id": p, "reason": NOT_CLAIMED.get(p, "check not yet built in this session; no claim is made (Lean proof + correspondence planned in DESIGN.md)")})
        continue
    eng = m.get("ENGINE", m.get("DRIVER") or "lean")
    engines.setdefault(eng, []).append(p)
    checks.append({
        "property_id": p,
        "quick_cmd": f"./check {p} quick",
        "thorough_cmd": f"./check {p} thorough",
        "evidence_file": f"evidence/{p}.json",
        "replay_cmd_template": f"./check {p} quick --replay {{path}}",
        "engine": eng,
        "level_claimed": {"category": "proof", "text": m.get("LEVEL_TEXT", ""), "design_ref": m.get("DESIGN_REF", "DESIGN.md §5")},
        "level_note": m.get("LEVEL_NOTE", ""),
        "technique": m.get("TECHNIQUE", "Lean 4 theorems about an executable model + correspondence check against the implementation"),
    })
man = {
    "version": 1,
    "setup_cmd": "./setup.sh",
    "hooks": {
        "guard": "SCICO_VERIF",
        "enable": "no instrumentation of scico is needed; checks set SCICO_VERIF=1 for uniformity (no code in /repo reads it)",
        "baseline_off_cmd": "cd /repo && /venv/bin/python -m pytest -ra -q -p no:cacheprovider --timeout=900 --continue-on-collection-errors",
        "source_commits": [],
        "add_only": True,
    },
    "engines": [{"name": e, "path": f"lean/Drv/{e}.lean", "serves_properties": ps,
                 "kind_free_text": "Lean 4 executable model + theorems (lean/Scico/Model, Proofs, Props), driven over a JSON line protocol by harness/*.py"} for e, ps in engines.items()],
    "checks": checks,
    "not_applicable": na,
    "notes": "Technique: machine-checked proof in Lean 4 of theorems about formal models of scico, tied to /repo on every run by a correspondence check (and translators that regenerate Lean data from the source). See DESIGN.md. Exit 2 = infrastructure failure.",
}
(V / "MANIFEST.json").write_text(json.dumps(man, indent=1) + "\n")
print(f"claimed: {[c['property_id'] for c in checks]}  not claimed: {[n['property_id'] for n in na]}")
