"""Generates design/REPORT.md: tables that are derived from the repository state (never hand-edited):
 - per property: claimed?, theorem count (Props/Cxx.lean), adapter, design note
 - fix: commits in /repo
 - known findings (known_findings.txt)
 - seeded breaking changes: confirmed?, which check catches them (seeded/*/confirm.json, result.json)
"""
import ast
import json
import re
import subprocess
import sys
from pathlib import Path

V = Path(__file__).resolve().parent.parent
sys.path.insert(0, str(V / "harness"))
import common  # noqa: E402

props = [json.loads(l) for l in (V / "properties.jsonl").read_text().splitlines() if l.strip()]
out = ["# Generated report (tools/gen_report.py) — do not edit by hand", ""]


def meta(p):
    f = V / "harness" / f"{p.lower()}.py"
    d = {}
    if f.exists():
        for node in ast.parse(f.read_text()).body:
            if isinstance(node, ast.Assign) and len(node.targets) == 1 and isinstance(node.targets[0], ast.Name):
                try:
                    d[node.targets[0].id] = ast.literal_eval(node.value)
                except Exception:
                    pass
    return d


out += ["## Properties", "", "| id | title | claimed | theorems in Props | Lean modules | design note |", "|---|---|---|---|---|---|"]
tot = 0
for p in props:
    pid = p["id"]
    m = meta(pid)
    n = 0
    for mod in m.get("PROP_MODULES", [f"Scico.Props.{pid}"]):
        f = common.LEAN_DIR / (mod.replace(".", "/") + ".lean")
        if f.exists():
            n += len(common.theorems_in(f))
    tot += n
    note = f"design/{pid}.md" if (V / "design" / f"{pid}.md").exists() else "-"
    out.append(f"| {pid} | {p['title']} | {'yes' if m.get('CLAIMED') else 'no'} | {n} | {', '.join(m.get('PROP_MODULES', []))} | {note} |")
out += ["", f"Total property theorems: {tot}", ""]


def loc(globpat):
    n = 0
    for f in V.glob(globpat):
        n += sum(1 for _ in f.open())
    return n


out += [
    "## Size", "",
    f"* Lean models (lean/Scico/Model): {loc('lean/Scico/Model/*.lean')} lines; proofs (Proofs): {loc('lean/Scico/Proofs/*.lean')}; property theorems (Props): {loc('lean/Scico/Props/*.lean')}; drivers (Drv): {loc('lean/Drv/*.lean')}; generated: {loc('lean/Scico/Generated/*.lean')}",
    f"* Python harness: {loc('harness/*.py')} lines; corpus files: {len(list(V.glob('corpus/*/*')))}", "",
]

out += ["## fix: commits in /repo (each a separate commit; `git -C /repo log`)", ""]
log = subprocess.run(["git", "-C", "/repo", "log", "--reverse", "--format=%h %s"], capture_output=True, text=True).stdout
fixes = [l for l in log.splitlines() if re.match(r"\w+ fix:", l)]
out += [f"{len(fixes)} commits.", ""] + [f"* `{l.split()[0]}` {l.split(' ', 1)[1]}" for l in fixes] + [""]

known, fixed = common.load_known()
out += ["## Known findings (recorded, not repaired)", ""]
for k in known:
    out.append(f"* **{k['property']}** `{k['id']}` — {k['text']}")
out += ["", f"({len(fixed)} `fixed:` entries are listed in known_findings.txt.)", ""]

out += ["## Seeded breaking changes (written by independent sub-agents from the property text only)", "",
        "| id | breaks | needs to manifest | confirmed | checks run → outcome |", "|---|---|---|---|---|"]
nc = ncaught = nall = 0
for d in sorted((V / "seeded").glob("*")):
    if not (d / "meta.json").exists():
        continue
    m = json.loads((d / "meta.json").read_text())
    conf = json.loads((d / "confirm.json").read_text()).get("confirmed") if (d / "confirm.json").exists() else None
    res = json.loads((d / "result.json").read_text()) if (d / "result.json").exists() else {}
    rs = []
    caught = False
    for k, r in res.items():
        if r["rc"] == 1 and r["violations"]:
            caught = True
            rs.append(f"{k}: CAUGHT" + (" (failing input)" if r.get("with_failing_input") else " (no-failing-input-found)"))
        elif r["rc"] == 2:
            rs.append(f"{k}: infra")
        else:
            rs.append(f"{k}: missed")
    nall += 1
    nc += bool(conf)
    ncaught += caught

    def cell(s):
        return str(s).replace("|", "/").replace("\n", " ")[:160]

    out.append(f"| {d.name} | {cell(m.get('what_it_breaks', m.get('title', '')))} | {cell(m.get('needs_to_manifest', ''))} | {conf} | {'; '.join(rs) or '-'} |")
out += ["", f"{nall} seeded changes, {nc} confirmed, {ncaught} caught by at least one check.", ""]
(V / "design" / "REPORT.md").write_text("\n".join(out) + "\n")
print(f"design/REPORT.md: {tot} theorems, {len(fixes)} fix commits, {len(known)} known, seeded {ncaught}/{nall} caught")
