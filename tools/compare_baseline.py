"""compare junit results in <dir>/*.xml with BASELINE.json stable_pass: lists baseline-passing tests that do not pass now"""
import glob, json, sys
import xml.etree.ElementTree as ET
base = json.load(open("/root/.vp/BASELINE.json"))
stable = set(base["stable_pass"])
passed = set(); seen = set()
for f in glob.glob(sys.argv[1] + "/*.xml"):
    for tc in ET.parse(f).getroot().iter("testcase"):
        name = f"{tc.get('classname')}::{tc.get('name')}"
        seen.add(name)
        if not any(ch.tag in ("failure", "error", "skipped") for ch in tc):
            passed.add(name)
missing = sorted(stable - passed)
print(f"stable_pass={len(stable)} passed_now={len(passed)} seen={len(seen)} baseline-passing-but-not-now={len(missing)}")
for m in missing[:60]:
    print("  NOT PASSING:", m, "(seen)" if m in seen else "(not collected)")
sys.exit(1 if missing else 0)
