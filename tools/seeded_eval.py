"""Confirm and evaluate seeded breaking changes.

  seeded_eval.py import <Cxx> [round]  copy /tmp/seed-Cxx/out/mutN -> /verif/seeded/Cxx-mN (round 2: /tmp/seed2-Cxx -> Cxx-nN)
  seeded_eval.py confirm <id>...       in scratch worktrees of /repo HEAD: patch applies; demo passes clean / fails mutated;
                                       the test commands of meta.json give the same summary with and without the patch
  seeded_eval.py check <id> [tier] [--props C01,C12]
                                       run ./check <prop> <tier> with SCICO_REPO=<mutated worktree>; record whether a
                                       VIOLATION was reported (and with a failing input) into seeded/<id>/result.json

Scratch worktrees live under /tmp and are removed afterwards.  Nothing is ever applied to /repo itself by this tool
(equivalent to `git -C /repo apply` + run + `git checkout -- .`, but safe while other jobs read /repo)."""

import json
import os
import re
import shutil
import subprocess
import sys
import time
from pathlib import Path

V = Path(__file__).resolve().parent.parent
SEEDED = V / "seeded"
REPO = "/repo"


def sh(cmd, cwd=None, env=None, timeout=3600):
    p = subprocess.run(cmd, shell=True, cwd=cwd, env=env, stdout=subprocess.PIPE, stderr=subprocess.STDOUT, text=True, timeout=timeout)
    return p.returncode, p.stdout


def worktree(tag, commit="HEAD"):
    d = f"/tmp/mut-{tag}-{os.getpid()}"
    sh(f"git -C {REPO} worktree remove --force {d}")
    rc, out = sh(f"git -C {REPO} worktree add -q --detach {d} {commit}")
    if rc:
        raise SystemExit(out)
    return d


def rm_worktree(d):
    sh(f"git -C {REPO} worktree remove --force {d}")
    shutil.rmtree(d, ignore_errors=True)


def cmd_import(prop, rnd=1):
    src = Path(f"/tmp/seed{'' if rnd == 1 else rnd}-{prop}/out")
    n = 0
    for m in sorted(src.glob("mut*")):
        if not (m / "patch.diff").exists():
            continue
        dst = SEEDED / f"{prop}-{m.name.replace('mut', {1: 'm', 2: 'n', 3: 'p'}.get(rnd, 'q'))}"
        dst.mkdir(parents=True, exist_ok=True)
        for f in ("patch.diff", "demo.py", "meta.json"):
            if (m / f).exists():
                shutil.copy(m / f, dst / f)
        n += 1
        print("imported", dst.name)
    return n


def summary_line(out):
    ls = [l for l in out.strip().splitlines() if re.search(r"\d+ (passed|failed|error)", l)]
    s = ls[-1] if ls else out.strip().splitlines()[-1] if out.strip() else ""
    return re.sub(r" in [\d.]+s.*", "", s).strip("= ")


def cmd_confirm(ids):
    for sid in ids:
        d = SEEDED / sid
        meta = json.loads((d / "meta.json").read_text())
        res = {"id": sid, "at": time.strftime("%Y-%m-%dT%H:%M:%S"), "repo_head": sh(f"git -C {REPO} rev-parse --short HEAD")[1].strip()}
        base = meta.get("base_commit", "HEAD")  # seeds whose lines were later rewritten by a fix: commit
        res["base_commit"] = base
        clean = worktree(sid + "-clean", base)
        mut = worktree(sid + "-mut", base)
        try:
            rc, out = sh(f"git apply {d/'patch.diff'}", cwd=mut)
            res["patch_applies"] = rc == 0
            if rc:
                res["apply_error"] = out[-500:]
            else:
                for name, w in (("clean", clean), ("mutated", mut)):
                    os.makedirs(f"{w}/out/x", exist_ok=True)
                    shutil.copy(d / "demo.py", f"{w}/out/x/demo.py")
                    env = dict(os.environ, PYTHONPATH=w, JAX_PLATFORMS="cpu")
                    rc, out = sh(f"/venv/bin/python out/x/demo.py", cwd=w, env=env, timeout=600)
                    res[f"demo_{name}_rc"] = rc
                    res[f"demo_{name}_tail"] = out.strip().splitlines()[-1][:300] if out.strip() else ""
                tests = []
                for t in meta.get("tests_run", []):
                    cmd = t.get("cmd", "") if isinstance(t, dict) else str(t)
                    m = re.search(r"(-m pytest.*|pytest .*)$", cmd)
                    if not m:
                        continue
                    files = [x for x in re.findall(r"(scico/test/\S+)", cmd)]
                    if not files:
                        continue
                    pc = "/venv/bin/python -m pytest -q -p no:cacheprovider --timeout=900 " + " ".join(files)
                    r = {}
                    for name, w in (("clean", clean), ("mutated", mut)):
                        env = dict(os.environ, PYTHONPATH=w, JAX_PLATFORMS="cpu")
                        rc, out = sh(pc, cwd=w, env=env, timeout=3000)
                        r[name] = summary_line(out)
                    r["cmd"] = pc
                    def bad(summary):
                        return sum(int(n) for n, k in re.findall(r"(\d+) (failed|error|errors)\b", summary))

                    # "same" = the mutated tree is not worse (a handful of baseline tests are flaky on the
                    # unmodified tree: Nelder-Mead based prox tests, see DESIGN §10)
                    r["same"] = r["clean"] == r["mutated"] or bad(r["mutated"]) <= bad(r["clean"])
                    tests.append(r)
                res["tests"] = tests
            res["confirmed"] = bool(
                res.get("patch_applies") and res.get("demo_clean_rc") == 0 and res.get("demo_mutated_rc") not in (0, None)
                and all(t["same"] for t in res.get("tests", []))
            )
        finally:
            rm_worktree(clean)
            rm_worktree(mut)
        (d / "confirm.json").write_text(json.dumps(res, indent=1))
        print(sid, "confirmed" if res["confirmed"] else "NOT CONFIRMED", json.dumps({k: v for k, v in res.items() if k not in ("tests",)})[:400])
        for t in res.get("tests", []):
            print("   ", t["same"], t["clean"], "|", t["mutated"])


def cmd_check(sid, tier="quick", props=None):
    d = SEEDED / sid
    meta = json.loads((d / "meta.json").read_text())
    props = props or [meta.get("property", sid.split("-")[0])]
    mut = worktree(sid + "-chk")
    results = json.loads((d / "result.json").read_text()) if (d / "result.json").exists() else {}
    try:
        rc, out = sh(f"git apply {d/'patch.diff'}", cwd=mut)
        if rc:
            print("patch does not apply:", out[-300:])
            return
        for p in props:
            env = dict(os.environ, SCICO_REPO=mut, VERIF_SEED=os.environ.get("VERIF_SEED", "0"), VERIF_NO_LEANCHECKER="1", VERIF_EVIDENCE_DIR="/tmp/mut-evidence")
            t = time.time()
            rc, out = sh(f"./check {p} {tier}", cwd=V, env=env, timeout=5400)
            vio = [l for l in out.splitlines() if l.startswith("VIOLATION")]
            results[f"{p}:{tier}"] = {
                "rc": rc,
                "violations": vio[:5],
                "with_failing_input": any("no-failing-input-found" not in l for l in vio),
                "wall_s": round(time.time() - t, 1),
                "tail": out.strip().splitlines()[-1][:300] if out.strip() else "",
                "repo_head": sh(f"git -C {REPO} rev-parse --short HEAD")[1].strip(),
                "verif_head": sh(f"git -C {V} rev-parse --short HEAD")[1].strip(),
            }
            print(sid, p, tier, "rc", rc, "CAUGHT" if rc == 1 and vio else ("INFRA" if rc == 2 else "MISSED"), vio[:2])
    finally:
        rm_worktree(mut)
    (d / "result.json").write_text(json.dumps(results, indent=1))


if __name__ == "__main__":
    a = sys.argv[1:]
    if a[0] == "import":
        cmd_import(a[1], int(a[2]) if len(a) > 2 else 1)
    elif a[0] == "confirm":
        cmd_confirm(a[1:])
    elif a[0] == "check":
        props = None
        if "--props" in a:
            props = a[a.index("--props") + 1].split(",")
            a = a[: a.index("--props")]
        cmd_check(a[1], a[2] if len(a) > 2 else "quick", props)
