"""flip_known.py <id> <sha> [<id> <sha> ...] : turn `known: property=Cxx id=<id> text` into `fixed: property=Cxx <sha> text (found as id=<id>)`"""
import sys
from pathlib import Path
p = Path(__file__).resolve().parent.parent / "known_findings.txt"
pairs = dict(zip(sys.argv[1::2], sys.argv[2::2]))
out = []
for l in p.read_text().splitlines():
    if l.startswith("known:"):
        for fid, sha in pairs.items():
            if f" id={fid} " in l + " ":
                head, rest = l.split(f"id={fid}", 1)
                l = head.replace("known:", "fixed:") + sha + " " + rest.strip() + f" (found as id={fid})"
                print("flipped", fid)
    out.append(l)
p.write_text("\n".join(out) + "\n")
