#!/bin/bash
# Runs the pinned scico test suite split over directories in parallel, with junit output, and compares the
# set of passing tests with BASELINE.json's stable_pass (own validation of fix: commits; the official
# command is the single pytest invocation of BASELINE.json).
# usage: run_suite_parallel.sh <repo-dir> <out-dir>
T="$(cd "$(dirname "$0")" && pwd)"; R=${1:-/repo}; O=${2:-/tmp/suite}; rm -rf "$O"; mkdir -p "$O"; cd "$R" || exit 2
unset SCICO_VERIF
parts=(scico/test/linop scico/test/functional scico/test/optimize scico/test/numpy scico/test/operator scico/test/flax docs)
rest=$(ls scico/test/test_*.py | tr '\n' ' ')
for p in "${parts[@]}"; do
  n=$(echo "$p" | tr '/' '_')
  ( /venv/bin/python -m pytest -ra -q -p no:cacheprovider --timeout=900 --continue-on-collection-errors --junitxml="$O/$n.xml" "$p" > "$O/$n.log" 2>&1; echo "rc=$?" >> "$O/$n.log" ) &
done
( /venv/bin/python -m pytest -ra -q -p no:cacheprovider --timeout=900 --continue-on-collection-errors --junitxml="$O/rest.xml" $rest > "$O/rest.log" 2>&1; echo "rc=$?" >> "$O/rest.log" ) &
wait
for f in "$O"/*.log; do echo "== $f: $(tail -2 "$f" | tr '\n' ' ')"; done
/venv/bin/python "$T/compare_baseline.py" "$O"
