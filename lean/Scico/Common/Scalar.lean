/-
  Scalar and vector layer shared by the executable models (DESIGN §4.1).

  Model definitions are polymorphic over the core operation classes
  (`Add`, `Mul`, `LT`, ...) plus the two classes below, so that the *same*
  definition is executed at `Float` by the drivers and reasoned about at `ℝ`
  (or a generic ordered field) in the proof files.  Mathlib-free.
-/

namespace Scico

/-- square root as an operation (`Float.sqrt` at run time, `Real.sqrt` in proofs) -/
class HasSqrt (α : Type) where
  sqrt : α → α

/-- absolute value as an operation -/
class HasAbs (α : Type) where
  abs : α → α

instance : HasSqrt Float := ⟨Float.sqrt⟩
instance : HasAbs Float := ⟨Float.abs⟩

export HasSqrt (sqrt)

/-- fixed-size vectors -/
abbrev Vec (α : Type) (n : Nat) := Fin n → α

namespace Vec

variable {α : Type} {n : Nat}

/-- sum of the entries, as a left-to-right list sum (executable at `Float`) -/
def sum [Add α] [Zero α] (v : Vec α n) : α := (List.ofFn v).sum

def dot [Add α] [Mul α] [Zero α] (x y : Vec α n) : α := sum (fun i => x i * y i)

def sqnorm [Add α] [Mul α] [Zero α] (x : Vec α n) : α := dot x x

def norm2 [Add α] [Mul α] [Zero α] [HasSqrt α] (x : Vec α n) : α := HasSqrt.sqrt (sqnorm x)

def ofList [Inhabited α] (l : List α) : Vec α l.length := fun i => l[i]

/-- view a list as a vector of a requested length, padding with `default` -/
def ofListN [Inhabited α] (l : List α) (n : Nat) : Vec α n := fun i => l.getD i default

def toList (v : Vec α n) : List α := List.ofFn v

/-- materialise (keeps execution linear when a vector is read many times) -/
def memo [Inhabited α] (v : Vec α n) : Vec α n :=
  let a := Array.ofFn v
  fun i => a.getD i default

end Vec

end Scico
