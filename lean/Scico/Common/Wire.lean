/-
  Line protocol shared by every model driver (DESIGN §6.1).

  One request per line, one reply per line, both JSON objects.  Floating-point
  numbers never travel as decimal text: a binary64 value is sent as the natural
  number of its IEEE-754 bit pattern (`Float.toBits`), so transport is exact in
  both directions.  A request is `{"op": "<name>", ...fields}`; a reply is
  `{"ok": <value>}` or `{"err": "<kind>"}` where kind is one of the small enum
  `shape|dtype|type|value|notimpl|key|index|other`, or `{"bad": "<why>"}` when the
  line is not a well-formed request for this driver (the model never defaults).

  This file is Mathlib-free (only `Lean.Data.Json`) so drivers can be run with
  `lean --run` quickly or compiled.
-/
import Lean.Data.Json

open Lean

namespace Scico.Wire

/-- exact transport of a binary64 value -/
def fOfBits (n : Nat) : Float := Float.ofBits n.toUInt64
def fToBits (x : Float) : Nat := x.toBits.toNat

def jF (x : Float) : Json := Json.num (JsonNumber.fromNat (fToBits x))
def jN (n : Nat) : Json := Json.num (JsonNumber.fromNat n)
def jI (n : Int) : Json := Json.num (JsonNumber.fromInt n)
def jB (b : Bool) : Json := Json.bool b
def jS (s : String) : Json := Json.str s
def jArr (xs : List Json) : Json := Json.arr xs.toArray
def jFs (xs : List Float) : Json := jArr (xs.map jF)
def jNs (xs : List Nat) : Json := jArr (xs.map jN)
def jIs (xs : List Int) : Json := jArr (xs.map jI)
def jObj (kvs : List (String × Json)) : Json := Json.mkObj kvs

def getNat? (j : Json) : Option Nat :=
  match j with
  | .num n => if n.exponent == 0 && n.mantissa ≥ 0 then some n.mantissa.toNat else none
  | _ => none

def getInt? (j : Json) : Option Int :=
  match j with
  | .num n => if n.exponent == 0 then some n.mantissa else none
  | _ => none

def getFloat? (j : Json) : Option Float := (getNat? j).map fOfBits

def getBool? (j : Json) : Option Bool :=
  match j with
  | .bool b => some b
  | _ => none

def getStr? (j : Json) : Option String :=
  match j with
  | .str s => some s
  | _ => none

def getList? (j : Json) : Option (List Json) :=
  match j with
  | .arr a => some a.toList
  | _ => none

def getListOf? {α} (f : Json → Option α) (j : Json) : Option (List α) :=
  (getList? j).bind (fun l => l.mapM f)

def getFloats? : Json → Option (List Float) := getListOf? getFloat?
def getNats? : Json → Option (List Nat) := getListOf? getNat?
def getInts? : Json → Option (List Int) := getListOf? getInt?
/-- list of lists of floats: a dense matrix by rows, or a block array by blocks -/
def getFloatss? : Json → Option (List (List Float)) := getListOf? getFloats?

def field? (j : Json) (k : String) : Option Json :=
  match j.getObjVal? k with
  | .ok v => some v
  | .error _ => none

def fNat? (j : Json) (k : String) : Option Nat := (field? j k).bind getNat?
def fInt? (j : Json) (k : String) : Option Int := (field? j k).bind getInt?
def fFloat? (j : Json) (k : String) : Option Float := (field? j k).bind getFloat?
def fBool? (j : Json) (k : String) : Option Bool := (field? j k).bind getBool?
def fStr? (j : Json) (k : String) : Option String := (field? j k).bind getStr?
def fFloats? (j : Json) (k : String) : Option (List Float) := (field? j k).bind getFloats?
def fFloatss? (j : Json) (k : String) : Option (List (List Float)) := (field? j k).bind getFloatss?
def fNats? (j : Json) (k : String) : Option (List Nat) := (field? j k).bind getNats?
def fInts? (j : Json) (k : String) : Option (List Int) := (field? j k).bind getInts?
def fList? (j : Json) (k : String) : Option (List Json) := (field? j k).bind getList?

/-- reply constructors -/
def ok (v : Json) : Json := jObj [("ok", v)]
def err (kind : String) : Json := jObj [("err", jS kind)]
def bad (why : String) : Json := jObj [("bad", jS why)]

/-- A handler maps (op name, request object) to a reply, `none` = unknown op or
    malformed fields (answered with `bad`). -/
abbrev Handler := String → Json → Option Json

def handleLine (h : Handler) (line : String) : String :=
  match Json.parse line with
  | .error e => (bad s!"json: {e}").compress
  | .ok j =>
    match fStr? j "op" with
    | none => (bad "no op").compress
    | some op =>
      match h op j with
      | some r => r.compress
      | none => (bad s!"op {op}: unknown or malformed").compress

partial def loop (h : Handler) (inp : IO.FS.Stream) (out : IO.FS.Stream) : IO Unit := do
  let line ← inp.getLine
  if line.isEmpty then return ()
  let t := line.trimAscii.toString
  if t.isEmpty then loop h inp out
  else
    out.putStrLn (handleLine h t)
    out.flush
    loop h inp out

def mainLoop (h : Handler) : IO Unit := do
  loop h (← IO.getStdin) (← IO.getStdout)

/-- Stateful variant: the handler threads a state through the session. -/
abbrev SHandler (σ : Type) := σ → String → Json → Option (σ × Json)

partial def sloop {σ} (h : SHandler σ) (s : σ) (inp out : IO.FS.Stream) : IO Unit := do
  let line ← inp.getLine
  if line.isEmpty then return ()
  let t := line.trimAscii.toString
  if t.isEmpty then sloop h s inp out
  else
    match Json.parse t with
    | .error e => out.putStrLn (bad s!"json: {e}").compress; out.flush; sloop h s inp out
    | .ok j =>
      match fStr? j "op" with
      | none => out.putStrLn (bad "no op").compress; out.flush; sloop h s inp out
      | some op =>
        match h s op j with
        | some (s', r) => out.putStrLn r.compress; out.flush; sloop h s' inp out
        | none => out.putStrLn (bad s!"op {op}: unknown or malformed").compress; out.flush
                  sloop h s inp out

def smainLoop {σ} (h : SHandler σ) (s0 : σ) : IO Unit := do
  sloop h s0 (← IO.getStdin) (← IO.getStdout)

end Scico.Wire
