/-
  Operator calculus of scico (DESIGN §5.1, engine `OpAlg`).  Mathlib-free, executable.

  Source modelled (line by line where the logic lives):
    scico/operator/_operator.py   Operator.__init__/__call__/__add__/__sub__/__mul__/__rmul__/
                                  __truediv__/__neg__, _wrap_mul_div_scalar
    scico/linop/_linop.py         _wrap_add_sub, LinearOperator.{__add__,__sub__,__mul__,__rmul__,
                                  __truediv__,__matmul__,__rmatmul__,__call__,adj,T,H,conj,gram_op},
                                  _set_adjoint (contract of jax.linear_transpose), ComposedLinearOperator
    scico/linop/_diag.py          Diagonal / ScaledIdentity / Identity and every override
    scico/linop/_matrix.py        MatrixOperator, _wrap_add_sub_matrix, __call__ branches, arithmetic

  * `LExpr α`             operator expressions (leaves carry their data over the scalar type `α`)
  * `build e`             what scico CONSTRUCTS: an `Obj` = declared metadata (`Meta`: class used by the
                          next dispatch, shapes, dtypes, payload shape/dtype) + the closures the code
                          builds (`eval`, `adj`) + the class payload (`dat`, `mat`) + the dtype transfer
                          functions of those closures (`evalDt`, `adjDt`), or the error kind raised
  * `infer e`, `run e`    the two projections of `build` (declared metadata / computed closures)
  * `den e`, `denF e`     the SPECIFICATION: the same construction on dense matrices / pointwise

  Vectors are size-erased (`Nat → α`), canonical = zero beyond their size; N-d / block arrays are
  represented by their row-major / block-concatenated flattening with the shape kept in `Meta`.
-/
import Scico.Model.DType
import Scico.Model.LinOps

namespace Scico.OpAlg
open Scico.DType

/-! ### scalars -/

class HasConj (α : Type) where
  conj : α → α
class HasRe (α : Type) where
  re : α → α
export HasConj (conj)
export HasRe (re)

/-- complex numbers as pairs (executed at `Cx Float`; `Cx ℝ ≃ ℂ`) -/
structure Cx (β : Type) where
  re : β
  im : β
deriving Repr, Inhabited

namespace Cx
variable {β : Type} [Add β] [Sub β] [Mul β] [Div β] [Neg β] [Zero β] [One β]
instance : Add (Cx β) := ⟨fun a b => ⟨a.re + b.re, a.im + b.im⟩⟩
instance : Sub (Cx β) := ⟨fun a b => ⟨a.re - b.re, a.im - b.im⟩⟩
instance : Neg (Cx β) := ⟨fun a => ⟨-a.re, -a.im⟩⟩
instance : Mul (Cx β) := ⟨fun a b => ⟨a.re * b.re - a.im * b.im, a.re * b.im + a.im * b.re⟩⟩
instance : Zero (Cx β) := ⟨⟨0, 0⟩⟩
instance : One (Cx β) := ⟨⟨1, 0⟩⟩
/-- textbook complex division -/
instance : Div (Cx β) := ⟨fun a b =>
  let d := b.re * b.re + b.im * b.im
  ⟨(a.re * b.re + a.im * b.im) / d, (a.im * b.re - a.re * b.im) / d⟩⟩
instance : HasConj (Cx β) := ⟨fun a => ⟨a.re, -a.im⟩⟩
instance : HasRe (Cx β) := ⟨fun a => ⟨a.re, 0⟩⟩
end Cx

/-! ### size-erased vectors and matrices -/

abbrev V (α : Type) := Nat → α
abbrev Mx (α : Type) := Nat → Nat → α

/-- a materialised vector (what closures consume and return).  The `size` field is informative
    only (it also keeps the structure from being compiled to a bare function, see `trunc`). -/
structure Vc (α : Type) where
  size : Nat
  get : V α

/-- a materialised matrix (class payloads) -/
structure Mc (α : Type) where
  rows : Nat
  cols : Nat
  get : Mx α

instance {α : Type} : CoeFun (Vc α) (fun _ => Nat → α) := ⟨Vc.get⟩
instance {α : Type} : CoeFun (Mc α) (fun _ => Nat → Nat → α) := ⟨Mc.get⟩

section vec
variable {α : Type} [Add α] [Sub α] [Mul α] [Div α] [Neg α] [Zero α] [One α] [HasConj α] [HasRe α]

/-- `f 0 + f 1 + … + f (n-1)` -/
def sumTo : Nat → (Nat → α) → α
  | 0, _ => 0
  | n + 1, f => sumTo n f + f n

/-- canonical vector of size `n`: zero beyond the size (logical definition).  The result is a
    structure so that computing it is an *evaluation* (a definition returning a bare function is
    eta-expanded by the compiler and would be recomputed at every index). -/
def trunc (n : Nat) (f : V α) : Vc α := ⟨n, fun i => if i < n then f i else 0⟩

/-- canonical `m × n` matrix -/
def truncM (m n : Nat) (A : Mx α) : Mc α :=
  ⟨m, n, fun i j => if i < m ∧ j < n then A i j else 0⟩

def ofArr (a : Array α) : V α := fun i => if h : i < a.size then a[i] else 0

/-- run-time version of `trunc`: materialise once in an array (keeps execution polynomial) -/
def truncImpl (n : Nat) (f : V α) : Vc α := ⟨n, ofArr (Array.ofFn (n := n) (fun i => f i.val))⟩

@[csimp] theorem trunc_eq_truncImpl : @trunc = @truncImpl := by
  funext α _ n f
  unfold trunc truncImpl
  congr 1
  funext i
  unfold ofArr
  by_cases h : i < n <;> simp [h]

def ofArr2 (n : Nat) (a : Array α) : Mx α := fun i j => if j < n then ofArr a (i * n + j) else 0

def truncMImpl (m n : Nat) (A : Mx α) : Mc α :=
  ⟨m, n, ofArr2 n (Array.ofFn (n := m * n) (fun k => A (k.val / n) (k.val % n)))⟩

@[csimp] theorem truncM_eq_truncMImpl : @truncM = @truncMImpl := by
  funext α _ m n A
  unfold truncM truncMImpl
  congr 1
  funext i j
  unfold ofArr2 ofArr
  by_cases hj : j < n
  · by_cases hi : i < m
    · have hlt : i * n + j < m * n := by
        calc i * n + j < i * n + n := Nat.add_lt_add_left hj _
          _ = (i + 1) * n := by rw [Nat.succ_mul]
          _ ≤ m * n := Nat.mul_le_mul_right _ hi
      have hn : 0 < n := Nat.lt_of_le_of_lt (Nat.zero_le _) hj
      have h1 : (i * n + j) / n = i := by
        rw [Nat.mul_comm, Nat.mul_add_div hn, Nat.div_eq_of_lt hj, Nat.add_zero]
      have h2 : (i * n + j) % n = j := by
        rw [Nat.mul_comm, Nat.mul_add_mod, Nat.mod_eq_of_lt hj]
      simp [hi, hj, hlt, h1, h2]
    · have hge : ¬ i * n + j < m * n := by
        intro h
        have : m * n ≤ i * n := Nat.mul_le_mul_right _ (Nat.le_of_not_lt hi)
        omega
      simp [hi, hj, hge]
  · simp [hj]

/-- `D · x` for a matrix with `n` columns -/
def mulVec (n : Nat) (D : Mx α) (x : V α) : V α := fun i => sumTo n (fun j => D i j * x j)

/-- `Dᴴ · y` for a matrix with `m` rows -/
def mulVecH (m : Nat) (D : Mx α) (y : V α) : V α := fun j => sumTo m (fun i => conj (D i j) * y i)

/-- `Dᵀ · y` -/
def mulVecT (m : Nat) (D : Mx α) (y : V α) : V α := fun j => sumTo m (fun i => D i j * y i)

/-- matrix product with inner dimension `k` -/
def matMul (k : Nat) (A B : Mx α) : Mx α := fun i j => sumTo k (fun l => A i l * B l j)

def matH (A : Mx α) : Mx α := fun i j => conj (A j i)
def matT (A : Mx α) : Mx α := fun i j => A j i
def matConj (A : Mx α) : Mx α := fun i j => conj (A i j)

def basis (j : Nat) : V α := fun i => if i = j then 1 else 0

/-! Combinators from which every closure is built.  They are `@[noinline]` functions of
    *materialised* arguments: their operands are evaluated (once) before the call.  (A `let`
    whose only use is inside a `fun i => …` is moved into that lambda by the compiler and would
    be re-evaluated at every index — exponential in the depth of an expression.) -/

@[noinline] def vtrunc (n : Nat) (x : Vc α) : Vc α := trunc n x.get
@[noinline] def vmap (n : Nat) (f : α → α) (u : Vc α) : Vc α := trunc n (fun i => f (u i))
@[noinline] def vzip (n : Nat) (f : α → α → α) (u v : Vc α) : Vc α :=
  trunc n (fun i => f (u i) (v i))
/-- `A · x` (`A` with `n` columns, result of size `m`) -/
@[noinline] def vmulVec (m n : Nat) (A : Mc α) (x : Vc α) : Vc α := trunc m (mulVec n A.get x.get)
/-- `Aᴴ · y` (`A` with `m` rows, result of size `n`) -/
@[noinline] def vmulVecH (m n : Nat) (A : Mc α) (y : Vc α) : Vc α := trunc n (mulVecH m A.get y.get)
/-- `Aᵀ · y` -/
@[noinline] def vmulVecT (m n : Nat) (A : Mc α) (y : Vc α) : Vc α := trunc n (mulVecT m A.get y.get)
/-- `out[i] = d[pd i] * x[px i]` (broadcast product) -/
@[noinline] def vbmul (m : Nat) (pd px : Nat → Nat) (d x : Vc α) : Vc α :=
  trunc m (fun i => d (pd i) * x (px i))

end vec

/-! ### shapes -/

/-- a plain shape `(d₀, d₁, …)` or a nested (block) shape `((…), (…), …)` -/
inductive Shape where
  | plain (dims : List Nat)
  | nested (blocks : List (List Nat))
deriving DecidableEq, Repr, Inhabited

def prodL (l : List Nat) : Nat := l.foldr (· * ·) 1

/-- `scico.numpy.util.shape_to_size` -/
def Shape.size : Shape → Nat
  | .plain d => prodL d
  | .nested bs => (bs.map prodL).foldr (· + ·) 0

def Shape.isNested : Shape → Bool
  | .plain _ => false
  | .nested _ => true

/-- `numpy.broadcast_shapes` on reversed dimension lists -/
def bshapeRev : List Nat → List Nat → Option (List Nat)
  | [], ys => some ys
  | xs, [] => some xs
  | x :: xs, y :: ys =>
    match bshapeRev xs ys with
    | none => none
    | some r => if x = y then some (x :: r) else if x = 1 then some (y :: r)
                else if y = 1 then some (x :: r) else none

def bshape (a b : List Nat) : Option (List Nat) := (bshapeRev a.reverse b.reverse).map List.reverse

/-- flat index into a `src`-shaped array of the element that numpy broadcasting pairs with flat
    index `k` of the `out`-shaped result (both lists reversed: last axis first) -/
def bidxRev : List Nat → List Nat → Nat → Nat
  | [], _, _ => 0
  | _ :: _, [], _ => 0
  | o :: os, s :: ss, k => (if s = 1 then 0 else k % o) + s * bidxRev os ss (k / o)

def bidx (out src : List Nat) (k : Nat) : Nat := bidxRev out.reverse src.reverse k

/-! ### metadata -/

inductive Err where
  | shape | dtype | type | value | notimpl | other
deriving DecidableEq, Repr, Inhabited

def Err.name : Err → String
  | .shape => "shape" | .dtype => "dtype" | .type => "type" | .value => "value"
  | .notimpl => "notimpl" | .other => "other"

/-- the classes that take part in dispatch -/
inductive Cls where
  | op          -- scico.operator.Operator (exactly)
  | linop       -- scico.linop.LinearOperator (exactly)
  | composed    -- ComposedLinearOperator
  | diag | scaledId | ident
  | matrix
deriving DecidableEq, Repr, Inhabited

def Cls.name : Cls → String
  | .op => "Operator" | .linop => "LinearOperator" | .composed => "ComposedLinearOperator"
  | .diag => "Diagonal" | .scaledId => "ScaledIdentity" | .ident => "Identity"
  | .matrix => "MatrixOperator"

/-- `isinstance(x, D)` for `x` of class `c` -/
def Cls.isSub (c d : Cls) : Bool :=
  c = d || d = .op || (d = .linop && c != .op)
    || (d = .diag && (c = .scaledId || c = .ident)) || (d = .scaledId && c = .ident)

def Cls.isLinop (c : Cls) : Bool := c != .op

/-- what scico declares about an operator object -/
structure Meta where
  cls : Cls
  inShape : Shape
  outShape : Shape
  inDt : DT
  outDt : DT
  /-- payload shape: `diagonal.shape` of a `Diagonal`; unused (= `inShape`) otherwise -/
  datShape : Shape
  /-- payload dtype: dtype of `_diagonal` (Diagonal, ScaledIdentity, Identity) or of `A` -/
  datDt : DT
deriving DecidableEq, Repr, Inhabited

def Meta.inSize (m : Meta) : Nat := m.inShape.size
def Meta.outSize (m : Meta) : Nat := m.outShape.size
/-- `Operator.matrix_shape` -/
def Meta.matrixShape (m : Meta) : Nat × Nat := (m.outShape.size, m.inShape.size)

/-- dtype transfer of a closure: dtype of the result for an argument of the given dtype, or the
    error an inner check raises -/
abbrev DtFn := DT → Except Err DT

/-! ### scalar operands -/

/-- how the Python object used as a scalar factor presents itself -/
inductive ScalKind where
  | pyInt | pyFloat | pyComplex
  | np (d : DT)     -- NumPy scalar: `np.isscalar` ✓, `snp.isscalar` ✓
  | jx (d : DT)     -- 0-d jax array: `is_scalar_equiv` ✓, `np.isscalar` ✗, is a `jnp.ndarray`
  | arr             -- a 1-d array with two entries (not a scalar)
  | str             -- not a number at all
deriving DecidableEq, Repr, Inhabited

/-- `scico.numpy.util.is_scalar_equiv` -/
def ScalKind.isScalarEquiv : ScalKind → Bool
  | .arr | .str => false
  | _ => true

/-- `numpy.isscalar` (used by `MatrixOperator`); strings are NumPy scalars -/
def ScalKind.npIsScalar : ScalKind → Bool
  | .jx _ | .arr => false
  | _ => true

def ScalKind.isArray : ScalKind → Bool
  | .jx _ | .arr => true
  | _ => false

def ScalKind.sk : ScalKind → SK
  | .pyInt => .wInt | .pyFloat => .wFloat | .pyComplex => .wComplex
  | .np d => .strong d | .jx d => .strong d
  | .arr => .wFloat | .str => .wFloat

structure Scal (α : Type) where
  val : α
  kind : ScalKind


/-! ### which repairs of the pinned tree are in force

`Cfg.fixed` is the code after the `fix:` commits `fixes/opalg-*.patch` (what the theorems are about);
`Cfg.legacy` is the pinned tree.  The harness uses the legacy switches only to *classify* a
disagreement as an instance of a recorded defect. -/

structure Cfg where
  /-- `Operator.__call__(Operator)`: `input_dtype=x.input_dtype, output_dtype=self.output_dtype` -/
  compDt : Bool
  /-- `LinearOperator.gram_op`: `output_dtype=self.input_dtype` -/
  gramDt : Bool
  /-- `Diagonal.__init__`: `output_dtype=result_type(diagonal.dtype, input_dtype)` -/
  diagOutDt : Bool
  /-- `Diagonal` derived operators keep `input_shape`; non-square `T/H/gram_op` are generic -/
  diagKeep : Bool
  /-- `Identity.__matmul__/__rmatmul__` check shapes -/
  identChk : Bool
  /-- `MatrixOperator.__call__`: generic composition declares `other.input_dtype`; non-linear
      operators are composed through `Operator.__call__` -/
  matCall : Bool
deriving DecidableEq, Repr, Inhabited

def Cfg.fixed : Cfg := ⟨true, true, true, true, true, true⟩
def Cfg.legacy : Cfg := ⟨false, false, false, false, false, false⟩

/-! ### operator objects -/

/-- what scico constructs: declared metadata, the closures, the class payload, and the dtype
    transfer functions of the closures -/
structure Obj (α : Type) where
  md : Meta
  /-- `_eval` (what `__call__` computes on an array of the input shape) -/
  eval : Vc α → Vc α
  /-- `_adj` -/
  adj : Vc α → Vc α
  /-- `Diagonal`: flattened `_diagonal`; `ScaledIdentity/Identity`: `dat 0 = _diagonal` -/
  dat : Vc α
  /-- `MatrixOperator`: `A` -/
  mat : Mc α
  evalDt : DtFn
  adjDt : DtFn

/-- the two closures, as handed to users of the model (`run`) -/
structure Impl (α : Type) where
  eval : Vc α → Vc α
  adj : Vc α → Vc α

section ops
variable {α : Type} [Add α] [Sub α] [Mul α] [Div α] [Neg α] [Zero α] [One α] [HasConj α] [HasRe α]

instance : Inhabited (Impl α) := ⟨⟨fun _ => ⟨0, fun _ => 0⟩, fun _ => ⟨0, fun _ => 0⟩⟩⟩

namespace Obj

def cls (o : Obj α) : Cls := o.md.cls
@[reducible] def n (o : Obj α) : Nat := o.md.inShape.size
@[reducible] def m (o : Obj α) : Nat := o.md.outShape.size
def impl (o : Obj α) : Impl α := ⟨o.eval, o.adj⟩

/-- `a.shape == b.shape` -/
def sameShape (a b : Obj α) : Bool :=
  a.md.inShape = b.md.inShape && a.md.outShape = b.md.outShape

/-- dtype transfer of `LinearOperator.adj` (checks the dtype of its argument against the declared
    output dtype); `MatrixOperator.adj` is overridden and does not check the dtype -/
def adjCallDt (o : Obj α) : DtFn := fun dy =>
  if o.md.cls = .matrix then o.adjDt dy
  else if o.md.outDt ≠ dy then .error .dtype
  else o.adjDt dy

/-- `Operator.__call__` on an array of shape `xsh`: evaluated only when the shape is exactly the
    declared input shape (`MatrixOperator.__call__` raises `TypeError`, the others `ValueError`) -/
def callArr (o : Obj α) (xsh : Shape) (x : Vc α) : Except Err (Vc α) :=
  if o.md.inShape = xsh then .ok (o.eval x)
  else .error (if o.md.cls = .matrix then .type else .shape)

/-- `LinearOperator.adj` on an array of shape `ysh` and dtype `ydt`: dtype check, then shape check;
    `MatrixOperator.adj` checks the shape only (fixes/opalg-12) -/
def adjArr (o : Obj α) (ysh : Shape) (ydt : DT) (y : Vc α) : Except Err (Vc α) :=
  if o.md.cls ≠ .matrix ∧ o.md.outDt ≠ ydt then .error .dtype
  else if o.md.outShape ≠ ysh then .error .shape
  else .ok (o.adj y)

end Obj

def zeroV : Vc α := ⟨0, fun _ => 0⟩
def zeroM : Mc α := ⟨0, 0, fun _ _ => 0⟩
def basisC (j : Nat) : Vc α := ⟨j + 1, basis j⟩

/-- dense matrix of a closure, column by column (what transposition by JAX sees) -/
def autoMat (n m : Nat) (eval : Vc α → Vc α) : Mc α := truncM m n (fun i j => eval (basisC j) i)

/-- `LinearOperator._set_adjoint` = `scico.linear_adjoint(self.__call__, zeros(input_shape, input_dtype))`
    under the contract of `jax.linear_transpose`:
    complex primal → conjugate transpose; real primal with complex value → real part of the
    conjugate transpose; real → transpose. -/
def autoAdjWith (n m : Nat) (inC outC : Bool) (M : Mc α) : Vc α → Vc α := fun y =>
  if inC then vmulVecH m n M (vtrunc m y)
  else if outC then vmap n re (vmulVecH m n M (vtrunc m y))
  else vmulVecT m n M (vtrunc m y)

/-- dtype transfer of the automatically created adjoint: the cotangent must have exactly the
    dtype the forward map returns; the result has the primal dtype -/
def autoAdjDt (inDt : DT) (evalDt : DtFn) : DtFn := fun dy =>
  match evalDt inDt with
  | .error e => .error e
  | .ok od => if dy = od then .ok inDt else .error .type

/-- `Operator(input_shape, output_shape, eval_fn, input_dtype, output_dtype)` -/
def mkOp (inSh outSh : Shape) (inDt outDt : DT) (eval : Vc α → Vc α) (evalDt : DtFn) : Obj α :=
  { md := ⟨.op, inSh, outSh, inDt, outDt, inSh, inDt⟩
    eval := eval, adj := fun _ => zeroV, dat := zeroV, mat := zeroM
    evalDt := evalDt, adjDt := fun _ => .error .other }

/-- `LinearOperator(…, eval_fn, adj_fn, …)` (also `ComposedLinearOperator` with `cls := .composed`) -/
def mkLin (cls : Cls) (inSh outSh : Shape) (inDt outDt : DT) (eval adj : Vc α → Vc α)
    (evalDt adjDt : DtFn) : Obj α :=
  { md := ⟨cls, inSh, outSh, inDt, outDt, inSh, inDt⟩
    eval := eval, adj := adj, dat := zeroV, mat := zeroM, evalDt := evalDt, adjDt := adjDt }

/-- `LinearOperator(…, eval_fn)` without `adj_fn`: adjoint created by `_set_adjoint` -/
def mkLinAuto (inSh outSh : Shape) (inDt outDt : DT) (eval : Vc α → Vc α) (evalDt : DtFn) : Obj α :=
  let M := autoMat inSh.size outSh.size eval
  let outC := match evalDt inDt with
    | .ok d => d.isComplex
    | .error _ => false
  mkLin .linop inSh outSh inDt outDt eval (autoAdjWith inSh.size outSh.size inDt.isComplex outC M)
    evalDt (autoAdjDt inDt evalDt)

/-! #### leaf classes -/

/-- `MatrixOperator(A)` for an `m × n` array of dtype `dt` -/
def mkMat (m n : Nat) (dt : DT) (A : Mx α) : Obj α :=
  let A' := truncM m n A
  { md := ⟨.matrix, .plain [n], .plain [m], dt, dt, .plain [n], dt⟩
    eval := fun x => vmulVec m n A' (vtrunc n x)
    adj := fun y => vmulVecH m n A' (vtrunc m y)
    dat := zeroV, mat := A'
    evalDt := fun dx => .ok (resultType dt dx)
    adjDt := fun dy => .ok (resultType dt dy) }

/-- broadcasting of (possibly nested) shapes as `Diagonal.__init__` performs it -/
def bshapeS : Shape → Shape → Except Err Shape
  | .plain a, .plain b =>
    match bshape a b with
    | some r => .ok (.plain r)
    | none => .error .shape
  | .nested as, .nested bs =>
    -- broadcast_nested_shapes: block by block (zip)
    let rs := List.zipWith bshape as bs
    if rs.all Option.isSome then .ok (.nested (rs.filterMap id)) else .error .shape
  | _, _ => .error .shape   -- "diagonal was (not) a BlockArray but input_shape was (not) nested"

/-- offset-aware broadcast index for nested shapes -/
def bidxBlocks : List (List Nat) → List (List Nat) → Nat → Nat
  | o :: os, s :: ss, k =>
    if k < prodL o then bidx o s k else prodL s + bidxBlocks os ss (k - prodL o)
  | _, _, _ => 0

def bidxS : Shape → Shape → Nat → Nat
  | .plain o, .plain s, k => bidx o s k
  | .nested os, .nested ss, k => bidxBlocks os ss k
  | _, _, _ => 0

/-- `Diagonal(diagonal, input_shape, input_dtype)` with `diagonal` of shape `dsh`, dtype `ddt` -/
def mkDiag (cfg : Cfg) (d : V α) (dsh : Shape) (ddt : DT) (inSh : Shape) (inDt : DT) :
    Except Err (Obj α) :=
  match bshapeS inSh dsh with
  | .error e => .error e
  | .ok outSh =>
    let n := inSh.size
    let m := outSh.size
    let d' := trunc dsh.size d
    let eval : Vc α → Vc α := fun x =>
      vbmul m (bidxS outSh dsh) (bidxS outSh inSh) d' (vtrunc n x)
    let evalDt : DtFn := fun dx => .ok (resultType ddt dx)
    let outDt := if cfg.diagOutDt then resultType ddt inDt else inDt
    let M := autoMat n m eval
    .ok { md := ⟨.diag, inSh, outSh, inDt, outDt, dsh, ddt⟩
          eval := eval
          adj := autoAdjWith n m inDt.isComplex (resultType ddt inDt).isComplex M
          dat := d', mat := zeroM
          evalDt := evalDt, adjDt := autoAdjDt inDt evalDt }

/-- `ScaledIdentity(scalar, input_shape, input_dtype)`; `sk` = how `scalar` enters
    `scalar * ones((), input_dtype)` -/
def mkSid (cfg : Cfg) (c : α) (sk : SK) (sh : Shape) (inDt : DT) : Obj α :=
  let ddt := resultTypeS inDt sk
  let n := sh.size
  let eval : Vc α → Vc α := fun x => vmap n (fun t => c * t) (vtrunc n x)
  let evalDt : DtFn := fun dx => .ok (resultType ddt dx)
  let outDt := if cfg.diagOutDt then resultType ddt inDt else inDt
  let M := autoMat n n eval
  { md := ⟨.scaledId, sh, sh, inDt, outDt, sh, ddt⟩
    eval := eval
    adj := autoAdjWith n n inDt.isComplex (resultType ddt inDt).isComplex M
    dat := ⟨1, fun i => if i = 0 then c else 0⟩, mat := zeroM
    evalDt := evalDt, adjDt := autoAdjDt inDt evalDt }

/-- `Identity(input_shape, input_dtype)` (`_eval` returns its argument) -/
def mkIdent (sh : Shape) (inDt : DT) : Obj α :=
  let n := sh.size
  let eval : Vc α → Vc α := fun x => vtrunc n x
  let evalDt : DtFn := fun dx => .ok dx
  let M := autoMat n n eval
  { md := ⟨.ident, sh, sh, inDt, inDt, sh, inDt⟩
    eval := eval
    adj := autoAdjWith n n inDt.isComplex inDt.isComplex M
    dat := ⟨1, fun i => if i = 0 then 1 else 0⟩, mat := zeroM
    evalDt := evalDt, adjDt := autoAdjDt inDt evalDt }

/-- the `diagonal` property: array, its shape, its dtype -/
def Obj.diagonal (o : Obj α) : Vc α × Shape × DT :=
  match o.md.cls with
  | .scaledId => (trunc o.n (fun _ => o.dat 0), o.md.inShape, resultType o.md.datDt o.md.inDt)
  | .ident => (trunc o.n (fun _ => 1), o.md.inShape, o.md.inDt)
  | _ => (o.dat, o.md.datShape, o.md.datDt)

/-! #### generic algebra of `Operator` and `LinearOperator` -/

def pm (sub : Bool) (a b : α) : α := if sub then a - b else a + b

/-- `Operator.__add__ / __sub__` -/
def opAddSub (sub : Bool) (a b : Obj α) : Except Err (Obj α) :=
  if a.sameShape b then
    .ok (mkOp a.md.inShape a.md.outShape a.md.inDt (resultType a.md.outDt b.md.outDt)
      (fun x => vzip a.m (pm sub) (a.eval x) (b.eval x))
      (fun dx => do let da ← a.evalDt dx; let db ← b.evalDt dx; pure (resultType da db)))
  else .error .shape

/-- `LinearOperator.__add__ / __sub__` (unwrapped) -/
def linAddSub (sub : Bool) (a b : Obj α) : Obj α :=
  mkLin .linop a.md.inShape a.md.outShape a.md.inDt (resultType a.md.outDt b.md.outDt)
    (fun x => vzip a.m (pm sub) (a.eval x) (b.eval x))
    (fun y => vzip a.n (pm sub) (a.adj y) (b.adj y))
    (fun dx => do let da ← a.evalDt dx; let db ← b.evalDt dx; pure (resultType da db))
    (fun dy => do let da ← a.adjCallDt dy; let db ← b.adjCallDt dy; pure (resultType da db))

/-- `Operator.__mul__ / __rmul__` (wrapped by `_wrap_mul_div_scalar`) -/
def opMul (a : Obj α) (c : Scal α) : Except Err (Obj α) :=
  if c.kind.isScalarEquiv then
    .ok (mkOp a.md.inShape a.md.outShape a.md.inDt (resultTypeS a.md.outDt c.kind.sk)
      (fun x => vmap a.m (fun t => c.val * t) (a.eval x))
      (fun dx => do let d ← a.evalDt dx; pure (resultTypeS d c.kind.sk)))
  else .error .type

def opDiv (a : Obj α) (c : Scal α) : Except Err (Obj α) :=
  if c.kind.isScalarEquiv then
    .ok (mkOp a.md.inShape a.md.outShape a.md.inDt (resultTypeS a.md.outDt c.kind.sk)
      (fun x => vmap a.m (fun t => t / c.val) (a.eval x))
      (fun dx => do let d ← a.evalDt dx; pure (resultTypeS d c.kind.sk)))
  else .error .type

/-- `LinearOperator._to_output_space` (repo commit 9a89e4c): map a cotangent into the output space of
    `a` — real part when that space is real, then `astype(output_dtype)` -/
def toOutSpace (a : Obj α) (v : Vc α) : Vc α :=
  if a.md.outDt.isComplex then v else vmap a.m re v

/-- `LinearOperator.__mul__ / __rmul__` -/
def linMul (a : Obj α) (c : Scal α) : Except Err (Obj α) :=
  if c.kind.isScalarEquiv then
    .ok (mkLin .linop a.md.inShape a.md.outShape a.md.inDt (resultTypeS a.md.outDt c.kind.sk)
      (fun x => vmap a.m (fun t => c.val * t) (a.eval x))
      (fun y => a.adj (toOutSpace a (vmap a.m (fun t => conj c.val * t) y)))
      (fun dx => do let d ← a.evalDt dx; pure (resultTypeS d c.kind.sk))
      (fun _ => a.adjCallDt a.md.outDt))
  else .error .type

def linDiv (a : Obj α) (c : Scal α) : Except Err (Obj α) :=
  if c.kind.isScalarEquiv then
    .ok (mkLin .linop a.md.inShape a.md.outShape a.md.inDt (resultTypeS a.md.outDt c.kind.sk)
      (fun x => vmap a.m (fun t => t / c.val) (a.eval x))
      (fun y => a.adj (toOutSpace a (vmap a.m (fun t => t / conj c.val) y)))
      (fun dx => do let d ← a.evalDt dx; pure (resultTypeS d c.kind.sk))
      (fun _ => a.adjCallDt a.md.outDt))
  else .error .type

/-- `Operator.__call__(self, x)` for an operator `x` -/
def opComp (cfg : Cfg) (a b : Obj α) : Except Err (Obj α) :=
  if a.md.inShape = b.md.outShape then
    .ok (mkOp b.md.inShape a.md.outShape
      (if cfg.compDt then b.md.inDt else a.md.inDt)
      (if cfg.compDt then a.md.outDt else b.md.outDt)
      (fun x => a.eval (b.eval x))
      (fun dx => do let d ← b.evalDt dx; a.evalDt d))
  else .error .shape

/-- `ComposedLinearOperator(A, B)` -/
def linComp (a b : Obj α) : Except Err (Obj α) :=
  if a.md.inShape ≠ b.md.outShape then .error .shape
  else if a.md.inDt ≠ b.md.outDt then .error .dtype
  else
    .ok (mkLin .composed b.md.inShape a.md.outShape b.md.inDt a.md.outDt
      (fun x => a.eval (b.eval x))
      (fun z => b.adj (a.adj z))
      (fun dx => do let d ← b.evalDt dx; a.evalDt d)
      (fun dz => do let d ← a.adjCallDt dz; b.adjCallDt d))

def conjV (k : Nat) (v : Vc α) : Vc α := vmap k conj v

/-- `LinearOperator.T` -/
def linT (a : Obj α) : Obj α :=
  if a.md.inDt.isComplex then
    -- repo commit 1ee9fab: `input_dtype=self.output_dtype, output_dtype=self.input_dtype`
    mkLin .linop a.md.outShape a.md.inShape a.md.outDt a.md.inDt
      (fun x => conjV a.n (a.adj (conjV a.m x)))
      (fun x => conjV a.m (a.eval (conjV a.n x))) a.adjCallDt a.evalDt
  else
    mkLin .linop a.md.outShape a.md.inShape a.md.outDt a.md.inDt
      a.adj a.eval a.adjCallDt a.evalDt

/-- `LinearOperator.H` -/
def linH (a : Obj α) : Obj α :=
  mkLin .linop a.md.outShape a.md.inShape a.md.outDt a.md.inDt
    a.adj a.eval a.adjCallDt a.evalDt

/-- `LinearOperator.conj` -/
def linConj (a : Obj α) : Obj α :=
  mkLin .linop a.md.inShape a.md.outShape a.md.inDt a.md.outDt
    (fun x => conjV a.m (a.eval (conjV a.n x)))
    (fun y => conjV a.n (a.adj (conjV a.m y)))
    a.evalDt a.adjCallDt

/-- `LinearOperator.gram_op` (`_gram = lambda x: self.adj(self(x))`) -/
def linGram (cfg : Cfg) (a : Obj α) : Obj α :=
  let g : Vc α → Vc α := fun x => a.adj (a.eval x)
  let gDt : DtFn := fun dx => do let d ← a.evalDt dx; a.adjCallDt d
  mkLin .linop a.md.inShape a.md.inShape a.md.inDt
    (if cfg.gramDt then a.md.inDt else a.md.outDt) g g gDt gDt

/-! #### `Diagonal`, `ScaledIdentity`, `Identity` overrides -/

def isSquare (a : Obj α) : Bool := a.md.inShape = a.md.outShape

/-- rebuild a `Diagonal` from a derived diagonal array -/
def rediag (cfg : Cfg) (d : V α) (dsh : Shape) (ddt : DT) (inSh : Shape) (inDt? : Option DT) :
    Except Err (Obj α) :=
  mkDiag cfg d dsh ddt (if cfg.diagKeep then inSh else dsh)
    (match inDt? with
     | some t => if cfg.diagKeep then t else ddt
     | none => ddt)

/-- `Diagonal.__add__ / __sub__` (unwrapped; operands are instances of `Diagonal`) -/
def diagAddSub (cfg : Cfg) (sub : Bool) (a b : Obj α) : Except Err (Obj α) :=
  let (da, sa, ta) := a.diagonal
  let (db, sb, tb) := b.diagonal
  if sa = sb then
    rediag cfg (fun i => pm sub (da i) (db i)) sa (resultType ta tb) a.md.inShape none
  else .error .shape

/-- `ScaledIdentity.__add__ / __sub__` (unwrapped; operands are instances of `ScaledIdentity`) -/
def sidAddSub (cfg : Cfg) (sub : Bool) (a b : Obj α) : Except Err (Obj α) :=
  if a.md.inShape = b.md.inShape then
    .ok (mkSid cfg (pm sub (a.dat 0) (b.dat 0)) (.strong (resultType a.md.datDt b.md.datDt))
      a.md.inShape a.md.inDt)
  else .error .shape

def diagMul (cfg : Cfg) (a : Obj α) (c : Scal α) : Except Err (Obj α) :=
  if c.kind.isScalarEquiv then
    let (da, sa, ta) := a.diagonal
    rediag cfg (fun i => da i * c.val) sa (resultTypeS ta c.kind.sk) a.md.inShape none
  else .error .type

def diagDiv (cfg : Cfg) (a : Obj α) (c : Scal α) : Except Err (Obj α) :=
  if c.kind.isScalarEquiv then
    let (da, sa, ta) := a.diagonal
    rediag cfg (fun i => da i / c.val) sa (resultTypeS ta c.kind.sk) a.md.inShape none
  else .error .type

def sidMul (cfg : Cfg) (a : Obj α) (c : Scal α) : Except Err (Obj α) :=
  if c.kind.isScalarEquiv then
    .ok (mkSid cfg (a.dat 0 * c.val) (.strong (resultTypeS a.md.datDt c.kind.sk))
      a.md.inShape a.md.inDt)
  else .error .type

def sidDiv (cfg : Cfg) (a : Obj α) (c : Scal α) : Except Err (Obj α) :=
  if c.kind.isScalarEquiv then
    .ok (mkSid cfg (a.dat 0 / c.val) (.strong (resultTypeS a.md.datDt c.kind.sk))
      a.md.inShape a.md.inDt)
  else .error .type

/-- `Diagonal.T` and the overrides inherited by its subclasses -/
def diagT (cfg : Cfg) (a : Obj α) : Obj α :=
  if cfg.diagKeep && !isSquare a then linT a else a

/-- `Diagonal.conj`, `ScaledIdentity.conj`, `Identity.conj` -/
def diagConj (cfg : Cfg) (a : Obj α) : Except Err (Obj α) :=
  match a.md.cls with
  | .ident => .ok a
  | .scaledId => .ok (mkSid cfg (conj (a.dat 0)) (.strong a.md.datDt) a.md.inShape a.md.inDt)
  | _ =>
    let (da, sa, ta) := a.diagonal
    rediag cfg (fun i => conj (da i)) sa ta a.md.inShape (some a.md.inDt)

/-- `Diagonal.H = self.conj()` (dynamic dispatch) -/
def diagH (cfg : Cfg) (a : Obj α) : Except Err (Obj α) :=
  if cfg.diagKeep && !isSquare a then .ok (linH a) else diagConj cfg a

/-- `gram_op` of the three classes -/
def diagGram (cfg : Cfg) (a : Obj α) : Except Err (Obj α) :=
  match a.md.cls with
  | .ident => .ok a
  | .scaledId =>
    .ok (mkSid cfg (a.dat 0 * conj (a.dat 0)) (.strong a.md.datDt) a.md.inShape a.md.inDt)
  | _ =>
    if cfg.diagKeep && !isSquare a then .ok (linGram cfg a)
    else
      let (da, sa, ta) := a.diagonal
      rediag cfg (fun i => conj (da i) * da i) sa ta a.md.inShape (some a.md.inDt)

/-! #### `MatrixOperator` -/

/-- `MatrixOperator(B)` for a derived `m × n` array -/
def rematrix (m n : Nat) (dt : DT) (B : Mx α) : Obj α := mkMat m n dt B

def matNeg (a : Obj α) : Obj α :=
  rematrix a.m a.n a.md.inDt (fun i j => - a.mat i j)

def matTop (a : Obj α) : Obj α := rematrix a.n a.m a.md.inDt (fun i j => a.mat j i)
def matHop (a : Obj α) : Obj α := rematrix a.n a.m a.md.inDt (fun i j => conj (a.mat j i))
def matConjOp (a : Obj α) : Obj α := rematrix a.m a.n a.md.inDt (fun i j => conj (a.mat i j))
def matGram (a : Obj α) : Obj α :=
  rematrix a.n a.n a.md.inDt (matMul a.m (fun i j => conj (a.mat j i)) a.mat.get)

/-- `_wrap_add_sub_matrix` for an operator operand -/
def matAddSub (sub : Bool) (a b : Obj α) : Except Err (Obj α) :=
  if b.md.cls = .matrix then
    if a.sameShape b then
      .ok (rematrix a.m a.n (resultType a.md.inDt b.md.inDt)
        (fun i j => pm sub (a.mat i j) (b.mat i j)))
    else .error .shape
  else if !a.sameShape b then .error .shape
  else if b.md.cls.isLinop then .ok (linAddSub sub a b)
  else opAddSub sub a b

/-- `MatrixOperator.__mul__ / __rmul__` with a non-operator operand -/
def matMulS (a : Obj α) (c : Scal α) : Except Err (Obj α) :=
  if c.kind = .str then .error .type
  else if c.kind.npIsScalar then
    .ok (rematrix a.m a.n (resultTypeS a.md.inDt c.kind.sk) (fun i j => c.val * a.mat i j))
  else if c.kind.isArray then .error .shape
  else .error .type

def matDivS (a : Obj α) (c : Scal α) : Except Err (Obj α) :=
  if c.kind = .str then .error .type
  else if c.kind.npIsScalar then
    .ok (rematrix a.m a.n (resultTypeS a.md.inDt c.kind.sk) (fun i j => a.mat i j / c.val))
  else if c.kind.isArray then .error .shape
  else .error .type

/-- `MatrixOperator.__rtruediv__` (element-wise `c / A`) -/
def matRDivS (a : Obj α) (c : Scal α) : Except Err (Obj α) :=
  if c.kind = .str then .error .type
  else if c.kind.npIsScalar then
    .ok (rematrix a.m a.n (resultTypeS a.md.inDt c.kind.sk) (fun i j => c.val / a.mat i j))
  else if c.kind.isArray then .error .shape
  else .error .type

/-- `MatrixOperator.__add__/__sub__/__radd__/__rsub__` with a scalar (element-wise) -/
def matAddSubS (sub rev : Bool) (a : Obj α) (c : Scal α) : Except Err (Obj α) :=
  if c.kind = .str then .error .type
  else if c.kind.npIsScalar then
    .ok (rematrix a.m a.n (resultTypeS a.md.inDt c.kind.sk)
      (fun i j => if rev then pm sub c.val (a.mat i j) else pm sub (a.mat i j) c.val))
  else if c.kind.isArray then .error .shape
  else .error .type

/-- `MatrixOperator.__mul__ / __truediv__` with an operator operand (Hadamard) -/
def matHadamard (div : Bool) (a b : Obj α) : Except Err (Obj α) :=
  if b.md.cls = .matrix then
    if a.sameShape b then
      .ok (rematrix a.m a.n (resultType a.md.inDt b.md.inDt)
        (fun i j => if div then a.mat i j / b.mat i j else a.mat i j * b.mat i j))
    else .error .shape
  else .error .type

/-- `MatrixOperator.__call__(other)` for an operator `other` -/
def matCall (cfg : Cfg) (a b : Obj α) : Except Err (Obj α) :=
  if b.md.cls.isLinop then
    if a.md.inShape = b.md.outShape then
      if b.md.cls = .ident then .ok a
      else if b.md.cls = .matrix then
        .ok (rematrix a.m b.n (resultType a.md.inDt b.md.inDt) (matMul a.n a.mat.get b.mat.get))
      else
        let inDt := if cfg.matCall then b.md.inDt else a.md.inDt
        let evalDt : DtFn := fun dx => do let d ← b.evalDt dx; a.evalDt d
        -- output_dtype=None: inferred by evaluating on zeros(input_shape, input_dtype)
        match evalDt inDt with
        | .error e => .error e
        | .ok outDt =>
          .ok (mkLinAuto b.md.inShape a.md.outShape inDt outDt
            (fun x => a.eval (b.eval x)) evalDt)
    else .error .value
  else if cfg.matCall then opComp cfg a b
  else .error .type

/-! #### dispatch -/

/-- the class whose `__add__/__sub__/__mul__/__truediv__` a class inherits -/
def Cls.arith : Cls → Cls
  | .ident => .scaledId
  | .composed => .linop
  | c => c

/-- the unwrapped `__add__/__sub__` defined in class `c` -/
def addSubOf (cfg : Cfg) (c : Cls) (sub : Bool) (a b : Obj α) : Except Err (Obj α) :=
  match c.arith with
  | .op => opAddSub sub a b
  | .diag => diagAddSub cfg sub a b
  | .scaledId => sidAddSub cfg sub a b
  | .matrix => matAddSub sub a b
  | _ => .ok (linAddSub sub a b)

/-- `_wrap_add_sub` around the method of `type(a)` -/
def wrapAddSub (cfg : Cfg) (sub : Bool) (a b : Obj α) : Except Err (Obj α) :=
  if !a.sameShape b then .error .shape
  else if b.cls.isSub a.cls then addSubOf cfg a.cls sub a b
  else if a.cls.isSub b.cls then addSubOf cfg b.cls sub a b
  else if b.cls.isLinop then .ok (linAddSub sub a b)
  else opAddSub sub a b

/-- `a + b` / `a - b` as Python evaluates it (including the priority of the reflected method of a
    right operand whose class is a proper subclass of the left operand's class) -/
def addSub (cfg : Cfg) (sub : Bool) (a b : Obj α) : Except Err (Obj α) :=
  if b.cls = .matrix && (a.cls = .op || a.cls = .linop) then
    -- MatrixOperator.__radd__: self + other;  __rsub__: -self + other
    if sub then matAddSub false (matNeg b) a else matAddSub false b a
  else
    match a.cls with
    | .op => opAddSub sub a b
    | .matrix => matAddSub sub a b
    | _ => wrapAddSub cfg sub a b

/-- scalar multiplication `a * c`, `c * a` -/
def smul (cfg : Cfg) (a : Obj α) (c : Scal α) : Except Err (Obj α) :=
  match a.cls.arith with
  | .op => opMul a c
  | .diag => diagMul cfg a c
  | .scaledId => sidMul cfg a c
  | .matrix => matMulS a c
  | _ => linMul a c

/-- `a / c` -/
def sdiv (cfg : Cfg) (a : Obj α) (c : Scal α) : Except Err (Obj α) :=
  match a.cls.arith with
  | .op => opDiv a c
  | .diag => diagDiv cfg a c
  | .scaledId => sidDiv cfg a c
  | .matrix => matDivS a c
  | _ => linDiv a c

/-- `-a`: `MatrixOperator.__neg__`, otherwise `Operator.__neg__ = -1.0 * self` -/
def neg (cfg : Cfg) (a : Obj α) : Except Err (Obj α) :=
  if a.cls = .matrix then .ok (matNeg a) else smul cfg a ⟨-1, .pyFloat⟩

/-- `LinearOperator.__call__(x)` for an operator `x` -/
def linCall (cfg : Cfg) (a b : Obj α) : Except Err (Obj α) :=
  if b.cls.isLinop then linComp a b else opComp cfg a b

/-- `a(b)` -/
def call (cfg : Cfg) (a b : Obj α) : Except Err (Obj α) :=
  match a.cls with
  | .op => opComp cfg a b
  | .matrix => matCall cfg a b
  | _ => linCall cfg a b

/-- `Diagonal.__matmul__` -/
def diagMatmul (cfg : Cfg) (a b : Obj α) : Except Err (Obj α) :=
  if b.cls.isSub .diag then
    if (if cfg.diagKeep then a.md.inShape = b.md.outShape else a.sameShape b) then
      let (da, sa, ta) := a.diagonal
      let (db, sb, tb) := b.diagonal
      match bshapeS sa sb with
      | .error e => .error e
      | .ok sh =>
        rediag cfg (fun i => da (bidxS sh sa i) * db (bidxS sh sb i)) sh (resultType ta tb)
          b.md.inShape none
    else .error .shape
  else linCall cfg a b

/-- `ScaledIdentity.__matmul__` -/
def sidMatmul (cfg : Cfg) (a b : Obj α) : Except Err (Obj α) :=
  if b.cls.isSub .diag then
    if !(if cfg.diagKeep then a.md.inShape = b.md.outShape else a.sameShape b) then .error .shape
    else if b.cls.isSub .scaledId then
      .ok (mkSid cfg (a.dat 0 * b.dat 0) (.strong (resultType a.md.datDt b.md.datDt))
        a.md.inShape a.md.inDt)
    else
      let (db, sb, tb) := b.diagonal
      rediag cfg (fun i => a.dat 0 * db i) sb (resultType a.md.datDt tb) b.md.inShape none
  else linCall cfg a b

/-- `a @ b` as Python evaluates it -/
def matmul (cfg : Cfg) (a b : Obj α) : Except Err (Obj α) :=
  if a.cls = .op then
    -- Operator has no __matmul__: only the reflected method of the right operand is tried
    if b.cls = .ident then
      if cfg.identChk && a.md.inShape ≠ b.md.outShape then .error .shape else .ok a
    else if b.cls.isLinop then .error .notimpl
    else .error .type
  else if b.cls = .ident && (a.cls = .linop || a.cls = .diag || a.cls = .scaledId) then
    -- Identity is a proper subclass overriding __rmatmul__: tried first
    if cfg.identChk && a.md.inShape ≠ b.md.outShape then .error .shape else .ok a
  else
    match a.cls with
    | .ident =>
      if cfg.identChk && a.md.inShape ≠ b.md.outShape then .error .shape else .ok b
    | .scaledId => sidMatmul cfg a b
    | .diag => diagMatmul cfg a b
    | _ => call cfg a b

def opT (cfg : Cfg) (a : Obj α) : Except Err (Obj α) :=
  match a.cls with
  | .op => .error .other       -- AttributeError
  | .matrix => .ok (matTop a)
  | .diag | .scaledId | .ident => .ok (diagT cfg a)
  | _ => .ok (linT a)

def opH (cfg : Cfg) (a : Obj α) : Except Err (Obj α) :=
  match a.cls with
  | .op => .error .other
  | .matrix => .ok (matHop a)
  | .diag | .scaledId | .ident => diagH cfg a
  | _ => .ok (linH a)

def opConj (cfg : Cfg) (a : Obj α) : Except Err (Obj α) :=
  match a.cls with
  | .op => .error .other
  | .matrix => .ok (matConjOp a)
  | .diag | .scaledId | .ident => diagConj cfg a
  | _ => .ok (linConj a)

def opGram (cfg : Cfg) (a : Obj α) : Except Err (Obj α) :=
  match a.cls with
  | .op => .error .other
  | .matrix => .ok (matGram a)
  | .diag | .scaledId | .ident => diagGram cfg a
  | _ => .ok (linGram cfg a)


end ops

/-! ### stacks (`scico/operator/_stack.py`, `scico/linop/_stack.py`)

`VerticalStack`, `DiagonalStack` at the level of built objects: the operands are arbitrary operator
objects (whatever `build` produced for their expressions).  Arrays are flattened, so a stacked array
`(N, *S)` and the block array `(S, …, S)` have the same representation — the collapse flags only
change the declared shapes.  For dispatch the stack classes behave like `LinearOperator` /
`Operator` (they override no arithmetic), which is the class recorded in `Meta`. -/

section stacks
variable {α : Type} [Add α] [Sub α] [Mul α] [Div α] [Neg α] [Zero α] [One α] [HasConj α] [HasRe α]

/-- `is_collapsible` (after repo commit 46ad4b6: a nested first shape is not collapsible) -/
def isCollapsibleS : List Shape → Bool
  | [] => true
  | s :: rest => !s.isNested && rest.all (· = s)

def plainDims : Shape → List Nat
  | .plain d => d
  | .nested _ => []

/-- `collapse_shapes(shapes, allow_collapse)` → `(shape, collapsed)`; twice-nested: `ValueError` -/
def collapseS (shapes : List Shape) (allow : Bool) : Except Err (Shape × Bool) :=
  if isCollapsibleS shapes && allow then
    match shapes with
    | .plain d :: _ => .ok (.plain (shapes.length :: d), true)
    | _ => .error .shape
  else if shapes.all (fun s => !s.isNested) then .ok (.nested (shapes.map plainDims), false)
  else .error .shape

/-- block `[off, off+m)` of a flattened (stacked or block) array -/
@[noinline] def vslice (off m : Nat) (x : Vc α) : Vc α := trunc m (fun i => x.get (off + i))

/-- concatenation of a block of size `m` and a block of size `k` -/
@[noinline] def vappend (m k : Nat) (u v : Vc α) : Vc α :=
  trunc (m + k) (fun i => if i < m then u.get i else v.get (i - m))

def sumM : List (Obj α) → Nat
  | [] => 0
  | o :: os => o.m + sumM os

def sumN : List (Obj α) → Nat
  | [] => 0
  | o :: os => o.n + sumN os

/-- `VerticalStack._eval`: `stack / BlockArray([op(x) for op in ops])` -/
def vstackEval : List (Obj α) → Vc α → Vc α
  | [], _ => zeroV
  | o :: os, x => vappend o.m (sumM os) (o.eval x) (vstackEval os x)

/-- `linop.VerticalStack._adj`: `sum([op.adj(y_block) for y_block, op in zip(y, ops)])`
    (`off` = offset of the current block in the flattened `y`) -/
def vstackAdj (n : Nat) : List (Obj α) → Nat → Vc α → Vc α
  | [], _, _ => trunc n (fun _ => 0)
  | o :: os, off, y =>
    vzip n (fun s t => s + t) (o.adj (vslice off o.m y)) (vstackAdj n os (off + o.m) y)

/-- `DiagonalStack._eval`: `tuple(op(x_n) for op, x_n in zip(ops, x))`, stacked or blocked -/
def dstackEval : List (Obj α) → Nat → Vc α → Vc α
  | [], _, _ => zeroV
  | o :: os, off, x =>
    vappend o.m (sumM os) (o.eval (vslice off o.n x)) (dstackEval os (off + o.n) x)

/-- `linop.DiagonalStack._adj`: `tuple(op.adj(y_n) for op, y_n in zip(ops, y))` -/
def dstackAdj : List (Obj α) → Nat → Vc α → Vc α
  | [], _, _ => zeroV
  | o :: os, off, y =>
    vappend o.n (sumN os) (o.adj (vslice off o.m y)) (dstackAdj os (off + o.m) y)

/-- dtype of `snp.stack(results)` (promotion) / of `BlockArray(results)` (all equal, else
    `ValueError: Heterogeneous dtypes not supported`) -/
def joinDts (stacked : Bool) : List (Except Err DT) → Except Err DT
  | [] => .error .other
  | [r] => r
  | r :: rest => do
    let d ← r
    let d' ← joinDts stacked rest
    if stacked then pure (resultType d d') else if d = d' then pure d else .error .dtype

/-- dtype of `sum([...])` (Python `sum` starts from the weak integer `0`) -/
def sumDts : List (Except Err DT) → Except Err DT
  | [] => .error .other
  | [r] => r
  | r :: rest => do let d ← r; let d' ← sumDts rest; pure (resultType d d')

/-- `linop.VerticalStack(ops, collapse_output)` (`lin = true`) / `operator.VerticalStack` (`lin = false`);
    the empty list (Python: `IndexError`) is reported as `other` -/
def vstack (lin : Bool) (ops : List (Obj α)) (collapse : Bool) : Except Err (Obj α) :=
  match ops with
  | [] => .error .other
  | o0 :: _ =>
    if lin && ops.any (fun o => o.md.cls = .op) then .error .type
    else if !(ops.all (fun o => o.md.inShape = o0.md.inShape)) then .error .shape
    else if !(ops.all (fun o => o.md.inDt = o0.md.inDt)) then .error .dtype
    else if ops.any (fun o => o.md.outShape.isNested) then .error .shape
    else if !(ops.all (fun o => o.md.outDt = o0.md.outDt)) then .error .dtype
    else
      let outs := ops.map (fun o => o.md.outShape)
      let collapsed := isCollapsibleS outs && collapse
      let outSh : Shape :=
        if collapsed then .plain (ops.length :: plainDims o0.md.outShape)
        else .nested (outs.map plainDims)
      let evalDt : DtFn := fun dx => joinDts collapsed (ops.map (fun o => o.evalDt dx))
      if lin then
        .ok (mkLin .linop o0.md.inShape outSh o0.md.inDt o0.md.outDt
          (vstackEval ops) (fun y => vstackAdj o0.n ops 0 y) evalDt
          (fun dy => sumDts (ops.map (fun o => o.adjCallDt dy))))
      else .ok (mkOp o0.md.inShape outSh o0.md.inDt o0.md.outDt (vstackEval ops) evalDt)

/-- `linop.DiagonalStack(ops, collapse_input, collapse_output)` / `operator.DiagonalStack` -/
def dstack (lin : Bool) (ops : List (Obj α)) (collapseIn collapseOut : Bool) : Except Err (Obj α) :=
  match ops with
  | [] => .error .other
  | o0 :: _ =>
    if lin && ops.any (fun o => o.md.cls = .op) then .error .type
    else if ops.any (fun o => o.md.outShape.isNested) then .error .shape
    else if !(ops.all (fun o => o.md.inDt = o0.md.inDt)) then .error .dtype
    else if !(ops.all (fun o => o.md.outDt = o0.md.outDt)) then .error .dtype
    else
      match collapseS (ops.map (fun o => o.md.inShape)) collapseIn with
      | .error e => .error e
      | .ok (inSh, cIn) =>
        match collapseS (ops.map (fun o => o.md.outShape)) collapseOut with
        | .error e => .error e
        | .ok (outSh, cOut) =>
          let evalDt : DtFn := fun dx => joinDts cOut (ops.map (fun o => o.evalDt dx))
          if lin then
            .ok (mkLin .linop inSh outSh o0.md.inDt o0.md.outDt
              (fun x => dstackEval ops 0 x) (fun y => dstackAdj ops 0 y) evalDt
              (fun dy => joinDts cIn (ops.map (fun o => o.adjCallDt dy))))
          else .ok (mkOp inSh outSh o0.md.inDt o0.md.outDt (fun x => dstackEval ops 0 x) evalDt)

/-- SPECIFICATION: vertical concatenation of the operands' matrices -/
def vcatMx : List (Obj α) → List (Mx α) → Mx α
  | o :: os, D :: Ds => fun i j => if i < o.m then D i j else vcatMx os Ds (i - o.m) j
  | _, _ => fun _ _ => 0

/-- SPECIFICATION: block-diagonal matrix of the operands' matrices -/
def bdiagMx : List (Obj α) → List (Mx α) → Mx α
  | o :: os, D :: Ds => fun i j =>
    if i < o.m then (if j < o.n then D i j else 0)
    else (if j < o.n then 0 else bdiagMx os Ds (i - o.m) (j - o.n))
  | _, _ => fun _ _ => 0

end stacks

/-! ### `Operator.freeze`, `Function.slice`, `Function.join` (`operator/_operator.py`, `function.py`) -/

section freeze
variable {α : Type} [Add α] [Sub α] [Mul α] [Div α] [Neg α] [Zero α] [One α] [HasConj α] [HasRe α]

/-- Python index normalisation: an index in `[-N, N)` ↦ position (`none`: out of range) -/
def normIdx (N : Nat) (k : Int) : Option Nat :=
  if k < -(N : Int) ∨ k ≥ (N : Int) then none
  else some (if k < 0 then (k + N).toNat else k.toNat)

/-- flat offset of block `p` -/
def offsetOf (bs : List (List Nat)) (p : Nat) : Nat := ((bs.take p).map prodL).foldr (· + ·) 0

/-- the flattened block array with block `v` (size `sz`) inserted at flat offset `off` -/
@[noinline] def vinsert (n off sz : Nat) (v x : Vc α) : Vc α :=
  trunc n (fun i => if i < off then x.get i else if i < off + sz then v.get (i - off) else x.get (i - sz))

/-- shape of the remaining blocks: a plain shape when exactly one block remains -/
def restShape (rest : List (List Nat)) : Shape :=
  match rest with
  | [b] => .plain b
  | _ => .nested rest

/-- `Operator.freeze(argnum, val)` (after repo commit ed13728: negative `argnum` normalised, below
    `-N` rejected); `valSh`, `valDt` = shape and dtype of `val` -/
def freeze (o : Obj α) (k : Int) (valSh : Shape) (valDt : DT) (val : Vc α) : Except Err (Obj α) :=
  match o.md.inShape with
  | .plain _ => .error .value
  | .nested bs =>
    match normIdx bs.length k with
    | none => .error .value
    | some p =>
      if valSh ≠ .plain (bs.getD p []) then .error .shape
      else
        .ok (mkOp (restShape (bs.eraseIdx p)) o.md.outShape o.md.inDt o.md.outDt
          (fun x => o.eval (vinsert o.n (offsetOf bs p) (prodL (bs.getD p [])) val x))
          (fun dx => if dx = valDt then o.evalDt dx else .error .dtype))

/-- a `scico.function.Function`: several array parameters -/
structure Fn (α : Type) where
  inShapes : List Shape
  inDts : List DT
  outShape : Shape
  outDt : DT
  /-- `_eval(*args)` on the list of (flattened) arguments -/
  eval : List (Vc α) → Vc α
  evalDt : List DT → Except Err DT

/-- `Function.slice(index, *fix_args)` (after ed13728); an out-of-range index is `IndexError`
    (reported as `other`) -/
def Fn.slice (f : Fn α) (k : Int) (fixArgs : List (Vc α)) (fixDts : List DT) : Except Err (Obj α) :=
  match normIdx f.inShapes.length k with
  | none => .error .other
  | some p =>
    .ok (mkOp (f.inShapes.getD p (.plain [])) f.outShape (f.inDts.getD p .f32) f.outDt
      (fun x => f.eval (fixArgs.take p ++ x :: fixArgs.drop p))
      (fun dx => f.evalDt (fixDts.take p ++ dx :: fixDts.drop p)))

/-- split a flattened block array into its blocks -/
def splitBlocks : List Nat → Nat → Vc α → List (Vc α)
  | [], _, _ => []
  | sz :: rest, off, x => vslice off sz x :: splitBlocks rest (off + sz) x

/-- `Function.join()`: one BlockArray input (parameters with plain shapes) -/
def Fn.join (f : Fn α) : Except Err (Obj α) :=
  match f.inDts with
  | [] => .error .other
  | d0 :: ds =>
    if !(ds.all (· = d0)) then .error .dtype
    else
      .ok (mkOp (.nested (f.inShapes.map plainDims)) f.outShape d0 f.outDt
        (fun x => f.eval (splitBlocks (f.inShapes.map Shape.size) 0 x))
        (fun dx => f.evalDt (f.inDts.map (fun _ => dx))))

end freeze


/-! ### `DiagonalReplicated` (`operator/_stack.py`, `linop/_stack.py`; after repo commit 9420b1a) -/

section drep
variable {α : Type} [Add α] [Sub α] [Mul α] [Div α] [Neg α] [Zero α] [One α] [HasConj α] [HasRe α]

/-- axis normalisation of `DiagonalReplicated`: `ax ∈ [-(d+1), d]` ↦ position in `[0, d]`
    (`d` = number of axes of the operand's shape) -/
def normAxis (d : Nat) (ax : Int) : Option Nat :=
  let a := if ax < 0 then (d : Int) + 1 + ax else ax
  if a < 0 ∨ a > (d : Int) then none else some a.toNat

/-- `shape[0:a] + (N,) + shape[a:]` -/
def insertDim (dims : List Nat) (a N : Nat) : List Nat := dims.take a ++ N :: dims.drop a

/-- flat index, in the array with the replicate axis (`N` replicates, `P` = number of elements behind
    the axis), of entry `r` of replicate `k` -/
def joinIdx (N P k r : Nat) : Nat := ((r / P) * N + k) * P + r % P
/-- replicate number / inner flat index of flat index `t` -/
def repK (N P t : Nat) : Nat := (t / P) % N
def repRest (N P t : Nat) : Nat := (t / (N * P)) * P + t % P

/-- replicate `k` of the flattened input (`jax.vmap` `in_axes`) -/
@[noinline] def vtake (n N P k : Nat) (x : Vc α) : Vc α := trunc n (fun j => x.get (joinIdx N P k j))
/-- stack the `N` results along the replicate axis (`jax.vmap` `out_axes`) -/
@[noinline] def vgather (tot N P : Nat) (ys : List (Vc α)) : Vc α :=
  trunc tot (fun t => (ys.getD (repK N P t) zeroV).get (repRest N P t))

def axesOf : Shape → Nat
  | .plain d => d.length
  | .nested bs => bs.length

/-- `linop.DiagonalReplicated(op, N, input_axis, output_axis)` (`lin = true`) /
    `operator.DiagonalReplicated` (`lin = false`) with `map_type = "vmap"` -/
def drep (lin : Bool) (o : Obj α) (N : Nat) (ia : Int) (oa : Option Int) : Except Err (Obj α) :=
  if lin && o.md.cls = .op then .error .type
  else
    match normAxis (axesOf o.md.inShape) ia with
    | none => .error .shape
    | some a =>
      match o.md.inShape, o.md.outShape with
      | .nested _, _ => .error .value
      | .plain _, .nested _ => .error .value
      | .plain din, .plain dout =>
        let b? : Option Nat := match oa with
          | none => if a > dout.length then none else some a
          | some ax => normAxis dout.length ax
        match b? with
        | none => .error .shape
        | some b =>
          let pin := prodL (din.drop a)
          let pout := prodL (dout.drop b)
          let ev : Vc α → Vc α := fun x =>
            vgather (N * o.m) N pout ((List.range N).map (fun k => o.eval (vtake o.n N pin k x)))
          let ad : Vc α → Vc α := fun y =>
            vgather (N * o.n) N pin ((List.range N).map (fun k => o.adj (vtake o.m N pout k y)))
          if lin then
            .ok (mkLin .linop (.plain (insertDim din a N)) (.plain (insertDim dout b N)) o.md.inDt o.md.outDt
              ev ad o.evalDt o.adjCallDt)
          else .ok (mkOp (.plain (insertDim din a N)) (.plain (insertDim dout b N)) o.md.inDt o.md.outDt ev o.evalDt)

end drep

/-! ### closed-form arithmetic of `Convolve` (`scico/linop/_convolve.py:82-136`), same-class operands

`Convolve(h, input_shape=(n,), mode)` on one axis, evaluated by `Scico.LinOps.convEval` (the model of
`jax.scipy.signal.convolve` of engine LinOps, read-only).  `A ± B`, `c·A`, `A/c` build a new `Convolve`
whose filter is the combination of the filters. -/

section convarith
variable {α : Type} [Add α] [Sub α] [Mul α] [Div α] [Neg α] [Zero α] [One α] [HasConj α] [HasRe α]

structure ConvOp (α : Type) where
  h : Nat → α
  /-- filter length -/
  k : Nat
  /-- input length -/
  n : Nat
  mode : Scico.LinOps.ConvMode
  inDt : DT
  /-- dtype of the filter array -/
  hDt : DT

def ConvOp.outLen (c : ConvOp α) : Nat := Scico.LinOps.convLen c.mode c.n c.k
/-- `output_dtype = result_type(input_dtype, h.dtype)` -/
def ConvOp.outDt (c : ConvOp α) : DT := resultType c.inDt c.hDt
/-- `_eval = convolve(x, h, mode)` -/
def ConvOp.eval (c : ConvOp α) (x : Nat → α) : Nat → α := Scico.LinOps.convEval c.mode c.h c.k x c.n

/-- `Convolve.__add__/__sub__` behind `_wrap_add_sub` (operand of the same class): operator shapes,
    then modes (`ValueError: Incompatible modes`), then filter shapes -/
def ConvOp.addSub (sub : Bool) (a b : ConvOp α) : Except Err (ConvOp α) :=
  if a.n ≠ b.n ∨ a.outLen ≠ b.outLen then .error .shape
  else if a.mode ≠ b.mode then .error .value
  else if a.k ≠ b.k then .error .shape
  else .ok { h := fun i => pm sub (a.h i) (b.h i), k := a.k, n := a.n, mode := a.mode
             inDt := resultType a.inDt b.inDt, hDt := resultType a.hDt b.hDt }

/-- `Convolve.__mul__/__rmul__` (`h * scalar`; `input_dtype = result_type(input_dtype, scalar)`, see the
    finding `convolve-jax-scalar` for the pinned `type(scalar)`) -/
def ConvOp.smul (a : ConvOp α) (c : Scal α) : Except Err (ConvOp α) :=
  if c.kind.isScalarEquiv then
    .ok { a with h := fun i => a.h i * c.val, inDt := resultTypeS a.inDt c.kind.sk, hDt := resultTypeS a.hDt c.kind.sk }
  else .error .type

/-- `Convolve.__truediv__` -/
def ConvOp.sdiv (a : ConvOp α) (c : Scal α) : Except Err (ConvOp α) :=
  if c.kind.isScalarEquiv then
    .ok { a with h := fun i => a.h i / c.val, inDt := resultTypeS a.inDt c.kind.sk, hDt := resultTypeS a.hDt c.kind.sk }
  else .error .type

end convarith

/-! ### expressions -/

/-- operator expressions; leaves carry real scico constructor arguments -/
inductive LExpr (α : Type) where
  /-- `MatrixOperator(A)`, `A` an `m × n` array of dtype `dt` -/
  | mat (m n : Nat) (dt : DT) (A : Mx α)
  /-- `Diagonal(d, input_shape, input_dtype)`, `d` of shape `dsh`, dtype `ddt` -/
  | diag (dsh : Shape) (ddt : DT) (inSh : Option Shape) (inDt : Option DT) (d : V α)
  /-- `ScaledIdentity(c, input_shape, input_dtype)` -/
  | scaledId (c : α) (ck : ScalKind) (sh : Shape) (dt : DT)
  /-- `Identity(input_shape, input_dtype)` -/
  | ident (sh : Shape) (dt : DT)
  /-- `LinearOperator(inSh, outSh, eval_fn = x ↦ G x, adj_fn = (y ↦ Gᴴ y) or None, inDt,
      output_dtype = result_type(gDt, inDt))` (acting on flattened arrays) -/
  | lin (inSh outSh : Shape) (inDt gDt : DT) (hasAdj : Bool) (G : Mx α)
  /-- `Operator(inSh, outSh, eval_fn = x ↦ (G x)², inDt, result_type(gDt, inDt))` -/
  | nonlin (inSh outSh : Shape) (inDt gDt : DT) (G : Mx α)
  | add (a b : LExpr α)
  | sub (a b : LExpr α)
  | neg (a : LExpr α)
  /-- `c * a` -/
  | smulL (c : Scal α) (a : LExpr α)
  /-- `a * c` -/
  | smulR (a : LExpr α) (c : Scal α)
  /-- `a / c` -/
  | sdiv (a : LExpr α) (c : Scal α)
  /-- `c / a` (element-wise, `MatrixOperator` only) -/
  | rdiv (c : Scal α) (a : LExpr α)
  /-- `a + c`, `a - c`, `c + a`, `c - a` for a non-operator `c` (element-wise, `MatrixOperator` only) -/
  | addS (sub rev : Bool) (a : LExpr α) (c : Scal α)
  /-- `a * b`, `a / b` for two operators (element-wise, `MatrixOperator` only) -/
  | had (div : Bool) (a b : LExpr α)
  /-- `a(b)` -/
  | comp (a b : LExpr α)
  /-- `a @ b` -/
  | matmul (a b : LExpr α)
  | T (a : LExpr α)
  | H (a : LExpr α)
  | conj (a : LExpr α)
  | gram (a : LExpr α)

section interp
variable {α : Type} [Add α] [Sub α] [Mul α] [Div α] [Neg α] [Zero α] [One α] [HasConj α] [HasRe α]

/-- leaf `lin` -/
def mkLinLeaf (inSh outSh : Shape) (inDt gDt : DT) (hasAdj : Bool) (G : Mx α) : Obj α :=
  let n := inSh.size
  let m := outSh.size
  let G' := truncM m n G
  let eval : Vc α → Vc α := fun x => vmulVec m n G' (vtrunc n x)
  let evalDt : DtFn := fun dx => .ok (resultType gDt dx)
  let outDt := resultType gDt inDt
  if hasAdj then
    mkLin .linop inSh outSh inDt outDt eval
      (fun y =>
        if inDt.isComplex then vmulVecH m n G' (vtrunc m y)
        else vmap n re (vmulVecH m n G' (vtrunc m y)))
      evalDt
      (fun dy => .ok (if inDt.isComplex then resultType gDt dy else (resultType gDt dy).toReal))
  else mkLinAuto inSh outSh inDt outDt eval evalDt

/-- leaf `nonlin` -/
def mkNonlinLeaf (inSh outSh : Shape) (inDt gDt : DT) (G : Mx α) : Obj α :=
  let n := inSh.size
  let m := outSh.size
  let G' := truncM m n G
  mkOp inSh outSh inDt (resultType gDt inDt)
    (fun x => vmap m (fun t => t * t) (vmulVec m n G' (vtrunc n x)))
    (fun dx => .ok (resultType gDt dx))

/-- non-operator operand where an operator is required / operator where a scalar is required, for
    the classes that do not implement element-wise arithmetic -/
def buildC (cfg : Cfg) : LExpr α → Except Err (Obj α)
  | .mat m n dt A => .ok (mkMat m n dt A)
  | .diag dsh ddt inSh? inDt? d => mkDiag cfg d dsh ddt (inSh?.getD dsh) (inDt?.getD ddt)
  | .scaledId c ck sh dt => .ok (mkSid cfg c ck.sk sh dt)
  | .ident sh dt => .ok (mkIdent sh dt)
  | .lin inSh outSh inDt gDt hasAdj G => .ok (mkLinLeaf inSh outSh inDt gDt hasAdj G)
  | .nonlin inSh outSh inDt gDt G => .ok (mkNonlinLeaf inSh outSh inDt gDt G)
  | .add a b => do let oa ← buildC cfg a; let ob ← buildC cfg b; addSub cfg false oa ob
  | .sub a b => do let oa ← buildC cfg a; let ob ← buildC cfg b; addSub cfg true oa ob
  | .neg a => do let oa ← buildC cfg a; neg cfg oa
  | .smulL c a => do let oa ← buildC cfg a; smul cfg oa c
  | .smulR a c => do let oa ← buildC cfg a; smul cfg oa c
  | .sdiv a c => do let oa ← buildC cfg a; sdiv cfg oa c
  | .rdiv c a => do
      let oa ← buildC cfg a
      if oa.cls = .matrix then matRDivS oa c else .error .type
  | .addS sub rev a c => do
      let oa ← buildC cfg a
      if oa.cls = .matrix then matAddSubS sub rev oa c else .error .type
  | .had div a b => do
      let oa ← buildC cfg a; let ob ← buildC cfg b
      if oa.cls = .matrix then matHadamard div oa ob else .error .type
  | .comp a b => do let oa ← buildC cfg a; let ob ← buildC cfg b; call cfg oa ob
  | .matmul a b => do let oa ← buildC cfg a; let ob ← buildC cfg b; matmul cfg oa ob
  | .T a => do let oa ← buildC cfg a; opT cfg oa
  | .H a => do let oa ← buildC cfg a; opH cfg oa
  | .conj a => do let oa ← buildC cfg a; opConj cfg oa
  | .gram a => do let oa ← buildC cfg a; opGram cfg oa

/-- what scico DECLARES -/
def inferC (cfg : Cfg) (e : LExpr α) : Except Err Meta := (buildC cfg e).map (·.md)

/-- what scico COMPUTES -/
def runC (cfg : Cfg) (e : LExpr α) : Impl α :=
  match buildC cfg e with
  | .ok o => o.impl
  | .error _ => default

/-- the repaired tree -/
def build (e : LExpr α) : Except Err (Obj α) := buildC Cfg.fixed e
def infer (e : LExpr α) : Except Err Meta := inferC Cfg.fixed e
def run (e : LExpr α) : Impl α := runC Cfg.fixed e


/-- the operands of a stack, built left to right (the first rejection wins) -/
def buildAll (cfg : Cfg) : List (LExpr α) → Except Err (List (Obj α))
  | [] => .ok []
  | e :: es => do let o ← buildC cfg e; let os ← buildAll cfg es; pure (o :: os)

/-- `VerticalStack([e₁, …, e_N], collapse_output)` of expressions -/
def buildVStack (lin : Bool) (es : List (LExpr α)) (collapse : Bool) : Except Err (Obj α) := do
  let os ← buildAll Cfg.fixed es
  vstack lin os collapse

/-- `DiagonalStack([e₁, …, e_N], collapse_input, collapse_output)` of expressions -/
def buildDStack (lin : Bool) (es : List (LExpr α)) (cIn cOut : Bool) : Except Err (Obj α) := do
  let os ← buildAll Cfg.fixed es
  dstack lin os cIn cOut

/-! ### the specification: the same construction on dense matrices -/

/-- `(rows, columns)` of the denoted matrix -/
def dims : LExpr α → Nat × Nat
  | .mat m n _ _ => (m, n)
  | .diag dsh _ inSh? _ _ =>
    let inSh := inSh?.getD dsh
    match bshapeS inSh dsh with
    | .ok out => (out.size, inSh.size)
    | .error _ => (0, inSh.size)
  | .scaledId _ _ sh _ => (sh.size, sh.size)
  | .ident sh _ => (sh.size, sh.size)
  | .lin inSh outSh _ _ _ _ => (outSh.size, inSh.size)
  | .nonlin inSh outSh _ _ _ => (outSh.size, inSh.size)
  | .add a _ => dims a
  | .sub a _ => dims a
  | .neg a => dims a
  | .smulL _ a => dims a
  | .smulR a _ => dims a
  | .sdiv a _ => dims a
  | .rdiv _ a => dims a
  | .addS _ _ a _ => dims a
  | .had _ a _ => dims a
  | .comp a b => ((dims a).1, (dims b).2)
  | .matmul a b => ((dims a).1, (dims b).2)
  | .T a => ((dims a).2, (dims a).1)
  | .H a => ((dims a).2, (dims a).1)
  | .conj a => dims a
  | .gram a => ((dims a).2, (dims a).2)

/-- the dense matrix an expression denotes (meaningful for expressions without `nonlin` leaves) -/
def den : LExpr α → Mx α
  | .mat m n _ A => (truncM m n A).get
  | .diag dsh _ inSh? _ d =>
    let inSh := inSh?.getD dsh
    match bshapeS inSh dsh with
    | .ok out => fun i j =>
        if i < out.size ∧ j < inSh.size ∧ bidxS out inSh i = j
        then (trunc dsh.size d).get (bidxS out dsh i) else 0
    | .error _ => fun _ _ => 0
  | .scaledId c _ sh _ => fun i j => if i = j ∧ i < sh.size then c else 0
  | .ident sh _ => fun i j => if i = j ∧ i < sh.size then 1 else 0
  | .lin inSh outSh _ _ _ G => (truncM outSh.size inSh.size G).get
  | .nonlin _ _ _ _ _ => fun _ _ => 0
  | .add a b => fun i j => den a i j + den b i j
  | .sub a b => fun i j => den a i j - den b i j
  | .neg a => fun i j => - den a i j
  | .smulL c a => fun i j => c.val * den a i j
  | .smulR a c => fun i j => c.val * den a i j
  | .sdiv a c => fun i j => den a i j / c.val
  | .rdiv c a => (truncM (dims a).1 (dims a).2 (fun i j => c.val / den a i j)).get
  | .addS sub rev a c =>
    (truncM (dims a).1 (dims a).2
      (fun i j => if rev then pm sub c.val (den a i j) else pm sub (den a i j) c.val)).get
  | .had div a b => fun i j => if div then den a i j / den b i j else den a i j * den b i j
  | .comp a b => matMul (dims a).2 (den a) (den b)
  | .matmul a b => matMul (dims a).2 (den a) (den b)
  | .T a => matT (den a)
  | .H a => matH (den a)
  | .conj a => matConj (den a)
  | .gram a => matMul (dims a).1 (matH (den a)) (den a)

/-- the pointwise denotation (covers non-linear leaves): `(A+B)(x) = A(x)+B(x)`, `(cA)(x) = c·A(x)`,
    `(A∘B)(x) = A(B(x))`; transposes / Gram operators act through the dense matrix -/
def denF : LExpr α → V α → V α
  | .nonlin inSh outSh _ _ G => fun x =>
    let u := mulVec inSh.size (truncM outSh.size inSh.size G).get x
    (trunc outSh.size (fun i => u i * u i)).get
  | .add a b => fun x i => denF a x i + denF b x i
  | .sub a b => fun x i => denF a x i - denF b x i
  | .neg a => fun x i => - denF a x i
  | .smulL c a => fun x i => c.val * denF a x i
  | .smulR a c => fun x i => c.val * denF a x i
  | .sdiv a c => fun x i => denF a x i / c.val
  | .comp a b => fun x => denF a (denF b x)
  | .matmul a b => fun x => denF a (denF b x)
  | e => fun x => mulVec (dims e).2 (den e) x

end interp

end Scico.OpAlg
