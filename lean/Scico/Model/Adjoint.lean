/-
  Adjoint engine (property C01): executable model of how scico BUILDS adjoints.   Mathlib-free.

  Source map (scico/…):
    linop/_linop.py   LinearOperator.__add__/__sub__/__mul__/__truediv__/__neg__ → Op.add/sub/smul/sdiv/neg
                      ComposedLinearOperator                                     → Op.comp
                      .T (both dtype branches) / .H / .conj() / .gram_op         → Op.tr / Op.herm / Op.cj / Op.gram
    linop/_stack.py   VerticalStack._adj  (Σ op.adj(y_block))                    → Op.vcons / Op.vnil
                      DiagonalStack._adj  (blockwise op.adj)                     → Op.dcons / Op.dnil
                      DiagonalReplicated  (vmap over input_axis / output_axis)   → Op.drep
    linop/_matrix.py  MatrixOperator.__call__/adj                                → Op.mat
    linop/_circconv.py CircularConvolve._eval/_adj (signal domain, batch axis)   → circConv / circCorr / Op.circ / Op.circBatch
    linop/xray/_xray.py  .at[idx].add (drop) / .at[idx].get(mode="fill") (repo e359064) → scatterAddDrop / gatherFill0 (Op.scatFill);
                         the pinned back-projectors `y[idx]` (clamp)             → gatherAt / clampIdx (Op.scatClamp, historical)
    _autograd.py      linear_adjoint (three branches)                            → linearAdjoint

  Vectors are size-erased (`Nat → α`, dimensions kept in the operator record), so that no dependent cast
  appears in the induction over derivation trees.  N-d arrays / BlockArrays are identified with their
  row-major / block-concatenated flattening.

  The same definitions run at `Cx Float` in the driver (Drv/Adjoint.lean) and are reasoned about over a
  field with an involution (`ℝ`, `ℂ`) in Scico/Proofs/Adjoint*.lean.
-/

namespace Scico.Adjoint

/-- conjugation as an operation (`star` in the proofs, complex conjugate of `Cx Float` at run time) -/
class HasConj (α : Type) where
  conj : α → α

export HasConj (conj)

/-- size-erased vectors -/
abbrev V (α : Type) := Nat → α

section basic
variable {α : Type}

/-- `Σ_{i<n} f i`, left to right -/
def sumTo [Add α] [Zero α] : Nat → (Nat → α) → α
  | 0, _ => 0
  | n + 1, f => sumTo n f + f n

/-- `⟪u, w⟫ = Σ_{i<n} u i * conj (w i)` (what `valid_adjoint` computes: `sum(y.conj() * u)`) -/
def ip [Add α] [Mul α] [Zero α] [HasConj α] (n : Nat) (u w : V α) : α :=
  sumTo n (fun i => u i * conj (w i))

/-- unconjugated pairing `Σ u i * w i` (for the transpose view) -/
def bp [Add α] [Mul α] [Zero α] (n : Nat) (u w : V α) : α :=
  sumTo n (fun i => u i * w i)

def vconj [HasConj α] (x : V α) : V α := fun i => conj (x i)
def vadd [Add α] (x y : V α) : V α := fun i => x i + y i
def vsub [Sub α] (x y : V α) : V α := fun i => x i - y i
def vsmul [Mul α] (c : α) (x : V α) : V α := fun i => c * x i
def vsdiv [Div α] (x : V α) (c : α) : V α := fun i => x i / c
def vzero [Zero α] : V α := fun _ => 0
/-- basis vector -/
def basis [Zero α] [One α] (j : Nat) : V α := fun i => if i = j then 1 else 0
/-- first `n` entries from `u`, the rest from `w` shifted: block concatenation -/
def vappend (n : Nat) (u w : V α) : V α := fun i => if i < n then u i else w (i - n)
/-- drop the first `n` entries -/
def vdrop (n : Nat) (y : V α) : V α := fun i => y (n + i)

end basic

/-- An operator as scico holds it: declared sizes and the two closures. -/
structure Op (α : Type) where
  nin : Nat
  nout : Nat
  eval : V α → V α
  adj : V α → V α

namespace Op
variable {α : Type}

/-- `x ↦ M x` for a matrix with `n` columns -/
def _root_.Scico.Adjoint.mulVec [Add α] [Mul α] [Zero α] (n : Nat) (M : Nat → Nat → α) : V α → V α :=
  fun x i => sumTo n (fun j => M i j * x j)

/-- dense matrix leaf: `MatrixOperator`: `A @ x`, `A.conj().T @ y` -/
def mat [Add α] [Mul α] [Zero α] [HasConj α] (m n : Nat) (M : Nat → Nat → α) : Op α where
  nin := n
  nout := m
  eval := fun x i => sumTo n (fun j => M i j * x j)
  adj := fun y j => sumTo m (fun i => conj (M i j) * y i)

/-- leaf given by two measured closures in (P,Q) form `x ↦ P x + Q conj(x)` (any real-linear map of ℂⁿ) -/
def pqMap [Add α] [Mul α] [Zero α] [HasConj α] (n : Nat) (P Q : Nat → Nat → α) : V α → V α :=
  fun x i => sumTo n (fun j => P i j * x j) + sumTo n (fun j => Q i j * conj (x j))

/-- `LinearOperator.__add__`: `eval_fn = self(x)+other(x)`, `adj_fn = self.adj(x)+other.adj(x)`; shapes of `self` -/
def add [Add α] (A B : Op α) : Op α where
  nin := A.nin
  nout := A.nout
  eval := fun x => vadd (A.eval x) (B.eval x)
  adj := fun y => vadd (A.adj y) (B.adj y)

def sub [Sub α] (A B : Op α) : Op α where
  nin := A.nin
  nout := A.nout
  eval := fun x => vsub (A.eval x) (B.eval x)
  adj := fun y => vsub (A.adj y) (B.adj y)

/-- `__mul__`/`__rmul__`: `eval_fn = other*self(x)`, `adj_fn = self.adj(self._to_output_space(conj(other)*x))`
    (the scalar is applied BEFORE the operand's adjoint — repo 9a89e4c; `_to_output_space` is the identity when scalar
    and output space are of the same kind, for a complex scalar on a real output space see `smulRe`) -/
def smul [Mul α] [HasConj α] (c : α) (A : Op α) : Op α where
  nin := A.nin
  nout := A.nout
  eval := fun x => vsmul c (A.eval x)
  adj := fun y => A.adj (vsmul (conj c) y)

/-- `__truediv__`: `eval_fn = self(x)/other`, `adj_fn = self.adj(self._to_output_space(x/conj(other)))` -/
def sdiv [Div α] [HasConj α] (c : α) (A : Op α) : Op α where
  nin := A.nin
  nout := A.nout
  eval := fun x => vsdiv (A.eval x) c
  adj := fun y => A.adj (vsdiv y (conj c))

/-- `c * A` for a COMPLEX scalar and an operator with a REAL output space (the result maps into a complex space):
    `_to_output_space` keeps the real part, `adj_fn = self.adj(Re(conj(other)*x))`; `re` is the projection on the
    real subfield -/
def smulRe [Mul α] [HasConj α] (re : α → α) (c : α) (A : Op α) : Op α where
  nin := A.nin
  nout := A.nout
  eval := fun x => vsmul c (A.eval x)
  adj := fun y => A.adj (fun i => re (conj c * y i))

/-- `Operator.__neg__`: `-1.0 * self` -/
def neg [Mul α] [Neg α] [One α] [HasConj α] (A : Op α) : Op α := smul (-1) A

/-- `ComposedLinearOperator(A,B)`: `eval_fn = A(B(x))`, `adj_fn = B.adj(A.adj(z))` -/
def comp (A B : Op α) : Op α where
  nin := B.nin
  nout := A.nout
  eval := fun x => A.eval (B.eval x)
  adj := fun z => B.adj (A.adj z)

/-- `.H`: `eval_fn = self.adj`, `adj_fn = self.__call__` -/
def herm (A : Op α) : Op α where
  nin := A.nout
  nout := A.nin
  eval := A.adj
  adj := A.eval

/-- `.T`.  `cplx = is_complex_dtype(self.input_dtype)`.
    complex branch: `eval_fn = self.adj(x.conj()).conj()`; its adjoint is `x ↦ self(x.conj()).conj()`
    (the corrected closure, fixes/linop-T-adj-complex.patch).  real branch: same closures as `.H`. -/
def tr [HasConj α] (cplx : Bool) (A : Op α) : Op α :=
  if cplx then
    { nin := A.nout, nout := A.nin
      eval := fun x => vconj (A.adj (vconj x))
      adj := fun y => vconj (A.eval (vconj y)) }
  else herm A

/-- `.T` exactly as the pinned tree builds it in the complex branch: `adj_fn = self.__call__`
    (kept to state the recorded defect `linop-T-adj-complex`; theorem `trPinned_not_adjoint`) -/
def trPinned [HasConj α] (A : Op α) : Op α where
  nin := A.nout
  nout := A.nin
  eval := fun x => vconj (A.adj (vconj x))
  adj := A.eval

/-- `.conj()`: `eval_fn = self(x.conj()).conj()`, `adj_fn = self.adj(x.conj()).conj()` -/
def cj [HasConj α] (A : Op α) : Op α where
  nin := A.nin
  nout := A.nout
  eval := fun x => vconj (A.eval (vconj x))
  adj := fun y => vconj (A.adj (vconj y))

/-- `.gram_op`: `eval_fn = adj_fn = self.gram = x ↦ self.adj(self(x))` -/
def gram (A : Op α) : Op α where
  nin := A.nin
  nout := A.nin
  eval := fun x => A.adj (A.eval x)
  adj := fun x => A.adj (A.eval x)

/-- empty vertical stack over an input space of size `n` -/
def vnil [Zero α] (n : Nat) : Op α where
  nin := n
  nout := 0
  eval := fun _ => vzero
  adj := fun _ => vzero

/-- `VerticalStack([A] ++ S)`: outputs concatenated; `_adj = sum(op.adj(y_block))` -/
def vcons [Add α] (A S : Op α) : Op α where
  nin := A.nin
  nout := A.nout + S.nout
  eval := fun x => vappend A.nout (A.eval x) (S.eval x)
  adj := fun y => vadd (A.adj y) (S.adj (vdrop A.nout y))

def dnil [Zero α] : Op α where
  nin := 0
  nout := 0
  eval := fun _ => vzero
  adj := fun _ => vzero

/-- `DiagonalStack([A] ++ S)`: blockwise; `_adj` blockwise `op.adj(y_n)` (repo commit 70afcf0) -/
def dcons (A S : Op α) : Op α where
  nin := A.nin + S.nin
  nout := A.nout + S.nout
  eval := fun x => vappend A.nout (A.eval x) (S.eval (vdrop A.nin x))
  adj := fun y => vappend A.nin (A.adj y) (S.adj (vdrop A.nout y))

/-- `DiagonalStack._adj` as the pinned tree had it: `op.T @ y_n` (complex branch of `.T` for complex blocks) -/
def dconsPinned [HasConj α] (cplx : Bool) (A S : Op α) : Op α where
  nin := A.nin + S.nin
  nout := A.nout + S.nout
  eval := fun x => vappend A.nout (A.eval x) (S.eval (vdrop A.nin x))
  adj := fun y => vappend A.nin ((tr cplx A).eval y) (S.adj (vdrop A.nout y))

/-- flat index of (replicate `r`, inner index `j`) when the replication axis is inserted so that `Q`
    entries follow it:  inner index `j = p*Q + q`  ↦  `(p*k + r)*Q + q` -/
def repIx (k Q r j : Nat) : Nat := ((j / Q) * k + r) * Q + j % Q
/-- inverse: flat index ↦ replicate number -/
def repR (k Q o : Nat) : Nat := (o / Q) % k
/-- inverse: flat index ↦ inner index -/
def repJ (k Q o : Nat) : Nat := (o / (Q * k)) * Q + o % Q

/-- replicate `r` of a replicated array -/
def slab (k Q r : Nat) (x : V α) : V α := fun j => x (repIx k Q r j)

/-- `DiagonalReplicated(op, k, input_axis, output_axis)`: `vmap(op, in_axes=input_axis, out_axes=output_axis)`;
    `Qi`/`Qo` = number of entries of `op`'s input/output behind the replication axis.
    adjoint: `vmap(op.adj, in_axes=output_axis, out_axes=input_axis)` (repo commit fa45c48). -/
def drep (k Qi Qo : Nat) (A : Op α) : Op α where
  nin := k * A.nin
  nout := k * A.nout
  eval := fun x o => A.eval (slab k Qi (repR k Qo o) x) (repJ k Qo o)
  adj := fun y i => A.adj (slab k Qo (repR k Qi i) y) (repJ k Qi i)

/-- the pinned tree mapped the adjoint with `in_axes=input_axis, out_axes=output_axis` -/
def drepPinned (k Qi Qo : Nat) (A : Op α) : Op α where
  nin := k * A.nin
  nout := k * A.nout
  eval := fun x o => A.eval (slab k Qi (repR k Qo o) x) (repJ k Qo o)
  adj := fun y i => A.adj (slab k Qi (repR k Qo i) y) (repJ k Qo i)

end Op

/-! ### Circular convolution (signal domain) -/

section circ
variable {α : Type} [Add α] [Mul α] [Zero α] [HasConj α]

/-- `(h ⊛ x)_i = Σ_{j<n} h_j x_{(i-j) mod n}` — what `ifft(fft(h,n)·fft(x))` computes; `h` already cut/zero-padded to `n` -/
def circConv (n : Nat) (h x : V α) : V α :=
  fun i => sumTo n (fun j => h j * x ((i + (n - j)) % n))

/-- `CircularConvolve._adj`: `ifft(conj(fft h)·fft(y))_i = Σ_j conj(h_j) y_{(i+j) mod n}` -/
def circCorr (n : Nat) (h y : V α) : V α :=
  fun i => sumTo n (fun j => conj (h j) * y ((i + j) % n))

def Op.circ (n : Nat) (h : V α) : Op α where
  nin := n
  nout := n
  eval := circConv n h
  adj := circCorr n h

/-- `k` filters (batch axis of `h`) applied to one signal: output `(k,n)`; `_adj` sums over the batch axis -/
def Op.circBatch (k n : Nat) (h : V α) : Op α where
  nin := n
  nout := k * n
  eval := fun x o => circConv n (vdrop ((o / n) * n) h) x (o % n)
  adj := fun y i => sumTo k (fun b => circCorr n (vdrop (b * n) h) (vdrop (b * n) y) i)

end circ

/-! ### closed-form classes (`_diag.py`, `_matrix.py`): the operators their overrides of `.T .H .conj() gram_op + - * / @` build -/

section closed
variable {α : Type}

/-- `Diagonal(d)` with `d.shape == input_shape` (also `ScaledIdentity`: constant `d`, `Identity`: `d = 1`):
    `_eval = d * x`; the adjoint is derived automatically (`conj(d) * y`) -/
def Op.diag [Mul α] [HasConj α] (n : Nat) (d : V α) : Op α where
  nin := n
  nout := n
  eval := fun x i => d i * x i
  adj := fun y i => conj (d i) * y i

/-- matrix product `A @ B` of an `m×k` and a `k×n` array (`MatrixOperator.__call__(MatrixOperator)`, `gram_op`) -/
def matMul [Add α] [Mul α] [Zero α] (k : Nat) (A B : Nat → Nat → α) : Nat → Nat → α :=
  fun i j => sumTo k (fun t => A i t * B t j)

end closed

/-! ### Circular convolution as coded (transform domain) -/

section spectral
variable {α : Type}

/-- `CircularConvolve._eval` / `_adj` AS CODED: `ifftn(h_dft * fftn(x))` and `ifftn(conj(h_dft) * fftn(y))`;
    `F` = matrix of `fftn` over the convolution axes, `G` = matrix of `ifftn`, `D = h_dft` (whatever it is: the
    transform of `h`, multiplied by the `h_center` phases, or given directly with `h_is_dft=True`) -/
def Op.spectral [Add α] [Mul α] [Zero α] [HasConj α] (n : Nat) (F G : Nat → Nat → α) (D : V α) : Op α where
  nin := n
  nout := n
  eval := fun x => mulVec n G (fun f => D f * mulVec n F x f)
  adj := fun y => mulVec n G (fun f => conj (D f) * mulVec n F y f)

/-- real input and real output (`self.real`): `hx.real` in `_eval`, `H_adj_x.real` in `_adj`; the arguments are real
    arrays (`re` = projection on the real subfield) -/
def Op.wrapRR (re : α → α) (A : Op α) : Op α where
  nin := A.nin
  nout := A.nout
  eval := fun x i => re (A.eval (fun j => re (x j)) i)
  adj := fun y j => re (A.adj (fun i => re (y i)) j)

/-- real input, complex output (complex filter on a real signal): `_adj` keeps the real part -/
def Op.wrapRC (re : α → α) (A : Op α) : Op α where
  nin := A.nin
  nout := A.nout
  eval := fun x => A.eval (fun j => re (x j))
  adj := fun y j => re (A.adj y j)

end spectral

/-! ### Scatter / gather (X-ray projectors) -/

section scatter
variable {α : Type} [Add α] [Mul α] [Zero α]

/-- `jnp.where(i >= 0, i, ny)` / `off(i)`: negative indices are sent off the detector.  Since e359064 this is applied to
    each bin index separately (`inds`, `inds + 1`; `i0 + da`, `i1 + db`), in the projector and in the back-projector alike. -/
def fixIdx (ny : Nat) (i : Int) : Nat := if 0 ≤ i then i.toNat else ny

/-- `zeros(ny).at[I].add(w * x)` with JAX's scatter semantics (out-of-bounds updates are dropped) -/
def scatterAddDrop (np ny : Nat) (I : Nat → Nat) (w : V α) (x : V α) : V α :=
  fun j => if j < ny then sumTo np (fun p => if I p = j then w p * x p else 0) else 0

/-- `y.at[I].get(mode="fill", fill_value=0) * w` as `back_project` computes it (repo e359064): out-of-bounds reads give 0 -/
def gatherFill0 (ny : Nat) (I : Nat → Nat) (w : V α) (y : V α) : V α :=
  fun p => if I p < ny then w p * y (I p) else 0

/-- gather at arbitrary (in-bounds) positions `J p` -/
def gatherAt (J : Nat → Nat) (w : V α) (y : V α) : V α := fun p => w p * y (J p)

/-- JAX's default gather semantics: out-of-bounds indices are clamped -/
def clampIdx (ny i : Nat) : Nat := if i < ny then i else ny - 1

/-- `y[I] * w` as `back_project` of the PINNED tree computed it (default gather mode: clamp) -/
def gatherClamp (ny : Nat) (I : Nat → Nat) (w : V α) (y : V α) : V α := gatherAt (fun p => clampIdx ny (I p)) w y

/-- one scatter term of the projector with the back-projector of the PINNED tree (recorded finding, fixed e359064) -/
def Op.scatClamp (np ny : Nat) (I : Nat → Nat) (w : V α) : Op α where
  nin := np
  nout := ny
  eval := scatterAddDrop np ny I w
  adj := gatherClamp ny I w

/-- one scatter term of the projector with the back-projector AS CODED (fill-0 gather) -/
def Op.scatFill (np ny : Nat) (I : Nat → Nat) (w : V α) : Op α where
  nin := np
  nout := ny
  eval := scatterAddDrop np ny I w
  adj := gatherFill0 ny I w

/-! #### slab loops of `XRayTransform3D._project` / `_back_project` (`MAX_SLICE_LEN`) -/

/-- `_project` for one view and one of the four scatter terms AS CODED: the volume is processed in slabs of `B` voxels
    (`MAX_SLICE_LEN` slices of `n₁·n₂` voxels); slab `k` is scattered with the indices / weights computed for it with
    `slice_offset = k·MAX_SLICE_LEN` (they are `I (k*B + p)`, `w (k*B + p)`), and the detector image is accumulated over
    the slabs -/
def slabScatter (B nslab np ny : Nat) (I : Nat → Nat) (w x : V α) : V α :=
  fun j => sumTo nslab (fun k =>
    scatterAddDrop (min B (np - k * B)) ny (fun p => I (k * B + p)) (fun p => w (k * B + p)) (fun p => x (k * B + p)) j)

/-- `_back_project`: slab `k` of the volume is gathered at the positions computed for slab `k` -/
def slabGather (B : Nat) (J : Nat → Nat) (w y : V α) : V α :=
  fun p => gatherAt (fun q => J ((p / B) * B + q)) (fun q => w ((p / B) * B + q)) y (p % B)

/-- the seeded change C01-m2: the slab offset is not forwarded to the index computation of the back-projector
    (every slab is gathered at the positions of the first one) -/
def slabGatherNoOffset (B : Nat) (J : Nat → Nat) (w y : V α) : V α :=
  fun p => gatherAt J (fun q => w ((p / B) * B + q)) y (p % B)

/-- `_back_project` as coded (fill-0 gather): slab `k` of the volume is gathered with the indices computed for slab `k` -/
def slabGatherFill (B ny : Nat) (I : Nat → Nat) (w y : V α) : V α :=
  fun p => gatherFill0 ny (fun q => I ((p / B) * B + q)) (fun q => w ((p / B) * B + q)) y (p % B)

/-- the seeded change C01-m2 on the coded back-projector: every slab is gathered with the indices of the first one -/
def slabGatherFillNoOffset (B ny : Nat) (I : Nat → Nat) (w y : V α) : V α :=
  fun p => gatherFill0 ny I (fun q => w ((p / B) * B + q)) y (p % B)

/-- one scatter term of the 3-D projector AS CODED: slab loops, drop scatter, fill-0 gather -/
def Op.scatSlabFill (B nslab np ny : Nat) (I : Nat → Nat) (w : V α) : Op α where
  nin := np
  nout := ny
  eval := slabScatter B nslab np ny I w
  adj := slabGatherFill B ny I w

/-- … with the back-projector of the seeded change C01-m2 -/
def Op.scatSlabFillNoOffset (B nslab np ny : Nat) (I : Nat → Nat) (w : V α) : Op α where
  nin := np
  nout := ny
  eval := slabScatter B nslab np ny I w
  adj := slabGatherFillNoOffset B ny I w

/-- one scatter term of the 3-D projector with the slab loops and the gather of the pinned tree (`J` = clamped gather
    positions) -/
def Op.scatSlab (B nslab np ny : Nat) (I J : Nat → Nat) (w : V α) : Op α where
  nin := np
  nout := ny
  eval := slabScatter B nslab np ny I w
  adj := slabGather B J w

/-- … with the back-projector of the seeded change C01-m2 -/
def Op.scatSlabNoOffset (B nslab np ny : Nat) (I J : Nat → Nat) (w : V α) : Op α where
  nin := np
  nout := ny
  eval := slabScatter B nslab np ny I w
  adj := slabGatherNoOffset B J w

/-- index-map operator `(A x) i = x (φ i)` (0 where `φ i` is out of range): `Slice`, `Crop`, `Transpose`, `Reshape`,
    `Pad` with zeros; the adjoint (derived by `jax.linear_transpose`) is the scatter-add along `φ` -/
def Op.imap [One α] (n m : Nat) (φ : Nat → Nat) : Op α where
  nin := n
  nout := m
  eval := gatherFill0 n φ (fun _ => 1)
  adj := scatterAddDrop m n φ (fun _ => 1)

/-- 2-D detector of shape `(d0,d1)`: flat index, `d0*d1` (off the detector) when either coordinate is out of range -/
def flat2 (d0 d1 a b : Nat) : Nat := if a < d0 ∧ b < d1 then a * d1 + b else d0 * d1
/-- per-axis clamping of a 2-D index as `y[a, b]` does -/
def clamp2 (d0 d1 a b : Nat) : Nat := clampIdx d0 a * d1 + clampIdx d1 b

end scatter

/-! ### `scico.linear_adjoint` -/

section linadj
variable {α : Type} [HasConj α]

/-- `conj_fun` of `_autograd.py` -/
def conjFun (f : V α → V α) : V α → V α := fun x => vconj (f (vconj x))

/-- `linear_adjoint(fun, primal)`.  `jt pc m n g` stands for `jax.linear_transpose(g, primal)` for a primal of
    size `n` (complex iff `pc`) and an output of size `m` (its contract: Proofs/AdjointLeaves `JaxTranspose`).
    The three branches: complex primal (C→R or C→C) / real primal with complex output / real. -/
def linearAdjoint (jt : Bool → Nat → Nat → (V α → V α) → (V α → V α)) (m n : Nat)
    (primalComplex outComplex : Bool) (f : V α → V α) : V α → V α :=
  if primalComplex then jt true m n (conjFun f)
  else if outComplex then jt false m n (conjFun f)
  else jt false m n f

end linadj

/-- `linop.jacobian(F, u)` (`_util.py`): `eval_fn = F.jvp(u, ·)[1]`, `adj_fn = F.vjp(u, conjugate=True)[1]`, where
    `Operator.vjp(conjugate=True)` wraps `jax.vjp`'s pull-back `G` as `v ↦ G(v.conj()).conj()` -/
def Op.jacobian [HasConj α] (m n : Nat) (jvp G : V α → V α) : Op α where
  nin := n
  nout := m
  eval := jvp
  adj := conjFun G

/-! ### Derivation trees -/

/-- how a derived operator was obtained from leaves (leaves are indices into an environment) -/
inductive Expr (α : Type) where
  | leaf (i : Nat)
  | add (a b : Expr α)
  | sub (a b : Expr α)
  | neg (a : Expr α)
  | smul (c : α) (a : Expr α)
  | sdiv (c : α) (a : Expr α)
  | comp (a b : Expr α)
  | tr (cplx : Bool) (a : Expr α)
  | herm (a : Expr α)
  | cj (a : Expr α)
  | gram (a : Expr α)
  | vnil (n : Nat)
  | vcons (a s : Expr α)
  | dnil
  | dcons (a s : Expr α)
  | drep (k Qi Qo : Nat) (a : Expr α)

section run
variable {α : Type} [Add α] [Sub α] [Mul α] [Div α] [Neg α] [Zero α] [One α] [HasConj α]

/-- the closures scico builds for a derivation tree -/
def run (env : Nat → Op α) : Expr α → Op α
  | .leaf i => env i
  | .add a b => Op.add (run env a) (run env b)
  | .sub a b => Op.sub (run env a) (run env b)
  | .neg a => Op.neg (run env a)
  | .smul c a => Op.smul c (run env a)
  | .sdiv c a => Op.sdiv c (run env a)
  | .comp a b => Op.comp (run env a) (run env b)
  | .tr cplx a => Op.tr cplx (run env a)
  | .herm a => Op.herm (run env a)
  | .cj a => Op.cj (run env a)
  | .gram a => Op.gram (run env a)
  | .vnil n => Op.vnil n
  | .vcons a s => Op.vcons (run env a) (run env s)
  | .dnil => Op.dnil
  | .dcons a s => Op.dcons (run env a) (run env s)
  | .drep k Qi Qo a => Op.drep k Qi Qo (run env a)

/-- the shape checks scico performs when the tree is built (`_wrap_add_sub`, `ComposedLinearOperator.__init__`,
    `check_if_stackable`, `DiagonalReplicated.__init__`) -/
def wf (env : Nat → Op α) : Expr α → Bool
  | .leaf _ => true
  | .add a b => wf env a && wf env b && (run env a).nin == (run env b).nin && (run env a).nout == (run env b).nout
  | .sub a b => wf env a && wf env b && (run env a).nin == (run env b).nin && (run env a).nout == (run env b).nout
  | .neg a => wf env a
  | .smul _ a => wf env a
  | .sdiv _ a => wf env a
  | .comp a b => wf env a && wf env b && (run env a).nin == (run env b).nout
  | .tr _ a => wf env a
  | .herm a => wf env a
  | .cj a => wf env a
  | .gram a => wf env a
  | .vnil _ => true
  | .vcons a s => wf env a && wf env s && (run env a).nin == (run env s).nin
  | .dnil => true
  | .dcons a s => wf env a && wf env s
  | .drep k Qi Qo a =>
      wf env a && decide (0 < Qi) && decide (0 < Qo) && (run env a).nin % Qi == 0 && (run env a).nout % Qo == 0
        && decide (0 < k)

end run

/-! ### complex numbers for execution -/

structure Cx (α : Type) where
  re : α
  im : α
deriving Repr, Inhabited

namespace Cx
variable {α : Type}
instance [Add α] : Add (Cx α) := ⟨fun a b => ⟨a.re + b.re, a.im + b.im⟩⟩
instance [Sub α] : Sub (Cx α) := ⟨fun a b => ⟨a.re - b.re, a.im - b.im⟩⟩
instance [Neg α] : Neg (Cx α) := ⟨fun a => ⟨-a.re, -a.im⟩⟩
instance [Add α] [Sub α] [Mul α] : Mul (Cx α) := ⟨fun a b => ⟨a.re * b.re - a.im * b.im, a.re * b.im + a.im * b.re⟩⟩
instance [Add α] [Sub α] [Mul α] [Div α] : Div (Cx α) :=
  ⟨fun a b =>
    let d := b.re * b.re + b.im * b.im
    ⟨(a.re * b.re + a.im * b.im) / d, (a.im * b.re - a.re * b.im) / d⟩⟩
instance [Zero α] : Zero (Cx α) := ⟨⟨0, 0⟩⟩
instance [Zero α] [One α] : One (Cx α) := ⟨⟨1, 0⟩⟩
instance [Neg α] : HasConj (Cx α) := ⟨fun a => ⟨a.re, -a.im⟩⟩
end Cx

end Scico.Adjoint
