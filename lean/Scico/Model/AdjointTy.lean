/-
  Adjoint engine (property C01), dtype / shape layer: executable model of the GUARDS scico evaluates when an
  adjoint is applied, and of the metadata every derived constructor DECLARES.          Mathlib-free.

  "applying the adjoint never fails for a conforming input" is a statement about
    * `LinearOperator.adj`   (`_linop.py`):  `if self.output_dtype != y.dtype: raise ValueError("Dtype error …")`,
                                             `if self.output_shape != y.shape: raise ValueError("Shapes do not conform …")`,
                                             then `self._adj(y)`;
    * `MatrixOperator.adj`   (`_matrix.py`): shape test only, then `A.conj().T @ y`;
    * `Operator.__call__`    (`_operator.py`): shape test only, then `self._eval(x)`;
    * the closures `eval_fn` / `adj_fn` the derived constructors build out of these METHODS (so every nested
      application runs the operand's guard again), and the `input_dtype/output_dtype/input_shape/output_shape`
      they pass to the constructor of the result.
  Values are irrelevant for this question: an array is represented by its type `Ty = (dtype, shape)`, a closure by
  its type transformer `Ty → Except TErr Ty`.

  Source map (scico/…):
    linop/_linop.py      LinearOperator.adj / Operator.__call__                     → TOp.adjC / TOp.call
                         __add__/__sub__ (`output_dtype=result_type(…)`)           → TOp.add   (same types for `-`)
                         __mul__/__rmul__/__truediv__ (`_to_output_space`)          → TOp.smul  (same types for `/`)
                         Operator.__neg__ (`-1.0 * self`)                           → TOp.smul .wreal
                         ComposedLinearOperator (shape and dtype test)              → TOp.comp, `compOK`
                         .H / .T (both branches) / .conj() / .gram_op               → TOp.herm / TOp.tr, TOp.trCoded / TOp.cj / TOp.gram
    operator/_stack.py   VerticalStack / DiagonalStack: check_if_stackable,
                         collapse_shapes;  linop/_stack.py `_adj`                   → TOp.vone/vcons/vfin, TOp.done/dcons/dfin
                         DiagonalReplicated (vmap in_axes/out_axes)                 → TOp.drep
    linop/_matrix.py     MatrixOperator.adj (no dtype test)                         → `guard := false` of a leaf
    jax.dtypes.result_type (x64 enabled, float/complex dtypes, weak Python scalars) → DT.promote, SK.res
-/

namespace Scico.Adjoint

/-- the four dtypes linear operators live on -/
inductive DT where
  | f32 | f64 | c64 | c128
deriving DecidableEq, Repr, Inhabited

namespace DT

def cplx : DT → Bool
  | c64 | c128 => true
  | _ => false

/-- 64-bit components -/
def wide : DT → Bool
  | f64 | c128 => true
  | _ => false

def mk (c w : Bool) : DT :=
  match c, w with
  | false, false => f32
  | false, true => f64
  | true, false => c64
  | true, true => c128

/-- `jax.dtypes.result_type(a, b)` for two array dtypes -/
def promote (a b : DT) : DT := mk (a.cplx || b.cplx) (a.wide || b.wide)

/-- dtype of `y.real` -/
def realPart (a : DT) : DT := mk false a.wide

end DT

/-- how a scalar factor is typed: Python `int`/`float` (weak), Python `complex` (weak), or a NumPy / JAX scalar of a
    definite dtype (`np.float64(2.0)`, `jnp.float32(2)`: strong) -/
inductive SK where
  | wreal
  | wcplx
  | strong (d : DT)
deriving DecidableEq, Repr, Inhabited

/-- `result_type(d, scalar)` = dtype of `scalar * array(d)` -/
def SK.res (d : DT) : SK → DT
  | .wreal => d
  | .wcplx => DT.mk true d.wide
  | .strong s => DT.promote d s

/-- array shape `(d₀, d₁, …)` or BlockArray shape `((…), (…), …)` (one level of nesting, as scico supports) -/
inductive Shp where
  | arr (d : List Nat)
  | blk (bs : List (List Nat))
  /-- a tuple of arrays of DIFFERENT dtypes that is not (yet) an array: `snp.stack` of it promotes, `BlockArray(...)` of it
      raises "Heterogeneous dtypes not supported"; never the declared shape of an operator, only an intermediate result of a
      stack's `_eval` / `_adj` -/
  | het (bs : List (List Nat))
deriving DecidableEq, Repr, Inhabited

/-- the type of an array / BlockArray (BlockArrays are dtype-homogeneous: `BlockArray.__init__` raises otherwise) -/
structure Ty where
  dt : DT
  sh : Shp
deriving DecidableEq, Repr, Inhabited

/-- how the real code rejects (the harness maps `ValueError("Dtype error…")` ↦ dtype, shape messages ↦ shape) -/
inductive TErr where
  | dtype
  | shape
  | other
deriving DecidableEq, Repr, Inhabited

abbrev R := Except TErr Ty

/-- `a + b`, `a - b` of two arrays of equal shape (broadcasting between different shapes is not modelled: it does
    not occur for operands that return their declared shapes) -/
def tadd (a b : Ty) : R :=
  if a.sh = b.sh then .ok ⟨DT.promote a.dt b.dt, a.sh⟩ else .error .shape

/-- sequencing of two fallible steps (`Except.bind`, written out so that proofs unfold one definition) -/
def andThen (r : R) (f : Ty → R) : R :=
  match r with
  | .ok v => f v
  | .error e => .error e

/-- An operator as far as types are concerned: what it declares and the type transformers of its two closures.
    `guard = true`: `adj` is `LinearOperator.adj` (dtype and shape test); `false`: `MatrixOperator.adj` (shape only). -/
structure TOp where
  ish : Shp
  osh : Shp
  idt : DT
  odt : DT
  guard : Bool
  evalT : Ty → R
  adjT : Ty → R

namespace TOp

/-- a closure that ends in `BlockArray(...)` raises for blocks of different dtypes (`ValueError("Heterogeneous dtypes …")`,
    which the harness classifies by its message as a dtype error) -/
def sealBlk (r : R) : R :=
  match r with
  | .ok ⟨_, .het _⟩ => .error .dtype
  | r => r

/-- `Operator.__call__` on an array: shape test, then `_eval` -/
def call (A : TOp) (x : Ty) : R :=
  if x.sh = A.ish then sealBlk (A.evalT x) else .error .shape

/-- `LinearOperator.adj` / `MatrixOperator.adj` on an array: the guards (dtype first), then `_adj` -/
def adjC (A : TOp) (y : Ty) : R :=
  if A.guard && decide (y.dt ≠ A.odt) then .error .dtype
  else if y.sh = A.osh then sealBlk (A.adjT y) else .error .shape

/-- `LinearOperator.__add__` / `__sub__`: metadata of `self`, `output_dtype = result_type(self.output_dtype,
    other.output_dtype)`, closures `self(x) ± other(x)` and `self.adj(x) ± other.adj(x)` (the METHODS: guards run) -/
def add (A B : TOp) : TOp where
  ish := A.ish
  osh := A.osh
  idt := A.idt
  odt := DT.promote A.odt B.odt
  guard := true
  evalT := fun x => andThen (A.call x) fun a => andThen (B.call x) fun b => tadd a b
  adjT := fun y => andThen (A.adjC y) fun a => andThen (B.adjC y) fun b => tadd a b

/-- `__mul__` / `__rmul__` / `__truediv__`: `output_dtype = result_type(self.output_dtype, other)`;
    `eval_fn = other * self(x)`; `adj_fn = self.adj(self._to_output_space(conj(other) * x))` where
    `_to_output_space` takes the real part if needed and casts to `self.output_dtype` -/
def smul (k : SK) (A : TOp) : TOp where
  ish := A.ish
  osh := A.osh
  idt := A.idt
  odt := k.res A.odt
  guard := true
  evalT := fun x => andThen (A.call x) fun a => .ok ⟨k.res a.dt, a.sh⟩
  adjT := fun y => A.adjC ⟨A.odt, y.sh⟩

/-- `ComposedLinearOperator(A, B)`: `eval_fn = A(B(x))`, `adj_fn = B.adj(A.adj(z))` -/
def comp (A B : TOp) : TOp where
  ish := B.ish
  osh := A.osh
  idt := B.idt
  odt := A.odt
  guard := true
  evalT := fun x => andThen (B.call x) A.call
  adjT := fun z => andThen (A.adjC z) B.adjC

/-- `.H`: shapes and dtypes swapped, `eval_fn = self.adj`, `adj_fn = self.__call__` -/
def herm (A : TOp) : TOp where
  ish := A.osh
  osh := A.ish
  idt := A.odt
  odt := A.idt
  guard := true
  evalT := A.adjC
  adjT := A.call

/-- `.T` AS CODED.  Complex input dtype: shapes swapped but `input_dtype=self.input_dtype,
    output_dtype=self.output_dtype` (NOT swapped), `eval_fn = self.adj(x.conj()).conj()`,
    `adj_fn = self(x.conj()).conj()`; real input dtype: the same object as `.H`.
    (recorded finding `linop-T-complex-dtypes`: wrong as soon as the two dtypes differ) -/
def trCoded (A : TOp) : TOp :=
  if A.idt.cplx then
    { ish := A.osh, osh := A.ish, idt := A.idt, odt := A.odt, guard := true, evalT := A.adjC, adjT := A.call }
  else herm A

/-- `.T` with the dtypes swapped in both branches (fixes/linop-T-complex-dtypes.patch): types as `.H` -/
def tr (A : TOp) : TOp := herm A

/-- `.conj()`: metadata of `self`; conjugation changes neither dtype nor shape -/
def cj (A : TOp) : TOp where
  ish := A.ish
  osh := A.osh
  idt := A.idt
  odt := A.odt
  guard := true
  evalT := A.call
  adjT := A.adjC

/-- `.gram_op`: `eval_fn = adj_fn = self.gram = x ↦ self.adj(self(x))`, both spaces = input space of `self` -/
def gram (A : TOp) : TOp where
  ish := A.ish
  osh := A.ish
  idt := A.idt
  odt := A.idt
  guard := true
  evalT := fun x => andThen (A.call x) A.adjC
  adjT := fun x => andThen (A.call x) A.adjC

/-! ### stacks

A stack is written as a chain `vcons A₁ (vcons A₂ (… (vone Aₙ)))`; the chain itself is the stack with
`collapse_output=False` (BlockArray output), `vfin` of a chain is the stack with `collapse_output=True`
(the blocks are stacked along a new leading axis when all block shapes coincide).  Likewise `done/dcons/dfin`. -/

def dimsOf : Shp → List Nat
  | .arr d => d
  | _ => []

def blocksOf : Shp → List (List Nat)
  | .arr _ => []
  | .blk bs => bs
  | .het bs => bs

def isHet : Shp → Bool
  | .het _ => true
  | _ => false

def isArr : Shp → Bool
  | .arr _ => true
  | _ => false

/-- the tuple `(a, *s)` of block results before it is packed: homogeneous dtypes → as a BlockArray type, otherwise the
    `het` intermediate (promoted dtype) that `snp.stack` accepts and `BlockArray` rejects (`sealBlk`) -/
def consBlk (a s : Ty) : R :=
  match a.sh, s.sh with
  | .arr d, .blk bs => if a.dt = s.dt then .ok ⟨a.dt, .blk (d :: bs)⟩ else .ok ⟨DT.promote a.dt s.dt, .het (d :: bs)⟩
  | .arr d, .het bs => .ok ⟨DT.promote a.dt s.dt, .het (d :: bs)⟩
  | _, _ => .error .other

/-- `BlockArray([a])` -/
def oneBlk (a : Ty) : R :=
  match a.sh with
  | .arr d => .ok ⟨a.dt, .blk [d]⟩
  | _ => .error .other

/-- `VerticalStack([A], collapse_output=False)`; `_adj = sum([A.adj(y[0])])` -/
def vone (A : TOp) : TOp where
  ish := A.ish
  osh := .blk [dimsOf A.osh]
  idt := A.idt
  odt := A.odt
  guard := true
  evalT := fun x => andThen (A.call x) oneBlk
  adjT := fun y =>
    match y.sh with
    | .blk (d :: _) => A.adjC ⟨y.dt, .arr d⟩
    | _ => .error .shape

/-- `VerticalStack([A] ++ ops(S), collapse_output=False)`: metadata of the first operand;
    `_eval = BlockArray([op(x) for op in ops])`, `_adj = sum(op.adj(y_block))` -/
def vcons (A S : TOp) : TOp where
  ish := A.ish
  osh := .blk (dimsOf A.osh :: blocksOf S.osh)
  idt := A.idt
  odt := A.odt
  guard := true
  evalT := fun x => andThen (A.call x) fun a => andThen (if x.sh = S.ish then S.evalT x else .error .shape) fun s => consBlk a s
  adjT := fun y =>
    match y.sh with
    | .blk (d :: bs) => andThen (A.adjC ⟨y.dt, .arr d⟩) fun a => andThen (S.adjT ⟨y.dt, .blk bs⟩) fun s => tadd a s
    | _ => .error .shape

/-- `is_collapsible`: all block shapes equal -/
def collapsible : List (List Nat) → Bool
  | [] => false
  | d :: rest => rest.all (· == d)

/-- the collapsed shape `(N, *S)`; `snp.stack` also accepts blocks of different dtypes (it promotes) -/
def collapseShp : Shp → Shp
  | .blk (d :: rest) => if collapsible (d :: rest) then .arr ((rest.length + 1) :: d) else .blk (d :: rest)
  | .het (d :: rest) => if collapsible (d :: rest) then .arr ((rest.length + 1) :: d) else .het (d :: rest)
  | s => s

/-- the same with the flag `collapse_…` -/
def collapseIf (c : Bool) (s : Shp) : Shp := if c then collapseShp s else s

/-- `VerticalStack(ops(S), collapse_output=True)` -/
def vfin (S : TOp) : TOp where
  ish := S.ish
  osh := collapseShp S.osh
  idt := S.idt
  odt := S.odt
  guard := true
  evalT := fun x => andThen (S.evalT x) fun r => .ok ⟨r.dt, collapseShp r.sh⟩
  adjT := fun y => S.adjT ⟨y.dt, S.osh⟩

/-- `DiagonalStack([A], collapse_input=False, collapse_output=False)` -/
def done (A : TOp) : TOp where
  ish := .blk [dimsOf A.ish]
  osh := .blk [dimsOf A.osh]
  idt := A.idt
  odt := A.odt
  guard := true
  evalT := fun x =>
    match x.sh with
    | .blk (d :: _) => andThen (A.call ⟨x.dt, .arr d⟩) oneBlk
    | _ => .error .shape
  adjT := fun y =>
    match y.sh with
    | .blk (d :: _) => andThen (A.adjC ⟨y.dt, .arr d⟩) oneBlk
    | _ => .error .shape

/-- `DiagonalStack([A] ++ ops(S), False, False)`: `_eval` / `_adj` blockwise `op(x_n)` / `op.adj(y_n)` -/
def dcons (A S : TOp) : TOp where
  ish := .blk (dimsOf A.ish :: blocksOf S.ish)
  osh := .blk (dimsOf A.osh :: blocksOf S.osh)
  idt := A.idt
  odt := A.odt
  guard := true
  evalT := fun x =>
    match x.sh with
    | .blk (d :: bs) => andThen (A.call ⟨x.dt, .arr d⟩) fun a => andThen (S.evalT ⟨x.dt, .blk bs⟩) fun s => consBlk a s
    | _ => .error .shape
  adjT := fun y =>
    match y.sh with
    | .blk (d :: bs) => andThen (A.adjC ⟨y.dt, .arr d⟩) fun a => andThen (S.adjT ⟨y.dt, .blk bs⟩) fun s => consBlk a s
    | _ => .error .shape

/-- `DiagonalStack(ops(S), collapse_input=ci, collapse_output=co)` -/
def dfin (ci co : Bool) (S : TOp) : TOp where
  ish := collapseIf ci S.ish
  osh := collapseIf co S.osh
  idt := S.idt
  odt := S.odt
  guard := true
  evalT := fun x => andThen (S.evalT ⟨x.dt, S.ish⟩) fun r => .ok ⟨r.dt, collapseIf co r.sh⟩
  adjT := fun y => andThen (S.adjT ⟨y.dt, S.osh⟩) fun r => .ok ⟨r.dt, collapseIf ci r.sh⟩

/-- `shape[:ax] + (k,) + shape[ax:]` -/
def insAx (k ax : Nat) (d : List Nat) : List Nat := d.take ax ++ k :: d.drop ax

/-- `DiagonalReplicated(A, k, input_axis=ia, output_axis=oa)`: `vmap(A.__call__, in_axes=ia, out_axes=oa)`,
    `_adj = vmap(A.adj, in_axes=oa, out_axes=ia)`; each replicate runs the operand's guards -/
def drep (k ia oa : Nat) (A : TOp) : TOp where
  ish := .arr (insAx k ia (dimsOf A.ish))
  osh := .arr (insAx k oa (dimsOf A.osh))
  idt := A.idt
  odt := A.odt
  guard := true
  evalT := fun x => andThen (A.call ⟨x.dt, A.ish⟩) fun r => .ok ⟨r.dt, .arr (insAx k oa (dimsOf r.sh))⟩
  adjT := fun y => andThen (A.adjC ⟨y.dt, A.osh⟩) fun r => .ok ⟨r.dt, .arr (insAx k ia (dimsOf r.sh))⟩

end TOp

/-! ### typed derivation trees -/

/-- how a derived operator was obtained (leaves index an environment) — the typed counterpart of `Expr`:
    scalar factors by their typing, `.T` without a flag (the branch is decided by the operand's declared dtype),
    replication by its axes, stacks with their collapse flags -/
inductive TExpr where
  | leaf (i : Nat)
  | add (a b : TExpr)
  | sub (a b : TExpr)
  | neg (a : TExpr)
  | smul (k : SK) (a : TExpr)
  | sdiv (k : SK) (a : TExpr)
  | comp (a b : TExpr)
  | tr (a : TExpr)
  | herm (a : TExpr)
  | cj (a : TExpr)
  | gram (a : TExpr)
  | vone (a : TExpr)
  | vcons (a s : TExpr)
  | vfin (s : TExpr)
  | done (a : TExpr)
  | dcons (a s : TExpr)
  | dfin (ci co : Bool) (s : TExpr)
  | drep (k ia oa : Nat) (a : TExpr)
deriving Repr, Inhabited

/-- metadata and type transformers scico builds for a derivation tree.  `coded = true`: `.T` as the code has it
    (`TOp.trCoded`); `false`: with the repaired dtypes. -/
def runT (coded : Bool) (env : Nat → TOp) : TExpr → TOp
  | .leaf i => env i
  | .add a b => TOp.add (runT coded env a) (runT coded env b)
  | .sub a b => TOp.add (runT coded env a) (runT coded env b)
  | .neg a => TOp.smul .wreal (runT coded env a)
  | .smul k a => TOp.smul k (runT coded env a)
  | .sdiv k a => TOp.smul k (runT coded env a)
  | .comp a b => TOp.comp (runT coded env a) (runT coded env b)
  | .tr a => if coded then TOp.trCoded (runT coded env a) else TOp.tr (runT coded env a)
  | .herm a => TOp.herm (runT coded env a)
  | .cj a => TOp.cj (runT coded env a)
  | .gram a => TOp.gram (runT coded env a)
  | .vone a => TOp.vone (runT coded env a)
  | .vcons a s => TOp.vcons (runT coded env a) (runT coded env s)
  | .vfin s => TOp.vfin (runT coded env s)
  | .done a => TOp.done (runT coded env a)
  | .dcons a s => TOp.dcons (runT coded env a) (runT coded env s)
  | .dfin ci co s => TOp.dfin ci co (runT coded env s)
  | .drep k ia oa a => TOp.drep k ia oa (runT coded env a)

def TExpr.isVChain : TExpr → Bool
  | .vone _ => true
  | .vcons _ _ => true
  | _ => false

def TExpr.isDChain : TExpr → Bool
  | .done _ => true
  | .dcons _ _ => true
  | _ => false

/-- the tests scico performs when the tree is built: `_wrap_add_sub` (shapes only — no dtype test),
    `ComposedLinearOperator.__init__` (shape and dtype), `check_if_stackable` (input shapes and dtypes equal, outputs
    not nested, output dtypes equal [the test as intended: fixes/stack-dtype-check.patch; DiagonalStack: also the
    input dtypes]), `collapse_shapes` (no twice-nested BlockArray), `DiagonalReplicated.__init__` (no BlockArray
    operand, axis in range) -/
def wfT (coded : Bool) (env : Nat → TOp) : TExpr → Bool
  | .leaf _ => true
  | .add a b | .sub a b =>
      wfT coded env a && wfT coded env b
        && decide ((runT coded env a).ish = (runT coded env b).ish) && decide ((runT coded env a).osh = (runT coded env b).osh)
  | .neg a | .smul _ a | .sdiv _ a | .tr a | .herm a | .cj a | .gram a => wfT coded env a
  | .comp a b =>
      wfT coded env a && wfT coded env b
        && decide ((runT coded env a).ish = (runT coded env b).osh) && decide ((runT coded env a).idt = (runT coded env b).odt)
  | .vone a => wfT coded env a && TOp.isArr (runT coded env a).osh
  | .vcons a s =>
      wfT coded env a && wfT coded env s && s.isVChain && TOp.isArr (runT coded env a).osh
        && decide ((runT coded env a).ish = (runT coded env s).ish) && decide ((runT coded env a).idt = (runT coded env s).idt)
        && decide ((runT coded env a).odt = (runT coded env s).odt)
  | .vfin s => wfT coded env s && s.isVChain
  | .done a => wfT coded env a && TOp.isArr (runT coded env a).ish && TOp.isArr (runT coded env a).osh
  | .dcons a s =>
      wfT coded env a && wfT coded env s && s.isDChain && TOp.isArr (runT coded env a).ish && TOp.isArr (runT coded env a).osh
        && decide ((runT coded env a).idt = (runT coded env s).idt) && decide ((runT coded env a).odt = (runT coded env s).odt)
  | .dfin _ _ s => wfT coded env s && s.isDChain
  | .drep k ia oa a =>
      wfT coded env a && TOp.isArr (runT coded env a).ish && TOp.isArr (runT coded env a).osh
        && decide (ia ≤ (TOp.dimsOf (runT coded env a).ish).length) && decide (oa ≤ (TOp.dimsOf (runT coded env a).osh).length)
        && decide (0 < k)

/-- THE EXCLUDED CASE (recorded finding `mixed-operand-dtypes`): every `+` / `-` node combines operands that declare
    the same input dtype and the same output dtype; with `coded = true` additionally (finding
    `linop-T-complex-dtypes`) every `.T` of an operand with complex input dtype has equal input and output dtype -/
def homog (coded : Bool) (env : Nat → TOp) : TExpr → Bool
  | .leaf _ => true
  | .add a b | .sub a b =>
      homog coded env a && homog coded env b
        && decide ((runT coded env a).idt = (runT coded env b).idt) && decide ((runT coded env a).odt = (runT coded env b).odt)
  | .tr a =>
      homog coded env a
        && (!coded || !(runT coded env a).idt.cplx || decide ((runT coded env a).idt = (runT coded env a).odt))
  | .neg a | .smul _ a | .sdiv _ a | .herm a | .cj a | .gram a | .vone a | .vfin a | .done a | .dfin _ _ a
  | .drep _ _ _ a => homog coded env a
  | .comp a b | .vcons a b | .dcons a b => homog coded env a && homog coded env b

/-- a leaf as scico's own classes are: on an array of the declared input type `_eval` returns the declared output
    type, and on an array of the declared output type `_adj` returns the declared input type -/
structure Faithful (A : TOp) : Prop where
  eval_ok : A.evalT ⟨A.idt, A.ish⟩ = .ok ⟨A.odt, A.osh⟩
  adj_ok : A.adjT ⟨A.odt, A.osh⟩ = .ok ⟨A.idt, A.ish⟩
  /-- the declared shapes are array or BlockArray shapes (never the `het` intermediate) -/
  ish_nh : TOp.isHet A.ish = false
  osh_nh : TOp.isHet A.osh = false

/-- type transformer of a leaf measured on the real code: a finite table (anything else: shape error) -/
def tableFn (tab : List (Ty × R)) (x : Ty) : R :=
  match tab.find? (fun p => p.1 == x) with
  | some p => p.2
  | none => .error .shape

end Scico.Adjoint
